/-
  Model of what keeps two runs of one DAG file apart: an exclusive lock on the DAG file (flock,
  non-blocking) around the start-up, and the unix socket whose path is derived from the DAG file
  path (internal/dag/dag.go: SockAddr).

  Transcribed from (tree with the fixes 5f302ab "lock on the DAG file" and 8270caf "no second
  removal of the socket path"):
    internal/agent/agent.go   Run / setup / checkPreconditions / dryRun / lock / checkIsAlreadyRunning /
                              setupDatabase / setupSocketServer / deferred unlock + Shutdown
    internal/sock/server.go   Serve (os.Remove, net.Listen = socket+bind+listen, accept loop,
                              deferred Shutdown), Shutdown (listener.Close — Go's
                              UnixListener.Close also unlinks the PATH, whoever's file is there)
    internal/sock/client.go   Request (connect: ENOENT / ECONNREFUSED ⇒ error ⇒ "not running")
    internal/client/client.go GetCurrentStatus (any non-timeout error ⇒ default status `none`)

  Call order of Agent.Run for a non-dry agent (one Lean action per line, = one or a few system calls):
    setup ok?            graph construction (cycle / unknown dependency ⇒ error, nothing touched)
    precond ok?          DAG-level preconditions
    (dry ⇒ dryRun: simulated schedule, nothing executed, no history, no socket, no lock)
    lock                 os.Open(dag file) + flock(LOCK_EX|LOCK_NB): held by somebody ⇒ refuse
                         ("the DAG is already running") with nothing done; if the file CANNOT BE OPENED
                         the lock is skipped (best effort) — per-agent parameter `canOpen`
    probe                connect(sock): answered ⇒ refuse (the deferred lock.Close releases the lock)
    histRemoveOld        history: remove files older than the retention
    histOpen             history: create this run's file
    histWrite            history: first status record
    unlink               os.Remove(sockpath)           ← removes whatever socket file is there
    bind                 bind(sockpath)  (EADDRINUSE if the path exists ⇒ Run fails AFTER the history ops)
    listen               listen(fd)      (a connect between bind and listen is refused by the kernel)
    execStep …           steps (each: command started, status record appended)
    handler …            lifecycle handlers
    finalWrite           final status record
    unlock               the lock is released JUST BEFORE the socket is shut down (same deferred function)
    shutClose            listener.Close()  (closes + unlinks the PATH)
    histClose            history compaction + close, then the process exits
  bind failure:  unlock (deferred), histClose, Run returns errFailedSetupUnixSocket.
  `kill` = SIGKILL at any point: the socket file stays behind as a stale entry; the kernel releases
  the dead process's lock.

  Granularity of `shutClose`: sock.Server.Shutdown first sets `quit`, then closes the listener
  (unlink, then close of the descriptor).  A probe that connects in between is accepted by the
  kernel but never answered; it completes — as "not running" — when the descriptor is closed.
  The model makes this one action and a probe's verdict is taken at the moment the probe
  COMPLETES (the harness places it there); by then every step and handler of the closing run
  has finished and its final status is written.
  A probe that is answered releases the lock in the same action (the process returns at once).
  Core-only.
-/
namespace BdModel.Lock

/-- state of one path in the socket namespace -/
inductive Sock where
  | absent
  | stale                                  -- file present, nobody will ever accept on it
  | bound (a : Nat) (listening : Bool)     -- file created by agent `a`'s bind; `listening` after listen()
deriving DecidableEq, Repr

inductive Pc where
  | setup | precond | dryRun | lock | probe | removeOld | histOpen | firstWrite
  | unlink | bind | listen | steps | handlers | finalWrite
  | unlock | shutClose | histClose | done
  | refused        -- lock held by somebody, or probe answered: "the DAG is already running"
  | failed         -- setup / precondition error (before anything was touched)
  | failUnlock     -- bind failed: the deferred unlock (+ Shutdown of a server that never listened)
  | failClose      -- … the deferred history Close
  | bindFailed     -- … then Run returns errFailedSetupUnixSocket
  | dead           -- killed
deriving DecidableEq, Repr

inductive Act where
  | setup (ok : Bool) | precond (ok : Bool) | dryRun
  | lock | probe | histRemoveOld | histOpen | histWrite
  | unlink | bind | listen
  | execStep | handler | finalWrite
  | unlock | shutClose | histClose
  | kill
deriving DecidableEq, Repr

/-- what is given per agent: which DAG file, dry?, how many steps / handlers its schedule will run,
    and whether `os.Open` of the DAG file succeeds when the agent takes the lock -/
structure Cfg where
  dag : Nat
  dry : Bool := false
  steps : Nat := 1
  hands : Nat := 0
  canOpen : Bool := true
  /-- the socket name: derived from how the path of the DAG file is SPELLED (md5 of the absolute,
      not symlink-resolved location), whereas the lock is taken on the file itself (its inode = `dag`).
      The same file reached through a symlinked directory, a symlink or a hard link has the same `dag`
      and another `sock`. -/
  sock : Nat := dag
deriving DecidableEq, Repr

structure Agent where
  dag : Nat
  dry : Bool
  steps : Nat          -- steps still to execute
  hands : Nat          -- handlers still to execute
  canOpen : Bool
  sock : Nat           -- socket name (key into the socket name space); the lock is keyed by `dag`
  pc : Pc
  execs : Nat := 0     -- ghost: step commands started
  hexecs : Nat := 0    -- ghost: handler commands started
  hist : Nat := 0      -- ghost: history operations (removeOld / open / write / close)
  recs : Nat := 0      -- ghost: status records written
  unlinks : Nat := 0   -- ghost: unlink calls on the socket path (incl. the one inside listener.Close)
  binds : Nat := 0     -- ghost: bind calls
deriving DecidableEq, Repr

structure World where
  agents : Nat → Agent
  ns : Nat → Sock            -- socket name ↦ state of that path
  lk : Nat → Option Nat      -- DAG file (inode) ↦ holder of the exclusive lock on it

def idle : Agent := { dag := 0, dry := false, steps := 0, hands := 0, canOpen := true, sock := 0, pc := .done }

def fresh (c : Cfg) : Agent :=
  { dag := c.dag, dry := c.dry, steps := c.steps, hands := c.hands, canOpen := c.canOpen, sock := c.sock, pc := .setup }

def init (cfgs : List Cfg) : World :=
  { agents := fun a => match cfgs[a]? with | some c => fresh c | none => idle
    ns := fun _ => .absent
    lk := fun _ => none }

def setAgent (w : World) (a : Nat) (ag : Agent) : World :=
  { w with agents := fun b => if b = a then ag else w.agents b }

def setNs (w : World) (d : Nat) (s : Sock) : World :=
  { w with ns := fun e => if e = d then s else w.ns e }

def setLk (w : World) (d : Nat) (h : Option Nat) : World :=
  { w with lk := fun e => if e = d then h else w.lk e }

/-- agent `a` lets go of the lock of DAG file `d` (close of its descriptor, or its death) -/
def release (w : World) (d a : Nat) : World :=
  if w.lk d = some a then setLk w d none else w

/-- can agent `a` still be killed (is it a live process)? -/
def alive : Pc → Bool
  | .done | .refused | .failed | .bindFailed | .dead => false
  | _ => true

/-- where the schedule goes after the socket is up / after a step / after a handler -/
def afterListen (ag : Agent) : Pc :=
  if ag.steps = 0 then (if ag.hands = 0 then .finalWrite else .handlers) else .steps

/-- bookkeeping of one executed step / handler (command started, status record appended) -/
def didStep (ag : Agent) : Agent :=
  { ag with steps := ag.steps - 1, execs := ag.execs + 1, hist := ag.hist + 1, recs := ag.recs + 1 }
def didHandler (ag : Agent) : Agent :=
  { ag with hands := ag.hands - 1, hexecs := ag.hexecs + 1, hist := ag.hist + 1, recs := ag.recs + 1 }

/-- one action of agent `a` whose record is `ag`; `none` = not enabled at its program counter -/
def stepAg (w : World) (a : Nat) (ag : Agent) (act : Act) : Option World :=
  match ag.pc, act with
  | .setup, .setup ok => some (setAgent w a { ag with pc := if ok then .precond else .failed })
  | .precond, .precond ok =>
      some (setAgent w a { ag with pc := if ok then (if ag.dry then .dryRun else .lock) else .failed })
  | .dryRun, .dryRun => some (setAgent w a { ag with pc := .done })
  | .lock, .lock =>
      if ag.canOpen then
        match w.lk ag.dag with
        | none => some (setLk (setAgent w a { ag with pc := .probe }) ag.dag (some a))
        | some _ => some (setAgent w a { ag with pc := .refused })       -- flock: EWOULDBLOCK
      else some (setAgent w a { ag with pc := .probe })                  -- os.Open failed: no lock at all
  | .probe, .probe =>
      match w.ns ag.sock with
      | .bound _ true => some (release (setAgent w a { ag with pc := .refused }) ag.dag a)
      | _ => some (setAgent w a { ag with pc := .removeOld })
  | .removeOld, .histRemoveOld => some (setAgent w a { ag with pc := .histOpen, hist := ag.hist + 1 })
  | .histOpen, .histOpen => some (setAgent w a { ag with pc := .firstWrite, hist := ag.hist + 1 })
  | .firstWrite, .histWrite =>
      some (setAgent w a { ag with pc := .unlink, hist := ag.hist + 1, recs := ag.recs + 1 })
  | .unlink, .unlink =>
      some (setNs (setAgent w a { ag with pc := .bind, unlinks := ag.unlinks + 1 }) ag.sock .absent)
  | .bind, .bind =>
      match w.ns ag.sock with
      | .absent =>
          some (setNs (setAgent w a { ag with pc := .listen, binds := ag.binds + 1 }) ag.sock (.bound a false))
      | _ => some (setAgent w a { ag with pc := .failUnlock, binds := ag.binds + 1 })
  | .listen, .listen =>
      -- listen(2) acts on the descriptor: it succeeds even if the file was unlinked meanwhile
      match w.ns ag.sock with
      | .bound b false =>
          if b = a then some (setNs (setAgent w a { ag with pc := afterListen ag }) ag.sock (.bound a true))
          else some (setAgent w a { ag with pc := afterListen ag })
      | _ => some (setAgent w a { ag with pc := afterListen ag })
  | .steps, .execStep => some (setAgent w a { didStep ag with pc := afterListen (didStep ag) })
  | .handlers, .handler =>
      some (setAgent w a { didHandler ag with pc := if (didHandler ag).hands = 0 then .finalWrite else .handlers })
  | .finalWrite, .finalWrite =>
      some (setAgent w a { ag with pc := .unlock, hist := ag.hist + 1, recs := ag.recs + 1 })
  | .unlock, .unlock => some (release (setAgent w a { ag with pc := .shutClose }) ag.dag a)
  | .shutClose, .shutClose =>
      -- UnixListener.Close unlinks the path it was bound to — whichever file is there now
      some (setNs (setAgent w a { ag with pc := .histClose, unlinks := ag.unlinks + 1 }) ag.sock .absent)
  | .histClose, .histClose => some (setAgent w a { ag with pc := .done, hist := ag.hist + 1 })
  | .failUnlock, .unlock => some (release (setAgent w a { ag with pc := .failClose }) ag.dag a)
  | .failClose, .histClose => some (setAgent w a { ag with pc := .bindFailed, hist := ag.hist + 1 })
  | pc, .kill =>
      if alive pc then
        match w.ns ag.sock with
        | .bound b _ =>
            if b = a then some (release (setNs (setAgent w a { ag with pc := .dead }) ag.sock .stale) ag.dag a)
            else some (release (setAgent w a { ag with pc := .dead }) ag.dag a)
        | _ => some (release (setAgent w a { ag with pc := .dead }) ag.dag a)
      else none
  | _, _ => none

/-- global interleaving semantics: one action of agent `a` -/
def step (w : World) (a : Nat) (act : Act) : Option World := stepAg w a (w.agents a) act

/-- an interleaving: list of (agent, action) -/
def run (w : World) : List (Nat × Act) → Option World
  | [] => some w
  | (a, act) :: tr => match step w a act with
    | none => none
    | some w' => run w' tr

/-- reachable from the initial world of some agent configuration by some interleaving -/
def Reach (w : World) : Prop := ∃ cfgs tr, run (init cfgs) tr = some w

/-- the agent has started commands and has not yet closed its endpoint -/
def midRun (ag : Agent) : Bool :=
  (0 < ag.execs) && (ag.pc == .steps || ag.pc == .handlers || ag.pc == .finalWrite || ag.pc == .unlock || ag.pc == .shutClose)

/-- nothing of the world was touched by this agent -/
def Pristine (ag : Agent) : Prop :=
  ag.execs = 0 ∧ ag.hexecs = 0 ∧ ag.hist = 0 ∧ ag.recs = 0 ∧ ag.unlinks = 0 ∧ ag.binds = 0

/-- program counters up to and including the verdict of the lock / the probe -/
def early : Pc → Bool
  | .setup | .precond | .dryRun | .lock | .probe | .refused | .failed => true
  | _ => false

/-! ### canonical action sequences (used by the driver and by the witnesses) -/

def upToProbe : List Act := [.setup true, .precond true, .lock, .probe]
def histOps : List Act := [.histRemoveOld, .histOpen, .histWrite]
def by_ (a : Nat) (l : List Act) : List (Nat × Act) := l.map (fun x => (a, x))

/-- a summary of one agent for the driver / witnesses -/
def verdict (ag : Agent) : Pc × Nat × Nat × Nat × Nat :=
  (ag.pc, ag.execs, ag.hexecs, ag.recs, ag.unlinks)

end BdModel.Lock
