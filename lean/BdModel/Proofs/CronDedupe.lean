import BdModel.Proofs.Cron
/-
  Helper lemmas for C09 about the per-tick de-duplication of `run` (/repo 922dee6): the calls issued are,
  as a SET, those of the loop without de-duplication, each at most once, and still DAG by DAG independent.
-/
namespace BdModel.Cron

/-- key of a client call: its kind and DAG -/
def Act.key : Act → Kind × Nat
  | .start d => (.start, d)
  | .stop d => (.stop, d)
  | .restart d => (.restart, d)

/-! ## every due entry has `Next` = the tick (so the stable sort by `Next` keeps `Read`'s order among them) -/

theorem invoked_nextTime_eq (s : Spec) (t : Nat) (h : invoked s t = true) : nextTime s (t - 1) = t := by
  obtain ⟨r, hn, hle⟩ := invoked_next s t h
  obtain ⟨a, _, _, _⟩ := next_some s _ r hn
  simp only [nextTime, hn]
  omega

/-- two due entries with the same key issue the same call -/
theorem entryAct_key_eq (st : Nat → Status) (t : Nat) (e e' : Entry) (hk : e'.key = e.key)
    (hi : invoked e.spec t = true) (hi' : invoked e'.spec t = true) : entryAct st t e' = entryAct st t e := by
  have h1 : e'.kind = e.kind := congrArg Prod.fst hk
  have h2 : e'.dag = e.dag := congrArg Prod.snd hk
  unfold entryAct
  simp only [hi, hi', if_true, invoked_nextTime_eq _ _ hi, invoked_nextTime_eq _ _ hi', invoke, h1, h2]

theorem entryAct_key (st : Nat → Status) (t : Nat) (e : Entry) (a : Act) (h : entryAct st t e = some a) :
    e.key = a.key := by
  obtain ⟨_, hs⟩ := entryAct_shape st t e a h
  rcases hs with ⟨hk, rfl⟩ | ⟨hk, rfl⟩ | ⟨hk, rfl⟩ <;> simp [Entry.key, Act.key, hk]

/-! ## `dedupe` -/

theorem dedupe_sub : ∀ (l : List Entry) (seen : List (Kind × Nat)) (e : Entry), e ∈ dedupe l seen → e ∈ l := by
  intro l
  induction l with
  | nil => intro seen e h; simp [dedupe] at h
  | cons x xs ih =>
    intro seen e h
    unfold dedupe at h
    by_cases hx : x.key ∈ seen
    · simp only [hx, if_true] at h
      exact List.mem_cons_of_mem _ (ih seen e h)
    · simp only [hx, if_false] at h
      rcases List.mem_cons.mp h with rfl | h'
      · exact List.mem_cons_self
      · exact List.mem_cons_of_mem _ (ih _ e h')

/-- the first entry of every key not seen before survives -/
theorem dedupe_has_key : ∀ (l : List Entry) (seen : List (Kind × Nat)) (e : Entry), e ∈ l → e.key ∉ seen →
    ∃ e' ∈ dedupe l seen, e'.key = e.key := by
  intro l
  induction l with
  | nil => intro seen e h; simp at h
  | cons x xs ih =>
    intro seen e he hns
    unfold dedupe
    by_cases hx : x.key ∈ seen
    · simp only [hx, if_true]
      rcases List.mem_cons.mp he with rfl | he'
      · exact absurd hx hns
      · exact ih seen e he' hns
    · simp only [hx, if_false]
      by_cases hk : e.key = x.key
      · exact ⟨x, List.mem_cons_self, hk.symm⟩
      · rcases List.mem_cons.mp he with rfl | he'
        · exact absurd rfl hk
        · obtain ⟨e', h1, h2⟩ := ih (x.key :: seen) e he' (by
            intro hm
            rcases List.mem_cons.mp hm with h | h
            · exact hk h
            · exact hns h)
          exact ⟨e', List.mem_cons_of_mem _ h1, h2⟩

/-- at most one surviving entry per key, none for a key already seen -/
theorem dedupe_countP_key (k : Kind × Nat) : ∀ (l : List Entry) (seen : List (Kind × Nat)),
    (dedupe l seen).countP (fun e => decide (e.key = k)) ≤ if k ∈ seen then 0 else 1 := by
  intro l
  induction l with
  | nil => intro seen; simp [dedupe]
  | cons x xs ih =>
    intro seen
    unfold dedupe
    by_cases hx : x.key ∈ seen
    · simp only [hx, if_true]; exact ih seen
    · simp only [hx, if_false, List.countP_cons]
      have := ih (x.key :: seen)
      by_cases hk : x.key = k
      · subst hk
        simp only [List.mem_cons, true_or, if_true] at this
        simp only [hx, if_false, decide_true, if_true]
        omega
      · have hmem : (k ∈ x.key :: seen) ↔ k ∈ seen := by
          simp only [List.mem_cons]
          constructor
          · rintro (h | h)
            · exact absurd h.symm hk
            · exact h
          · exact Or.inr
        simp only [hk, decide_false, Bool.false_eq_true, if_false, Nat.add_zero]
        by_cases hks : k ∈ seen
        · simp only [hmem.mpr hks, if_true] at this
          simp only [hks, if_true]; exact this
        · have hn : ¬ (k ∈ x.key :: seen) := fun h => hks (hmem.mp h)
          simp only [hn, if_false] at this
          simp only [hks, if_false]; exact this

/-- `dedupe` depends on `seen` only through which of the list's own keys it contains -/
theorem dedupe_congr_seen : ∀ (l : List Entry) (s1 s2 : List (Kind × Nat)),
    (∀ x ∈ l, x.key ∈ s1 ↔ x.key ∈ s2) → dedupe l s1 = dedupe l s2 := by
  intro l
  induction l with
  | nil => intro s1 s2 _; rfl
  | cons x xs ih =>
    intro s1 s2 h
    have hx := h x List.mem_cons_self
    unfold dedupe
    by_cases h1 : x.key ∈ s1
    · have h2 := hx.mp h1
      simp only [h1, h2, if_true]
      exact ih s1 s2 (fun y hy => h y (List.mem_cons_of_mem _ hy))
    · have h2 : x.key ∉ s2 := fun hh => h1 (hx.mpr hh)
      simp only [h1, h2, if_false]
      congr 1
      apply ih
      intro y hy
      have := h y (List.mem_cons_of_mem _ hy)
      simp only [List.mem_cons, this]

/-- de-duplication commutes with restricting to one DAG -/
theorem dedupe_filter_dag (d : Nat) : ∀ (l : List Entry) (seen : List (Kind × Nat)),
    (dedupe l seen).filter (fun e => e.dag == d) = dedupe (l.filter (fun e => e.dag == d)) seen := by
  intro l
  induction l with
  | nil => intro seen; rfl
  | cons x xs ih =>
    intro seen
    by_cases hx : x.key ∈ seen
    · by_cases hp : x.dag = d
      · have : (x :: xs).filter (fun e => e.dag == d) = x :: xs.filter (fun e => e.dag == d) := by simp [hp]
        rw [this]
        unfold dedupe
        simp only [hx, if_true]
        exact ih seen
      · have : (x :: xs).filter (fun e => e.dag == d) = xs.filter (fun e => e.dag == d) := by simp [hp]
        rw [this]
        conv => lhs; unfold dedupe
        simp only [hx, if_true]
        exact ih seen
    · by_cases hp : x.dag = d
      · have : (x :: xs).filter (fun e => e.dag == d) = x :: xs.filter (fun e => e.dag == d) := by simp [hp]
        rw [this]
        unfold dedupe
        simp only [hx, if_false]
        have h2 : (x :: dedupe xs (x.key :: seen)).filter (fun e => e.dag == d) =
            x :: (dedupe xs (x.key :: seen)).filter (fun e => e.dag == d) := by simp [hp]
        rw [h2, ih]
      · have : (x :: xs).filter (fun e => e.dag == d) = xs.filter (fun e => e.dag == d) := by simp [hp]
        rw [this]
        conv => lhs; unfold dedupe
        simp only [hx, if_false]
        have h2 : (x :: dedupe xs (x.key :: seen)).filter (fun e => e.dag == d) =
            (dedupe xs (x.key :: seen)).filter (fun e => e.dag == d) := by simp [hp]
        rw [h2, ih]
        apply dedupe_congr_seen
        intro y hy
        have hyd : y.dag = d := by
          have := (List.mem_filter.mp hy).2
          simpa using this
        have hne : y.key ≠ x.key := by
          intro h
          have : y.dag = x.dag := congrArg Prod.snd h
          exact hp (this ▸ hyd)
        simp only [List.mem_cons, hne, false_or]

/-! ## `runTick` against `runTickPinned` -/

theorem mem_runTick_iff_pinned (dags : List Dag) (susp : Nat → Bool) (st : Nat → Status) (t : Nat) (a : Act) :
    a ∈ runTick dags susp st t ↔ a ∈ runTickPinned dags susp st t := by
  unfold runTick runTickPinned dueEntries
  simp only [List.mem_filterMap]
  constructor
  · rintro ⟨e, he, ha⟩
    exact ⟨e, (List.mem_filter.mp (dedupe_sub _ _ e he)).1, ha⟩
  · rintro ⟨e, he, ha⟩
    have hi := (entryAct_shape st t e a ha).1
    have hdue : e ∈ (readEntries dags susp).filter (fun e => invoked e.spec t) :=
      List.mem_filter.mpr ⟨he, hi⟩
    obtain ⟨e', he', hk⟩ := dedupe_has_key _ [] e hdue (by simp)
    have hi' : invoked e'.spec t = true := by
      have := (List.mem_filter.mp (dedupe_sub _ _ e' he')).2
      simpa using this
    exact ⟨e', he', by rw [entryAct_key_eq st t e e' hk hi hi']; exact ha⟩

/-- the calls of a tick, as a set: one per unsuspended DAG entry whose own test and guard pass -/
theorem mem_runTick (dags : List Dag) (susp : Nat → Bool) (st : Nat → Status) (t : Nat) (a : Act) :
    a ∈ runTick dags susp st t ↔
      ∃ d ∈ dags, susp d.id = false ∧ ∃ e ∈ entriesOf d, entryAct st t e = some a :=
  (mem_runTick_iff_pinned dags susp st t a).trans (mem_runTickPinned dags susp st t a)

/-- **no call is issued twice in one tick** -/
theorem count_runTick_le_one (dags : List Dag) (susp : Nat → Bool) (st : Nat → Status) (t : Nat) (a : Act) :
    (runTick dags susp st t).count a ≤ 1 := by
  unfold runTick
  rw [List.count_filterMap]
  refine Nat.le_trans (List.countP_mono_left ?_) (dedupe_countP_key a.key _ [])
  intro e _ he
  have : entryAct st t e = some a := by simpa using he
  simpa using entryAct_key st t e a this

/-! ## independence DAG by DAG -/

theorem readEntries_cons (x : Dag) (rest : List Dag) (susp : Nat → Bool) :
    readEntries (x :: rest) susp = (if susp x.id then [] else entriesOf x) ++ readEntries rest susp := by
  unfold readEntries
  by_cases h : susp x.id = true
  · simp [h]
  · have h' : susp x.id = false := by simpa using h
    simp [h']

theorem readEntries_filter_dag (dags : List Dag) (susp : Nat → Bool) (d : Nat) :
    (readEntries dags susp).filter (fun e => e.dag == d) = readEntries (dags.filter (fun x => x.id == d)) susp := by
  induction dags with
  | nil => rfl
  | cons x rest ih =>
    rw [readEntries_cons, List.filter_append, ih]
    have hall : ∀ e ∈ (if susp x.id then [] else entriesOf x), e.dag = x.id := by
      intro e he
      by_cases hs : susp x.id = true
      · simp [hs] at he
      · rw [if_neg hs] at he
        exact ((mem_entriesOf x e).mp he).1
    by_cases hx : x.id = d
    · have h1 : (x :: rest).filter (fun y => y.id == d) = x :: rest.filter (fun y => y.id == d) := by simp [hx]
      rw [h1, readEntries_cons]
      congr 1
      apply List.filter_eq_self.mpr
      intro e he
      simp [hall e he, hx]
    · have h1 : (x :: rest).filter (fun y => y.id == d) = rest.filter (fun y => y.id == d) := by simp [hx]
      rw [h1]
      have : List.filter (fun e => e.dag == d) (if susp x.id then [] else entriesOf x) = [] := by
        apply List.filter_eq_nil_iff.mpr
        intro e he
        simp [hall e he, hx]
      rw [this, List.nil_append]

theorem filter_filterMap_dag (st : Nat → Status) (t d : Nat) : ∀ (l : List Entry),
    (l.filterMap (entryAct st t)).filter (fun a => a.dag == d) =
      (l.filter (fun e => e.dag == d)).filterMap (entryAct st t) := by
  intro l
  induction l with
  | nil => rfl
  | cons x xs ih =>
    cases hx : entryAct st t x with
    | none =>
      by_cases hp : x.dag = d
      · simp [hx, hp, ih]
      · simp [hx, hp, ih]
    | some a =>
      have had := entryAct_dag st t x a hx
      by_cases hp : x.dag = d
      · simp [hx, hp, ih, had]
      · simp [hx, hp, ih, had]

/-- the calls issued for DAG `d` depend only on the definitions loaded under id `d` -/
theorem runTick_filter_dag (dags : List Dag) (susp : Nat → Bool) (st : Nat → Status) (t d : Nat) :
    (runTick dags susp st t).filter (fun a => a.dag == d) =
      runTick (dags.filter (fun x => x.id == d)) susp st t := by
  unfold runTick dueEntries
  rw [filter_filterMap_dag, dedupe_filter_dag, ← readEntries_filter_dag]
  congr 2
  rw [List.filter_filter, List.filter_filter]
  apply List.filter_congr
  intro e _
  exact Bool.and_comm _ _

end BdModel.Cron
