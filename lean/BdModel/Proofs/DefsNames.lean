import BdModel.Defs.Names
/-
  Helper facts about the name layer of the definition store (Defs/Names.lean): `splitExt` (= filepath.Ext),
  `resolve` (= util.AddYamlExtension), `keyOf` (spelling ↦ the model's abstract name). Core only.
-/
namespace BdModel.Defs

theorem splitExt_nodot (s : List Char) (h : ∀ c ∈ s, c ≠ '.') : splitExt s = (s, []) := by
  induction s with
  | nil => rfl
  | cons c cs ih =>
    have hc : c ≠ '.' := h c (by simp)
    have ih' := ih (fun x hx => h x (by simp [hx]))
    simp [splitExt, ih', hc]

/-- the extension of `n ++ "." ++ e` (no dot in `e`) is `"." ++ e`, whatever `n` is -/
theorem splitExt_append (n e : List Char) (he : ∀ c ∈ e, c ≠ '.') : splitExt (n ++ '.' :: e) = (n, '.' :: e) := by
  induction n with
  | nil => simp [splitExt, splitExt_nodot e he]
  | cons c cs ih => simp [splitExt, ih]

/-- `stem ++ ext` is the name; the extension is empty (no dot at all) or a dot followed by dot-free characters -/
theorem splitExt_spec (s : List Char) :
    (splitExt s).1 ++ (splitExt s).2 = s ∧
    (((splitExt s).2 = [] ∧ ∀ c ∈ s, c ≠ '.') ∨ ∃ e, (splitExt s).2 = '.' :: e ∧ ∀ c ∈ e, c ≠ '.') := by
  induction s with
  | nil => simp [splitExt]
  | cons c cs ih =>
    obtain ⟨h1, h2⟩ := ih
    by_cases he : (splitExt cs).2 = []
    · have hnd : ∀ x ∈ cs, x ≠ '.' := by
        rcases h2 with ⟨_, h⟩ | ⟨e, h, _⟩
        · exact h
        · rw [he] at h; cases h
      have hst : (splitExt cs).1 = cs := by rw [he, List.append_nil] at h1; exact h1
      by_cases hc : c = '.'
      · subst hc
        simp only [splitExt, he]
        exact ⟨by simp, Or.inr ⟨cs, by simp, hnd⟩⟩
      · simp only [splitExt, he]
        refine ⟨by simp [hc, hst], Or.inl ⟨by simp [hc], ?_⟩⟩
        intro x hx
        rcases List.mem_cons.mp hx with rfl | hx
        · exact hc
        · exact hnd x hx
    · have hs : splitExt (c :: cs) = (c :: (splitExt cs).1, (splitExt cs).2) := by simp [splitExt, he]
      rw [hs]
      refine ⟨by simp [h1], Or.inr ?_⟩
      rcases h2 with ⟨h, _⟩ | ⟨e, h, hd⟩
      · exact absurd h he
      · exact ⟨e, h, hd⟩

theorem yaml_nodot : ∀ c ∈ ['y', 'a', 'm', 'l'], c ≠ '.' := by decide
theorem yml_nodot : ∀ c ∈ ['y', 'm', 'l'], c ≠ '.' := by decide

theorem resolve_yml (n : List Char) : resolve (n ++ ymlExt) = n ++ yamlExt := by
  have := splitExt_append n ['y', 'm', 'l'] yml_nodot
  simp [resolve, ymlExt, this]

theorem resolve_yaml (n : List Char) : resolve (n ++ yamlExt) = n ++ yamlExt := by
  have := splitExt_append n ['y', 'a', 'm', 'l'] yaml_nodot
  simp [resolve, yamlExt, ymlExt, this]

theorem resolve_bare (n : List Char) (h : ∀ c ∈ n, c ≠ '.') : resolve n = n ++ yamlExt := by
  simp [resolve, splitExt_nodot n h]

/-- resolving is idempotent: the file a name denotes denotes itself -/
theorem resolve_idem (s : List Char) : resolve (resolve s) = resolve s := by
  by_cases he : (splitExt s).2 = []
  · have hr : resolve s = s ++ yamlExt := by simp [resolve, he]
    rw [hr]; exact resolve_yaml s
  · by_cases hy : (splitExt s).2 = ymlExt
    · have hr : resolve s = (splitExt s).1 ++ yamlExt := by
        have : ymlExt ≠ [] := by decide
        simp [resolve, hy, this]
      rw [hr]; exact resolve_yaml _
    · have hr : resolve s = s := by simp [resolve, he, hy]
      rw [hr, hr]

/-- the store never reads or writes a file with the short extension: no name resolves to `….yml` -/
theorem resolve_ext_ne_yml (s : List Char) : (splitExt (resolve s)).2 ≠ ymlExt := by
  by_cases he : (splitExt s).2 = []
  · have hr : resolve s = s ++ yamlExt := by simp [resolve, he]
    rw [hr]
    have := splitExt_append s ['y', 'a', 'm', 'l'] yaml_nodot
    simp only [yamlExt, this]; decide
  · by_cases hy : (splitExt s).2 = ymlExt
    · have hr : resolve s = (splitExt s).1 ++ yamlExt := by
        have : ymlExt ≠ [] := by decide
        simp [resolve, hy, this]
      rw [hr]
      have := splitExt_append (splitExt s).1 ['y', 'a', 'm', 'l'] yaml_nodot
      simp only [yamlExt, this]; decide
    · have hr : resolve s = s := by simp [resolve, he, hy]
      rw [hr]; exact hy

/-- a spelling that `resolve` rewrites carries the short extension -/
theorem ext_yml_of_resolve_ne (s : List Char) (he : (splitExt s).2 ≠ []) (hr : resolve s ≠ s) : (splitExt s).2 = ymlExt := by
  by_cases hy : (splitExt s).2 = ymlExt
  · exact hy
  · exact absurd (by simp [resolve, he, hy]) hr

/-- fixed `find`: the file of the spelling is among the probes, and every probe BEFORE it is a file the store never
    writes (no name resolves to it) — so in a directory the store manages `find` returns the spelling's own file
    whenever that file exists -/
theorem find_first_hit (s : List Char) :
    ∃ pre post, findCandidates s = pre ++ resolve s :: post ∧ ∀ c ∈ pre, ∀ t, resolve t ≠ c := by
  unfold findCandidates
  by_cases he : (splitExt s).2 = []
  · refine ⟨[], [s ++ ymlExt], ?_, by simp⟩
    have hr : resolve s = s ++ yamlExt := by simp [resolve, he]
    simp [he, hr]
  · by_cases hr : resolve s = s
    · exact ⟨[], [], by simp [he, hr], by simp⟩
    · refine ⟨[s], [], by simp [he, hr], ?_⟩
      intro c hc t ht
      have hc : c = s := by simpa using hc
      subst hc
      have := resolve_ext_ne_yml t
      rw [ht] at this
      exact this (ext_yml_of_resolve_ne c he hr)

theorem findsOwnFile_true (s : List Char) : findsOwnFile s = true := by
  obtain ⟨pre, post, h, _⟩ := find_first_hit s
  simp [findsOwnFile, h]

theorem findsOwnFilePre_yml (n : List Char) : findsOwnFilePre (n ++ ymlExt) = false := by
  have h1 := splitExt_append n ['y', 'm', 'l'] yml_nodot
  have h2 := resolve_yml n
  simp only [ymlExt] at h2
  have : n ++ yamlExt ≠ n ++ ['.', 'y', 'm', 'l'] := fun e => by
    have := List.append_cancel_left e
    revert this; decide
  simp [findsOwnFilePre, findCandidatesPre, ymlExt, h1, h2, this]

theorem get_firstIdx (x : List Char) (l : List (List Char)) (h : x ∈ l) : l[firstIdx x l]? = some x := by
  induction l with
  | nil => cases h
  | cons y ys ih =>
    by_cases hy : y = x
    · simp [firstIdx, hy]
    · have : x ∈ ys := by
        rcases List.mem_cons.mp h with rfl | h
        · exact absurd rfl hy
        · exact h
      simp [firstIdx, hy, ih this]

/-- **spellings with the same resolution are the same key, and only those** -/
theorem keyOf_eq_iff (sps : List (List Char)) (i j : Nat) (si sj : List Char)
    (hi : sps[i]? = some si) (hj : sps[j]? = some sj) :
    keyOf sps i = keyOf sps j ↔ resolve si = resolve sj := by
  simp only [keyOf, hi, hj]
  constructor
  · intro h
    have mi : resolve si ∈ sps.map resolve := List.mem_map.mpr ⟨si, List.mem_of_getElem? hi, rfl⟩
    have mj : resolve sj ∈ sps.map resolve := List.mem_map.mpr ⟨sj, List.mem_of_getElem? hj, rfl⟩
    have a := get_firstIdx _ _ mi
    have b := get_firstIdx _ _ mj
    rw [h] at a
    rw [a] at b
    exact Option.some.inj b
  · intro h; rw [h]

end BdModel.Defs
