import BdModel.Lock.Socket
/- helper lemmas for C16 (core only) -/
namespace BdModel.Lock

@[simp] theorem setAgent_same (w : World) (a : Nat) (ag : Agent) : (setAgent w a ag).agents a = ag := by
  simp [setAgent]

@[simp] theorem setAgent_other (w : World) (a b : Nat) (ag : Agent) (h : b ≠ a) :
    (setAgent w a ag).agents b = w.agents b := by
  simp [setAgent, h]

@[simp] theorem setAgent_ns (w : World) (a : Nat) (ag : Agent) : (setAgent w a ag).ns = w.ns := rfl

@[simp] theorem setNs_agents (w : World) (d : Nat) (s : Sock) : (setNs w d s).agents = w.agents := rfl

@[simp] theorem setNs_same (w : World) (d : Nat) (s : Sock) : (setNs w d s).ns d = s := by simp [setNs]

@[simp] theorem setNs_other (w : World) (d e : Nat) (s : Sock) (h : e ≠ d) : (setNs w d s).ns e = w.ns e := by
  simp [setNs, h]

@[simp] theorem setLk_agents (w : World) (d : Nat) (h : Option Nat) : (setLk w d h).agents = w.agents := rfl
@[simp] theorem setLk_ns (w : World) (d : Nat) (h : Option Nat) : (setLk w d h).ns = w.ns := rfl
@[simp] theorem setAgent_lk (w : World) (a : Nat) (ag : Agent) : (setAgent w a ag).lk = w.lk := rfl
@[simp] theorem setNs_lk (w : World) (d : Nat) (s : Sock) : (setNs w d s).lk = w.lk := rfl
@[simp] theorem setLk_same (w : World) (d : Nat) (h : Option Nat) : (setLk w d h).lk d = h := by simp [setLk]
@[simp] theorem setLk_other (w : World) (d e : Nat) (h : Option Nat) (he : e ≠ d) : (setLk w d h).lk e = w.lk e := by
  simp [setLk, he]
@[simp] theorem release_agents (w : World) (d a : Nat) : (release w d a).agents = w.agents := by
  unfold release; split <;> rfl
@[simp] theorem release_ns (w : World) (d a : Nat) : (release w d a).ns = w.ns := by
  unfold release; split <;> rfl
theorem release_lk (w : World) (d a e : Nat) :
    (release w d a).lk e = if e = d ∧ w.lk d = some a then none else w.lk e := by
  unfold release
  by_cases h : w.lk d = some a
  · by_cases he : e = d
    · subst he; simp [h]
    · simp [h, he]
  · simp [h]

/-- an action of agent `a` leaves every other agent's record untouched -/
theorem step_other {w w' : World} {a : Nat} {act : Act} (h : step w a act = some w') (b : Nat) (hb : b ≠ a) :
    w'.agents b = w.agents b := by
  unfold step stepAg at h
  split at h <;> (try split at h) <;> (try split at h) <;> (try split at h) <;>
    first
    | (injection h with h; subst h; simp [hb])
    | (cases h)

/-- an action of agent `a` changes only the socket path of `a`'s own spelling of the DAG file's path -/
theorem step_ns_other {w w' : World} {a : Nat} {act : Act} (h : step w a act = some w') (e : Nat)
    (he : e ≠ (w.agents a).sock) : w'.ns e = w.ns e := by
  unfold step stepAg at h
  split at h <;> (try split at h) <;> (try split at h) <;> (try split at h) <;>
    first
    | (injection h with h; subst h; simp [he])
    | (cases h)

/-- the probe's verdict is final: a refused agent has no enabled action (not even `kill`: it has exited) -/
theorem refused_terminal {w : World} {a : Nat} (h : (w.agents a).pc = .refused) (act : Act) :
    step w a act = none := by
  unfold step stepAg
  split <;> simp_all [alive]

/-- the agent's DAG never changes -/
theorem step_dag {w w' : World} {a : Nat} {act : Act} (h : step w a act = some w') (b : Nat) :
    (w'.agents b).dag = (w.agents b).dag := by
  by_cases hb : b = a
  · subst hb
    unfold step stepAg at h
    split at h <;> (try split at h) <;> (try split at h) <;> (try split at h) <;>
      first
      | (injection h with h; subst h; simp [didStep, didHandler])
      | (cases h)
  · rw [step_other h b hb]

/-- the agent's socket name never changes -/
theorem step_sock {w w' : World} {a : Nat} {act : Act} (h : step w a act = some w') (b : Nat) :
    (w'.agents b).sock = (w.agents b).sock := by
  by_cases hb : b = a
  · subst hb
    unfold step stepAg at h
    split at h <;> (try split at h) <;> (try split at h) <;> (try split at h) <;>
      first
      | (injection h with h; subst h; simp [didStep, didHandler])
      | (cases h)
  · rw [step_other h b hb]

@[simp] theorem early_afterListen (ag : Agent) : early (afterListen ag) = false := by
  unfold afterListen; split <;> (try split) <;> rfl

/-- until the probe has said "not running", the agent has touched nothing (one step) -/
theorem step_early {w w' : World} {a : Nat} {act : Act} (h : step w a act = some w')
    (inv : early (w.agents a).pc = true → Pristine (w.agents a)) :
    early (w'.agents a).pc = true → Pristine (w'.agents a) := by
  unfold step stepAg at h
  split at h <;> (try split at h) <;> (try split at h) <;> (try split at h)
  all_goals first | (cases h; done) | skip
  all_goals (injection h with h; subst h; simp only [setNs_agents, setLk_agents, release_agents, setAgent_same]; intro he)
  all_goals first | (simp at he; done) | (simp [early] at he; done) | skip
  all_goals (have hp := inv (by simp [*, early]))
  all_goals (simpa [Pristine] using hp)

/-- **invariant**: in every reachable world every agent that has not got past its probe is pristine -/
theorem run_early {w w' : World} {tr : List (Nat × Act)} (h : run w tr = some w')
    (inv : ∀ b, early (w.agents b).pc = true → Pristine (w.agents b)) :
    ∀ b, early (w'.agents b).pc = true → Pristine (w'.agents b) := by
  induction tr generalizing w with
  | nil => simp [run] at h; subst h; exact inv
  | cons x tr ih =>
    obtain ⟨a, act⟩ := x
    simp only [run] at h
    split at h
    · cases h
    · rename_i w1 hs
      apply ih h
      intro b
      by_cases hb : b = a
      · subst hb; exact step_early hs (inv b)
      · rw [step_other hs b hb]; exact inv b

theorem init_early (cfgs : List Cfg) (b : Nat) : early ((init cfgs).agents b).pc = true → Pristine ((init cfgs).agents b) := by
  intro _
  simp only [init]
  split <;> simp [Pristine, fresh, idle]

theorem reach_early {w : World} (h : Reach w) (b : Nat) : early (w.agents b).pc = true → Pristine (w.agents b) := by
  obtain ⟨cfgs, tr, h⟩ := h
  exact run_early h (init_early cfgs) b

/-- a refused agent is frozen: no interleaving changes its record any more -/
theorem run_refused_frozen {w w' : World} {tr : List (Nat × Act)} (h : run w tr = some w') (b : Nat)
    (hr : (w.agents b).pc = .refused) : w'.agents b = w.agents b ∧ ∀ x ∈ tr, x.1 ≠ b := by
  induction tr generalizing w with
  | nil => simp [run] at h; subst h; simp
  | cons x tr ih =>
    obtain ⟨a, act⟩ := x
    simp only [run] at h
    split at h
    · cases h
    · rename_i w1 hs
      have hab : a ≠ b := by
        intro e; subst e
        rw [refused_terminal hr act] at hs; cases hs
      have h1 : w1.agents b = w.agents b := step_other hs b (Ne.symm hab)
      have := ih h (by rw [h1]; exact hr)
      refine ⟨by rw [this.1, h1], ?_⟩
      intro x hx
      cases hx with
      | head => exact hab
      | tail _ hx => exact this.2 x hx

theorem run_append (w : World) (t1 t2 : List (Nat × Act)) :
    run w (t1 ++ t2) = (run w t1).bind (fun w1 => run w1 t2) := by
  induction t1 generalizing w with
  | nil => simp [run]
  | cons x t1 ih =>
    obtain ⟨a, act⟩ := x
    simp only [List.cons_append, run]
    split
    · simp
    · exact ih _

theorem reach_run {w w' : World} {tr : List (Nat × Act)} (hw : Reach w) (h : run w tr = some w') : Reach w' := by
  obtain ⟨cfgs, tr0, h0⟩ := hw
  exact ⟨cfgs, tr0 ++ tr, by rw [run_append, h0]; simpa using h⟩

/-- what the owner of a bound socket path is doing -/
def ownerOk : Bool → Pc → Bool
  | false, .listen => true
  | true, .steps => true
  | true, .handlers => true
  | true, .finalWrite => true
  | true, .unlock => true
  | true, .shutClose => true
  | _, _ => false

@[simp] theorem ownerOk_afterListen (ag : Agent) : ownerOk true (afterListen ag) = true := by
  unfold afterListen; split <;> (try split) <;> rfl

def OwnerInv (w : World) : Prop :=
  ∀ d a l, w.ns d = .bound a l → (w.agents a).sock = d ∧ ownerOk l (w.agents a).pc = true

theorem step_owner {w w' : World} {c : Nat} {act : Act} (inv : OwnerInv w) (h : step w c act = some w') :
    OwnerInv w' := by
  intro d a l hns
  unfold step stepAg at h
  split at h <;> (try split at h) <;> (try split at h) <;> (try split at h)
  all_goals first | (cases h; done) | skip
  all_goals (injection h with h; subst h)
  all_goals
    by_cases hd : d = (w.agents c).sock <;> by_cases ha : a = c
  all_goals (try subst hd) <;> (try subst ha)
  all_goals (simp [*, setNs, setAgent] at hns ⊢)
  all_goals first
    | (exact inv _ _ _ hns)
    | (have hi := inv _ _ _ hns; obtain ⟨h1, h2⟩ := hi; cases l <;> simp_all [ownerOk, didStep, didHandler]; done)
    | (subst hns; simp; done)
    | (subst hns; simp [ownerOk]; done)
    | (have hi := inv _ _ _ hns
       obtain ⟨h1, h2⟩ := hi
       cases l
       · simp_all [ownerOk]
       · exact ⟨rfl, by simp⟩)
    | (obtain ⟨rfl, rfl⟩ := hns
       first
       | (exact absurd rfl ha)
       | (have hi := inv _ _ _ (by assumption); simp_all [ownerOk]; done))
    | skip

theorem run_owner {w w' : World} {tr : List (Nat × Act)} (inv : OwnerInv w) (h : run w tr = some w') : OwnerInv w' := by
  induction tr generalizing w with
  | nil => simp [run] at h; subst h; exact inv
  | cons x tr ih =>
    obtain ⟨a, act⟩ := x
    simp only [run] at h
    split at h
    · cases h
    · rename_i w1 hs
      exact ih (step_owner inv hs) h

theorem reach_owner {w : World} (h : Reach w) : OwnerInv w := by
  obtain ⟨cfgs, tr, h⟩ := h
  exact run_owner (by intro d a l hns; simp [init] at hns) h

/-! ### dry-run agents (C03: no history in dry-run mode) -/

/-- what a dry-run agent can look like: it never gets past `dryRun` and has touched nothing -/
def DryOk (ag : Agent) : Prop :=
  ag.dry = true → Pristine ag ∧
    (ag.pc = .setup ∨ ag.pc = .precond ∨ ag.pc = .dryRun ∨ ag.pc = .done ∨ ag.pc = .failed ∨ ag.pc = .dead)

theorem step_dry {w w' : World} {a : Nat} {act : Act} (h : step w a act = some w')
    (inv : DryOk (w.agents a)) : DryOk (w'.agents a) := by
  unfold step stepAg at h
  unfold DryOk at *
  split at h <;> (try split at h) <;> (try split at h) <;> (try split at h)
  all_goals first | (cases h; done) | skip
  all_goals (injection h with h; subst h; simp only [setNs_agents, setLk_agents, release_agents, setAgent_same]; intro hd)
  all_goals (have hp := inv (by simpa [didStep, didHandler] using hd))
  all_goals (simp_all [Pristine, alive])

theorem run_dry {w w' : World} {tr : List (Nat × Act)} (h : run w tr = some w')
    (inv : ∀ b, DryOk (w.agents b)) : ∀ b, DryOk (w'.agents b) := by
  induction tr generalizing w with
  | nil => simp [run] at h; subst h; exact inv
  | cons x tr ih =>
    obtain ⟨a, act⟩ := x
    simp only [run] at h
    split at h
    · cases h
    · rename_i w1 hs
      apply ih h
      intro b
      by_cases hb : b = a
      · subst hb; exact step_dry hs (inv b)
      · rw [step_other hs b hb]; exact inv b

theorem reach_dry {w : World} (h : Reach w) (b : Nat) : DryOk (w.agents b) := by
  obtain ⟨cfgs, tr, h⟩ := h
  apply run_dry h
  intro b _
  simp only [init]
  split <;> simp [Pristine, fresh, idle]

end BdModel.Lock
