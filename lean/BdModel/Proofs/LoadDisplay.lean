import BdModel.Load.Display
/-
  Helper facts for the display-path theorems of C19: decided once over the canonical display table.
-/
namespace BdModel.Load.Display
open BdModel.Load.Effects

/-- every display entry is a function of the table (a renamed / removed entry cannot make the statements vacuous) -/
theorem entries_exist : ∀ e ∈ displayEntries ++ startEntries, isFunc canonD e = true := by decide +kernel

/-- no display entry reaches an effect site inside the display files -/
theorem display_no_effects : ∀ e ∈ displayEntries, effectsFrom canonD e = [] := by decide +kernel

/-- the loader functions a display entry enters are the three non-evaluating ones -/
theorem display_loaders_non_evaluating :
    ∀ e ∈ displayEntries, ∀ l ∈ loadersFrom canonD e, l ∈ nonEvaluatingEntries := by decide +kernel

/-- the display of a DAG does enter the loader (the statements are not about an unconnected table) -/
theorem display_enters_loader :
    "LoadWithoutEval" ∈ loadersFrom canonD "client.GetStatus" ∧ "LoadMetadata" ∈ loadersFrom canonD "client.GetAllStatus" ∧
    "LoadYAML" ∈ loadersFrom canonD "client.UpdateDAG" ∧ "LoadMetadata" ∈ loadersFrom canonD "client.Grep" ∧
    "model.NewNode" ∈ fnsFrom canonD "client.GetStatus" ∧ "model.NewNode" ∈ fnsFrom canonD "fdag.getDetail" := by decide +kernel

/-- starting does reach the process execution of the client -/
theorem start_reaches_exec :
    ∀ e ∈ startEntries, (⟨"client.Start", "exec.Command", "0"⟩ : Effect) ∈ effectsFrom canonD e := by decide +kernel

/-- the entries whose answer contains the placeholder status of a DAG that has not run today -/
def placeholderEntries : List String :=
  ["fdag.getDetail", "fdag.getList", "fdag.deleteDAG", "fdag.processUpdateStatus", "client.GetStatus", "client.GetAllStatus",
   "client.GetAllStatusPagination", "client.GetLatestStatus", "client.GetCurrentStatus", "client.GetStatusByRequestID",
   "model.NewStatusDefault", "model.NewStatus", "model.FromSteps", "model.NewNode"]

/-- with the edge and the site of seeded mutant C19-5 in the table, every one of them reaches the exec site -/
theorem seed_leaks :
    ∀ e ∈ placeholderEntries,
      (⟨"model.splitQuotedArgs", "util.SplitCommandWithParse", "0"⟩ : Effect) ∈ effectsFrom seedC19_5 e := by decide +kernel

end BdModel.Load.Display
