import BdModel.Load.Build
/-
  Helper lemmas for C13 on the model of the FIXED loader: no stage can panic once `assertNoNullElements`
  has passed, and what every accepted DAG satisfies. All statements are for ARBITRARY definitions / trees
  (structural induction over the lists involved).
-/
namespace BdModel.Load

/-! ### cron / schedule: no panic at all any more -/

theorem cronParse_not_panic (o : Orc) (s : Str) : (cronParse o s).isPanic = false := by
  unfold cronParse; split
  · rfl
  · split <;> rfl

theorem cronParse_ok (o : Orc) (s : Str) (u : Unit) (h : cronParse o s = .ok u) : o.cronOk s = true ∧ cronPanics s = false := by
  unfold cronParse at h
  by_cases hp : cronPanics s = true
  · simp [hp] at h
  · by_cases hc : o.cronOk s = true
    · exact ⟨hc, by simpa using hp⟩
    · simp [hp, hc] at h

theorem parseSchedules_not_panic (o : Orc) : ∀ l, (parseSchedules o l).isPanic = false := by
  intro l
  induction l with
  | nil => rfl
  | cons v rest ih =>
    have hv := cronParse_not_panic o v
    unfold parseSchedules
    cases hc : cronParse o v with
    | ok u => cases hp : parseSchedules o rest with
      | ok r => rfl
      | err => rfl
      | panic s => simp [hp, Res.isPanic] at ih
    | err => rfl
    | panic s => simp [hc, Res.isPanic] at hv

theorem parseSchedules_ok (o : Orc) : ∀ l r, parseSchedules o l = .ok r →
    r = l ∧ ∀ s ∈ l, o.cronOk s = true ∧ cronPanics s = false := by
  intro l
  induction l with
  | nil => intro r h; simp [parseSchedules] at h; simp [h]
  | cons v rest ih =>
    intro r h
    unfold parseSchedules at h
    cases hc : cronParse o v with
    | ok u =>
      rw [hc] at h
      cases hp : parseSchedules o rest with
      | ok r' =>
        rw [hp] at h
        have := ih r' hp
        simp at h
        refine ⟨by rw [← h, this.1], ?_⟩
        intro s hs
        rcases List.mem_cons.mp hs with rfl | hs
        · exact cronParse_ok o _ u hc
        · exact this.2 s hs
      | err => rw [hp] at h; simp at h
      | panic s => rw [hp] at h; simp at h
    | err => rw [hc] at h; simp at h
    | panic s => rw [hc] at h; simp at h

theorem addValues_not_panic (o : Orc) (tg : Target) : ∀ vs acc, (addValues o tg vs acc).isPanic = false := by
  intro vs
  induction vs with
  | nil => intro acc; rfl
  | cons v rest ih =>
    intro acc
    have hnp := cronParse_not_panic o v
    unfold addValues
    cases hc : cronParse o v with
    | err => rfl
    | panic s => simp [hc, Res.isPanic] at hnp
    | ok u =>
      simp only
      cases tg with
      | none => rfl
      | start => exact ih _
      | stop => exact ih _
      | restart => exact ih _

theorem parseScheduleMap_not_panic (o : Orc) : ∀ kvs acc, (parseScheduleMap o kvs acc).isPanic = false := by
  intro kvs
  induction kvs with
  | nil => intro acc; rfl
  | cons kv rest ih =>
    intro acc
    obtain ⟨k, v⟩ := kv
    unfold parseScheduleMap
    cases k with
    | str key =>
      simp only
      have key_case : ∀ vs,
          (if (targetOf key == Target.none) = true then (Res.err : Res Sched)
           else match addValues o (targetOf key) vs acc with
            | .ok acc' => parseScheduleMap o rest acc'
            | .err => .err
            | .panic s => .panic s).isPanic = false := by
        intro vs
        split
        · rfl
        · have := addValues_not_panic o (targetOf key) vs acc
          cases hav : addValues o (targetOf key) vs acc with
          | ok acc' => exact ih acc'
          | err => rfl
          | panic s => simp [hav, Res.isPanic] at this
      cases v with
      | str s => exact key_case [s]
      | list xs =>
        simp only
        cases allStrs xs with
        | none => rfl
        | some vs => exact key_case vs
      | null => exact key_case []
      | bool b => exact key_case []
      | int i => exact key_case []
      | float f => exact key_case []
      | map m => exact key_case []
    | null => rfl
    | bool b => rfl
    | int i => rfl
    | float f => rfl
    | list l => rfl
    | map m => rfl

theorem finishSchedule_not_panic (o : Orc) (sc : Sched) : (finishSchedule o sc).isPanic = false := by
  have h1 := parseSchedules_not_panic o sc.starts
  have h2 := parseSchedules_not_panic o sc.stops
  have h3 := parseSchedules_not_panic o sc.restarts
  unfold finishSchedule
  cases e1 : parseSchedules o sc.starts with
  | err => rfl
  | panic s => simp [e1, Res.isPanic] at h1
  | ok a =>
    cases e2 : parseSchedules o sc.stops with
    | err => rfl
    | panic s => simp [e2, Res.isPanic] at h2
    | ok b =>
      cases e3 : parseSchedules o sc.restarts with
      | err => rfl
      | panic s => simp [e3, Res.isPanic] at h3
      | ok c => rfl

theorem finishSchedule_ok (o : Orc) (sc0 sc : Sched) (h : finishSchedule o sc0 = .ok sc) :
    ∀ e ∈ sc.starts ++ sc.stops ++ sc.restarts, o.cronOk e = true ∧ cronPanics e = false := by
  unfold finishSchedule at h
  cases e1 : parseSchedules o sc0.starts with
  | err => simp [e1] at h
  | panic s => simp [e1] at h
  | ok a =>
    cases e2 : parseSchedules o sc0.stops with
    | err => simp [e1, e2] at h
    | panic s => simp [e1, e2] at h
    | ok b =>
      cases e3 : parseSchedules o sc0.restarts with
      | err => simp [e1, e2, e3] at h
      | panic s => simp [e1, e2, e3] at h
      | ok c =>
        simp [e1, e2, e3] at h
        have h1 := parseSchedules_ok o _ _ e1
        have h2 := parseSchedules_ok o _ _ e2
        have h3 := parseSchedules_ok o _ _ e3
        subst h
        intro e he
        simp at he
        rcases he with he | he | he
        · exact h1.2 e (h1.1 ▸ he)
        · exact h2.2 e (h2.1 ▸ he)
        · exact h3.2 e (h3.1 ▸ he)

theorem collectSchedule_not_panic (o : Orc) (t : Tree) : (collectSchedule o t).isPanic = false := by
  unfold collectSchedule
  cases t with
  | str s => rfl
  | list xs => simp only; cases allStrs xs <;> rfl
  | map kvs => exact parseScheduleMap_not_panic o kvs {}
  | null => rfl
  | bool b => rfl
  | int i => rfl
  | float f => rfl

/-- `buildSchedule` never panics — on ANY schedule value -/
theorem buildSchedule_not_panic (o : Orc) (t : Tree) : (buildSchedule o t).isPanic = false := by
  have := collectSchedule_not_panic o t
  unfold buildSchedule
  cases hc : collectSchedule o t with
  | err => rfl
  | panic s => simp [hc, Res.isPanic] at this
  | ok sc => exact finishSchedule_not_panic o sc

/-- every schedule `buildSchedule` accepts parses -/
theorem buildSchedule_ok (o : Orc) (t : Tree) (sc : Sched) (h : buildSchedule o t = .ok sc) :
    ∀ e ∈ sc.starts ++ sc.stops ++ sc.restarts, o.cronOk e = true ∧ cronPanics e = false := by
  unfold buildSchedule at h
  cases hc : collectSchedule o t with
  | err => simp [hc] at h
  | panic s => simp [hc] at h
  | ok sc0 => simp only [hc] at h; exact finishSchedule_ok o sc0 sc h

/-! ### steps -/

theorem buildConditions_not_panic : ∀ l, condsOk l = true → (buildConditions l).isPanic = false := by
  intro l
  induction l with
  | nil => intro _; rfl
  | cons c rest ih =>
    intro h
    cases c with
    | none => simp [condsOk] at h
    | some c =>
      have hr := ih (by simpa [condsOk] using h)
      unfold buildConditions
      cases hp : buildConditions rest with
      | ok r => rfl
      | err => rfl
      | panic s => simp [hp, Res.isPanic] at hr

theorem findFunc_not_panic (site : Site) (name : Str) : ∀ fns : List (Option FuncDef), fns.all Option.isSome = true →
    (findFunc site name fns).isPanic = false := by
  intro fns
  induction fns with
  | nil => intro _; rfl
  | cons f rest ih =>
    intro h
    cases f with
    | none => simp at h
    | some f =>
      unfold findFunc
      split
      · rfl
      · exact ih (by simpa using h)

theorem assertStepDef_not_panic (d : StepDef) (fns : List (Option FuncDef)) (hf : fns.all Option.isSome = true) :
    (assertStepDef (some d) fns).isPanic = false := by
  unfold assertStepDef
  simp only
  split
  · rfl
  · split
    · rfl
    · split
      · rfl
      · rename_i c _
        have := findFunc_not_panic .assertStepDef c.function fns hf
        cases hff : findFunc .assertStepDef c.function fns with
        | panic s => simp [hff, Res.isPanic] at this
        | err => rfl
        | ok f? =>
          simp only
          split
          · rfl
          · split
            · rfl
            · split <;> rfl

theorem assertStepDef_ok (sd : Option StepDef) (fns : List (Option FuncDef)) (d : StepDef)
    (h : assertStepDef sd fns = .ok d) : sd = some d ∧ d.name ≠ [] := by
  unfold assertStepDef at h
  cases sd with
  | none => simp at h
  | some d0 =>
    simp only at h
    by_cases hn : d0.name.isEmpty = true
    · simp [hn] at h
    · have hne : d0.name ≠ [] := by intro e; simp [e] at hn
      simp [hn] at h
      split at h <;> (try split at h) <;> (try split at h) <;> (try split at h) <;> (try split at h) <;> (try split at h) <;>
        first | (cases h; done) | (cases h; exact ⟨rfl, hne⟩)

theorem parseFuncCall_not_panic (call : Option CallDef) (fns : List (Option FuncDef)) (hf : fns.all Option.isSome = true) :
    (parseFuncCall call fns).isPanic = false := by
  unfold parseFuncCall
  cases call with
  | none => rfl
  | some c =>
    simp only
    cases passedArgs c.args with
    | none => rfl
    | some pa =>
      simp only
      have := findFunc_not_panic .parseFuncCall c.function fns hf
      cases hff : findFunc .parseFuncCall c.function fns with
      | panic s => simp [hff, Res.isPanic] at this
      | err => rfl
      | ok f? => rfl

theorem parseCommand_not_panic (t : Tree) (cur : Str × Str) : (parseCommand t cur).isPanic = false := by
  unfold parseCommand
  cases t <;> simp only <;> try rfl
  split <;> rfl

theorem parseExecutor_not_panic (t : Tree) : (parseExecutor t).isPanic = false := by
  unfold parseExecutor
  simp only
  split
  · rfl
  · split <;> rfl

theorem parseExecutor_ok (t : Tree) (ex : Exec) (h : parseExecutor t = .ok ex) : ex.config.all (fun kv => kv.2.jsonOk) = true := by
  unfold parseExecutor at h
  simp only at h
  split at h
  · simp at h
  · rename_i ex0 _
    by_cases hc : ex0.config.all (fun kv => kv.2.jsonOk) = true
    · rw [if_pos hc] at h
      cases h
      exact hc
    · rw [if_neg hc] at h
      cases h

/-- what `buildStep` guarantees for the step it returns -/
def StepGood (o : Orc) (st : Step) : Prop :=
  st.name ≠ [] ∧ (st.signal = [] ∨ o.sigOk st.signal = true) ∧ st.hasExec = true ∧ st.serial = true

theorem finishStep_not_panic (o : Orc) (st : Step) (sg : Option Str) : (finishStep o st sg).isPanic = false := by
  cases sg with
  | none =>
    simp only [finishStep]
    by_cases hx : st.hasExec = true
    · rw [if_pos hx]; rfl
    · rw [if_neg hx]; rfl
  | some g =>
    simp only [finishStep]
    by_cases hok : o.sigOk g = true
    · rw [if_pos hok]
      by_cases hx : st.hasExec = true
      · rw [if_pos hx]; rfl
      · rw [if_neg hx]; rfl
    · rw [if_neg hok]; rfl

theorem finishStep_ok (o : Orc) (st0 st : Step) (sg : Option Str) (h0 : st0.signal = []) (h : finishStep o st0 sg = .ok st) :
    st.name = st0.name ∧ st.config = st0.config ∧ (st.signal = [] ∨ o.sigOk st.signal = true) ∧ st.hasExec = true := by
  cases sg with
  | none =>
    simp only [finishStep] at h
    by_cases hx : st0.hasExec = true
    · rw [if_pos hx] at h; cases h; exact ⟨rfl, rfl, Or.inl h0, hx⟩
    · rw [if_neg hx] at h; cases h
  | some g =>
    simp only [finishStep] at h
    by_cases hok : o.sigOk g = true
    · rw [if_pos hok] at h
      by_cases hx : st0.hasExec = true
      · rw [if_pos hx] at h; cases h
        exact ⟨rfl, rfl, Or.inr hok, by simpa [Step.hasExec, Step.effCommand] using hx⟩
      · rw [if_neg hx] at h; cases h
    · rw [if_neg hok] at h; cases h

theorem mkStep_props (d : StepDef) (cmd cwa : Str) (ex : Exec) (conds : List Cond) :
    (mkStep d cmd cwa ex conds).name = d.name ∧ (mkStep d cmd cwa ex conds).config = ex.config ∧
    (mkStep d cmd cwa ex conds).signal = [] := by
  unfold mkStep; split <;> exact ⟨rfl, rfl, rfl⟩

theorem buildStep_not_panic (o : Orc) (fns : List (Option FuncDef)) (sd : Option StepDef)
    (hf : fns.all Option.isSome = true) (hs : stepDefOk sd = true) : (buildStep o fns sd).isPanic = false := by
  cases sd with
  | none => simp [stepDefOk] at hs
  | some d0 =>
    have h1 := assertStepDef_not_panic d0 fns hf
    unfold buildStep
    cases ha : assertStepDef (some d0) fns with
    | panic s => simp [ha, Res.isPanic] at h1
    | err => rfl
    | ok d =>
      have hd := (assertStepDef_ok _ _ _ ha).1
      have hd' : d0 = d := by simpa using hd
      subst hd'
      simp only
      have h2 := buildConditions_not_panic d0.preconds (by simpa [stepDefOk] using hs)
      cases hb : buildConditions d0.preconds with
      | panic s => simp [hb, Res.isPanic] at h2
      | err => rfl
      | ok conds =>
        simp only
        have h3 := parseFuncCall_not_panic d0.call fns hf
        cases hc : parseFuncCall d0.call fns with
        | panic s => simp [hc, Res.isPanic] at h3
        | err => rfl
        | ok cc =>
          simp only
          have h4 := parseCommand_not_panic d0.command cc
          cases hpc : parseCommand d0.command cc with
          | panic s => simp [hpc, Res.isPanic] at h4
          | err => rfl
          | ok p =>
            obtain ⟨cmd, cwa⟩ := p
            simp only
            have h5 := parseExecutor_not_panic d0.executor
            cases hpe : parseExecutor d0.executor with
            | panic s => simp [hpe, Res.isPanic] at h5
            | err => rfl
            | ok ex => exact finishStep_not_panic o _ _

theorem buildStep_ok (o : Orc) (fns : List (Option FuncDef)) (sd : Option StepDef) (st : Step)
    (h : buildStep o fns sd = .ok st) : StepGood o st := by
  unfold buildStep at h
  cases ha : assertStepDef sd fns with
  | panic s => simp [ha] at h
  | err => simp [ha] at h
  | ok d =>
    have hn := (assertStepDef_ok _ _ _ ha).2
    simp only [ha] at h
    cases hb : buildConditions d.preconds with
    | panic s => simp [hb] at h
    | err => simp [hb] at h
    | ok conds =>
      simp only [hb] at h
      cases hc : parseFuncCall d.call fns with
      | panic s => simp [hc] at h
      | err => simp [hc] at h
      | ok cc =>
        simp only [hc] at h
        cases hpc : parseCommand d.command cc with
        | panic s => simp [hpc] at h
        | err => simp [hpc] at h
        | ok p =>
          obtain ⟨cmd, cwa⟩ := p
          simp only [hpc] at h
          cases hpe : parseExecutor d.executor with
          | panic s => simp [hpe] at h
          | err => simp [hpe] at h
          | ok ex =>
            have hser := parseExecutor_ok _ _ hpe
            simp only [hpe] at h
            have hm := mkStep_props d cmd cwa ex conds
            have := finishStep_ok o _ st d.signal hm.2.2 h
            refine ⟨by rw [this.1, hm.1]; exact hn, this.2.2.1, this.2.2.2, ?_⟩
            simpa [Step.serial, this.2.1, hm.2.1] using hser

theorem buildSteps_not_panic (o : Orc) (fns : List (Option FuncDef)) (hf : fns.all Option.isSome = true) :
    ∀ l : List (Option StepDef), l.all stepDefOk = true → (buildSteps o fns l).isPanic = false := by
  intro l
  induction l with
  | nil => intro _; rfl
  | cons sd rest ih =>
    intro h
    simp at h
    have h1 := buildStep_not_panic o fns sd hf h.1
    have h2 := ih (by simpa using h.2)
    unfold buildSteps
    cases hb : buildStep o fns sd with
    | panic s => simp [hb, Res.isPanic] at h1
    | err => rfl
    | ok st =>
      simp only
      cases hr : buildSteps o fns rest with
      | ok r => rfl
      | err => rfl
      | panic s => simp [hr, Res.isPanic] at h2

theorem buildSteps_ok (o : Orc) (fns : List (Option FuncDef)) :
    ∀ (l : List (Option StepDef)) (r : List Step), buildSteps o fns l = .ok r →
      ∀ st ∈ r, StepGood o st := by
  intro l
  induction l with
  | nil => intro r h; simp [buildSteps] at h; subst h; intro st hst; cases hst
  | cons sd rest ih =>
    intro r h
    unfold buildSteps at h
    cases hb : buildStep o fns sd with
    | panic s => simp [hb] at h
    | err => simp [hb] at h
    | ok st0 =>
      simp only [hb] at h
      cases hr : buildSteps o fns rest with
      | panic s => simp [hr] at h
      | err => simp [hr] at h
      | ok r' =>
        simp [hr] at h
        subst h
        intro st hst
        rcases List.mem_cons.mp hst with rfl | hst
        · exact buildStep_ok o fns sd _ hb
        · exact ih r' hr st hst

theorem buildHandler_not_panic (o : Orc) (fns : List (Option FuncDef)) (name : Str) (h : Option StepDef)
    (hf : fns.all Option.isSome = true) (hh : handlerDefOk h = true) : (buildHandler o fns name h).isPanic = false := by
  cases h with
  | none => rfl
  | some d =>
    have := buildStep_not_panic o fns (some { d with name := name }) hf (by simpa [stepDefOk, handlerDefOk] using hh)
    simp only [buildHandler]
    cases hb : buildStep o fns (some { d with name := name }) with
    | ok st => rfl
    | err => rfl
    | panic s => simp [hb, Res.isPanic] at this

theorem buildHandler_ok (o : Orc) (fns : List (Option FuncDef)) (name : Str) (h : Option StepDef) (r : Option Step)
    (hr : buildHandler o fns name h = .ok r) : ∀ st ∈ r.toList, StepGood o st := by
  cases h with
  | none => simp [buildHandler] at hr; subst hr; intro st hst; cases hst
  | some d =>
    simp only [buildHandler] at hr
    cases hb : buildStep o fns (some { d with name := name }) with
    | ok st0 =>
      simp [hb] at hr; subst hr
      intro st hst
      simp at hst; subst hst
      exact buildStep_ok o fns _ _ hb
    | err => simp [hb] at hr
    | panic s => simp [hb] at hr

theorem assertFunctionsAux_not_panic : ∀ (fns : List (Option FuncDef)) (seen : List Str), fns.all Option.isSome = true →
    (assertFunctionsAux fns seen).isPanic = false := by
  intro fns
  induction fns with
  | nil => intro _ _; rfl
  | cons f rest ih =>
    intro seen h
    cases f with
    | none => simp at h
    | some f =>
      unfold assertFunctionsAux
      split
      · rfl
      · split
        · rfl
        · exact ih _ (by simpa using h)

theorem assertFunctions_not_panic (fns : List (Option FuncDef)) (h : fns.all Option.isSome = true) :
    (assertFunctions fns).isPanic = false := assertFunctionsAux_not_panic fns [] h

theorem buildHandlers_not_panic (o : Orc) (d : Def) (hf : d.functions.all Option.isSome = true)
    (h1 : handlerDefOk d.onExit = true) (h2 : handlerDefOk d.onSuccess = true)
    (h3 : handlerDefOk d.onFailure = true) (h4 : handlerDefOk d.onCancel = true) : (buildHandlers o d).isPanic = false := by
  have p1 := buildHandler_not_panic o d.functions (S "onExit") d.onExit hf h1
  have p2 := buildHandler_not_panic o d.functions (S "onSuccess") d.onSuccess hf h2
  have p3 := buildHandler_not_panic o d.functions (S "onFailure") d.onFailure hf h3
  have p4 := buildHandler_not_panic o d.functions (S "onCancel") d.onCancel hf h4
  unfold buildHandlers
  cases e1 : buildHandler o d.functions (S "onExit") d.onExit with
  | panic s => simp [e1, Res.isPanic] at p1
  | err => rfl
  | ok a =>
    cases e2 : buildHandler o d.functions (S "onSuccess") d.onSuccess with
    | panic s => simp [e2, Res.isPanic] at p2
    | err => rfl
    | ok b =>
      cases e3 : buildHandler o d.functions (S "onFailure") d.onFailure with
      | panic s => simp [e3, Res.isPanic] at p3
      | err => rfl
      | ok c =>
        cases e4 : buildHandler o d.functions (S "onCancel") d.onCancel with
        | panic s => simp [e4, Res.isPanic] at p4
        | err => rfl
        | ok e => rfl

theorem buildHandlers_ok (o : Orc) (d : Def) (hs : Handlers) (h : buildHandlers o d = .ok hs) :
    ∀ st ∈ hs.exit.toList ++ hs.success.toList ++ hs.failure.toList ++ hs.cancel.toList, StepGood o st := by
  unfold buildHandlers at h
  cases e1 : buildHandler o d.functions (S "onExit") d.onExit with
  | panic s => simp [e1] at h
  | err => simp [e1] at h
  | ok a =>
    cases e2 : buildHandler o d.functions (S "onSuccess") d.onSuccess with
    | panic s => simp [e1, e2] at h
    | err => simp [e1, e2] at h
    | ok b =>
      cases e3 : buildHandler o d.functions (S "onFailure") d.onFailure with
      | panic s => simp [e1, e2, e3] at h
      | err => simp [e1, e2, e3] at h
      | ok c =>
        cases e4 : buildHandler o d.functions (S "onCancel") d.onCancel with
        | panic s => simp [e1, e2, e3, e4] at h
        | err => simp [e1, e2, e3, e4] at h
        | ok e =>
          simp [e1, e2, e3, e4] at h
          subst h
          intro st hst
          simp only [List.mem_append] at hst
          rcases hst with ((hst | hst) | hst) | hst
          · exact buildHandler_ok o _ _ _ _ e1 st hst
          · exact buildHandler_ok o _ _ _ _ e2 st hst
          · exact buildHandler_ok o _ _ _ _ e3 st hst
          · exact buildHandler_ok o _ _ _ _ e4 st hst

theorem cls_not_panic {α} (r : Res α) (h : r.isPanic = false) : ∀ s, r.cls ≠ some (some s) := by
  cases r <;> simp [Res.cls, Res.isPanic] at h ⊢

theorem cls_ok_or_err {α} (r : Res α) (h : r.isPanic = false) : r.cls = none ∨ r.cls = some none := by
  cases r <;> simp [Res.cls, Res.isPanic] at h ⊢

theorem cls_none {α} [Inhabited α] (r : Res α) (h : r.cls.isSome = false) : r = .ok r.val := by
  cases r <;> simp [Res.cls, Res.val] at h ⊢

theorem firstPanic_none (l : List (Option (Option Site))) (h : ∀ c ∈ l, c = none ∨ c = some none) : firstPanic l = none := by
  induction l with
  | nil => rfl
  | cons c rest ih =>
    have hc := h c List.mem_cons_self
    have hr := ih (fun c' hc' => h c' (List.mem_cons_of_mem _ hc'))
    rcases hc with rfl | rfl <;> simpa [firstPanic] using hr

/-- **no panic**: behind `assertNoNullElements` no stage of the builder can panic — for EVERY definition -/
theorem buildDef_not_panic (o : Orc) (opts : Opts) (d : Def) : (buildDef o opts d).isPanic = false := by
  unfold buildDef
  by_cases hnn : noNullElements d = true
  · simp only [hnn, Bool.not_true, Bool.false_eq_true, if_false]
    simp [noNullElements] at hnn
    obtain ⟨⟨⟨⟨⟨⟨hsteps, hfns⟩, hpre⟩, he⟩, hs⟩, hf⟩, hc⟩ := hnn
    have hfns' : d.functions.all Option.isSome = true := by simpa using hfns
    have p_env : (buildEnvs opts d.env).isPanic = false := by
      unfold buildEnvs; split <;> (try rfl); split <;> rfl
    have p_sched := buildSchedule_not_panic o d.schedule
    have p_steps := buildSteps_not_panic o d.functions hfns' d.steps (by simpa using hsteps)
    have p_hs := buildHandlers_not_panic o d hfns' he hs hf hc
    have p_miscs := buildConditions_not_panic d.preconds hpre
    have p_fns := assertFunctions_not_panic d.functions hfns'
    have hfp : firstPanic (stagesOf o opts d) = none := by
      apply firstPanic_none
      intro c hc
      unfold stagesOf at hc
      simp only [List.mem_append, List.mem_cons, List.mem_nil_iff, or_false] at hc
      rcases hc with (rfl | rfl) | hc
      · exact cls_ok_or_err _ p_env
      · exact cls_ok_or_err _ p_sched
      · cases hm : opts.metadataOnly with
        | true => simp [hm] at hc
        | false =>
          simp only [hm, Bool.false_eq_true, if_false, List.mem_cons, List.mem_nil_iff, or_false] at hc
          rcases hc with rfl | rfl | rfl | rfl
          · exact cls_ok_or_err _ p_steps
          · exact cls_ok_or_err _ p_hs
          · exact cls_ok_or_err _ p_miscs
          · exact cls_ok_or_err _ p_fns
    rw [hfp]
    simp only
    split <;> rfl
  · have : noNullElements d = false := by simpa using hnn
    simp [this, Res.isPanic]

/-- **accepted ⇒ well-formed and serialisable**: every step (handlers included) of an accepted DAG is named,
    has something to execute, a valid stop signal and a JSON-encodable executor config; every schedule parses —
    for EVERY definition -/
theorem buildDef_ok (o : Orc) (opts : Opts) (d : Def) (g : Dag) (h : buildDef o opts d = .ok g) :
    (∀ s ∈ g.allSteps, StepGood o s) ∧ ∀ e ∈ g.starts ++ g.stops ++ g.restarts, o.cronOk e = true ∧ cronPanics e = false := by
  unfold buildDef at h
  by_cases hnn : (!noNullElements d) = true
  · rw [if_pos hnn] at h; cases h
  · rw [if_neg hnn] at h
    cases hfp : firstPanic (stagesOf o opts d) with
    | some s => simp [hfp] at h
    | none =>
      simp only [hfp] at h
      by_cases hany : (stagesOf o opts d).any Option.isSome = true
      · simp [hany] at h
      · simp only [hany, Bool.false_eq_true, if_false] at h
        have hg : g = assemble o opts d := by cases h; rfl
        have hall : ∀ c ∈ stagesOf o opts d, c.isSome = false := by
          intro c hc
          cases hcs : c.isSome with
          | false => rfl
          | true => exact absurd (List.any_eq_true.mpr ⟨c, hc, hcs⟩) hany
        have hsch : (buildSchedule o d.schedule).cls.isSome = false := hall _ (by simp [stagesOf])
        have hsc := buildSchedule_ok o d.schedule _ (cls_none _ hsch)
        cases hm : opts.metadataOnly with
        | true =>
          subst hg
          refine ⟨?_, ?_⟩
          · intro s hs; simp [assemble, hm, Dag.allSteps] at hs
          · simpa [assemble, hm] using hsc
        | false =>
          have hst : (buildSteps o d.functions d.steps).cls.isSome = false := hall _ (by simp [stagesOf, hm])
          have hhs : (buildHandlers o d).cls.isSome = false := hall _ (by simp [stagesOf, hm])
          have g1 := buildSteps_ok o d.functions d.steps _ (cls_none _ hst)
          have g2 := buildHandlers_ok o d _ (cls_none _ hhs)
          subst hg
          refine ⟨?_, ?_⟩
          · intro s hs
            simp only [assemble, hm, Bool.false_eq_true, if_false, Dag.allSteps, List.mem_append] at hs
            rcases hs with (((hs | hs) | hs) | hs) | hs
            · exact g1 s hs
            · exact g2 s (by simp only [List.mem_append]; exact Or.inl (Or.inl (Or.inl hs)))
            · exact g2 s (by simp only [List.mem_append]; exact Or.inl (Or.inl (Or.inr hs)))
            · exact g2 s (by simp only [List.mem_append]; exact Or.inl (Or.inr hs))
            · exact g2 s (by simp only [List.mem_append]; exact Or.inr hs)
          · simpa [assemble, hm] using hsc

end BdModel.Load
