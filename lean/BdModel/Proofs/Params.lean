import BdModel.Params.Items
import BdModel.Params.Output
/-
  Helper lemmas for C11: the tokenizer consumes exactly one rendered item.
-/
namespace BdModel.Params

/-- what may follow an item: the end of the string or the separating space -/
def Sep (t : Str) : Prop := t = [] ∨ ∃ t', t = ' ' :: t'

/-! ### character facts -/
theorem reSpace_quote : reSpace '"' = false := by decide
theorem nameCh_quote : nameCh '"' = true := by decide
theorem nameCh_bs : nameCh '\\' = true := by decide
theorem nameCh_eq : nameCh '=' = false := by decide
theorem nameCh_sp : nameCh ' ' = false := by decide
theorem bareCh_sp : bareCh ' ' = false := by decide

theorem bareCh_ne_quote {c : Char} (h : bareCh c = true) : c ≠ '"' := by
  intro hc; subst hc; revert h; decide

theorem nameCh_of_bare {c : Char} (h : bareCh c = true) (he : (c != '=') = true) : nameCh c = true := by
  unfold bareCh at h; unfold nameCh
  simp only [Bool.and_eq_true] at h ⊢
  exact ⟨h.1, he⟩

/-! ### spanP -/
theorem spanP_append (p : Char → Bool) (a t : Str) (ha : a.all p = true)
    (ht : ∀ c t', t = c :: t' → p c = false) : spanP p (a ++ t) = (a, t) := by
  induction a with
  | nil =>
    cases t with
    | nil => rfl
    | cons c t' => simp [spanP, ht c t' rfl]
  | cons c r ih =>
    simp only [List.all_cons, Bool.and_eq_true] at ha
    simp [spanP, ha.1, ih ha.2]

theorem sep_stop {p : Char → Bool} (hp : p ' ' = false) {t : Str} (ht : Sep t) :
    ∀ c t', t = c :: t' → p c = false := by
  intro c t' h
  rcases ht with h0 | ⟨t'', h1⟩
  · rw [h0] at h; cases h
  · rw [h1] at h; cases h; exact hp

/-! ### esc -/
theorem esc_head (v : Str) : (esc v).head? ≠ some '"' := by
  cases v with
  | nil => simp [esc]
  | cons c r =>
    by_cases h : c = '"'
    · simp [esc, h]
    · simp [esc, h]

theorem endsBS_tail {c : Char} {v : Str} (h : endsBS (c :: v) = false) : endsBS v = false := by
  cases v with
  | nil => rfl
  | cons d r => simpa [endsBS] using h

/-- the quoted alternative reads exactly the escaped value and stops at its closing quote -/
theorem scanQ_esc (v : Str) : ∀ (e : Bool) (t : Str), endsBS v = false → (e = true → v ≠ []) →
    scanQ e (esc v ++ '"' :: t) = some (esc v, t) := by
  induction v with
  | nil =>
    intro e t _ he
    have : e = false := by
      cases e with
      | false => rfl
      | true => exact absurd rfl (he rfl)
    subst this
    simp [esc, scanQ]
  | cons c r ih =>
    intro e t hbs _
    have hr := endsBS_tail hbs
    by_cases hc : c = '"'
    · subst hc
      have := ih false t hr (by intro h; cases h)
      simp [esc, scanQ, this]
    · have hne : (decide (c = '\\') = true → r ≠ []) := by
        intro h hnil
        subst hnil
        simp [endsBS] at hbs
        simp at h
        exact hbs h
      have := ih (decide (c = '\\')) t hr hne
      simp [esc, hc, scanQ, this]

theorem valueAt_quoted (v t : Str) (h : endsBS v = false) :
    valueAt ('"' :: (esc v ++ '"' :: t)) = some ('"' :: (esc v ++ ['"']), t) := by
  have := scanQ_esc v false t h (by intro h; cases h)
  simp [valueAt, this]

/-! ### unquote -/
theorem esc_ne (v : Str) (h : v ≠ []) : esc v ≠ [] := by
  cases v with
  | nil => exact absurd rfl h
  | cons c r => by_cases hc : c = '"' <;> simp [esc, hc]

theorem replaceEsc_esc (v : Str) : replaceEsc (esc v) = v := by
  induction v with
  | nil => rfl
  | cons c r ih =>
    by_cases hc : c = '"'
    · subst hc
      simp [esc, replaceEsc, ih]
    · have hh := esc_head r
      cases hr : esc r with
      | nil =>
        have : r = [] := by
          cases r with
          | nil => rfl
          | cons d r' => exact absurd hr (esc_ne _ (by simp))
        subst this
        simp [esc, hc, replaceEsc]
      | cons d r' =>
        rw [hr] at hh ih
        have hd : d ≠ '"' := by
          intro h; subst h; simp at hh
        simp only [esc, hc, if_false, hr]
        simp [replaceEsc, hd, ih]

theorem unquote_quoted (v : Str) : unquote ('"' :: (esc v ++ ['"'])) = v := by
  simp only [unquote, if_true, stripEnds, List.drop_succ_cons, List.drop_zero]
  rw [List.dropLast_concat, replaceEsc_esc]

theorem unquote_word (w : Str) (h : wordOk w = true) : unquote w = w := by
  cases w with
  | nil => rfl
  | cons c r =>
    have hc : c ≠ '"' := by
      simp only [wordOk, Bool.and_eq_true, List.all_cons] at h
      exact bareCh_ne_quote h.1.2.1
    simp [unquote, hc]

/-! ### one match attempt on one rendered item -/
theorem valueAt_word (w t : Str) (h : wordOk w = true) (ht : Sep t) : valueAt (w ++ t) = some (w, t) := by
  cases w with
  | nil => simp [wordOk] at h
  | cons c r =>
    simp only [wordOk, Bool.and_eq_true] at h
    obtain ⟨⟨_, hall⟩, hhead⟩ := h
    have hc : c ≠ '"' := by
      simp only [List.all_cons, Bool.and_eq_true] at hall
      exact bareCh_ne_quote hall.1
    have hb : c ≠ '`' := by
      intro hb; subst hb; simp at hhead
    have hsp := spanP_append bareCh (c :: r) t hall (sep_stop bareCh_sp ht)
    have : valueAt (c :: r ++ t) = bareAt (c :: r ++ t) := by
      simp [valueAt, hc, hb]
    rw [this]
    simp only [List.cons_append] at hsp ⊢
    simp [bareAt, hsp]

theorem noName_of (s : Str) (hs : ∀ r', (spanP nameCh s).2 ≠ '=' :: r') : matchAt s = noName s := by
  unfold matchAt
  split
  · rfl
  · split
    · rfl
    · next e r' heq =>
      by_cases he : e = '='
      · subst he; exact absurd heq (hs r')
      · simp [he]

theorem matchAt_space (s : Str) : matchAt (' ' :: s) = none := by
  have h1 : (spanP nameCh (' ' :: s)).1 = [] := by simp [spanP, nameCh_sp]
  have h2 : valueAt (' ' :: s) = none := by
    have : (spanP bareCh (' ' :: s)).1 = [] := by simp [spanP, bareCh_sp]
    have hq : (' ' : Char) ≠ '"' := by decide
    have hb : (' ' : Char) ≠ '`' := by decide
    simp [valueAt, hq, hb, bareAt, this]
  simp [matchAt, h1, noName, h2]

theorem spanP_name_esc (v t : Str) (h : eqFirst v = false) (ht : Sep t) :
    ∀ r', (spanP nameCh (esc v ++ '"' :: t)).2 ≠ '=' :: r' := by
  induction v with
  | nil =>
    intro r'
    rcases ht with h0 | ⟨t', h1⟩
    · subst h0; simp [esc, spanP, nameCh_quote]
    · subst h1; simp [esc, spanP, nameCh_quote, nameCh_sp]
  | cons c r ih =>
    intro r'
    simp only [eqFirst] at h
    by_cases hce : c = '='
    · simp [hce] at h
    · simp only [hce, if_false] at h
      by_cases hsp : reSpace c = true
      · have hcq : c ≠ '"' := by
          intro hq; subst hq; simp [reSpace_quote] at hsp
        have hn : nameCh c = false := by simp [nameCh, hsp]
        simp [esc, hcq, spanP, hn, hce]
      · simp only [hsp, if_false] at h
        have hn : nameCh c = true := by
          simp only [Bool.not_eq_true] at hsp
          simp [nameCh, hsp, hce]
        by_cases hcq : c = '"'
        · simp [esc, hcq, spanP, nameCh_bs, nameCh_quote]
          exact ih h r'
        · simp [esc, hcq, spanP, hn]
          exact ih h r'

theorem matchAt_quoted (v t : Str) (hbs : endsBS v = false) (heq : eqFirst v = false) (ht : Sep t) :
    matchAt ('"' :: (esc v ++ '"' :: t)) = some ([], '"' :: (esc v ++ ['"']), t) := by
  have hs : ∀ r', (spanP nameCh ('"' :: (esc v ++ '"' :: t))).2 ≠ '=' :: r' := by
    intro r'
    simp only [spanP, nameCh_quote, if_true]
    exact spanP_name_esc v t heq ht r'
  rw [noName_of _ hs]
  simp [noName, valueAt_quoted v t hbs]

theorem matchAt_bare (w t : Str) (hw : wordOk w = true) (hne : w.all (· != '=') = true) (ht : Sep t) :
    matchAt (w ++ t) = some ([], w, t) := by
  have hall : w.all nameCh = true := by
    simp only [wordOk, Bool.and_eq_true] at hw
    rw [List.all_eq_true] at hne ⊢
    have hb := hw.1.2
    rw [List.all_eq_true] at hb
    intro c hc
    exact nameCh_of_bare (hb c hc) (hne c hc)
  have hsp := spanP_append nameCh w t hall (sep_stop nameCh_sp ht)
  have hs : ∀ r', (spanP nameCh (w ++ t)).2 ≠ '=' :: r' := by
    intro r'
    rw [hsp]
    rcases ht with h0 | ⟨t', h1⟩
    · subst h0; simp
    · subst h1; simp
  rw [noName_of _ hs]
  simp [noName, valueAt_word w t hw ht]

theorem matchAt_named (n val t : Str) (raw : Str) (hn : nameOk n = true)
    (hv : valueAt (val ++ t) = some (raw, t)) :
    matchAt (n ++ '=' :: (val ++ t)) = some (n, raw, t) := by
  simp only [nameOk, Bool.and_eq_true] at hn
  have hsp := spanP_append nameCh n ('=' :: (val ++ t)) hn.2
    (by intro c t' h; cases h; exact nameCh_eq)
  have hne : n ≠ [] := by simpa using hn.1
  simp [matchAt, hsp, hne, hv]

/-! ### the FindAll loop -/
theorem tokenizeFuel_some (n : Nat) (s : Str) (hs : s ≠ []) (nm raw rest : Str)
    (h : matchAt s = some (nm, raw, rest)) : tokenizeFuel (n + 1) s = (nm, raw) :: tokenizeFuel n rest := by
  cases s with
  | nil => exact absurd rfl hs
  | cons c r => simp [tokenizeFuel, h]

theorem tokenizeFuel_space (n : Nat) (s : Str) : tokenizeFuel (n + 1) (' ' :: s) = tokenizeFuel n s := by
  simp [tokenizeFuel, matchAt_space]

theorem tokenizeFuel_nil (n : Nat) : tokenizeFuel n [] = [] := by
  cases n <;> rfl

/-- raw text the tokenizer reports for an item -/
def Item.raw : Item → Str
  | .bare w => w
  | .quoted v => '"' :: (esc v ++ ['"'])
  | .named _ w => w
  | .namedQ _ v => '"' :: (esc v ++ ['"'])

/-- requirement under which ONE match attempt reads exactly the item (well-formed, and for an unnamed
    quoted value no '=' before the first white space) -/
def Item.lexOk : Item → Bool
  | .quoted v => !endsBS v && !eqFirst v
  | i => i.ok

theorem matchAt_item (i : Item) (t : Str) (hi : i.lexOk = true) (ht : Sep t) :
    matchAt (i.render ++ t) = some (i.intended.1, i.raw, t) := by
  cases i with
  | bare w =>
    simp only [Item.lexOk, Item.ok, Bool.and_eq_true] at hi
    exact matchAt_bare w t hi.1 hi.2 ht
  | quoted v =>
    simp only [Item.lexOk, Bool.and_eq_true, Bool.not_eq_true'] at hi
    have := matchAt_quoted v t hi.1 hi.2 ht
    simpa [Item.render, Item.intended, Item.raw] using this
  | named n w =>
    simp only [Item.lexOk, Item.ok, Bool.and_eq_true] at hi
    have := matchAt_named n w t w hi.1 (valueAt_word w t hi.2 ht)
    simpa [Item.render, Item.intended, Item.raw] using this
  | namedQ n v =>
    simp only [Item.lexOk, Item.ok, Bool.and_eq_true, Bool.not_eq_true'] at hi
    have hv := valueAt_quoted v t hi.2
    have := matchAt_named n ('"' :: (esc v ++ ['"'])) t ('"' :: (esc v ++ ['"'])) hi.1 (by simpa using hv)
    simpa [Item.render, Item.intended, Item.raw] using this

theorem render_item_ne (i : Item) (hi : i.lexOk = true) : i.render ≠ [] := by
  cases i with
  | bare w =>
    simp only [Item.lexOk, Item.ok, wordOk, Bool.and_eq_true] at hi
    simpa [Item.render] using hi.1.1.1
  | quoted v => simp [Item.render]
  | named n w => simp [Item.render]
  | namedQ n v => simp [Item.render]

/-- **the tokenizer reads a rendered item list item by item** (any sufficient fuel) -/
theorem tokenizeFuel_render (is : List Item) : ∀ (n : Nat), (∀ i ∈ is, i.lexOk = true) →
    (render is).length + 1 ≤ n → tokenizeFuel n (render is) = is.map (fun i => (i.intended.1, i.raw)) := by
  induction is with
  | nil => intro n _ _; simp [render, tokenizeFuel_nil]
  | cons i r ih =>
    intro n hall hn
    have hi := hall i (by simp)
    have hne := render_item_ne i hi
    cases r with
    | nil =>
      cases n with
      | zero => omega
      | succ n' =>
        have hm := matchAt_item i [] hi (Or.inl rfl)
        simp only [List.append_nil] at hm
        simp only [render]
        rw [tokenizeFuel_some n' _ hne _ _ _ hm, tokenizeFuel_nil]
        simp
    | cons j r' =>
      have hlen : (render (i :: j :: r')).length = i.render.length + 1 + (render (j :: r')).length := by
        simp [render]; omega
      have hpos : 0 < i.render.length := List.length_pos_iff.mpr hne
      cases n with
      | zero => omega
      | succ n' =>
        cases n' with
        | zero => omega
        | succ n'' =>
          have hm := matchAt_item i (' ' :: render (j :: r')) hi (Or.inr ⟨_, rfl⟩)
          have hne' : i.render ++ ' ' :: render (j :: r') ≠ [] := by simp [hne]
          simp only [render]
          rw [tokenizeFuel_some (n'' + 1) _ hne' _ _ _ hm, tokenizeFuel_space]
          rw [ih n'' (fun k hk => hall k (by simp [hk])) (by omega)]
          simp

theorem unquote_item (i : Item) (hi : i.ok = true) (hs : i.safe = true) : unquote i.raw = i.intended.2 := by
  cases i with
  | bare w =>
    simp only [Item.ok, Bool.and_eq_true] at hi
    exact unquote_word w hi.1
  | quoted v => exact unquote_quoted v
  | named n w =>
    simp only [Item.ok, Bool.and_eq_true] at hi
    exact unquote_word w hi.2
  | namedQ n v => exact unquote_quoted v

theorem lexOk_of (i : Item) (hi : i.ok = true) (hs : i.safe = true) : i.lexOk = true := by
  cases i with
  | quoted v =>
    simp only [Item.ok, Bool.not_eq_true'] at hi
    simp only [Item.safe, Bool.not_eq_true'] at hs
    simp [Item.lexOk, hi, hs]
  | bare w => exact hi
  | named n w => exact hi
  | namedQ n v => exact hi

/-- parse ∘ render = intended on the safe region -/
theorem parse_render (is : List Item) (hok : ∀ i ∈ is, i.ok = true) (hsafe : ∀ i ∈ is, i.safe = true) :
    parse (render is) = intended is := by
  have ht := tokenizeFuel_render is ((render is).length + 1)
    (fun i hi => lexOk_of i (hok i hi) (hsafe i hi)) (Nat.le_refl _)
  simp only [parse, tokenize, ht, intended, List.map_map]
  apply List.map_congr_left
  intro i hi
  simp [Function.comp, unquote_item i (hok i hi) (hsafe i hi)]

/-! ### model.Params (`join`) of stringified pairs is `render` of items -/
theorem splitName_named (n v : Str) (hn : nameOk n = true) : splitName (n ++ '=' :: v) = (n ++ ['='], v) := by
  simp only [nameOk, Bool.and_eq_true] at hn
  have hsp := spanP_append nameCh n ('=' :: v) hn.2 (by intro c t' h; cases h; exact nameCh_eq)
  have hne : n ≠ [] := by simpa using hn.1
  simp [splitName, hsp, hne]

theorem spanP_name_noeq (v : Str) (h : eqFirst v = false) : ∀ r', (spanP nameCh v).2 ≠ '=' :: r' := by
  induction v with
  | nil => intro r'; simp [spanP]
  | cons c r ih =>
    intro r'
    simp only [eqFirst] at h
    by_cases hce : c = '='
    · simp [hce] at h
    · simp only [hce, if_false] at h
      by_cases hsp : reSpace c = true
      · have hn : nameCh c = false := by simp [nameCh, hsp]
        simp [spanP, hn, hce]
      · simp only [hsp, if_false] at h
        have hn : nameCh c = true := by
          simp only [Bool.not_eq_true] at hsp
          simp [nameCh, hsp, hce]
        simp only [spanP, hn, if_true]
        exact ih h r'

theorem splitName_none (v : Str) (h : ∀ r', (spanP nameCh v).2 ≠ '=' :: r') : splitName v = ([], v) := by
  unfold splitName
  split
  · next e r heq =>
    by_cases he : e = '='
    · subst he; exact absurd heq (h r)
    · simp [he]
  · rfl

theorem wordNoEq_all_nameCh (w : Str) (hw : wordOk w = true) (hne : w.all (· != '=') = true) : w.all nameCh = true := by
  simp only [wordOk, Bool.and_eq_true] at hw
  rw [List.all_eq_true] at hne ⊢
  have hb := hw.1.2
  rw [List.all_eq_true] at hb
  intro c hc
  exact nameCh_of_bare (hb c hc) (hne c hc)

theorem needsQuote_of_word (w : Str) (hw : wordOk w = true) : needsQuote w = false := by
  simp only [wordOk, Bool.and_eq_true] at hw
  obtain ⟨⟨h1, h2⟩, _⟩ := hw
  have hne : w ≠ [] := by simpa using h1
  rw [List.all_eq_true] at h2
  simp only [needsQuote, Bool.or_eq_false_iff, decide_eq_false_iff_not]
  refine ⟨hne, ?_⟩
  rw [Bool.eq_false_iff]
  intro hany
  rw [List.any_eq_true] at hany
  obtain ⟨c, hc, hcc⟩ := hany
  have hb := h2 c hc
  simp only [bareCh, Bool.and_eq_true, Bool.not_eq_true', bne_iff_ne, ne_eq] at hb
  simp [hb.1, hb.2] at hcc

/-- the recorded text of a pair is the rendering of its item -/
theorem quoteEntry_stringify (pr : Str × Str) (h : roundOk pr = true) : quoteEntry (stringify pr) = (toItem pr).render := by
  obtain ⟨n, v⟩ := pr
  simp only [roundOk, Bool.and_eq_true, Bool.or_eq_true, decide_eq_true_eq] at h
  obtain ⟨hn, hv⟩ := h
  by_cases hn0 : n = []
  · subst hn0
    by_cases hq : needsQuote v = true
    · simp only [hq, if_true, Bool.and_eq_true, Bool.not_eq_true', Bool.or_eq_true, bne_iff_ne, ne_eq, not_true_eq_false,
        false_or] at hv
      have hs := splitName_none v (spanP_name_noeq v hv.2)
      simp [quoteEntry, stringify, toItem, hs, hq, Item.render]
    · simp only [hq, if_false, Bool.false_eq_true] at hv
      have hst : wordOk v = true ∧ v.all (· != '=') = true := by simpa [stable] using hv
      have hall := wordNoEq_all_nameCh v hst.1 hst.2
      have hsp := spanP_append nameCh v [] hall (by intro c t' h; cases h)
      have hs : splitName v = ([], v) := by
        apply splitName_none
        intro r'
        simp only [List.append_nil] at hsp
        simp [hsp]
      simp [quoteEntry, stringify, toItem, hs, hq, Item.render]
  · have hnok : nameOk n = true := by
      rcases hn with h | h
      · exact absurd h hn0
      · exact h
    have hs := splitName_named n v hnok
    by_cases hq : needsQuote v = true
    · simp [quoteEntry, stringify, toItem, hn0, hs, hq, Item.render]
    · simp [quoteEntry, stringify, toItem, hn0, hs, hq, Item.render]

theorem toItem_ok (pr : Str × Str) (h : roundOk pr = true) : (toItem pr).ok = true ∧ (toItem pr).safe = true := by
  obtain ⟨n, v⟩ := pr
  simp only [roundOk, Bool.and_eq_true, Bool.or_eq_true, decide_eq_true_eq] at h
  obtain ⟨hn, hv⟩ := h
  by_cases hq : needsQuote v = true
  · simp only [hq, if_true, Bool.and_eq_true, Bool.not_eq_true', Bool.or_eq_true, bne_iff_ne, ne_eq] at hv
    by_cases hn0 : n = []
    · subst hn0
      have he : eqFirst v = false := by
        rcases hv.2 with h | h
        · exact absurd rfl h
        · exact h
      simp [toItem, hq, Item.ok, Item.safe, hv.1, he]
    · have hnok : nameOk n = true := by
        rcases hn with h | h
        · exact absurd h hn0
        · exact h
      simp [toItem, hq, hn0, Item.ok, Item.safe, hv.1, hnok]
  · simp only [hq, if_false, Bool.false_eq_true] at hv
    by_cases hn0 : n = []
    · subst hn0
      have hst : wordOk v = true ∧ v.all (· != '=') = true := by simpa [stable] using hv
      simp [toItem, hq, Item.ok, Item.safe, hst.1, hst.2]
    · have hst : nameOk n = true ∧ wordOk v = true := by simpa [stable, hn0] using hv
      simp [toItem, hq, hn0, Item.ok, Item.safe, hst.1, hst.2]

theorem toItem_intended (pr : Str × Str) : (toItem pr).intended = pr := by
  obtain ⟨n, v⟩ := pr
  unfold toItem
  by_cases hq : needsQuote v = true <;> by_cases h1 : n = [] <;> simp [hq, h1, Item.intended]

theorem render_toItem (ps : List (Str × Str)) (h : ∀ pr ∈ ps, roundOk pr = true) :
    render (ps.map toItem) = join (ps.map stringify) := by
  unfold join
  induction ps with
  | nil => rfl
  | cons a r ih =>
    have ha := quoteEntry_stringify a (h a (by simp))
    have ihr := ih (fun pr hp => h pr (by simp [hp]))
    cases r with
    | nil => simp [render, joinSp, ha]
    | cons b r' =>
      simp only [List.map_cons, render, joinSp] at ihr ⊢
      rw [ha, ihr]

/-- pairs satisfying `roundOk` survive model.Params + re-parse -/
theorem parse_join_roundOk (ps : List (Str × Str)) (h : ∀ pr ∈ ps, roundOk pr = true) :
    parse (join (ps.map stringify)) = ps := by
  rw [← render_toItem ps h]
  rw [parse_render (ps.map toItem)
    (by intro i hi; rw [List.mem_map] at hi; obtain ⟨pr, hp, rfl⟩ := hi; exact (toItem_ok pr (h pr hp)).1)
    (by intro i hi; rw [List.mem_map] at hi; obtain ⟨pr, hp, rfl⟩ := hi; exact (toItem_ok pr (h pr hp)).2)]
  simp only [intended, List.map_map]
  conv => rhs; rw [← List.map_id ps]
  apply List.map_congr_left
  intro pr _
  simp [Function.comp, toItem_intended]

/-! ### start path: quotes added by the client are removed by `start` -/
theorem getLast?_snoc (s : Str) (c : Char) : (s ++ [c]).getLast? = some c := by simp

theorem removeQuotes_wrap (s : Str) : removeQuotes ('"' :: (s ++ ['"'])) = s := by
  simp [removeQuotes]

theorem escapeArg_id (p : Str) (h : ∀ c ∈ p, c ≠ '\r' ∧ c ≠ '\n') : escapeArg p = p := by
  induction p with
  | nil => rfl
  | cons c r ih =>
    have hc := h c (by simp)
    simp [escapeArg, hc.1, hc.2, ih (fun d hd => h d (by simp [hd]))]

/-! ### output capture -/
theorem dropTrailSp_spec (s : Str) : ∃ post, s = dropTrailSp s ++ post ∧ post.all goSpace = true ∧
    (∀ c, (dropTrailSp s).getLast? = some c → goSpace c = false) := by
  induction s with
  | nil => exact ⟨[], rfl, rfl, by simp [dropTrailSp]⟩
  | cons c r ih =>
    obtain ⟨post, h1, h2, h3⟩ := ih
    by_cases hc : dropTrailSp r = [] ∧ goSpace c = true
    · refine ⟨c :: post, ?_, ?_, ?_⟩
      · simp only [dropTrailSp, hc.1, hc.2, and_self, if_true, List.nil_append]
        rw [hc.1] at h1
        simpa using h1
      · simp [hc.2, h2]
      · simp [dropTrailSp, hc.1, hc.2]
    · refine ⟨post, ?_, h2, ?_⟩
      · simp only [dropTrailSp, hc, if_false, List.cons_append]
        rw [← h1]
      · intro d hd
        simp only [dropTrailSp, hc, if_false] at hd
        cases hr : dropTrailSp r with
        | nil =>
          rw [hr] at hd
          simp at hd
          subst hd
          simp only [hr, true_and] at hc
          simpa using hc
        | cons e r' =>
          rw [hr] at hd h3
          rw [List.getLast?_cons_cons] at hd
          exact h3 d hd

theorem dropWhile_spec (s : Str) : ∃ pre, s = pre ++ s.dropWhile goSpace ∧ pre.all goSpace = true ∧
    (∀ c, (s.dropWhile goSpace).head? = some c → goSpace c = false) := by
  induction s with
  | nil => exact ⟨[], rfl, rfl, by simp⟩
  | cons c r ih =>
    obtain ⟨pre, h1, h2, h3⟩ := ih
    by_cases hc : goSpace c = true
    · refine ⟨c :: pre, ?_, ?_, ?_⟩
      · simp only [List.dropWhile_cons, hc, if_true, List.cons_append]; rw [← h1]
      · simp [hc, h2]
      · simpa [List.dropWhile_cons, hc] using h3
    · refine ⟨[], ?_, rfl, ?_⟩
      · simp [List.dropWhile_cons, hc]
      · intro d hd
        simp [List.dropWhile_cons, hc] at hd
        subst hd
        simpa using hc

theorem restore_stored (name out : Str') : restore name (stored name out) = capture out := by
  simp [restore, stored, List.drop_append]

theorem get_store_same (m : OutMap) (k v : Str') : (m.store k v).get k = some v := by
  induction m with
  | nil => simp [OutMap.store, OutMap.get]
  | cons a r ih =>
    obtain ⟨k', v'⟩ := a
    by_cases h : k' = k
    · simp [OutMap.store, OutMap.get, h]
    · simp [OutMap.store, OutMap.get, h, ih]

theorem get_store_other (m : OutMap) (k k2 v : Str') (h : k2 ≠ k) : (m.store k2 v).get k = m.get k := by
  induction m with
  | nil => simp [OutMap.store, OutMap.get, h]
  | cons a r ih =>
    obtain ⟨k', v'⟩ := a
    by_cases h1 : k' = k2
    · subst h1
      simp [OutMap.store, OutMap.get, h]
    · by_cases h2 : k' = k
      · subst h2
        simp [OutMap.store, OutMap.get, h1]
      · simp [OutMap.store, OutMap.get, h1, h2, ih]

theorem afterSteps_keeps (later : List Done) : ∀ (m : OutMap) (k v : Str'), m.get k = some v →
    (∀ d ∈ later, d.name ≠ k) → (afterSteps m later).get k = some v := by
  induction later with
  | nil => intro m k v h _; exact h
  | cons d r ih =>
    intro m k v h hl
    have hd := hl d (by simp)
    simp only [afterSteps]
    apply ih _ k v _ (fun e he => hl e (by simp [he]))
    by_cases hn : d.name = []
    · simp [hn, h]
    · simp only [hn, if_false]
      rw [get_store_other _ _ _ _ hd]
      exact h

end BdModel.Params
