import BdModel.Hist.Store
/- helper lemmas for C06/C07/C18: insertion sort, queries, frame lemmas of the store operations -/
namespace BdModel.Hist

/-! ### insertion sort -/

theorem insertBy_perm (lt : RunFile → RunFile → Bool) (x : RunFile) (l : List RunFile) :
    (insertBy lt x l).Perm (x :: l) := by
  induction l with
  | nil => simp [insertBy]
  | cons y ys ih =>
    simp only [insertBy]
    split
    · exact List.Perm.refl _
    · exact (List.Perm.cons y ih).trans (List.Perm.swap x y ys)

theorem foldl_insertBy_perm (lt : RunFile → RunFile → Bool) (l acc : List RunFile) :
    (l.foldl (fun acc x => insertBy lt x acc) acc).Perm (l ++ acc) := by
  induction l generalizing acc with
  | nil => simp
  | cons x xs ih =>
    simp only [List.foldl_cons]
    refine (ih _).trans ?_
    refine (List.Perm.append_left xs (insertBy_perm lt x acc)).trans ?_
    simp

theorem sortBy_perm (lt : RunFile → RunFile → Bool) (l : List RunFile) : (sortBy lt l).Perm l := by
  simpa [sortBy] using foldl_insertBy_perm lt l []

theorem mem_sortBy {lt : RunFile → RunFile → Bool} {l : List RunFile} {f : RunFile} : f ∈ sortBy lt l ↔ f ∈ l :=
  (sortBy_perm lt l).mem_iff

/-- "newest first": stamps never increase along the list -/
def Desc (l : List RunFile) : Prop := l.Pairwise (fun a b => b.stamp ≤ a.stamp)

/-- the comparator of `filterLatest` (name order, descending) respects the start time -/
theorem nameLt_stamp {a b : RunFile} (h : nameLt b a = true) : b.stamp ≤ a.stamp := by
  simp only [nameLt, Bool.or_eq_true, Bool.and_eq_true, decide_eq_true_eq, beq_iff_eq] at h
  rcases h with h | h
  · omega
  · omega

theorem not_nameLt_stamp {a b : RunFile} (h : ¬ nameLt b a = true) : a.stamp ≤ b.stamp := by
  simp only [nameLt, Bool.or_eq_true, Bool.and_eq_true, decide_eq_true_eq, beq_iff_eq, not_or] at h
  omega

theorem insertBy_desc (x : RunFile) (l : List RunFile) (h : Desc l) :
    Desc (insertBy (fun a b => nameLt b a) x l) := by
  induction l with
  | nil => simp [insertBy, Desc]
  | cons y ys ih =>
    simp only [insertBy]
    have hy := List.pairwise_cons.mp h
    split
    · rename_i hlt
      have hlt' : y.stamp ≤ x.stamp := nameLt_stamp hlt
      refine List.pairwise_cons.mpr ⟨?_, h⟩
      intro z hz
      rcases List.mem_cons.mp hz with rfl | hz
      · exact hlt'
      · have := hy.1 z hz; omega
    · rename_i hlt
      have hge : x.stamp ≤ y.stamp := not_nameLt_stamp hlt
      refine List.pairwise_cons.mpr ⟨?_, ih hy.2⟩
      intro z hz
      rcases List.mem_cons.mp ((insertBy_perm _ x ys).mem_iff.mp hz) with rfl | hz
      · exact hge
      · exact hy.1 z hz

theorem foldl_insertBy_desc (l acc : List RunFile) (h : Desc acc) :
    Desc (l.foldl (fun acc x => insertBy (fun a b => nameLt b a) x acc) acc) := by
  induction l generalizing acc with
  | nil => simpa
  | cons x xs ih => exact ih _ (insertBy_desc x acc h)

theorem newestFirst_desc (l : List RunFile) : Desc (newestFirst l) := by
  unfold newestFirst sortBy
  exact foldl_insertBy_desc l [] List.Pairwise.nil

theorem mem_newestFirst {l : List RunFile} {f : RunFile} : f ∈ newestFirst l ↔ f ∈ l := mem_sortBy

theorem mem_glob {s : Store} {d : Nat} {f : RunFile} : f ∈ glob s d ↔ f ∈ s.files ∧ f.dag = d := by
  unfold glob
  rw [mem_sortBy, List.mem_filter]
  simp

/-! ### first hit of a `filterMap` over a newest-first list -/

theorem head_filterMap_desc {α} (p : RunFile → Option α) (l : List RunFile) (hd : Desc l) (a : α)
    (h : (l.filterMap p).head? = some a) :
    ∃ f ∈ l, p f = some a ∧ ∀ g ∈ l, (p g).isSome → g.stamp ≤ f.stamp := by
  induction l with
  | nil => simp at h
  | cons y ys ih =>
    have hy := List.pairwise_cons.mp hd
    cases hp : p y with
    | some b =>
      rw [List.filterMap_cons_some hp] at h
      simp at h
      subst h
      refine ⟨y, by simp, hp, ?_⟩
      intro g hg _
      rcases List.mem_cons.mp hg with rfl | hg
      · exact Nat.le_refl _
      · exact hy.1 g hg
    | none =>
      rw [List.filterMap_cons_none hp] at h
      obtain ⟨f, hf, hpf, hall⟩ := ih hy.2 h
      refine ⟨f, List.mem_cons_of_mem _ hf, hpf, ?_⟩
      intro g hg hs
      rcases List.mem_cons.mp hg with rfl | hg
      · simp [hp] at hs
      · exact hall g hg hs

theorem head_filterMap_none {α} (p : RunFile → Option α) (l : List RunFile) :
    (l.filterMap p).head? = none ↔ ∀ g ∈ l, p g = none := by
  rw [List.head?_eq_none_iff, List.filterMap_eq_nil_iff]

end BdModel.Hist

namespace BdModel.Hist

/-! ### what a query depends on -/

/-- the files of one DAG (its directory), in store order -/
def filesOf (s : Store) (d : Nat) : List RunFile := s.files.filter (fun f => f.dag == d)

theorem glob_eq (s : Store) (d : Nat) : glob s d = sortBy nameLt (filesOf s d) := rfl

theorem queries_congr {s s' : Store} {d : Nat} (h : filesOf s' d = filesOf s d) :
    (∀ r, find s' d r = find s d r) ∧ latest s' d = latest s d ∧ ∀ n, recent s' d n = recent s d n := by
  have hg : glob s' d = glob s d := by rw [glob_eq, glob_eq, h]
  refine ⟨fun r => ?_, ?_, fun n => ?_⟩ <;> simp [find, latest, recent, hg]

/-! ### operations as data, and the DAGs an operation may touch -/

inductive Op
  | openRun (w d t r8 : Nat)
  | write (w : Nat) (l : Line)
  | close (w : Nat)
  | update (d : Nat) (l : Line)
  | removeOld (d days : Nat)
  | age (d days : Nat)
  | rename (d d2 : Nat)

def apply (s : Store) : Op → Store
  | .openRun w d t r8 => openRun s w d t r8
  | .write w l => write s w l
  | .close w => close s w
  | .update d l => (update s d l).1
  | .removeOld d days => removeOld s d days
  | .age d days => ageFiles s d days
  | .rename d d2 => rename s d d2

def touches (s : Store) : Op → List Nat
  | .openRun _ d _ _ => [d]
  | .write w _ => ((writerKey s w).map (·.dag)).toList
  | .close w => ((writerKey s w).map (·.dag)).toList
  | .update d _ => [d]
  | .removeOld d _ => [d]
  | .age d _ => [d]
  | .rename d d2 => [d, d2]

theorem filesOf_modifyFile (s : Store) (k : Key) (g : RunFile → RunFile) (d' : Nat)
    (hg : ∀ f, (g f).dag = f.dag) (hk : k.dag ≠ d') :
    filesOf (modifyFile s k g) d' = filesOf s d' := by
  unfold filesOf modifyFile
  simp only
  induction s.files with
  | nil => rfl
  | cons f fs ih =>
    simp only [List.map_cons, List.filter_cons]
    by_cases hf : f.key = k
    · have hd : f.dag ≠ d' := by
        have : f.dag = k.dag := by rw [← hf]; rfl
        rw [this]; exact hk
      have hd2 : (g f).dag ≠ d' := by rw [hg]; exact hd
      simp [hf, hd, hd2, ih]
    · simp [hf, ih]

theorem filesOf_appendLine (s : Store) (k : Key) (l : Line) (d' : Nat) (hk : k.dag ≠ d') :
    filesOf (appendLine s k l) d' = filesOf s d' :=
  filesOf_modifyFile s k _ d' (fun _ => rfl) hk

theorem find_dag {s : Store} {d r : Nat} {f : RunFile} {l : Line} (h : find s d r = some (f, l)) :
    f ∈ s.files ∧ f.dag = d ∧ parse f = some l ∧ l.req = r := by
  unfold find at h
  have hm := List.mem_of_mem_head? h
  rw [List.mem_filterMap] at hm
  obtain ⟨g, hg, hb⟩ := hm
  rw [List.mem_reverse, mem_glob] at hg
  cases hp : parse g with
  | none => simp [hp] at hb
  | some l' =>
    simp only [hp, Option.bind_some] at hb
    split at hb
    · rename_i hr
      simp at hb
      obtain ⟨rfl, rfl⟩ := hb
      exact ⟨hg.1, hg.2, hp, hr⟩
    · simp at hb

/-- **frame**: an operation changes the files of the DAGs it touches and of no other DAG -/
theorem filesOf_apply (s : Store) (op : Op) (d' : Nat) (h : d' ∉ touches s op) :
    filesOf (apply s op) d' = filesOf s d' := by
  cases op with
  | openRun w d t r8 =>
    have hd : d ≠ d' := by simpa [touches, eq_comm] using h
    simp only [apply, openRun, filesOf]
    split
    · rfl
    · simp [List.filter_append, hd]
  | write w l =>
    simp only [apply, write]
    cases hw : writerKey s w with
    | none => rfl
    | some k =>
      have hd : k.dag ≠ d' := by simpa [touches, hw, eq_comm] using h
      exact filesOf_appendLine s k l d' hd
  | close w =>
    simp only [apply, close]
    cases hw : writerKey s w with
    | none => rfl
    | some k =>
      have hd : k.dag ≠ d' := by simpa [touches, hw, eq_comm] using h
      simp only
      split
      · rfl
      · rename_i l _
        have hfil : ∀ (fs : List RunFile), (fs.filter (fun f => f.key != k)).filter (fun f => f.dag == d') =
            fs.filter (fun f => f.dag == d') := by
          intro fs
          rw [List.filter_filter]
          apply List.filter_congr
          intro f _
          by_cases hfd : f.dag = d'
          · have : f.key ≠ k := by
              intro hk; apply hd; rw [← hk]; exact hfd
            simp [hfd, this]
          · simp [hfd]
        split
        · simp only [filesOf]
          rw [hfil]
          exact filesOf_appendLine _ _ l d' (by simpa using hd)
        · simp only [filesOf]
          rw [hfil]
          simp [List.filter_append, hd]
  | update d l =>
    have hd : d ≠ d' := by simpa [touches, eq_comm] using h
    simp only [apply, update]
    cases hf : find s d l.req with
    | none => rfl
    | some p =>
      obtain ⟨f, l'⟩ := p
      have := (find_dag hf).2.1
      exact filesOf_appendLine s f.key l d' (by show f.dag ≠ d'; rw [this]; exact hd)
  | removeOld d days =>
    have hd : d ≠ d' := by simpa [touches, eq_comm] using h
    simp only [apply, removeOld, filesOf]
    rw [List.filter_filter]
    apply List.filter_congr
    intro f _
    by_cases hfd : f.dag = d'
    · have : ¬ d' = d := fun e => hd e.symm
      simp [hfd, this]
    · simp [hfd]
  | age d days =>
    have hd : d ≠ d' := by simpa [touches, eq_comm] using h
    simp only [apply, ageFiles, filesOf]
    induction s.files with
    | nil => rfl
    | cons f fs ih =>
      simp only [List.map_cons, List.filter_cons]
      by_cases hfd : f.dag = d
      · have : f.dag ≠ d' := by rw [hfd]; exact hd
        simp [hfd, hd, ih]
      · simp [hfd, ih]
  | rename d d2 =>
    have hd : d ≠ d' ∧ d2 ≠ d' := by
      simp [touches] at h
      exact ⟨fun e => h.1 e.symm, fun e => h.2 e.symm⟩
    simp only [apply, rename]
    split
    · rfl
    · simp only [filesOf, List.filter_append]
      have hm : ((glob s d).map (fun f => { f with dag := d2 })).filter (fun f => f.dag == d') = [] := by
        rw [List.filter_eq_nil_iff]
        intro f hf
        rw [List.mem_map] at hf
        obtain ⟨g, _, rfl⟩ := hf
        simp [hd.2]
      rw [hm, List.append_nil, List.filter_filter]
      apply List.filter_congr
      intro f _
      by_cases hfd : f.dag = d'
      · have h1 : ¬ d' = d := fun e => hd.1 e.symm
        have h2 : ((glob s d).map (fun f => ({ f with dag := d2 } : RunFile))).any (fun m => m.key == f.key) = false := by
          rw [List.any_eq_false]
          intro m hm
          rw [List.mem_map] at hm
          obtain ⟨g, _, rfl⟩ := hm
          have : (d2 = f.dag) = False := by rw [hfd]; simp [hd.2]
          simp [RunFile.key, this]
        simp [hfd, h1, h2]
      · simp [hfd]

end BdModel.Hist

namespace BdModel.Hist

/-! ### the de-duplicating loop of `ReadStatusRecent` -/

/-- request id of the status a file ends in -/
def reqOf (f : RunFile) : Option Nat := (parse f).map (·.req)

theorem dedup_sublist (l : List RunFile) (seen : List Nat) : (dedupFiles l seen).Sublist l := by
  induction l generalizing seen with
  | nil => simp [dedupFiles]
  | cons f fs ih =>
    simp only [dedupFiles]
    split
    · exact (ih seen).cons f
    · split
      · exact (ih seen).cons f
      · exact (ih _).cons₂ f

/-- every listed file holds a status whose request id was not seen before, and no id is listed twice -/
theorem dedup_spec (l : List RunFile) (seen : List Nat) :
    (∀ f ∈ dedupFiles l seen, ∃ ln, parse f = some ln ∧ ln.req ∉ seen) ∧
    ((dedupFiles l seen).filterMap reqOf).Nodup := by
  induction l generalizing seen with
  | nil => simp [dedupFiles]
  | cons f fs ih =>
    simp only [dedupFiles]
    split
    · exact ih seen
    · rename_i ln hp
      split
      · exact ih seen
      · rename_i hns
        have hns' : ln.req ∉ seen := by simpa using hns
        obtain ⟨h1, h2⟩ := ih (ln.req :: seen)
        constructor
        · intro g hg
          rcases List.mem_cons.mp hg with rfl | hg
          · exact ⟨ln, hp, hns'⟩
          · obtain ⟨lg, hlg, hnot⟩ := h1 g hg
            exact ⟨lg, hlg, fun hm => hnot (List.mem_cons_of_mem _ hm)⟩
        · have hr : reqOf f = some ln.req := by simp [reqOf, hp]
          rw [List.filterMap_cons_some hr, List.nodup_cons]
          refine ⟨?_, h2⟩
          intro hm
          rw [List.mem_filterMap] at hm
          obtain ⟨g, hg, hgr⟩ := hm
          obtain ⟨lg, hlg, hnot⟩ := h1 g hg
          simp only [reqOf, hlg, Option.map_some, Option.some.injEq] at hgr
          exact hnot (by rw [hgr]; exact List.mem_cons_self)

/-- nothing is lost: every file holding a status has its request id listed by a file that is at
    least as new (or the id was already seen before the loop started) -/
theorem dedup_complete (l : List RunFile) (seen : List Nat) (hd : Desc l) :
    ∀ g ∈ l, ∀ ln, parse g = some ln →
      ln.req ∈ seen ∨ ∃ f ∈ dedupFiles l seen, reqOf f = some ln.req ∧ g.stamp ≤ f.stamp := by
  induction l generalizing seen with
  | nil => intro g hg; cases hg
  | cons f fs ih =>
    have hy := List.pairwise_cons.mp hd
    intro g hg ln hgl
    simp only [dedupFiles]
    rcases List.mem_cons.mp hg with rfl | hg
    · simp only [hgl]
      split
      · rename_i hs; exact Or.inl (by simpa using hs)
      · exact Or.inr ⟨g, List.mem_cons_self, by simp [reqOf, hgl], Nat.le_refl _⟩
    · split
      · exact ih seen hy.2 g hg ln hgl
      · rename_i lf hpf
        split
        · exact ih seen hy.2 g hg ln hgl
        · rcases ih (lf.req :: seen) hy.2 g hg ln hgl with h | ⟨f', hf', hr, hle⟩
          · rcases List.mem_cons.mp h with h | h
            · exact Or.inr ⟨f, List.mem_cons_self, by simp [reqOf, hpf, h], hy.1 g hg⟩
            · exact Or.inl h
          · exact Or.inr ⟨f', List.mem_cons_of_mem _ hf', hr, hle⟩

end BdModel.Hist
