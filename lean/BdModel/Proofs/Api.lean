import BdModel.Api.Actions
/- helper lemmas for C20 (core only) -/
namespace BdModel.Api

@[simp] theorem upd_same {α : Type} (f : Nat → α) (k : Nat) (v : α) : upd f k v k = v := by simp [upd]
@[simp] theorem upd_other {α : Type} (f : Nat → α) (k x : Nat) (v : α) (h : x ≠ k) : upd f k v x = f x := by
  simp [upd, h]

/-! ### parameters -/

theorem escapeArg_id (p : Str) (h : noLineBreak p) : escapeArg p = p := by
  induction p with
  | nil => rfl
  | cons c rest ih =>
    have hc := h c (by simp)
    have hr : noLineBreak rest := fun x hx => h x (by simp [hx])
    simp [escapeArg, hc.1, hc.2, ih hr]

theorem removeQuotes_quoted (s : Str) : removeQuotes (34 :: (s ++ [34])) = s := by
  simp [removeQuotes]

theorem received_startArg (p : Str) (h : noLineBreak p) : received (startArg p) = p := by
  unfold startArg
  split
  · rename_i hp; simp [received, hp]
  · simp only [received]; rw [removeQuotes_quoted, escapeArg_id p h]

/-! ### edit -/

theorem findRunIdx_spec (l : List Run) (q k : Nat) (h : findRunIdx l q = some k) :
    ∃ r, l[k]? = some r ∧ r.reqId = q ∧ ∀ j, j < k → ∀ r', l[j]? = some r' → r'.reqId ≠ q := by
  induction l generalizing k with
  | nil => simp [findRunIdx] at h
  | cons a as ih =>
    simp only [findRunIdx] at h
    split at h
    · rename_i ha
      injection h with h; subst h
      exact ⟨a, by simp, ha, fun j hj => absurd hj (Nat.not_lt_zero j)⟩
    · rename_i ha
      cases hf : findRunIdx as q with
      | none => simp [hf] at h
      | some k' =>
        simp [hf] at h; subst h
        obtain ⟨r, h1, h2, h3⟩ := ih k' hf
        refine ⟨r, by simpa using h1, h2, ?_⟩
        intro j hj r' hr'
        cases j with
        | zero => simp at hr'; subst hr'; exact ha
        | succ j => exact h3 j (by omega) r' (by simpa using hr')

theorem lastNodeIdx_spec (l : List (Nat × Nat)) (s i : Nat) (h : lastNodeIdx l s = some i) :
    ∃ st, l[i]? = some (s, st) ∧ ∀ j, i < j → ∀ n, l[j]? = some n → n.1 ≠ s := by
  induction l generalizing i with
  | nil => simp [lastNodeIdx] at h
  | cons a as ih =>
    simp only [lastNodeIdx] at h
    split at h
    · rename_i i' hi'
      injection h with h; subst h
      obtain ⟨st, h1, h2⟩ := ih i' hi'
      refine ⟨st, by simpa using h1, ?_⟩
      intro j hj n hn
      cases j with
      | zero => omega
      | succ j => exact h2 j (by omega) n (by simpa using hn)
    · rename_i hnone
      split at h
      · rename_i ha
        injection h with h; subst h
        refine ⟨a.2, by simp [← ha], ?_⟩
        intro j hj n hn
        cases j with
        | zero => omega
        | succ j =>
          intro hs
          have hn' : as[j]? = some n := by simpa using hn
          -- a later node named s would have been found
          have : ∀ (l : List (Nat × Nat)) (j : Nat) (n : Nat × Nat), l[j]? = some n → n.1 = s → lastNodeIdx l s ≠ none := by
            intro l
            induction l with
            | nil => intro j n hj; simp at hj
            | cons b bs ihb =>
              intro j n hj hs
              simp only [lastNodeIdx]
              cases j with
              | zero =>
                simp at hj; subst hj
                split <;> simp [hs]
              | succ j =>
                have := ihb j n (by simpa using hj) hs
                split
                · simp
                · rename_i hb; exact absurd hb this
          exact this as j n hn' hs hnone
      · cases h

end BdModel.Api
