import BdModel.Log.Writers
/-
  Helper lemmas for C12: nothing is lost between a writer's buffer and its file, for every chunking.
-/
namespace BdModel.Log

/-- everything handed to the writer so far -/
def BW.total (w : BW) : Bytes := w.disk ++ w.buf

theorem write_total (w : BW) (p : Bytes) : (w.write p).total = w.total ++ p := by
  unfold BW.write BW.total
  split
  · simp
  · split
    · next h => simp [h]
    · simp only []
      split
      · simp [List.append_assoc, List.take_append_drop]
      · simp [List.append_assoc, List.take_append_drop]

theorem write_buf_le (w : BW) (p : Bytes) (h : w.buf.length ≤ cap) : (w.write p).buf.length ≤ cap := by
  unfold BW.write
  split
  · next h1 => simp; omega
  · split
    · next h2 => simp [h2]
    · simp only []
      split
      · next h3 => simpa using h3
      · simp

theorem direct_total (w : BW) (p : Bytes) : (w.direct p).total = w.total ++ p := by
  simp [BW.direct, BW.total]

theorem direct_buf (w : BW) (p : Bytes) : (w.direct p).buf = [] := rfl

theorem flush_disk (w : BW) : w.flush.disk = w.total := rfl

/-- part of a chunk that reaches the stdout sink -/
def sinkPart (c : Cfg) (ch : Chunk) : Bytes := if ch.1 && c.stderrFile then [] else ch.2
/-- part of a chunk that reaches the `stderr:` file -/
def errPart (c : Cfg) (ch : Chunk) : Bytes := if ch.1 && c.stderrFile then ch.2 else []

theorem logBytes_cons (c : Cfg) (ch : Chunk) (a : Attempt) : logBytes c (ch :: a) = sinkPart c ch ++ logBytes c a := by
  obtain ⟨b, p⟩ := ch
  cases b <;> cases hs : c.stderrFile <;> simp [logBytes, sinkPart, List.filter_cons, hs]

theorem errBytes_cons (c : Cfg) (hc : c.stderrFile = true) (ch : Chunk) (a : Attempt) :
    errBytes (ch :: a) = errPart c ch ++ errBytes a := by
  unfold errBytes errPart
  by_cases h : ch.1 = true
  · simp [List.filter_cons, h, hc]
  · simp only [Bool.not_eq_true] at h
    simp [List.filter_cons, h]

/-! ### one chunk -/
theorem toStdout_done (c : Cfg) (s : St) (p : Bytes) : (toStdout c s p).done = s.done := by
  unfold toStdout; (repeat' split) <;> rfl
theorem toStdout_err (c : Cfg) (s : St) (p : Bytes) : (toStdout c s p).err = s.err := by
  unfold toStdout; (repeat' split) <;> rfl
theorem toStdout_log (c : Cfg) (s : St) (p : Bytes) :
    (toStdout c s p).log = if c.buffered then s.log.write p else s.log.direct p := by
  unfold toStdout; (repeat' split) <;> simp_all
theorem toStdout_out (c : Cfg) (s : St) (p : Bytes) :
    (toStdout c s p).out = if c.stdoutFile then s.out.write p else s.out := by
  unfold toStdout; (repeat' split) <;> simp_all

theorem feed_done (c : Cfg) (s : St) (ch : Chunk) : (feed c s ch).done = s.done := by
  unfold feed; split
  · rfl
  · exact toStdout_done c s ch.2

theorem feed_log_total (c : Cfg) (s : St) (ch : Chunk) : (feed c s ch).log.total = s.log.total ++ sinkPart c ch := by
  unfold feed sinkPart; split
  · simp
  · rw [toStdout_log]; split
    · exact write_total _ _
    · exact direct_total _ _

theorem feed_log_buf_le (c : Cfg) (s : St) (ch : Chunk) (h : s.log.buf.length ≤ cap) : (feed c s ch).log.buf.length ≤ cap := by
  unfold feed; split
  · exact h
  · rw [toStdout_log]; split
    · exact write_buf_le _ _ h
    · simp [BW.direct]

theorem feed_log_buf_nil (c : Cfg) (s : St) (ch : Chunk) (hb : c.buffered = false) (h : s.log.buf = []) : (feed c s ch).log.buf = [] := by
  unfold feed; split
  · exact h
  · rw [toStdout_log]; simp [hb, BW.direct]

theorem feed_out_total (c : Cfg) (s : St) (ch : Chunk) (hc : c.stdoutFile = true) :
    (feed c s ch).out.total = s.out.total ++ sinkPart c ch := by
  unfold feed sinkPart; split
  · simp
  · rw [toStdout_out]; simp only [hc, if_true]; exact write_total _ _

theorem feed_err_total (c : Cfg) (s : St) (ch : Chunk) : (feed c s ch).err.total = s.err.total ++ errPart c ch := by
  unfold feed errPart; split
  · exact direct_total _ _
  · rw [toStdout_err]; simp

theorem feed_err_buf_nil (c : Cfg) (s : St) (ch : Chunk) (h : s.err.buf = []) : (feed c s ch).err.buf = [] := by
  unfold feed; split
  · rfl
  · rw [toStdout_err]; exact h

/-! ### a whole attempt's Execute, for every chunking -/
theorem exec_inv (c : Cfg) (a : Attempt) : ∀ s : St,
    (exec c s a).done = s.done ∧
    (exec c s a).log.total = s.log.total ++ logBytes c a ∧
    (s.log.buf.length ≤ cap → (exec c s a).log.buf.length ≤ cap) ∧
    (c.buffered = false → s.log.buf = [] → (exec c s a).log.buf = []) ∧
    (c.stdoutFile = true → (exec c s a).out.total = s.out.total ++ sinkBytes c a) ∧
    (c.stderrFile = true → (exec c s a).err.total = s.err.total ++ errBytes a) ∧
    (s.err.buf = [] → (exec c s a).err.buf = []) := by
  induction a with
  | nil => intro s; simp [exec, logBytes, sinkBytes, errBytes]
  | cons ch r ih =>
    intro s
    obtain ⟨h1, h2, h3, h4, h5, h6, h7⟩ := ih (feed c s ch)
    have he : exec c s (ch :: r) = exec c (feed c s ch) r := rfl
    rw [he]
    refine ⟨?_, ?_, ?_, ?_, ?_, ?_, ?_⟩
    · rw [h1, feed_done]
    · rw [h2, feed_log_total, logBytes_cons, List.append_assoc]
    · intro h; exact h3 (feed_log_buf_le c s ch h)
    · intro hb h; exact h4 hb (feed_log_buf_nil c s ch hb h)
    · intro hc; rw [h5 hc, feed_out_total c s ch hc]; unfold sinkBytes; rw [logBytes_cons, List.append_assoc]
    · intro hc; rw [h6 hc, feed_err_total, errBytes_cons c hc, List.append_assoc]
    · intro h; exact h7 (feed_err_buf_nil c s ch h)

/-- conclusion of C12 for the node state `s'` after the attempt `a` that started from state `s` -/
def Holds (c : Cfg) (s s' : St) (a : Attempt) : Prop :=
  s'.log.disk = logBytes c a ∧
  (c.stdoutFile = true → s'.out.disk = s.out.disk ++ sinkBytes c a) ∧
  (c.stderrFile = true → s'.err.disk = s.err.disk ++ errBytes a)

theorem total_nil_buf (w : BW) (h : w.buf = []) : w.total = w.disk := by simp [BW.total, h]

theorem teardown_err (s : St) : (teardown s).err = s.err := by
  unfold teardown; split <;> rfl

theorem setup_done (c : Cfg) (s : St) : (setup c s).done = false := rfl

/-- one attempt delivers everything: its teardown always flushes (setup reset `done`) -/
theorem attempt_ok (c : Cfg) (s : St) (a : Attempt) : Holds c s (attempt c s a) a := by
  obtain ⟨h1, h2, _, _, h5, h6, h7⟩ := exec_inv c a (setup c s)
  have hlog0 : (setup c s).log.total = [] := rfl
  rw [hlog0, List.nil_append] at h2
  rw [setup_done] at h1
  refine ⟨?_, ?_, ?_⟩
  · unfold attempt teardown
    simp only [h1]
    exact h2
  · intro hc
    have h0 : (setup c s).out.total = s.out.disk := by simp [setup, hc, BW.reopen, BW.total]
    unfold attempt teardown
    simp only [h1]
    show (exec c (setup c s) a).out.flush.disk = _
    rw [flush_disk, h5 hc, h0]
  · intro hc
    have h0 : (setup c s).err.total = s.err.disk := by simp [setup, hc, BW.reopen, BW.total]
    have hb0 : (setup c s).err.buf = [] := by simp [setup, hc, BW.reopen]
    unfold attempt
    rw [teardown_err, ← total_nil_buf _ (h7 hb0), h6 hc, h0]

theorem run_snoc (c : Cfg) (as : List Attempt) (a : Attempt) :
    run c (as ++ [a]) = attempt c (run c as) a := by
  simp [run, List.foldl_append]

/-- nothing stays in a buffer after an attempt -/
theorem attempt_bufs (c : Cfg) (s : St) (a : Attempt) :
    (attempt c s a).log.buf = [] ∧ (c.stdoutFile = true → (attempt c s a).out.buf = []) := by
  have h1 : (exec c (setup c s) a).done = false := (exec_inv c a (setup c s)).1
  unfold attempt teardown
  simp only [h1]
  exact ⟨rfl, fun _ => rfl⟩

/-- stdout bytes are among the bytes that reach the stdout sink, in order -/
theorem outBytes_sublist (c : Cfg) (a : Attempt) : (outBytes a).Sublist (sinkBytes c a) := by
  induction a with
  | nil => simp [outBytes, sinkBytes, logBytes]
  | cons ch r ih =>
    have h1 : sinkBytes c (ch :: r) = sinkPart c ch ++ sinkBytes c r := logBytes_cons c ch r
    rw [h1]
    obtain ⟨b, p⟩ := ch
    cases b
    · have : outBytes ((false, p) :: r) = p ++ outBytes r := by simp [outBytes, List.filter_cons]
      rw [this]
      have : sinkPart c (false, p) = p := by simp [sinkPart]
      rw [this]
      exact List.Sublist.append (List.Sublist.refl _) ih
    · have : outBytes ((true, p) :: r) = outBytes r := by simp [outBytes, List.filter_cons]
      rw [this]
      exact List.Sublist.trans ih (List.sublist_append_right _ _)

end BdModel.Log
