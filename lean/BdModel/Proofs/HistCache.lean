import BdModel.Hist.Cache
/-
  Helper proofs for the read-cache model (Hist/Cache.lean): the coherence invariant and its
  preservation by every operation of an admissible history. Core-only.
-/
namespace BdModel.Hist.Cache

theorem upd_same {α : Type} (m : Nat → Option α) (f : Nat) (v : Option α) : upd m f v f = v := by
  simp [upd]

theorem upd_other {α : Type} (m : Nat → Option α) (f g : Nat) (v : Option α) (h : g ≠ f) : upd m f v g = m g := by
  simp [upd, h]

theorem upd_id {α : Type} (m : Nat → Option α) (f : Nat) (v : Option α) (h : m f = v) : upd m f v = m := by
  funext g
  by_cases hg : g = f
  · subst hg; simp [upd, h]
  · simp [upd, hg]

/-! ### files only grow -/

theorem applyWrite_size (fi : File) (w : Write) : (applyWrite fi w).size = fi.size + w.grow + 1 := rfl

theorem applyWrites_nil (fi : File) : applyWrites fi [] = fi := rfl

theorem applyWrites_cons (fi : File) (w : Write) (ws : List Write) :
    applyWrites fi (w :: ws) = applyWrites (applyWrite fi w) ws := rfl

theorem applyWrites_append (fi : File) (a b : List Write) :
    applyWrites fi (a ++ b) = applyWrites (applyWrites fi a) b := by
  simp [applyWrites, List.foldl_append]

theorem applyWrites_size_le (fi : File) (ws : List Write) : fi.size ≤ (applyWrites fi ws).size := by
  induction ws generalizing fi with
  | nil => exact Nat.le_refl _
  | cons w ws ih =>
    rw [applyWrites_cons]
    have := ih (applyWrite fi w)
    rw [applyWrite_size] at this
    omega

theorem applyWrites_size_lt (fi : File) (ws : List Write) (h : ws ≠ []) : fi.size < (applyWrites fi ws).size := by
  cases ws with
  | nil => exact absurd rfl h
  | cons w ws =>
    rw [applyWrites_cons]
    have := applyWrites_size_le (applyWrite fi w) ws
    rw [applyWrite_size] at this
    omega

/-! ### coherence of one entry with one file -/

/-- the entry was taken from a version of the file that is not longer than the present one, the file
    holds a status, and if the lengths agree the entry holds the file's present last status -/
def Coh (e : Entry) (fi : File) : Prop :=
  e.size ≤ fi.size ∧ 0 < fi.size ∧ (e.size = fi.size → e.data = fi.data)

theorem coh_write {e : Entry} {fi : File} (w : Write) (h : Coh e fi) : Coh e (applyWrite fi w) := by
  obtain ⟨h1, h2, _⟩ := h
  refine ⟨?_, ?_, ?_⟩ <;> rw [applyWrite_size] <;> omega

theorem coh_writes {e : Entry} {fi : File} (ws : List Write) (h : Coh e fi) : Coh e (applyWrites fi ws) := by
  induction ws generalizing fi with
  | nil => exact h
  | cons w ws ih => exact ih (coh_write w h)

/-- the entry `Store` builds from the stat of step 1 and the data read after `pre`, against the file
    after `pre ++ post` -/
theorem coh_store (fi : File) (pre post : List Write) (hne : (applyWrites fi pre).size ≠ 0) :
    Coh ⟨(applyWrites fi pre).data, fi.size, fi.mtime⟩ (applyWrites (applyWrites fi pre) post) := by
  have h1 := applyWrites_size_le fi pre
  have h2 := applyWrites_size_le (applyWrites fi pre) post
  refine ⟨by simp only; omega, by omega, ?_⟩
  intro heq
  simp only at heq
  cases pre with
  | cons w ws =>
    have := applyWrites_size_lt fi (w :: ws) (by simp)
    omega
  | nil =>
    cases post with
    | cons w ws =>
      have := applyWrites_size_lt fi (w :: ws) (by simp)
      simp only [applyWrites_nil] at heq
      omega
    | nil => rfl

/-! ### the invariant -/

/-- **Coherent**: every cached entry of an existing file is coherent with it -/
def Coherent (s : State) : Prop :=
  ∀ f e fi, s.cache f = some e → s.files f = some fi → Coh e fi

/-- names outside `cr` (the names created so far) have neither a file nor an entry -/
def Fresh (cr : List Nat) (s : State) : Prop :=
  ∀ f, f ∉ cr → s.files f = none ∧ s.cache f = none

def Inv (cr : List Nat) (s : State) : Prop := Fresh cr s ∧ Coherent s

theorem inv_init : Inv [] init := ⟨fun _ _ => ⟨rfl, rfl⟩, fun _ _ _ h => by simp [init] at h⟩

theorem coherent_set_file (s : State) (f : Nat) (fi' : File) (hc : Coherent s)
    (h : ∀ e, s.cache f = some e → Coh e fi') :
    Coherent { s with files := upd s.files f (some fi') } := by
  intro g e fi hce hfi
  by_cases hg : g = f
  · subst hg
    simp only [upd_same, Option.some.injEq] at hfi
    subst hfi
    exact h e hce
  · simp only [upd_other _ _ _ _ hg] at hfi
    exact hc g e fi hce hfi

theorem coherent_rm_file (s : State) (f : Nat) (hc : Coherent s) :
    Coherent { s with files := upd s.files f none } := by
  intro g e fi hce hfi
  by_cases hg : g = f
  · subst hg
    simp [upd_same] at hfi
  · simp only [upd_other _ _ _ _ hg] at hfi
    exact hc g e fi hce hfi

theorem coherent_rm_entry (s : State) (f : Nat) (hc : Coherent s) :
    Coherent { s with cache := upd s.cache f none } := by
  intro g e fi hce hfi
  by_cases hg : g = f
  · subst hg
    simp [upd_same] at hce
  · simp only [upd_other _ _ _ _ hg] at hce
    exact hc g e fi hce hfi

theorem coherent_store (s : State) (f : Nat) (e' : Entry) (fi' : File) (hc : Coherent s) (h : Coh e' fi') :
    Coherent { files := upd s.files f (some fi'), cache := upd s.cache f (some e') } := by
  intro g e fi hce hfi
  by_cases hg : g = f
  · subst hg
    simp only [upd_same, Option.some.injEq] at hce hfi
    subst hce hfi
    exact h
  · simp only [upd_other _ _ _ _ hg] at hce hfi
    exact hc g e fi hce hfi

theorem fresh_set_file (cr : List Nat) (s : State) (f : Nat) (v : Option File) (hf : f ∈ cr) (h : Fresh cr s) :
    Fresh cr { s with files := upd s.files f v } := by
  intro g hg
  have hne : g ≠ f := fun e => hg (e ▸ hf)
  simp only [upd_other _ _ _ _ hne]
  exact h g hg

theorem fresh_rm_entry (cr : List Nat) (s : State) (f : Nat) (h : Fresh cr s) :
    Fresh cr { s with cache := upd s.cache f none } := by
  intro g hg
  refine ⟨(h g hg).1, ?_⟩
  by_cases hgf : g = f
  · subst hgf; simp [upd_same]
  · simp only [upd_other _ _ _ _ hgf]; exact (h g hg).2

/-- a name that has a file was created -/
theorem mem_of_file {cr : List Nat} {s : State} (h : Fresh cr s) {f : Nat} {fi : File} (hf : s.files f = some fi) :
    f ∈ cr := by
  apply Classical.byContradiction
  intro hn
  have := (h f hn).1
  rw [hf] at this
  cases this

/-- `LoadLatest` (real code) keeps the invariant, whatever lands in between -/
theorem load_inv (cr : List Nat) (s : State) (f : Nat) (pre post : List Write) (rm : Bool) (h : Inv cr s) :
    Inv cr (loadV .real s f pre post rm).1 := by
  obtain ⟨hfr, hc⟩ := h
  unfold loadV
  cases hfile : s.files f with
  | none => exact ⟨hfr, hc⟩
  | some fi =>
    have hmem : f ∈ cr := mem_of_file hfr hfile
    simp only
    split
    · -- stale: the loader is called
      split
      · exact ⟨fresh_set_file cr s f none hmem hfr, coherent_rm_file s f hc⟩
      · split
        · refine ⟨fresh_set_file cr s f _ hmem hfr, coherent_set_file s f _ hc ?_⟩
          intro e he
          rw [← applyWrites_append]
          exact coh_writes _ (hc f e fi he hfile)
        · rename_i hne
          constructor
          · intro g hg
            have hgf : g ≠ f := fun e => hg (e ▸ hmem)
            simp only [upd_other _ _ _ _ hgf]
            exact hfr g hg
          · exact coherent_store s f _ _ hc (coh_store fi pre post hne)
    · split <;> exact ⟨hfr, hc⟩

theorem step_inv_create (cr : List Nat) (s : State) (f : Nat) (w : Write) (h : Inv cr s) (hf : f ∉ cr) :
    Inv (f :: cr) (step s (.create f w)).1 := by
  obtain ⟨hfr, hc⟩ := h
  simp only [step, stepV]
  constructor
  · intro g hg
    simp only [List.mem_cons, not_or] at hg
    simp only [upd_other _ _ _ _ hg.1]
    exact hfr g hg.2
  · apply coherent_set_file s f _ hc
    intro e he
    rw [(hfr f hf).2] at he
    cases he

theorem step_inv_other (cr : List Nat) (s : State) (op : Op) (h : Inv cr s) (hop : ∀ f w, op ≠ .create f w) :
    Inv cr (step s op).1 := by
  cases op with
  | create f w => exact absurd rfl (hop f w)
  | append f w =>
    simp only [step, stepV]
    cases hfile : s.files f with
    | none => exact h
    | some fi =>
      refine ⟨fresh_set_file cr s f _ (mem_of_file h.1 hfile) h.1, coherent_set_file s f _ h.2 ?_⟩
      intro e he
      exact coh_write w (h.2 f e fi he hfile)
  | remove f =>
    simp only [step, stepV]
    refine ⟨?_, coherent_rm_file s f h.2⟩
    intro g hg
    by_cases hgf : g = f
    · subst hgf; exact ⟨by simp [upd_same], (h.1 g hg).2⟩
    · simp only [upd_other _ _ _ _ hgf]; exact h.1 g hg
  | invalidate f => exact ⟨fresh_rm_entry cr s f h.1, coherent_rm_entry s f h.2⟩
  | evict f => exact ⟨fresh_rm_entry cr s f h.1, coherent_rm_entry s f h.2⟩
  | load f pre post => exact load_inv cr s f pre post false h
  | loadRm f pre => exact load_inv cr s f pre [] true h

theorem exec_cons (s : State) (op : Op) (ops : List Op) : exec s (op :: ops) = exec (step s op).1 ops := rfl

theorem exec_append (s : State) (a b : List Op) : exec s (a ++ b) = exec (exec s a) b := by
  simp [exec, List.foldl_append]

/-- the invariant along every admissible operation list, from any state that has it -/
theorem exec_inv (ops : List Op) : ∀ (cr : List Nat) (s : State), Inv cr s → (created ops).Nodup →
    (∀ f ∈ created ops, f ∉ cr) → ∃ cr', Inv cr' (exec s ops) := by
  induction ops with
  | nil => intro cr s h _ _; exact ⟨cr, h⟩
  | cons op rest ih =>
    intro cr s h hnd hdis
    rw [exec_cons]
    by_cases hcr : ∃ f w, op = .create f w
    · obtain ⟨f, w, rfl⟩ := hcr
      simp only [created, List.nodup_cons] at hnd
      have hf : f ∉ cr := hdis f (by simp [created])
      refine ih (f :: cr) _ (step_inv_create cr s f w h hf) hnd.2 ?_
      intro g hg
      simp only [List.mem_cons, not_or]
      refine ⟨?_, hdis g (by simp [created, hg])⟩
      intro e; subst e; exact hnd.1 hg
    · have hop : ∀ f w, op ≠ .create f w := fun f w e => hcr ⟨f, w, e⟩
      have hcreated : created (op :: rest) = created rest := by
        cases op <;> first | rfl | exact absurd rfl (hop _ _)
      rw [hcreated] at hnd hdis
      exact ih cr _ (step_inv_other cr s op h hop) hnd hdis

/-- **Coherent** holds in every state an admissible history reaches from the empty state -/
theorem coherent_reachable (ops : List Op) (h : Admissible ops) : Coherent (exec init ops) := by
  obtain ⟨_, hinv⟩ := exec_inv ops [] init inv_init h (fun _ _ => by simp)
  exact hinv.2


/-! ### what one `LoadLatest` answers in a coherent state -/

/-- a load with concurrent appends, in a coherent state: either the loader ran (answer = the version
    read, i.e. after exactly `pre`; the file then is the version after `pre ++ post`), or the entry was
    used, nothing moved, and the entry's data is the file's data at the stat -/
theorem load_linearizable (s : State) (hc : Coherent s) (f : Nat) (fi : File) (hfile : s.files f = some fi)
    (pre post : List Write) :
    ((step s (.load f pre post)).2 = readOut (applyWrites fi pre) ∧
      (step s (.load f pre post)).1.files f = some (applyWrites fi (pre ++ post)))
    ∨ ((step s (.load f pre post)).2 = .data fi.data ∧ 0 < fi.size ∧ (step s (.load f pre post)).1 = s) := by
  simp only [step, stepV, loadV, hfile]
  cases hce : s.cache f with
  | none =>
    left
    simp only [Option.isNone_none, Bool.or_true, if_true, Bool.false_eq_true, if_false, readOut, applyWrites_append]
    split <;> simp [upd_same]
  | some e =>
    obtain ⟨h1, h2, h3⟩ := hc f e fi hce hfile
    simp only [Option.getD_some, Option.isNone_some, Bool.or_false]
    by_cases hst : isStaleV .real e fi = true
    · left
      simp only [hst, if_true, Bool.false_eq_true, if_false, readOut, applyWrites_append]
      split <;> simp [upd_same]
    · right
      simp only [hst, if_false, Bool.false_eq_true]
      simp only [isStaleV, Bool.or_eq_true, decide_eq_true_eq, not_or, Decidable.not_not] at hst
      exact ⟨by rw [h3 hst.2], h2, trivial⟩

/-- a quiet load in a coherent state answers the file's current last status -/
theorem quiet_load (s : State) (hc : Coherent s) (f : Nat) :
    (step s (.load f [] [])).2 = quietAnswer (s.files f) := by
  cases hfile : s.files f with
  | none => simp [step, stepV, loadV, hfile, quietAnswer]
  | some fi =>
    rcases load_linearizable s hc f fi hfile [] [] with ⟨h, _⟩ | ⟨h, hpos, _⟩
    · rw [h]; rfl
    · rw [h]
      simp only [quietAnswer, readOut]
      rw [if_neg (by omega)]

/-- the real `LoadLatest` never panics (any state) -/
theorem load_no_panic (s : State) (f : Nat) (pre post : List Write) (rm : Bool) :
    (loadV .real s f pre post rm).2 ≠ .panic := by
  unfold loadV
  cases s.files f with
  | none => simp
  | some fi =>
    cases hce : s.cache f with
    | none => simp only [Option.isNone_none, Bool.or_true, if_true]; split <;> (try split) <;> simp
    | some e =>
      simp only [Option.getD_some, Option.isNone_some, Bool.or_false]
      split
      · split <;> (try split) <;> simp
      · simp

/-- a failed load stores nothing (any state, any variant of the concurrent writes) -/
theorem load_err_cache (s : State) (f : Nat) (pre post : List Write) (rm : Bool)
    (h : (loadV .real s f pre post rm).2.isErr = true) : (loadV .real s f pre post rm).1.cache = s.cache := by
  revert h
  unfold loadV
  cases s.files f with
  | none => intro _; rfl
  | some fi =>
    simp only
    split
    · split
      · intro _; rfl
      · split
        · intro _; rfl
        · intro h; simp [Out.isErr] at h
    · split <;> intro _ <;> rfl

/-! ### quiet periods -/

theorem created_append (a b : List Op) : created (a ++ b) = created a ++ created b := by
  induction a with
  | nil => rfl
  | cons op rest ih =>
    cases op <;> simp [created, ih]

theorem created_quiet (qs : List Op) (h : ∀ q ∈ qs, q.quiet = true) : created qs = [] := by
  induction qs with
  | nil => rfl
  | cons q rest ih =>
    have hq := h q (by simp)
    have hr := ih (fun q' hq' => h q' (by simp [hq']))
    cases q <;> simp_all [created, Op.quiet]

theorem step_quiet_files (s : State) (q : Op) (h : q.quiet = true) : (step s q).1.files = s.files := by
  cases q with
  | create f w => simp [Op.quiet] at h
  | append f w => simp [Op.quiet] at h
  | remove f => simp [Op.quiet] at h
  | loadRm f pre => simp [Op.quiet] at h
  | invalidate f => rfl
  | evict f => rfl
  | load f pre post =>
    cases pre with
    | cons _ _ => simp [Op.quiet] at h
    | nil =>
      cases post with
      | cons _ _ => simp [Op.quiet] at h
      | nil =>
        simp only [step, stepV, loadV]
        cases hfile : s.files f with
        | none => rfl
        | some fi =>
          simp only [applyWrites_nil, upd_id _ _ _ hfile, Bool.false_eq_true, if_false]
          split
          · split <;> rfl
          · split <;> rfl

theorem exec_quiet_files (qs : List Op) : ∀ (s : State), (∀ q ∈ qs, q.quiet = true) → (exec s qs).files = s.files := by
  induction qs with
  | nil => intro s _; rfl
  | cons q rest ih =>
    intro s h
    rw [exec_cons, ih _ (fun q' hq' => h q' (by simp [hq'])), step_quiet_files s q (h q (by simp))]

end BdModel.Hist.Cache
