import BdModel.Sched.Model
/- helper for C10: a step whose recorded status is success / skipped is never touched by a retry run -/
namespace BdModel.Sched

theorem setNode_nd_ne (s : State) (j : Nat) (v : NodeSt) (i : Nat) (h : i ≠ j) :
    (s.setNode j v).nd i = s.nd i := by
  simp [State.setNode, updN, h]

theorem setNode_nd_self (s : State) (j : Nat) (v : NodeSt) : (s.setNode j v).nd j = v := by
  simp [State.setNode, updN]

theorem setNode_loop (s : State) (j : Nat) (v : NodeSt) : (s.setNode j v).loop = s.loop := rfl

theorem afterExec_nd_ne (c : Cfg) (s : State) (j : Nat) (ok : Bool) (i : Nat) (h : i ≠ j) :
    (afterExec c s j ok).nd i = s.nd i := by
  unfold afterExec
  simp only
  split
  · exact setNode_nd_ne _ _ _ _ h
  · split <;> exact setNode_nd_ne _ _ _ _ h

theorem afterExec_loop (c : Cfg) (s : State) (j : Nat) (ok : Bool) :
    (afterExec c s j ok).loop = s.loop := by
  unfold afterExec
  simp only
  split
  · rfl
  · split <;> rfl

/-- what a kept step looks like -/
def Kept (st : Nat → NStatus) (i : Nat) (s : State) : Prop :=
  (s.nd i).execs = 0 ∧ (s.nd i).status = st i ∧ (s.nd i).pc = .idle ∧ s.loop ≠ .launching i

/-- frame: the step leaves node `i` and keeps the loop away from `launching i` -/
def Frame (i : Nat) (s s' : State) : Prop :=
  (s'.nd i).execs = (s.nd i).execs ∧ (s'.nd i).status = (s.nd i).status ∧ (s'.nd i).pc = (s.nd i).pc ∧
    s'.loop ≠ .launching i

theorem frame_of_eq {i : Nat} {s s' : State} (h1 : s'.nd i = s.nd i) (h2 : s'.loop ≠ .launching i) :
    Frame i s s' := by
  unfold Frame
  rw [h1]
  exact ⟨rfl, rfl, rfl, h2⟩

set_option linter.unusedSimpArgs false in
theorem step_frame (c : Cfg) (s s' : State) (a : Act) (i : Nat) (hs : step c s a = some s')
    (hst : (s.nd i).status = .success ∨ (s.nd i).status = .skipped)
    (hpc : (s.nd i).pc = .idle) (hl : s.loop ≠ .launching i) : Frame i s s' := by
  cases a with
  | visitDecide j =>
    simp only [step] at hs
    split at hs
    · split at hs
      · cases hs
        exact frame_of_eq rfl hl
      · rename_i hnone
        have hji : i ≠ j := by
          rintro rfl
          simp only [ne_eq, Decidable.not_not] at hnone
          rcases hst with h | h <;> rw [h] at hnone <;> cases hnone
        have hlj : LoopPC.launching j ≠ LoopPC.launching i := by
          intro h
          injection h with h
          exact hji h.symm
        generalize isReady c s j = p at hs
        obtain ⟨ready, lab⟩ := p
        cases lab <;> simp only at hs <;> (repeat' split at hs) <;> cases hs <;>
          first
            | exact frame_of_eq rfl hl
            | exact frame_of_eq rfl hlj
            | exact frame_of_eq (setNode_nd_ne _ _ _ _ hji) hl
            | exact frame_of_eq (setNode_nd_ne _ _ _ _ hji) hlj
    · cases hs
  | visitLaunch j preOk =>
    simp only [step] at hs
    split at hs
    · rename_i hlj
      have hji : i ≠ j := by
        rintro rfl
        exact hl hlj
      split at hs <;> cases hs <;>
        exact frame_of_eq (setNode_nd_ne _ _ _ _ hji) (by simp)
    · cases hs
  | zombie j =>
    simp only [step] at hs
    split at hs
    · cases hs
      by_cases hji : i = j
      · subst hji
        unfold Frame
        rw [setNode_nd_self]
        exact ⟨rfl, rfl, rfl, hl⟩
      · exact frame_of_eq (setNode_nd_ne _ _ _ _ hji) hl
    · cases hs
  | signalNode j sig ovr =>
    by_cases hji : i = j
    · subst hji
      have hnr : (s.nd i).status ≠ .running := by
        rcases hst with h | h <;> rw [h] <;> simp
      simp [step, hpc, hnr] at hs
      obtain ⟨_, hs⟩ := hs
      subst hs
      unfold Frame
      rw [setNode_nd_self]
      exact ⟨rfl, rfl, rfl, hl⟩
    · simp only [step] at hs
      (repeat' split at hs) <;> cases hs <;>
        exact frame_of_eq (setNode_nd_ne _ _ _ _ hji) hl
  | setupDone j ok =>
    have hji : i ≠ j := by
      rintro rfl
      simp [step, hpc] at hs
    have key : s'.nd i = s.nd i ∧ s'.loop = s.loop := by
      simp only [step] at hs
      (repeat' split at hs) <;> cases hs <;>
        simp [setNode_nd_ne, afterExec_nd_ne, setNode_loop, afterExec_loop, hji]
    exact frame_of_eq key.1 (key.2 ▸ hl)
  | check j =>
    have hji : i ≠ j := by
      rintro rfl
      simp [step, hpc] at hs
    have key : s'.nd i = s.nd i ∧ s'.loop = s.loop := by
      simp only [step] at hs
      (repeat' split at hs) <;> cases hs <;>
        simp [setNode_nd_ne, afterExec_nd_ne, setNode_loop, afterExec_loop, hji]
    exact frame_of_eq key.1 (key.2 ▸ hl)
  | execStart j =>
    have hji : i ≠ j := by
      rintro rfl
      simp [step, hpc] at hs
    have key : s'.nd i = s.nd i ∧ s'.loop = s.loop := by
      simp only [step] at hs
      (repeat' split at hs) <;> cases hs <;>
        simp [setNode_nd_ne, afterExec_nd_ne, setNode_loop, afterExec_loop, hji]
    exact frame_of_eq key.1 (key.2 ▸ hl)
  | execEnd j ok =>
    have hji : i ≠ j := by
      rintro rfl
      simp [step, hpc] at hs
    have key : s'.nd i = s.nd i ∧ s'.loop = s.loop := by
      simp only [step] at hs
      (repeat' split at hs) <;> cases hs <;>
        simp [setNode_nd_ne, afterExec_nd_ne, setNode_loop, afterExec_loop, hji]
    exact frame_of_eq key.1 (key.2 ▸ hl)
  | postWrite j =>
    have hji : i ≠ j := by
      rintro rfl
      simp [step, hpc] at hs
    have key : s'.nd i = s.nd i ∧ s'.loop = s.loop := by
      simp only [step] at hs
      (repeat' split at hs) <;> cases hs <;>
        simp [setNode_nd_ne, afterExec_nd_ne, setNode_loop, afterExec_loop, hji]
    exact frame_of_eq key.1 (key.2 ▸ hl)
  | retryWake j =>
    have hji : i ≠ j := by
      rintro rfl
      simp [step, hpc] at hs
    have key : s'.nd i = s.nd i ∧ s'.loop = s.loop := by
      simp only [step] at hs
      (repeat' split at hs) <;> cases hs <;>
        simp [setNode_nd_ne, afterExec_nd_ne, setNode_loop, afterExec_loop, hji]
    exact frame_of_eq key.1 (key.2 ▸ hl)
  | tail j =>
    have hji : i ≠ j := by
      rintro rfl
      simp [step, hpc] at hs
    have key : s'.nd i = s.nd i ∧ s'.loop = s.loop := by
      simp only [step] at hs
      (repeat' split at hs) <;> cases hs <;>
        simp [setNode_nd_ne, afterExec_nd_ne, setNode_loop, afterExec_loop, hji]
    exact frame_of_eq key.1 (key.2 ▸ hl)
  | teardown j tdOk =>
    have hji : i ≠ j := by
      rintro rfl
      simp [step, hpc] at hs
    have key : s'.nd i = s.nd i ∧ s'.loop = s.loop := by
      simp only [step] at hs
      (repeat' split at hs) <;> cases hs <;>
        simp [setNode_nd_ne, afterExec_nd_ne, setNode_loop, afterExec_loop, hji]
    exact frame_of_eq key.1 (key.2 ▸ hl)
  | deferred j =>
    have hji : i ≠ j := by
      rintro rfl
      simp [step, hpc] at hs
    have key : s'.nd i = s.nd i ∧ s'.loop = s.loop := by
      simp only [step] at hs
      (repeat' split at hs) <;> cases hs <;>
        simp [setNode_nd_ne, afterExec_nd_ne, setNode_loop, afterExec_loop, hji]
    exact frame_of_eq key.1 (key.2 ▸ hl)
  | loopExit  =>
    simp only [step] at hs
    (repeat' split at hs) <;> cases hs <;> exact frame_of_eq rfl (by simp [hl])
  | setCanceled  =>
    simp only [step] at hs
    (repeat' split at hs) <;> cases hs <;> exact frame_of_eq rfl (by simp [hl])
  | timeout  =>
    simp only [step] at hs
    (repeat' split at hs) <;> cases hs <;> exact frame_of_eq rfl (by simp [hl])
  | waitAll  =>
    simp only [step] at hs
    (repeat' split at hs) <;> cases hs <;> exact frame_of_eq rfl (by simp [hl])
  | handlerRun ok =>
    simp only [step] at hs
    (repeat' split at hs) <;> cases hs <;> exact frame_of_eq rfl (by simp [hl])
  | finish  =>
    simp only [step] at hs
    (repeat' split at hs) <;> cases hs <;> exact frame_of_eq rfl (by simp [hl])

/-- general form: any start state in which step `i` is recorded finished/skipped with no worker -/
theorem keep_inv_gen (c : Cfg) (st : Nat → NStatus) (i : Nat) (hk : st i = .success ∨ st i = .skipped)
    (s0 : State) (h0 : Kept st i s0) :
    ∀ s, ReachFrom c s0 s → Kept st i s := by
  intro s h
  induction h with
  | init => exact h0
  | @step s1 s2 a _ hs ih =>
    obtain ⟨h1, h2, h3, h4⟩ := ih
    have hst : (s1.nd i).status = .success ∨ (s1.nd i).status = .skipped := by rw [h2]; exact hk
    obtain ⟨f1, f2, f3, f4⟩ := step_frame c s1 s2 a i hs hst h3 h4
    exact ⟨by rw [f1, h1], by rw [f2, h2], by rw [f3, h3], f4⟩

theorem keep_inv (c : Cfg) (st : Nat → NStatus) (i : Nat) (hk : st i = .success ∨ st i = .skipped) :
    ∀ s, ReachFrom c (initFrom st) s → Kept st i s := by
  intro s h
  induction h with
  | init => exact ⟨rfl, rfl, rfl, by simp [initFrom]⟩
  | @step s1 s2 a _ hs ih =>
    obtain ⟨h1, h2, h3, h4⟩ := ih
    have hst : (s1.nd i).status = .success ∨ (s1.nd i).status = .skipped := by rw [h2]; exact hk
    obtain ⟨f1, f2, f3, f4⟩ := step_frame c s1 s2 a i hs hst h3 h4
    exact ⟨by rw [f1, h1], by rw [f2, h2], by rw [f3, h3], f4⟩

end BdModel.Sched
