import BdModel.Hist.Names
/- helper lemmas: what `filepath.Match` does with an escaped literal and with `*` -/
namespace BdModel.Hist.Names

theorem isMeta_false {c : Char} (h : isMeta c = false) : c ≠ '\\' ∧ c ≠ '*' ∧ c ≠ '?' ∧ c ≠ '[' := by
  simp only [isMeta, Bool.or_eq_false_iff, beq_eq_false_iff_ne, ne_eq] at h
  exact ⟨h.1.1.1, h.1.1.2, h.1.2, h.2⟩

theorem gmatch_star (p s : List Char) : gmatch ('*' :: p) s = gstar (gmatch p) s := by
  conv => lhs; unfold gmatch
  simp

theorem gmatch_esc (c : Char) (p : List Char) (d : Char) (s' : List Char) :
    gmatch ('\\' :: c :: p) (d :: s') = (c == d && gmatch p s') := by
  conv => lhs; unfold gmatch
  have h1 : ('\\' : Char) ≠ '*' := by decide
  have h2 : ('\\' : Char) ≠ '?' := by decide
  have h3 : ('\\' : Char) ≠ '[' := by decide
  simp [h1, h2, h3]

theorem gmatch_esc_nil (c : Char) (p : List Char) : gmatch ('\\' :: c :: p) [] = false := by
  conv => lhs; unfold gmatch
  have h1 : ('\\' : Char) ≠ '*' := by decide
  simp [h1]

theorem gmatch_lit (x : Char) (p : List Char) (d : Char) (s' : List Char) (h : isMeta x = false) :
    gmatch (x :: p) (d :: s') = (x == d && gmatch p s') := by
  obtain ⟨n1, n2, n3, n4⟩ := isMeta_false h
  conv => lhs; unfold gmatch
  simp [n1, n2, n3, n4]

theorem gmatch_lit_nil (x : Char) (p : List Char) (h : isMeta x = false) : gmatch (x :: p) [] = false := by
  obtain ⟨n1, n2, n3, n4⟩ := isMeta_false h
  conv => lhs; unfold gmatch
  simp [n2]

/-- an escaped literal consumes exactly that literal -/
theorem gmatch_escape_append (q r : List Char) : ∀ s : List Char,
    gmatch (escapeGlob q ++ r) s = true ↔ ∃ s', s = q ++ s' ∧ gmatch r s' = true := by
  induction q with
  | nil => intro s; simp [escapeGlob]
  | cons c cs ih =>
    intro s
    by_cases hm : isMeta c = true
    · have he : escapeGlob (c :: cs) ++ r = '\\' :: c :: (escapeGlob cs ++ r) := by simp [escapeGlob, hm]
      rw [he]
      cases s with
      | nil => simp [gmatch_esc_nil]
      | cons d s' =>
        rw [gmatch_esc]
        simp only [Bool.and_eq_true, beq_iff_eq, ih s']
        constructor
        · rintro ⟨rfl, s'', rfl, hg⟩; exact ⟨s'', rfl, hg⟩
        · rintro ⟨s'', he, hg⟩
          simp only [List.cons_append, List.cons.injEq] at he
          exact ⟨he.1.symm, s'', he.2, hg⟩
    · have hm' : isMeta c = false := by simpa using hm
      have he : escapeGlob (c :: cs) ++ r = c :: (escapeGlob cs ++ r) := by simp [escapeGlob, hm']
      rw [he]
      cases s with
      | nil => simp [gmatch_lit_nil _ _ hm']
      | cons d s' =>
        rw [gmatch_lit _ _ _ _ hm']
        simp only [Bool.and_eq_true, beq_iff_eq, ih s']
        constructor
        · rintro ⟨rfl, s'', rfl, hg⟩; exact ⟨s'', rfl, hg⟩
        · rintro ⟨s'', he, hg⟩
          simp only [List.cons_append, List.cons.injEq] at he
          exact ⟨he.1.symm, s'', he.2, hg⟩

/-- `*` = some separator-free stretch, then the rest of the pattern -/
theorem gstar_iff (rest : List Char → Bool) : ∀ s : List Char,
    gstar rest s = true ↔ ∃ mid t, s = mid ++ t ∧ sep ∉ mid ∧ rest t = true := by
  intro s
  induction s with
  | nil =>
    simp only [gstar]
    constructor
    · intro h; exact ⟨[], [], rfl, by simp, h⟩
    · rintro ⟨mid, t, he, _, hr⟩
      have : mid = [] ∧ t = [] := by simpa using he.symm
      rw [this.2] at hr; exact hr
  | cons c s ih =>
    simp only [gstar, Bool.or_eq_true, Bool.and_eq_true, bne_iff_ne, ne_eq, ih]
    constructor
    · rintro (h | ⟨hc, mid, t, rfl, hm, hr⟩)
      · exact ⟨[], c :: s, rfl, by simp, h⟩
      · exact ⟨c :: mid, t, rfl, by simp [hm, Ne.symm hc], hr⟩
    · rintro ⟨mid, t, he, hm, hr⟩
      cases mid with
      | nil => left; simp only [List.nil_append] at he; rw [he]; exact hr
      | cons m mid' =>
        simp only [List.cons_append, List.cons.injEq] at he
        right
        refine ⟨?_, mid', t, he.2, ?_, hr⟩
        · rw [he.1]; intro e; exact hm (by simp [e])
        · intro h; exact hm (List.mem_cons_of_mem _ h)

theorem escapeGlob_id (q : List Char) (h : ∀ c ∈ q, isMeta c = false) : escapeGlob q = q := by
  induction q with
  | nil => rfl
  | cons c cs ih =>
    simp [escapeGlob, h c List.mem_cons_self, ih (fun d hd => h d (List.mem_cons_of_mem _ hd))]

/-- an escaped literal matches exactly itself -/
theorem gmatch_escape (q s : List Char) : gmatch (escapeGlob q) s = true ↔ s = q := by
  have := gmatch_escape_append q [] s
  simp only [List.append_nil] at this
  rw [this]
  constructor
  · rintro ⟨s', rfl, hg⟩
    have : s' = [] := by unfold gmatch at hg; simpa using hg
    simp [this]
  · rintro rfl; exact ⟨[], by simp, by unfold gmatch; rfl⟩

theorem ext_plain : ∀ c ∈ extDat, isMeta c = false := by decide

end BdModel.Hist.Names
