import BdModel.Load.Effects
/-
  Helper lemmas for C19: `reach` is exhaustive over the table (a field no builder step reads has no effect),
  and the complete reach matrix of the canonical table, decided once (entries × fields read by some builder).
-/
namespace BdModel.Load.Effects

theorem addNew_nil_nil : addNew [] [] = [] := rfl

theorem stepFns_nil (T : Tables) (o : EOpts) : stepFns T o [] = [] := by
  have h : T.edges.filter (fun r => edgeOk o r && ([] : List String).contains (col r 0)) = [] := by
    apply List.filter_eq_nil_iff.mpr
    intro r _
    simp
  unfold stepFns
  rw [h]
  rfl

theorem closure_nil (T : Tables) (o : EOpts) (n : Nat) : closure T o n [] = [] := by
  induction n with
  | zero => rfl
  | succ n _ => simp [closure, stepFns_nil]

theorem mem_addNew (x : String) : ∀ (l acc : List String), x ∈ acc ∨ x ∈ l → x ∈ addNew acc l := by
  intro l
  induction l with
  | nil => intro acc h; simpa [addNew] using h
  | cons y ys ih =>
    intro acc h
    unfold addNew
    split
    · rename_i hc
      apply ih
      rcases h with h | h
      · exact Or.inl h
      · rcases List.mem_cons.mp h with rfl | h
        · exact Or.inl (by simpa using hc)
        · exact Or.inr h
    · apply ih
      rcases h with h | h
      · exact Or.inl (List.mem_append_left _ h)
      · rcases List.mem_cons.mp h with rfl | h
        · exact Or.inl (List.mem_append_right _ (List.mem_singleton.mpr rfl))
        · exact Or.inr h

/-- a field that no builder step reads is read by no builder -/
theorem builders_nil_of_not_mentioned (T : Tables) (o : EOpts) (f : String) (h : f ∉ mentioned T) :
    builders T o f = [] := by
  have hnone : ∀ r ∈ T.fields, col r 1 ≠ f := by
    intro r hr heq
    apply h
    unfold mentioned
    apply mem_addNew
    right
    exact heq ▸ List.mem_map_of_mem hr
  unfold builders
  have : T.fields.filter (fun r => col r 1 == f && col r 0 != "build") = [] := by
    apply List.filter_eq_nil_iff.mpr
    intro r hr
    have := hnone r hr
    simp [this]
  simp [this]

/-- **exhaustiveness**: `reach` only ever yields effects for fields listed in the table -/
theorem reach_exhaustive (T : Tables) (e f : String) (h : f ∉ mentioned T) : reach T e f = [] := by
  unfold reach
  split
  · rename_i o _
    split
    · simp [reachO, builders_nil_of_not_mentioned T o f h, reachFns, closure_nil]
    · rfl
  · rfl

/-- the effects reached per entry point and field (after 37ddbbb and e8e8d59: only the evaluating entry
    point reaches any) -/
def expected (e f : String) : List Effect :=
  let cmdSubst : Effect := ⟨"substituteCommands", "exec.Command", "0"⟩
  if e == "Load" then
    if f == "Env" then [⟨"loadVariables", "os.Setenv", "0"⟩, cmdSubst]
    else if f == "LogDir" then [cmdSubst]
    else if f == "Params" then [⟨"parseParams", "os.Setenv", "0"⟩, ⟨"parseParams", "os.Setenv", "1"⟩, ⟨"parseParamValue", "exec.Command", "0"⟩]
    else []
  else []

def allEntries : List String := ["LoadYAML", "LoadMetadata", "LoadWithoutEval", "Load"]

/-- the COMPLETE matrix of the canonical table -/
theorem reach_matrix : ∀ e ∈ allEntries, ∀ f ∈ mentioned canon, reach canon e f = expected e f := by
  decide +kernel

/-! ### every `noEval` guard in the table is load-bearing

  The model abstracts the VALUE of a field away (a data condition is treated as satisfiable), so a guard that
  is weakened for some shapes of the value only — e.g. `if quoted || isBacktick && eval` in parseParamValue
  (seeded mutant C19-3) — reaches the table as a site without its `noEval` requirement. These lemmas state
  that for each guarded effect site and each guarded call edge of the canonical table, dropping that one
  requirement makes some non-evaluating entry point reach an effect: no guard is redundant, so such a change
  can never leave `C19_full` provable. (The concrete failing input is the canary stream's job.) -/

def unguardSite (T : Tables) (i : Nat) : Tables :=
  { T with sites := T.sites.set i ((T.sites.getD i []).set 4 "-") }

def unguardEdge (T : Tables) (i : Nat) : Tables :=
  { T with edges := T.edges.set i ((T.edges.getD i []).set 2 "-") }

def leaks (T : Tables) : Bool :=
  nonEvaluatingEntries.any (fun e => (mentioned T).any (fun f => !(reach T e f).isEmpty))

theorem canon_does_not_leak : leaks canon = false := by decide +kernel

theorem every_site_guard_needed :
    ∀ i ∈ List.range canon.sites.length,
      (isEffectRow (canon.sites.getD i []) && col (canon.sites.getD i []) 4 == "F") = true → leaks (unguardSite canon i) = true := by
  decide +kernel

/-- in particular the command substitution of parameter values (site of the seeded mutant C19-3) -/
theorem parseParamValue_guard_needed :
    ∀ i ∈ List.range canon.sites.length, col (canon.sites.getD i []) 0 = "parseParamValue" → col (canon.sites.getD i []) 3 = "exec" →
      (⟨"parseParamValue", "exec.Command", "0"⟩ : Effect) ∈ reach (unguardSite canon i) "LoadMetadata" "Params" := by
  decide +kernel

theorem every_edge_guard_needed :
    ∀ i ∈ List.range canon.edges.length,
      (col (canon.edges.getD i []) 2 == "F") = true → leaks (unguardEdge canon i) = true := by
  decide +kernel

/-! ### `call:` steps

  A `call:` step's command line is assembled by `parseFuncCall` (function template + argument values). On the
  canonical table `parseFuncCall` has no effect site, and it IS on the call path of the builder steps that read
  `Steps`, `HandlerOn` and `Functions` — so `C19_full` covers function calls: were an exec site to appear there
  (seeded mutant C19-4: `util.SplitCommandWithParse` in parseFuncCall, listed as an exec callee by the extractor),
  validation and display would reach it through all three fields, listing would not (it builds no steps). -/

def addSite (T : Tables) (row : List String) : Tables := { T with sites := T.sites ++ [row] }

def callSite : List String := ["parseFuncCall", "util.SplitCommandWithParse", "0", "exec", "-", "-"]

theorem parseFuncCall_on_call_path :
    ∀ e ∈ ["LoadYAML", "LoadWithoutEval"], ∀ f ∈ ["Steps", "HandlerOn", "Functions"],
      (match optsOf canon e with
       | some o => (reachFns canon o (builders canon o f)).contains "parseFuncCall"
       | none => false) = true := by
  decide +kernel

theorem call_site_would_leak :
    (∀ e ∈ ["LoadYAML", "LoadWithoutEval"], ∀ f ∈ ["Steps", "HandlerOn", "Functions"],
      (⟨"parseFuncCall", "util.SplitCommandWithParse", "0"⟩ : Effect) ∈ reach (addSite canon callSite) e f) ∧
    (∀ f ∈ mentioned canon, reach (addSite canon callSite) "LoadMetadata" f = []) := by
  decide +kernel

end BdModel.Load.Effects
