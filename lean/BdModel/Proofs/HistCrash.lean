import BdModel.Hist.Crash
import BdModel.Proofs.Hist
/- helper lemmas for C07: what survives each primitive change of the store -/
namespace BdModel.Hist

def SameRun (f f' : RunFile) : Prop := f'.dag = f.dag ∧ f'.stamp = f.stamp ∧ f'.req8 = f.req8

theorem SameRun.refl (f : RunFile) : SameRun f f := ⟨rfl, rfl, rfl⟩

theorem sameRun_of_key {f g : RunFile} (h : g.key = f.key) : SameRun f g := by
  simp only [RunFile.key, Key.mk.injEq] at h
  exact ⟨h.1, h.2.1, h.2.2.1⟩

theorem parse_append (f : RunFile) (l : Line) : parse { f with lines := f.lines ++ [l], age := 0 } = some l := by
  simp [parse]

/-- appending a line to the file with key `k`: every file is still there, either unchanged or (the
    addressed one) ending in the new line; keys do not change -/
theorem appendLine_survive (s : Store) (k : Key) (l' : Line) (f : RunFile) (hf : f ∈ s.files) :
    ∃ f' ∈ (appendLine s k l').files, f'.key = f.key ∧ (f' = f ∨ (f.key = k ∧ parse f' = some l')) := by
  unfold appendLine modifyFile
  by_cases hk : f.key = k
  · refine ⟨{ f with lines := f.lines ++ [l'], age := 0 }, ?_, rfl, Or.inr ⟨hk, parse_append f l'⟩⟩
    simp only [List.mem_map]
    exact ⟨f, hf, by simp [hk]⟩
  · refine ⟨f, ?_, rfl, Or.inl rfl⟩
    simp only [List.mem_map]
    exact ⟨f, hf, by simp [hk]⟩

theorem appendLine_addressed (s : Store) (k : Key) (l' : Line) (t : RunFile) (ht : t ∈ s.files) (hk : t.key = k) :
    ∃ t' ∈ (appendLine s k l').files, t'.key = k ∧ parse t' = some l' := by
  refine ⟨{ t with lines := t.lines ++ [l'], age := 0 }, ?_, hk, parse_append t l'⟩
  unfold appendLine modifyFile
  simp only [List.mem_map]
  exact ⟨t, ht, by simp [hk]⟩

theorem mem_closeTwinCreated (s : Store) (k : Key) (f : RunFile) (hf : f ∈ s.files) :
    f ∈ (closeTwinCreated s k).files := by
  unfold closeTwinCreated
  simp only
  split
  · exact hf
  · simp [hf]

/-- the twin exists (with whatever content) once it has been created -/
theorem twin_in_created (s : Store) (k : Key) :
    ∃ t ∈ (closeTwinCreated s k).files, t.key = { k with comp := true } := by
  unfold closeTwinCreated
  simp only
  split
  · rename_i h
    simp only [hasKey, List.any_eq_true] at h
    obtain ⟨t, ht, hk⟩ := h
    exact ⟨t, ht, by simpa using hk⟩
  · exact ⟨{ dag := k.dag, stamp := k.stamp, req8 := k.req8, comp := true }, by simp, rfl⟩

theorem modifyFile_absent (s : Store) (k : Key) (g : RunFile → RunFile) (h : hasKey s k = false) :
    (modifyFile s k g).files = s.files := by
  unfold modifyFile
  simp only
  rw [List.map_congr_left (g := id)]
  · simp
  · intro f hf
    have : f.key ≠ k := by
      intro e
      simp only [hasKey, List.any_eq_false] at h
      have := h f hf
      simp [e] at this
    simp [this]

theorem close_files (s : Store) (w : Nat) (k : Key) (l : Line) (hw : writerKey s w = some k)
    (hl : (s.files.find? (fun f => f.key == k)).bind parse = some l) :
    (close s w).files = (closeTwinWritten s k l).files.filter (fun f => f.key != k) := by
  unfold close closeTwinWritten closeTwinCreated
  simp only [hw, hl]
  split <;> rename_i h
  · have : hasKey s { k with comp := true } = true := by simpa [hasKey] using h
    simp [this, appendLine, modifyFile]
  · have hh : hasKey s { k with comp := true } = false := by simpa [hasKey] using h
    have hkey : ∀ f ∈ s.files, ¬ (f.dag = k.dag ∧ f.stamp = k.stamp ∧ f.req8 = k.req8 ∧ f.comp = true) := by
      intro f hf hc
      simp only [hasKey, List.any_eq_false] at hh
      have := hh f hf
      simp [RunFile.key, hc.1, hc.2.1, hc.2.2.1, hc.2.2.2] at this
    simp only [hh, appendLine, modifyFile]
    simp [RunFile.key]
    congr 1
    symm
    conv => rhs; rw [← List.map_id s.files]
    apply List.map_congr_left
    intro f hf
    simp [hkey f hf]

end BdModel.Hist
