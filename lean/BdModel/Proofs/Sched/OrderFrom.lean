import BdModel.Proofs.Sched.Order
/-
  The order invariants of the fine system (Order*.lean, proved there from the fresh initial state)
  generalised to EVERY state `Schedule` can be entered in (`Start`): a fresh graph, or what
  `setupRetry` hands over — steps that start from scratch next to steps kept with their recorded
  result (finished / skipped, arbitrary recorded counters). Used by C10 (retry runs).
-/
namespace BdModel.Sched

/-- a node as `NewExecutionGraphForRetry` + `setupRetry` leave a KEPT step: recorded result finished or
    skipped, recorded counters, no worker, nothing executed in this run -/
def KeptNode (x : NodeSt) : Prop :=
  ∃ st r d, (st = NStatus.success ∨ st = NStatus.skipped) ∧ x = { status := st, retry := r, doneCnt := d }

/-- the states `Schedule` is entered in -/
structure Start (s0 : State) : Prop where
  canceled : s0.canceled = false
  lastErr  : s0.lastErr = false
  timedOut : s0.timedOut = false
  loop     : s0.loop = .scanning
  hlog     : s0.hlog = []
  hplan    : s0.hplan = none
  atWait   : s0.atWait = none
  nodes    : ∀ j, s0.nd j = {} ∨ KeptNode (s0.nd j)

theorem start_init (c : Cfg) : Start (init c) :=
  ⟨rfl, rfl, rfl, rfl, rfl, rfl, rfl, fun _ => Or.inl rfl⟩

theorem reach_iff_from (c : Cfg) (s : State) : Reach c s ↔ ReachFrom c (init c) s := by
  constructor
  · intro h
    induction h with
    | init => exact .init
    | step a _ hs ih => exact .step a ih hs
  · intro h
    induction h with
    | init => exact .init
    | step a _ hs ih => exact .step a ih hs

/-- case split on a start node, with the fields a proof needs -/
theorem Start.node_cases {s0 : State} (h0 : Start s0) (j : Nat) :
    (s0.nd j).pc = .idle ∧ (s0.nd j).zombies = 0 ∧ (s0.nd j).execs = 0 ∧ (s0.nd j).launches = 0 ∧
    (s0.nd j).preSkip = false ∧ (s0.nd j).ranLast = false ∧ (s0.nd j).cmd = false ∧ (s0.nd j).ran = false ∧
    (s0.nd j).setupFailed = false ∧
    ((s0.nd j).status = .none ∨ (s0.nd j).status = .success ∨ (s0.nd j).status = .skipped) := by
  rcases h0.nodes j with h | ⟨st, r, d, hst, h⟩
  · simp [h]
  · rcases hst with rfl | rfl <;> simp [h]

/-- status none ⇒ no worker -/
theorem inv_none_idle_from (c : Cfg) (hn : NoRep c) {s0 : State} (h0 : Start s0) (s : State)
    (hr : ReachFrom c s0 s) : ∀ j, (s.nd j).status = .none → (s.nd j).pc = .idle := by
  induction hr with
  | init => intro j _; exact (h0.node_cases j).1
  | step a hr hs ih =>
    intro j
    have hae := aePc_norep c hn
    explode_step a hs <;> grind

/-- the loop only decides to launch a node that has no status yet, and nobody touches it meanwhile -/
theorem inv_launching_from (c : Cfg) (hn : NoRep c) {s0 : State} (h0 : Start s0) (s : State)
    (hr : ReachFrom c s0 s) : ∀ i, s.loop = .launching i → (s.nd i).status = .none := by
  induction hr with
  | init => intro j; simp [h0.loop]
  | step a hr hs ih =>
    intro j
    have hae := aePc_norep c hn
    have hN := inv_none_idle_from c hn h0 _ hr
    have hR := isReady_true c
    explode_step a hs <;> grind

/-- `NodeOK` with the one clause a kept step does not satisfy relaxed: a finished step either has a
    worker past its last attempt, or it has never been launched in this run (kept) -/
def NodeOKg (c : Cfg) (s : State) (j : Nat) : Prop :=
  ((s.nd j).status = .success →
      (s.nd j).pc = .td ∨ (s.nd j).pc = .deferred ∨ (s.nd j).pc = .gone ∨
      ((s.nd j).pc = .idle ∧ (s.nd j).launches = 0 ∧ (s.nd j).execs = 0)) ∧
  ((s.nd j).status = .error → (s.nd j).pc = .tail ∨ (s.nd j).pc = .td ∨ (s.nd j).pc = .deferred ∨ (s.nd j).pc = .gone) ∧
  ((s.nd j).status = .skipped → (s.nd j).pc = .idle) ∧
  ((s.nd j).pc = .wTimeout → s.timedOut = true) ∧
  ((s.nd j).pc ≠ .idle → 0 < (s.nd j).launches) ∧
  ((s.nd j).status = .running → 0 < (s.nd j).launches) ∧
  (0 < (s.nd j).execs → 0 < (s.nd j).launches) ∧
  ((s.nd j).preSkip = true → (c.node j).hasPre = true)

theorem inv_node_from (c : Cfg) (hn : NoRep c) {s0 : State} (h0 : Start s0) (s : State)
    (hr : ReachFrom c s0 s) : ∀ j, NodeOKg c s j := by
  induction hr with
  | init =>
    intro j
    have := h0.node_cases j
    simp only [NodeOKg]
    grind
  | step a hr hs ih =>
    intro j
    have hae := aePc_norep c hn
    have hN := inv_none_idle_from c hn h0 _ hr
    have hL := inv_launching_from c hn h0 _ hr
    have hR := isReady_true c
    have hR2 := isReady_label_cases c
    simp only [NodeOKg] at ih ⊢
    explode_step a hs <;> grind

theorem inv_ran_from (c : Cfg) (hn : NoRep c) {s0 : State} (h0 : Start s0) (s : State)
    (hr : ReachFrom c s0 s) : ∀ j, NodeRan s j := by
  induction hr with
  | init =>
    intro j
    have := h0.node_cases j
    simp only [NodeRan]
    grind
  | step a hr hs ih =>
    intro j
    have hae := aePc_norep c hn
    have hN := inv_none_idle_from c hn h0 _ hr
    simp only [NodeRan] at ih ⊢
    explode_step a hs <;> grind

theorem inv_live_from (c : Cfg) (hn : NoRep c) {s0 : State} (h0 : Start s0) (s : State)
    (hr : ReachFrom c s0 s) : ∀ j, NodeLive s j := by
  induction hr with
  | init =>
    intro j
    have := h0.node_cases j
    simp only [NodeLive]
    grind
  | step a hr hs ih =>
    intro j
    have hae := aePc_norep c hn
    have hN := inv_none_idle_from c hn h0 _ hr
    have hL := inv_launching_from c hn h0 _ hr
    have hR := isReady_true c
    have hR2 := isReady_label_cases c
    have hT := fun j => (inv_node_from c hn h0 _ hr j).2.2.2.1
    have hE := inv_ran_from c hn h0 _ hr
    simp only [NodeLive, NodeRan] at ih hE ⊢
    explode_step a hs <;> grind

/-- (B) in an unstopped run an active worker's node is `running` -/
theorem active_running_from (c : Cfg) (hn : NoRep c) {s0 : State} (h0 : Start s0) (s : State)
    (hr : ReachFrom c s0 s) (hc : s.canceled = false)
    (j : Nat) (h : (s.nd j).pc.active = true) : (s.nd j).status = .running := by
  have := (inv_live_from c hn h0 s hr j).1 hc
  revert h
  cases hp : (s.nd j).pc <;> simp_all [PC.active]

/-- once a dependency is licensed and settled it stays so and never executes again -/
theorem done_stable_from (c : Cfg) (hn : NoRep c) (hf : c.tdFaults = false) {s0 : State} (h0 : Start s0)
    (s s' : State) (hr : ReachFrom c s0 s) (a : Act) (hs : step c s a = some s') (d : Nat)
    (h : Licensed c s d ∧ Settled s d) :
    Licensed c s' d ∧ Settled s' d ∧ (s'.nd d).execs = (s.nd d).execs := by
  have hae := aePc_norep c hn
  have hL := inv_launching_from c hn h0 _ hr
  simp only [Licensed, Settled, PC.active_false_iff] at h ⊢
  explode_step a hs <;> grind

/-- (L) a licensed node has no active worker -/
theorem licensed_settled_from (c : Cfg) (hn : NoRep c) {s0 : State} (h0 : Start s0) (s : State)
    (hr : ReachFrom c s0 s) (d : Nat) (h : Licensed c s d) : Settled s d := by
  have := inv_node_from c hn h0 s hr d
  simp only [Licensed, Settled, PC.active_false_iff, NodeOKg] at *
  grind

/-- (K) once the gate has been passed for `i`, all dependencies are licensed and settled, forever -/
theorem inv_deps_from (c : Cfg) (hn : NoRep c) (hf : c.tdFaults = false) {s0 : State} (h0 : Start s0)
    (s : State) (hr : ReachFrom c s0 s) :
    ∀ i, Trig s i → ∀ d ∈ (c.node i).deps, Licensed c s d ∧ Settled s d := by
  induction hr with
  | init =>
    intro i h
    have := h0.node_cases i
    simp [Trig, h0.loop] at h
    grind
  | @step s s' a hr hs ih =>
    intro i ht d hd
    rcases trig_step c s s' a hs i ht with h | ⟨h1, h2⟩
    · have := done_stable_from c hn hf h0 s s' hr a hs d (ih i h d hd)
      exact ⟨this.1, this.2.1⟩
    · have hl := (isReady_true c s i h1).2 d hd
      have hse := licensed_settled_from c hn h0 s hr d hl
      simp only [Licensed, Settled, h2] at *
      exact ⟨hl, hse⟩

/-- readiness gate, for every run `Schedule` can make (fresh or retry) -/
theorem deps_done_from (c : Cfg) (hn : NoRep c) (hf : c.tdFaults = false) {s0 : State} (h0 : Start s0)
    (s : State) (hr : ReachFrom c s0 s) (i : Nat)
    (hp : (s.nd i).pc.active = true ∨ s.loop = .launching i) :
    ∀ d ∈ (c.node i).deps, Licensed c s d ∧ Settled s d := by
  apply inv_deps_from c hn hf h0 s hr i
  rcases hp with hp | hp
  · have := (inv_node_from c hn h0 s hr i).2.2.2.2.1
    simp only [PC.active_true_iff] at hp
    right; left; apply this; grind
  · exact Or.inl hp

/-- an unstopped run that has left its loop has no step `not started` or `running` -/
theorem inv_final_from (c : Cfg) (hn : NoRep c) {s0 : State} (h0 : Start s0) (s : State)
    (hr : ReachFrom c s0 s) :
    s.canceled = false → LoopDone s → ∀ i, i < c.n → (s.nd i).status ≠ .none ∧ (s.nd i).status ≠ .running := by
  induction hr with
  | init => simp [loopDone_iff, LoopPC.done, h0.loop]
  | @step s s' a hr hs ih =>
    intro hc hl i hi
    have hae := aePc_norep c hn
    have hL := inv_launching_from c hn h0 _ hr
    have hB := fun j => (inv_live_from c hn h0 _ hr j).1
    have hF := (isFinished_iff c s).1
    simp only [loopDone_iff] at ih hl
    explode_step a hs <;> grind [LoopPC.done]

theorem final_terminal_from (c : Cfg) (hn : NoRep c) {s0 : State} (h0 : Start s0)
    (s : State) (hr : ReachFrom c s0 s) (hc : s.canceled = false) (hl : LoopDone s)
    (i : Nat) (hi : i < c.n) : Terminal (s.nd i).status := by
  have := inv_final_from c hn h0 s hr hc hl i hi
  revert this
  cases (s.nd i).status <;> simp [Terminal]

end BdModel.Sched

#print axioms BdModel.Sched.deps_done_from
#print axioms BdModel.Sched.done_stable_from
#print axioms BdModel.Sched.final_terminal_from
