import BdModel.Proofs.Sched.OutcomeBase
/- inductive invariants of the scheduler model used by Outcome.lean (C04, C05).
   Every `*_step` lemma is a case analysis over the actions (`step_cases`) closed by `step_close`. -/
namespace BdModel.Sched

variable {c : Cfg} {s s' : State} {a : Act}

/-- (N) a node in status `none` has no worker -/
def InvN (s : State) : Prop := ∀ j, (s.nd j).status = .none → (s.nd j).pc = .idle ∨ (s.nd j).pc = .gone
/-- (L) the node being launched is in range and still `none` -/
def InvL (c : Cfg) (s : State) : Prop := ∀ i, s.loop = .launching i → i < c.n ∧ (s.nd i).status = .none
/-- (R) nodes outside the graph are never touched -/
def InvR (c : Cfg) (s : State) : Prop :=
  ∀ i, c.n ≤ i → (s.nd i).pc = .idle ∧ (s.nd i).status = .none ∧ (s.nd i).zombies = 0
/-- (B) in an unstopped run a worker that may still execute has its node in `running` -/
def InvB (s : State) : Prop := s.canceled = false → ∀ j, (s.nd j).pc.active = true → (s.nd j).status = .running
/-- (T) the timeout branch is taken only after the timeout fired -/
def InvT (s : State) : Prop := ∀ j, (s.nd j).pc = .wTimeout → s.timedOut = true
/-- (W) after the scan loop of an unstopped run every node is terminal -/
def InvW (c : Cfg) (s : State) : Prop :=
  s.canceled = false → s.loop.doneO = true → ∀ j, j < c.n → (s.nd j).status ≠ .none ∧ (s.nd j).status ≠ .running
/-- (Q) once the handlers run there is no worker left -/
def InvQ (c : Cfg) (s : State) : Prop :=
  s.loop.inH = true → ∀ j, j < c.n → ((s.nd j).pc = .idle ∨ (s.nd j).pc = .gone) ∧ (s.nd j).zombies = 0

/-- (A) the overall status is read only when the handlers start -/
def InvA (s : State) : Prop := s.atWait ≠ none → s.loop.inH = true
/-- (E1) a recorded error is reflected in `lastErr` -/
def InvE1 (s : State) : Prop := ∀ j, (s.nd j).status = .error → s.lastErr = true
/-- (C2) in an unstopped run only the loop writes `cancel`, on nodes without a worker -/
def InvC2 (s : State) : Prop :=
  s.canceled = false → s.timedOut = false →
    ∀ j, (s.nd j).status = .cancel → (s.nd j).pc = .idle ∨ (s.nd j).pc = .gone
/-- dependency `d` propagates cancellation to its dependents -/
def Blk (c : Cfg) (s : State) (d : Nat) : Prop :=
  ((s.nd d).status = .error ∧ (c.node d).contFail = false) ∨ (s.nd d).status = .cancel

/-- (C) in an unstopped run a `cancel` label has a cause among the dependencies -/
def InvC (c : Cfg) (s : State) : Prop :=
  s.canceled = false → s.timedOut = false →
    ∀ j, (s.nd j).status = .cancel → ∃ d, d ∈ (c.node j).deps ∧ Blk c s d
/-- (O) the overall status read after `wg.Wait()` in an unstopped run -/
def InvO (s : State) : Prop :=
  ∀ o, s.atWait = some o → s.canceled = false → s.timedOut = false →
    o = if s.lastErr then .error else .success
/-- (E2) in an unstopped run `lastErr` stems from a node in status `error` -/
def InvE2 (c : Cfg) (s : State) : Prop :=
  s.lastErr = true → s.canceled = false → s.timedOut = false → ∃ j, j < c.n ∧ (s.nd j).status = .error
/-- (X) no command starts after `wg.Wait()` -/
def InvX (c : Cfg) (s : State) : Prop := s.loop.inH = true → totalExecs c s = s.execsAtWait
/-- (G) in an unstopped run a worker that is past `execStart`, or at `tail` with its node still `running`,
    has executed (`ran`): `tail` then writes `success`, never `cancel` -/
def InvG (s : State) : Prop :=
  s.canceled = false → ∀ j, ((s.nd j).pc = .exec ∨ (s.nd j).pc = .wErr ∨ (s.nd j).pc = .wTimeout ∨
    (s.nd j).pc = .retrySleep ∨ ((s.nd j).pc = .tail ∧ (s.nd j).status = .running)) → (s.nd j).ran = true

/-- closing tactic for one branch of `step_cases` -/
macro "step_close" : tactic =>
  `(tactic| ((try simp only [updN_apply_ob, isFinished_iff_ob, workersDone_iff, PC.active_iff,
      InvN, InvL, InvR, InvB, InvT, InvW, InvQ, InvA, InvE1, InvC2, Blk, InvO, InvX, InvG] at *) <;> grind))

theorem step_canceled_mono (hs : step c s a = some s') (h : s'.canceled = false) : s.canceled = false := by
  step_cases a hs <;> step_close

theorem step_timedOut_mono (hs : step c s a = some s') (h : s'.timedOut = false) : s.timedOut = false := by
  step_cases a hs <;> step_close

theorem step_lastErr_mono (hs : step c s a = some s') (h : s.lastErr = true) : s'.lastErr = true := by
  step_cases a hs <;> step_close

theorem invN_step (hn : NoRep c) (hs : step c s a = some s') (ih : InvN s) : InvN s' := by
  intro j
  step_cases a hs <;> (try simp only [afterPC_norep (hn _)] at *) <;> step_close

theorem invN (hn : NoRep c) (hr : Reach c s) : InvN s := by
  induction hr with
  | init => intro j; simp [init]
  | step a _ hs ih => exact invN_step hn hs ih

theorem invL_step (hs : step c s a = some s') (hN : InvN s) (ih : InvL c s) : InvL c s' := by
  intro j
  have hr := isReady_fst_true c s
  step_cases a hs <;> step_close

theorem invL (hn : NoRep c) (hr : Reach c s) : InvL c s := by
  induction hr with
  | init => intro j; simp [init]
  | step a hr hs ih => exact invL_step hs (invN hn hr) ih

theorem invR_step (hs : step c s a = some s') (hL : InvL c s) (ih : InvR c s) : InvR c s' := by
  intro j
  step_cases a hs <;> step_close

theorem invR (hn : NoRep c) (hr : Reach c s) : InvR c s := by
  induction hr with
  | init => intro j; simp [init]
  | step a hr hs ih => exact invR_step hs (invL hn hr) ih

theorem invB_step (hn : NoRep c) (hs : step c s a = some s') (hN : InvN s) (hL : InvL c s) (ih : InvB s) :
    InvB s' := by
  intro hc j
  step_cases a hs <;> (try simp only [afterPC_norep (hn _)] at *) <;> step_close

theorem invB (hn : NoRep c) (hr : Reach c s) : InvB s := by
  induction hr with
  | init => intro _ j; simp [init, PC.active]
  | step a hr hs ih => exact invB_step hn hs (invN hn hr) (invL hn hr) ih

theorem invT_step (hs : step c s a = some s') (ih : InvT s) : InvT s' := by
  intro j
  step_cases a hs <;> (try simp only [afterPC] at *) <;> step_close

theorem invT (hr : Reach c s) : InvT s := by
  induction hr with
  | init => intro j; simp [init]
  | step a hr hs ih => exact invT_step hs ih

theorem invW_step (hs : step c s a = some s') (hB : InvB s) (ih : InvW c s) : InvW c s' := by
  intro hc hl j hj
  step_cases a hs <;> step_close

theorem invW (hn : NoRep c) (hr : Reach c s) : InvW c s := by
  induction hr with
  | init => intro _ h; simp [init, LoopPC.doneO] at h
  | step a hr hs ih => exact invW_step hs (invB hn hr) ih

theorem invQ_step (hs : step c s a = some s') (ih : InvQ c s) : InvQ c s' := by
  intro hl j hj
  step_cases a hs <;> step_close

theorem invQ (hr : Reach c s) : InvQ c s := by
  induction hr with
  | init => intro h; simp [init, LoopPC.inH] at h
  | step a hr hs ih => exact invQ_step hs ih

theorem invA_step (hs : step c s a = some s') (ih : InvA s) : InvA s' := by
  step_cases a hs <;> step_close

theorem invA (hr : Reach c s) : InvA s := by
  induction hr with
  | init => intro h; simp [init] at h
  | step a hr hs ih => exact invA_step hs ih

theorem invE1_step (hs : step c s a = some s') (ih : InvE1 s) : InvE1 s' := by
  intro j
  have hr := isReady_not_error c s
  step_cases a hs <;> step_close

theorem invE1 (hr : Reach c s) : InvE1 s := by
  induction hr with
  | init => intro j; simp [init]
  | step a hr hs ih => exact invE1_step hs ih

theorem error_stable (hs : step c s a = some s') (hL : InvL c s) (hB : InvB s)
    (hc : s'.canceled = false) (j : Nat) (h : (s.nd j).status = .error) : (s'.nd j).status = .error := by
  step_cases a hs <;> step_close

/-- node an action works on -/
def Act.node : Act → Nat
  | .visitDecide i | .visitLaunch i _ | .setupDone i _ | .check i | .execStart i | .execEnd i _
  | .postWrite i | .retryWake i | .tail i | .teardown i _ | .deferred i | .zombie i | .signalNode i _ _ => i
  | _ => 0

theorem lastErr_new (hs : step c s a = some s') (hT : InvT s) (hR : InvR c s)
    (h0 : s.lastErr = false) (h1 : s'.lastErr = true) (hc : s'.canceled = false) (ht : s'.timedOut = false) :
    a.node < c.n ∧ (s'.nd a.node).status = .error := by
  step_cases a hs <;> simp only [Act.node] <;> step_close

theorem invG_step (hs : step c s a = some s') (ih : InvG s) : InvG s' := by
  intro hc j
  have hr := isReady_label_ob c s
  step_cases a hs <;> (try simp only [afterPC] at *) <;> step_close

theorem invG (hr : Reach c s) : InvG s := by
  induction hr with
  | init => intro _ j; simp [init]
  | step a hr hs ih => exact invG_step hs ih

theorem invC2_step (hs : step c s a = some s') (hN : InvN s) (hT : InvT s) (hG : InvG s) (ih : InvC2 s) :
    InvC2 s' := by
  intro hc ht j
  step_cases a hs <;> step_close

theorem invC2 (hn : NoRep c) (hr : Reach c s) : InvC2 s := by
  induction hr with
  | init => intro _ _ j; simp [init]
  | step a hr hs ih => exact invC2_step hs (invN hn hr) (invT hr) (invG hr) ih

theorem blk_stable (hs : step c s a = some s') (hL : InvL c s) (hB : InvB s) (hC : InvC2 s)
    (hc : s'.canceled = false) (ht : s'.timedOut = false) (d : Nat) (h : Blk c s d) : Blk c s' d := by
  step_cases a hs <;> step_close

theorem cancel_new (hs : step c s a = some s') (hT : InvT s) (hG : InvG s)
    (hc : s'.canceled = false) (ht : s'.timedOut = false) (j : Nat)
    (h0 : (s.nd j).status ≠ .cancel) (h1 : (s'.nd j).status = .cancel) :
    (isReady c s j).2 = some .cancel := by
  step_cases a hs <;> step_close

theorem invC_step (hs : step c s a = some s') (hL : InvL c s) (hB : InvB s) (hC : InvC2 s)
    (hT : InvT s) (hG : InvG s) (ih : InvC c s) : InvC c s' := by
  intro hc ht j hj
  by_cases h0 : (s.nd j).status = .cancel
  · obtain ⟨d, hd, hb⟩ := ih (step_canceled_mono hs hc) (step_timedOut_mono hs ht) j h0
    exact ⟨d, hd, blk_stable hs hL hB hC hc ht d hb⟩
  · obtain ⟨d, hd, hb⟩ := isReady_cancel c s j (cancel_new hs hT hG hc ht j h0 hj)
    exact ⟨d, hd, blk_stable hs hL hB hC hc ht d hb⟩

theorem invC (hn : NoRep c) (hr : Reach c s) : InvC c s := by
  induction hr with
  | init => intro _ _ j; simp [init]
  | step a hr hs ih => exact invC_step hs (invL hn hr) (invB hn hr) (invC2 hn hr) (invT hr) (invG hr) ih

theorem invE2_step (hs : step c s a = some s') (hL : InvL c s) (hB : InvB s) (hT : InvT s)
    (hR : InvR c s) (ih : InvE2 c s) : InvE2 c s' := by
  intro h1 hc ht
  by_cases h0 : s.lastErr = true
  · obtain ⟨j, hj, he⟩ := ih h0 (step_canceled_mono hs hc) (step_timedOut_mono hs ht)
    exact ⟨j, hj, error_stable hs hL hB hc j he⟩
  · exact ⟨_, lastErr_new hs hT hR (by simpa using h0) h1 hc ht⟩

theorem invE2 (hn : NoRep c) (hr : Reach c s) : InvE2 c s := by
  induction hr with
  | init => intro h; simp [init] at h
  | step a hr hs ih =>
    exact invE2_step hs (invL hn hr) (invB hn hr) (invT hr) (invR hn hr) ih

theorem invO_step (hs : step c s a = some s') (hA : InvA s) (hQ : InvQ c s) (hR : InvR c s) (hW : InvW c s)
    (ih : InvO s) : InvO s' := by
  intro o ho hc ht
  have hall : s.atWait ≠ none → ∀ j, (s.nd j).pc = .idle ∨ (s.nd j).pc = .gone := by
    intro h j
    by_cases hj : j < c.n
    · exact (hQ (hA h) j hj).1
    · exact Or.inl (hR j (Nat.le_of_not_lt hj)).1
  have hrun := anyRunning_eq_false_iff c s
  clear hA hQ hR
  step_cases a hs <;> (try simp only [overall] at *) <;> step_close

theorem invO (hn : NoRep c) (hr : Reach c s) : InvO s := by
  induction hr with
  | init => intro o h; simp [init] at h
  | step a hr hs ih => exact invO_step hs (invA hr) (invQ hr) (invR hn hr) (invW hn hr) ih

theorem invX_step (hs : step c s a = some s') (hQ : InvQ c s) (ih : InvX c s) : InvX c s' := by
  intro hl
  have key : (∀ j, j < c.n → (s'.nd j).execs = (s.nd j).execs) ∧
      (s'.execsAtWait = totalExecs c s ∨ (s.loop.inH = true ∧ s'.execsAtWait = s.execsAtWait)) := by
    refine ⟨fun j hj => ?_, ?_⟩ <;> step_cases a hs <;> step_close
  rw [totalExecs_congr c s s' key.1]
  rcases key.2 with h | ⟨h1, h2⟩
  · exact h.symm
  · rw [h2]; exact ih h1

theorem invX (hr : Reach c s) : InvX c s := by
  induction hr with
  | init => intro h; simp [init, LoopPC.inH] at h
  | step a hr hs ih => exact invX_step hs (invQ hr) ih

end BdModel.Sched
