import BdModel.Sched.Defs
/- helper lemmas + main proofs for C15 and C03 -/
namespace BdModel.Sched

theorem runningCount_le (c : Cfg) (s : State) (hr : Reach c s) (hk : 0 < c.maxActive) :
    runningCount c s ≤ c.maxActive := by
  sorry

theorem activeWorkers_le (c : Cfg) (hn : NoRep c) (s : State) (hr : Reach c s) (hk : 0 < c.maxActive) :
    activeWorkers c s ≤ c.maxActive := by
  sorry

theorem executing_le_active (c : Cfg) (s : State) : executing c s ≤ activeWorkers c s := by
  sorry

/-- bookkeeping of attempts -/
theorem execs_eq (c : Cfg) (hn : NoRep c) (hd : c.dry = false) (s : State) (hr : Reach c s) (i : Nat) :
    (s.nd i).execs = (s.nd i).retry + (if (s.nd i).ranLast then 1 else 0) := by
  sorry

theorem retry_le_limit (c : Cfg) (s : State) (hr : Reach c s) (i : Nat) :
    (s.nd i).retry ≤ (c.node i).limit := by
  sorry

theorem dry_no_exec (c : Cfg) (hd : c.dry = true) (s : State) (hr : Reach c s) (i : Nat) :
    (s.nd i).execs = 0 := by
  sorry

/-- final accounting for a run that was neither stopped nor timed out -/
theorem final_counts (c : Cfg) (hw : WF c) (hn : NoRep c) (hdry : c.dry = false) (hf : c.tdFaults = false)
    (s : State) (hr : Reach c s) (hc : s.canceled = false) (ht : s.timedOut = false)
    (hl : LoopDone s) (i : Nat) (hi : i < c.n) :
    ((s.nd i).status = .success → (s.nd i).execs = (s.nd i).retry + 1) ∧
    ((s.nd i).status = .error →
        ((s.nd i).setupFailed = true ∧ (s.nd i).execs = (s.nd i).retry) ∨
        ((s.nd i).execs = (c.node i).limit + 1 ∧ (s.nd i).retry = (c.node i).limit)) ∧
    ((s.nd i).status = .cancel → (s.nd i).execs = 0) ∧
    ((s.nd i).status = .skipped →
        (s.nd i).execs = (s.nd i).retry ∧ ((s.nd i).preSkip = false → (s.nd i).execs = 0)) := by
  sorry

end BdModel.Sched
