import BdModel.Proofs.Sched.LimitBase
/- helper lemmas + main proofs for C15 and C03 -/
namespace BdModel.Sched
open Lim

theorem retry_le_limit (c : Cfg) (s : State) (hr : Reach c s) (i : Nat) :
    (s.nd i).retry ≤ (c.node i).limit := by
  induction hr with
  | init => simp [init]
  | step a hr hs ih =>
    cases a with
    | visitDecide j =>
      rcases step_visitDecide hs with ⟨-, -, rfl | ⟨-, l, -, -, rfl⟩ | ⟨-, -, -, -, rfl⟩⟩
      · exact ih
      · simp; split <;> simp_all
      · exact ih
    | _ =>
      step_cases hs
      all_goals first | exact ih | (simp; split <;> simp_all <;> omega)

theorem dry_no_exec (c : Cfg) (hd : c.dry = true) (s : State) (hr : Reach c s) (i : Nat) :
    (s.nd i).execs = 0 := by
  induction hr with
  | init => simp [init]
  | step a hr hs ih =>
    cases a with
    | visitDecide j =>
      rcases step_visitDecide hs with ⟨-, -, rfl | ⟨-, l, -, -, rfl⟩ | ⟨-, -, -, -, rfl⟩⟩
      · exact ih
      · simp; split <;> simp_all
      · exact ih
    | _ =>
      step_cases hs
      all_goals first | exact ih | (simp; split <;> simp_all)

theorem executing_le_active (c : Cfg) (s : State) : executing c s ≤ activeWorkers c s := by
  rw [executing_eq, activeWorkers_eq]
  apply cnt_mono
  intro j _
  cases (s.nd j).pc <;> simp [PC.active]

/-! ### C15: the `maxActiveRuns` limit -/

theorem rc_aux {c : Cfg} {s s' : State} {k : Nat}
    (h1 : runningCount c s ≤ k) (h2 : ∀ i, s.loop = .launching i → runningCount c s < k)
    (hp : ∀ j, (s'.nd j).status = .running → (s.nd j).status = .running)
    (hl : ∀ i, s'.loop = .launching i → s.loop = .launching i) :
    runningCount c s' ≤ k ∧ ∀ i, s'.loop = .launching i → runningCount c s' < k := by
  have hle : runningCount c s' ≤ runningCount c s := by
    rw [runningCount_eq, runningCount_eq]
    apply cnt_mono
    intro j _
    simpa using hp j
  refine ⟨by omega, fun i hi => ?_⟩
  have := h2 i (hl i hi)
  omega

theorem rc_aux_launch {c : Cfg} {s s' : State} {k : Nat} (j : Nat)
    (h1 : runningCount c s < k)
    (hp : ∀ x, x ≠ j → (s'.nd x).status = .running → (s.nd x).status = .running)
    (hl : ∀ i, s'.loop ≠ .launching i) :
    runningCount c s' ≤ k ∧ ∀ i, s'.loop = .launching i → runningCount c s' < k := by
  have hle : runningCount c s' ≤ runningCount c s + 1 := by
    rw [runningCount_eq, runningCount_eq]
    apply cnt_frame_succ j
    intro x hx
    simpa using hp x hx
  exact ⟨by omega, fun i hi => absurd hi (hl i)⟩

theorem rc_inv (c : Cfg) (s : State) (hr : Reach c s) (hk : 0 < c.maxActive) :
    runningCount c s ≤ c.maxActive ∧ ∀ i, s.loop = .launching i → runningCount c s < c.maxActive := by
  induction hr with
  | init =>
    have : runningCount c (init c) = 0 := by
      rw [runningCount_eq]; exact cnt_zero (fun _ => rfl)
    rw [this]
    exact ⟨Nat.zero_le _, fun i hi => by simp [init] at hi⟩
  | step a hr hs ih =>
    obtain ⟨ih1, ih2⟩ := ih
    cases a with
    | visitDecide j =>
      rcases step_visitDecide hs with ⟨hsc, -, rfl | ⟨hst, l, hl, -, rfl⟩ | ⟨-, -, hm, -, rfl⟩⟩
      · exact ⟨ih1, ih2⟩
      · apply rc_aux ih1 ih2
        · intro x; simp; split <;> rcases hl with rfl | rfl <;> simp_all
        · simp
      · exact ⟨ih1, fun _ _ => hm hk⟩
    | visitLaunch j b =>
      step_cases hs
      all_goals
        apply rc_aux_launch j (ih2 j (by assumption))
        · intro x hx; simp [hx]
        · simp
    | _ =>
      step_cases hs
      all_goals
        apply rc_aux ih1 ih2
        · intro x; simp; try (split <;> simp_all)
        · simp_all

theorem runningCount_le (c : Cfg) (s : State) (hr : Reach c s) (hk : 0 < c.maxActive) :
    runningCount c s ≤ c.maxActive := (rc_inv c s hr hk).1

/-! ### structural invariants without repeat policies -/

/-- a node in status `none` has no worker -/
theorem none_idle (c : Cfg) (hn : NoRep c) (s : State) (hr : Reach c s) (j : Nat) :
    (s.nd j).status = .none → (s.nd j).pc = .idle := by
  induction hr with
  | init => simp [init]
  | step a hr hs ih =>
    cases a with
    | visitDecide i =>
      rcases step_visitDecide hs with ⟨-, -, rfl | ⟨-, l, hl, -, rfl⟩ | ⟨-, -, -, -, rfl⟩⟩
      · exact ih
      · simp; split <;> rcases hl with rfl | rfl <;> simp_all
      · exact ih
    | _ =>
      step_cases hs
      all_goals first | exact ih | (simp [aePc_ne_check hn] at * <;> (try split) <;> simp_all)

/-- the loop only decides to launch a node in status `none`, and nobody else touches such a node -/
theorem launching_none (c : Cfg) (hn : NoRep c) (s : State) (hr : Reach c s) (i : Nat) :
    s.loop = .launching i → (s.nd i).status = .none := by
  induction hr with
  | init => simp [init]
  | step a hr hs ih =>
    have hB := none_idle c hn _ hr i
    cases a with
    | visitDecide j =>
      rcases step_visitDecide hs with ⟨hsc, -, rfl | ⟨-, l, hl, -, rfl⟩ | ⟨hst, -, -, -, rfl⟩⟩
      · exact ih
      · simp [hsc]
      · simp; rintro rfl; exact hst
    | _ =>
      step_cases hs
      all_goals first | exact ih | (simp [aePc_ne_check hn] at * <;> (try split) <;> simp_all)

/-- in an unstopped run every worker that can still execute belongs to a node in status `running` -/
theorem active_running_lim (c : Cfg) (hn : NoRep c) (s : State) (hr : Reach c s) (hc : s.canceled = false)
    (j : Nat) : (s.nd j).pc.active = true → (s.nd j).status = .running := by
  induction hr with
  | init => simp [init]
  | step a hr hs ih =>
    have hB := none_idle c hn _ hr j
    have hL := launching_none c hn _ hr j
    cases a with
    | visitDecide i =>
      rcases step_visitDecide hs with ⟨hsc, -, rfl | ⟨hst, l, hl, -, rfl⟩ | ⟨hst, -, -, -, rfl⟩⟩
      · exact ih hc
      · simp at *; split <;> simp_all
      · exact ih hc
    | _ =>
      step_cases hs
      all_goals first | exact ih hc |
        (simp [aePc_ne_check hn] at * <;> (try split) <;> simp_all [aePc_active hn])

theorem aw_aux {c : Cfg} {s s' : State} {k : Nat}
    (h1 : activeWorkers c s ≤ k) (h2 : ∀ i, s.loop = .launching i → activeWorkers c s < k)
    (hp : ∀ j, (s'.nd j).pc.active = true → (s.nd j).pc.active = true)
    (hl : ∀ i, s'.loop = .launching i → s.loop = .launching i) :
    activeWorkers c s' ≤ k ∧ ∀ i, s'.loop = .launching i → activeWorkers c s' < k := by
  have hle : activeWorkers c s' ≤ activeWorkers c s := by
    rw [activeWorkers_eq, activeWorkers_eq]
    exact cnt_mono (fun j _ => hp j)
  refine ⟨by omega, fun i hi => ?_⟩
  have := h2 i (hl i hi)
  omega

theorem aw_aux_launch {c : Cfg} {s s' : State} {k : Nat} (j : Nat)
    (h1 : activeWorkers c s < k)
    (hp : ∀ x, x ≠ j → (s'.nd x).pc.active = true → (s.nd x).pc.active = true)
    (hl : ∀ i, s'.loop ≠ .launching i) :
    activeWorkers c s' ≤ k ∧ ∀ i, s'.loop = .launching i → activeWorkers c s' < k := by
  have hle : activeWorkers c s' ≤ activeWorkers c s + 1 := by
    rw [activeWorkers_eq, activeWorkers_eq]
    exact cnt_frame_succ j hp
  exact ⟨by omega, fun i hi => absurd hi (hl i)⟩

theorem aw_le_rc (c : Cfg) (hn : NoRep c) (s : State) (hr : Reach c s) (hc : s.canceled = false) :
    activeWorkers c s ≤ runningCount c s := by
  rw [activeWorkers_eq, runningCount_eq]
  apply cnt_mono
  intro x _ hx
  simpa using active_running_lim c hn _ hr hc x hx

theorem aw_inv (c : Cfg) (hn : NoRep c) (s : State) (hr : Reach c s) (hk : 0 < c.maxActive) :
    activeWorkers c s ≤ c.maxActive ∧ ∀ i, s.loop = .launching i → activeWorkers c s < c.maxActive := by
  induction hr with
  | init =>
    have : activeWorkers c (init c) = 0 := by
      rw [activeWorkers_eq]; exact cnt_zero (fun _ => rfl)
    rw [this]
    exact ⟨Nat.zero_le _, fun i hi => by simp [init] at hi⟩
  | step a hr hs ih =>
    obtain ⟨ih1, ih2⟩ := ih
    cases a with
    | visitDecide j =>
      rcases step_visitDecide hs with ⟨hsc, -, rfl | ⟨hst, l, hl, -, rfl⟩ | ⟨-, hcn, hm, -, rfl⟩⟩
      · exact ⟨ih1, ih2⟩
      · apply aw_aux ih1 ih2
        · intro x; simp; split <;> simp_all
        · simp
      · refine ⟨ih1, fun _ _ => ?_⟩
        have h1 := aw_le_rc c hn _ hr hcn
        exact Nat.lt_of_le_of_lt h1 (hm hk)
    | visitLaunch j b =>
      step_cases hs
      all_goals
        apply aw_aux_launch j (ih2 j (by assumption))
        · intro x hx; simp [hx]
        · simp
    | _ =>
      step_cases hs
      all_goals
        apply aw_aux ih1 ih2
        · intro x; simp; try (split <;> simp_all [aePc_active hn])
        · simp_all

theorem activeWorkers_le (c : Cfg) (hn : NoRep c) (s : State) (hr : Reach c s) (hk : 0 < c.maxActive) :
    activeWorkers c s ≤ c.maxActive := (aw_inv c hn s hr hk).1

/-! ### C03: bookkeeping of attempts -/

/-- per-node invariant behind `execs_eq` -/
def ExInv (x : NodeSt) : Prop :=
  x.execs = x.retry + (if x.ranLast then 1 else 0) ∧
  ((x.pc = .setup ∨ x.pc = .check ∨ x.pc = .starting ∨ x.pc = .retrySleep ∨ x.status = .none) →
    x.ranLast = false) ∧
  (x.pc = .exec → x.ranLast = true)

theorem ex_inv (c : Cfg) (hn : NoRep c) (hd : c.dry = false) (s : State) (hr : Reach c s) (j : Nat) :
    ExInv (s.nd j) := by
  induction hr with
  | init => simp [init, ExInv]
  | step a hr hs ih =>
    have hB := none_idle c hn _ hr j
    have hL := launching_none c hn _ hr j
    cases a with
    | visitDecide i =>
      rcases step_visitDecide hs with ⟨hsc, -, rfl | ⟨hst, l, hl, -, rfl⟩ | ⟨hst, -, -, -, rfl⟩⟩
      · exact ih
      · simp [ExInv] at *; split <;> simp_all
      · exact ih
    | _ =>
      step_cases hs
      all_goals first | exact ih |
        (simp [ExInv, aePc_eq_noRep hn] at * <;> (try split) <;> simp_all [aePc_eq_noRep hn])

/-- the ghost flag `ranLast` is only set by `execStart`, which also sets the worker's `executed` flag
    `ran`; `visitLaunch` resets `ran` only for a node in status `none`, where `ranLast` is off -/
theorem ranLast_ran (c : Cfg) (hn : NoRep c) (hd : c.dry = false) (s : State) (hr : Reach c s) (j : Nat) :
    (s.nd j).ranLast = true → (s.nd j).ran = true := by
  induction hr with
  | init => simp [init]
  | step a hr hs ih =>
    have hL := launching_none c hn _ hr j
    have hE := ex_inv c hn hd _ hr j
    cases a with
    | visitDecide i =>
      rcases step_visitDecide hs with ⟨hsc, -, rfl | ⟨hst, l, hl, -, rfl⟩ | ⟨hst, -, -, -, rfl⟩⟩
      · exact ih
      · simp at *; split <;> simp_all
      · exact ih
    | _ =>
      step_cases hs
      all_goals first | exact ih |
        (simp [ExInv] at * <;> (try split) <;> simp_all)

/-- bookkeeping of attempts -/
theorem execs_eq (c : Cfg) (hn : NoRep c) (hd : c.dry = false) (s : State) (hr : Reach c s) (i : Nat) :
    (s.nd i).execs = (s.nd i).retry + (if (s.nd i).ranLast then 1 else 0) :=
  (ex_inv c hn hd s hr i).1

/-! ### C03: final accounting of an unstopped run -/

/-- the stop flag and the timeout flag are never reset -/
theorem step_flags {c : Cfg} {s s' : State} {a : Act} (hs : step c s a = some s') :
    (s'.canceled = false → s.canceled = false) ∧ (s'.timedOut = false → s.timedOut = false) := by
  cases a with
  | visitDecide i =>
    rcases step_visitDecide hs with ⟨-, -, rfl | ⟨-, l, -, -, rfl⟩ | ⟨-, -, -, -, rfl⟩⟩ <;> simp
  | _ =>
    step_cases hs
    all_goals simp_all

/-- in an unstopped run without teardown faults, a terminal status is never overwritten -/
theorem status_stable (c : Cfg) (hn : NoRep c) (hf : c.tdFaults = false) (s s' : State) (hr : Reach c s)
    (a : Act) (hs : step c s a = some s') (hc : s'.canceled = false) (j : Nat)
    (h1 : (s.nd j).status ≠ .none) (h2 : (s.nd j).status ≠ .running) :
    (s'.nd j).status = (s.nd j).status := by
  have hc0 := (step_flags hs).1 hc
  have hL := launching_none c hn _ hr j
  have hA := active_running_lim c hn _ hr hc0 j
  cases a with
  | visitDecide i =>
    rcases step_visitDecide hs with ⟨-, -, rfl | ⟨hst, l, -, -, rfl⟩ | ⟨-, -, -, -, rfl⟩⟩
    · rfl
    · simp; split <;> simp_all
    · rfl
  | _ =>
    step_cases hs
    all_goals first | rfl | (simp at * <;> (try split) <;> simp_all)

theorem licensed_stable (c : Cfg) (hn : NoRep c) (hf : c.tdFaults = false) (s s' : State) (hr : Reach c s)
    (a : Act) (hs : step c s a = some s') (hc : s'.canceled = false) (d : Nat)
    (h : Licensed c s d) : Licensed c s' d := by
  have := status_stable c hn hf s s' hr a hs hc d
  unfold Licensed at *
  rcases h with h | ⟨h, h'⟩ | ⟨h, h'⟩ <;> simp_all

/-- the loop has decided to launch `i`, or a worker of `i` is before/in an execution, or `i` has executed -/
def Started (s : State) (i : Nat) : Prop :=
  s.loop = .launching i ∨ (s.nd i).pc.active = true ∨ (s.nd i).execs > 0

theorem started_step {c : Cfg} {s s' : State} {a : Act} (hs : step c s a = some s') (i : Nat)
    (h : Started s' i) : Started s i ∨ ∀ d ∈ (c.node i).deps, Licensed c s d := by
  cases a with
  | visitDecide j =>
    rcases step_visitDecide hs with ⟨hsc, -, rfl | ⟨-, l, -, -, rfl⟩ | ⟨-, -, -, hlic, rfl⟩⟩
    · exact Or.inl h
    · left
      simp [Started] at *
      split at h <;> simp_all
    · by_cases hij : i = j
      · subst hij; exact Or.inr hlic
      · left
        simp [Started] at *
        rcases h with h | h
        · exact absurd h.symm hij
        · exact Or.inr h
  | _ =>
    step_cases hs
    all_goals first | exact Or.inl h |
      (left; simp [Started] at * <;> (try split at h) <;> simp_all)

/-- the dependencies of a started node are licensed, for good (unstopped run, no teardown faults) -/
theorem deps_licensed (c : Cfg) (hn : NoRep c) (hf : c.tdFaults = false) (s : State) (hr : Reach c s)
    (hc : s.canceled = false) (i : Nat) (h : Started s i) : ∀ d ∈ (c.node i).deps, Licensed c s d := by
  induction hr with
  | init => simp [Started, init] at h
  | @step s0 s1 a hr hs ih =>
    have hc0 := (step_flags hs).1 hc
    have key : ∀ d ∈ (c.node i).deps, Licensed c s0 d := by
      rcases started_step hs i h with h0 | h0
      · exact ih hc0 h0
      · exact h0
    exact fun d hd => licensed_stable c hn hf s0 s1 hr a hs hc d (key d hd)

/-- per-node invariant of an unstopped, un-timed-out run behind `final_counts` -/
def FinInv (c : Cfg) (i : Nat) (x : NodeSt) : Prop :=
  (x.pc = .tail → x.status = .running → x.ranLast = true) ∧
  (x.status = .success → x.ranLast = true) ∧
  (x.pc = .wErr → x.ranLast = true ∧ x.retry = (c.node i).limit) ∧
  (x.status = .error →
    (x.setupFailed = true ∧ x.ranLast = false) ∨ (x.ranLast = true ∧ x.retry = (c.node i).limit)) ∧
  x.pc ≠ .wTimeout ∧
  (x.status = .cancel → x.execs = 0) ∧
  (x.status = .skipped → x.ranLast = false ∧ (x.preSkip = false → x.execs = 0))

theorem fin_inv (c : Cfg) (hn : NoRep c) (hdry : c.dry = false) (hf : c.tdFaults = false)
    (s : State) (hr : Reach c s) (hc : s.canceled = false) (ht : s.timedOut = false) (j : Nat) :
    FinInv c j (s.nd j) := by
  induction hr with
  | init => simp [init, FinInv]
  | @step s0 s1 a hr hs ih =>
    have hc0 := (step_flags hs).1 hc
    have ht0 := (step_flags hs).2 ht
    replace ih := ih hc0 ht0
    have hB := none_idle c hn _ hr j
    have hL := launching_none c hn _ hr j
    have hA := active_running_lim c hn _ hr hc0 j
    have hE := ex_inv c hn hdry _ hr j
    have hR := retry_le_limit c _ hr j
    have hN := ranLast_ran c hn hdry _ hr j
    cases a with
    | visitDecide i =>
      rcases step_visitDecide hs with ⟨hsc, -, rfl | ⟨hst, l, hl, hnl, rfl⟩ | ⟨hst, -, -, -, rfl⟩⟩
      · exact ih
      · have hns : ¬ Started s0 i := fun h => hnl (deps_licensed c hn hf s0 hr hc0 i h)
        simp [FinInv, ExInv, Started] at *
        clear hs hnl
        split
        · next hji =>
          subst hji
          simp only [hst] at *
          rcases hl with rfl | rfl <;> simp_all
        · exact ih
      · exact ih
    | _ =>
      step_cases hs
      all_goals first | exact ih |
        (simp only [setNode_nd, afterExec_nd, updN_apply]
         split
         · next hji =>
           subst hji
           simp [FinInv, ExInv, aePc_eq_noRep hn] at * <;> (try simp_all) <;> (try omega)
         · exact ih)


set_option linter.unusedVariables false in
/-- final accounting for a run that was neither stopped nor timed out.
    (The proof shows that the four clauses hold in *every* reachable state of an unstopped,
    un-timed-out run; `hw`, `hl` and `hi` are not needed.) -/
theorem final_counts (c : Cfg) (hw : WF c) (hn : NoRep c) (hdry : c.dry = false) (hf : c.tdFaults = false)
    (s : State) (hr : Reach c s) (hc : s.canceled = false) (ht : s.timedOut = false)
    (hl : LoopDone s) (i : Nat) (hi : i < c.n) :
    ((s.nd i).status = .success → (s.nd i).execs = (s.nd i).retry + 1) ∧
    ((s.nd i).status = .error →
        ((s.nd i).setupFailed = true ∧ (s.nd i).execs = (s.nd i).retry) ∨
        ((s.nd i).execs = (c.node i).limit + 1 ∧ (s.nd i).retry = (c.node i).limit)) ∧
    ((s.nd i).status = .cancel → (s.nd i).execs = 0) ∧
    ((s.nd i).status = .skipped →
        (s.nd i).execs = (s.nd i).retry ∧ ((s.nd i).preSkip = false → (s.nd i).execs = 0)) := by
  have hE := execs_eq c hn hdry s hr i
  obtain ⟨-, h2, -, h4, -, h6, h7⟩ := fin_inv c hn hdry hf s hr hc ht i
  refine ⟨fun h => ?_, fun h => ?_, h6, fun h => ?_⟩
  · simpa [h2 h] using hE
  · rcases h4 h with ⟨h1, h3⟩ | ⟨h1, h3⟩
    · exact Or.inl ⟨h1, by simpa [h3] using hE⟩
    · exact Or.inr ⟨by simp [h1] at hE; omega, h3⟩
  · obtain ⟨h1, h3⟩ := h7 h
    exact ⟨by simpa [h1] using hE, h3⟩


#print axioms runningCount_le
#print axioms activeWorkers_le
#print axioms executing_le_active
#print axioms execs_eq
#print axioms retry_le_limit
#print axioms dry_no_exec
#print axioms final_counts

end BdModel.Sched
