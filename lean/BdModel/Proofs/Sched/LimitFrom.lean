import BdModel.Proofs.Sched.Limit
import BdModel.Proofs.Sched.OrderFrom
/-
  The `maxActiveRuns` invariant (Limit.lean, proved there from the fresh initial state) for EVERY
  state `Schedule` can be entered in (`Start`): fresh runs and retry runs alike.
-/
namespace BdModel.Sched
open Lim

theorem aw_le_rc_from (c : Cfg) (hn : NoRep c) {s0 : State} (h0 : Start s0) (s : State)
    (hr : ReachFrom c s0 s) (hc : s.canceled = false) :
    activeWorkers c s ≤ runningCount c s := by
  rw [activeWorkers_eq, runningCount_eq]
  apply cnt_mono
  intro x _ hx
  simpa using active_running_from c hn h0 _ hr hc x hx

theorem aw_inv_from (c : Cfg) (hn : NoRep c) {s0 : State} (h0 : Start s0) (s : State)
    (hr : ReachFrom c s0 s) (hk : 0 < c.maxActive) :
    activeWorkers c s ≤ c.maxActive ∧ ∀ i, s.loop = .launching i → activeWorkers c s < c.maxActive := by
  induction hr with
  | init =>
    have : activeWorkers c s0 = 0 := by
      rw [activeWorkers_eq]
      exact cnt_zero (fun j => by simp [(h0.node_cases j).1, PC.active])
    rw [this]
    exact ⟨Nat.zero_le _, fun i hi => by simp [h0.loop] at hi⟩
  | step a hr hs ih =>
    obtain ⟨ih1, ih2⟩ := ih
    cases a with
    | visitDecide j =>
      rcases step_visitDecide hs with ⟨hsc, -, rfl | ⟨hst, l, hl, -, rfl⟩ | ⟨-, hcn, hm, -, rfl⟩⟩
      · exact ⟨ih1, ih2⟩
      · apply aw_aux ih1 ih2
        · intro x; simp; split <;> simp_all
        · simp
      · refine ⟨ih1, fun _ _ => ?_⟩
        have h1 := aw_le_rc_from c hn h0 _ hr hcn
        exact Nat.lt_of_le_of_lt h1 (hm hk)
    | visitLaunch j b =>
      step_cases hs
      all_goals
        apply aw_aux_launch j (ih2 j (by assumption))
        · intro x hx; simp [hx]
        · simp
    | _ =>
      step_cases hs
      all_goals
        apply aw_aux ih1 ih2
        · intro x; simp; try (split <;> simp_all [aePc_active hn])
        · simp_all

/-- at most `maxActiveRuns` workers that can still execute, in every state of every run -/
theorem activeWorkers_le_from (c : Cfg) (hn : NoRep c) {s0 : State} (h0 : Start s0) (s : State)
    (hr : ReachFrom c s0 s) (hk : 0 < c.maxActive) :
    activeWorkers c s ≤ c.maxActive := (aw_inv_from c hn h0 s hr hk).1

theorem executing_le_from (c : Cfg) (hn : NoRep c) {s0 : State} (h0 : Start s0) (s : State)
    (hr : ReachFrom c s0 s) (hk : 0 < c.maxActive) :
    executing c s ≤ c.maxActive :=
  Nat.le_trans (executing_le_active c s) (activeWorkers_le_from c hn h0 s hr hk)

end BdModel.Sched

#print axioms BdModel.Sched.executing_le_from
