import BdModel.Proofs.Sched.OrderFrom
/-
  Label consistency (Order.lean: `inv_label`, `label_consistent`) for EVERY state `Schedule` can be
  entered in, for the steps that start from scratch there (in a retry run: the reset steps).
-/
namespace BdModel.Sched

theorem stable_step_from (c : Cfg) (hn : NoRep c) {s0 : State} (h0 : Start s0) (s s' : State)
    (hr : ReachFrom c s0 s) (a : Act) (hs : step c s a = some s') (d : Nat) :
    ((s.nd d).status = .error → (s'.nd d).status = .error) ∧
    ((s.nd d).status = .skipped → (s'.nd d).status = .skipped) ∧
    (s'.canceled = false → s'.timedOut = false → (s.nd d).status = .cancel → (s'.nd d).status = .cancel) := by
  have hae := aePc_norep c hn
  have hL := inv_launching_from c hn h0 _ hr
  have hK := inv_node_from c hn h0 _ hr d
  have hV := inv_live_from c hn h0 _ hr d
  simp only [NodeOKg, NodeLive] at hK hV
  explode_step a hs <;> grind

theorem label_step_from (c : Cfg) (hn : NoRep c) {s0 : State} (h0 : Start s0) (s s' : State)
    (hr : ReachFrom c s0 s) (a : Act) (hs : step c s a = some s') (i : Nat) :
    ((s'.nd i).status ≠ .running → (s'.nd i).launches = (s.nd i).launches) ∧
    ((s.nd i).preSkip = true → (s'.nd i).preSkip = true) ∧
    (s'.canceled = false → s'.timedOut = false → (s'.nd i).status = .cancel →
      (s.nd i).status = .cancel ∨ ((s.nd i).status = .none ∧ (isReady c s i).2 = some .cancel)) ∧
    ((s'.nd i).status = .skipped →
      (s.nd i).status = .skipped ∨ ((s.nd i).status = .none ∧ (isReady c s i).2 = some .skipped) ∨
      (s'.nd i).preSkip = true) := by
  have hae := aePc_norep c hn
  have hK := inv_node_from c hn h0 _ hr i
  have hE := inv_ran_from c hn h0 _ hr i
  simp only [NodeOKg, NodeRan] at hK hE
  explode_step a hs <;> grind

theorem inv_label_from (c : Cfg) (hn : NoRep c) (hf : c.tdFaults = false) {s0 : State} (h0 : Start s0)
    (s : State) (hr : ReachFrom c s0 s) (i : Nat) (hi0 : s0.nd i = {}) : LabelOK c s i := by
  induction hr with
  | init => simp [LabelOK, hi0]
  | @step s s' a hr hs ih =>
    have hm := step_flags_mono c s s' a hs
    have hl := label_step_from c hn h0 s s' hr a hs i
    have hst := stable_step_from c hn h0 s s' hr a hs
    have hd := inv_deps_from c hn hf h0 s hr i
    have hno := isReady_none_of_licensed c s i
    have hlab := isReady_label c s i
    have hi := ih
    simp only [LabelOK, Trig] at hi hd ⊢
    refine ⟨?_, ?_⟩
    · intro hc ht hcan
      obtain ⟨hc0, ht0⟩ := And.intro (hm.1 hc) (hm.2 ht)
      have hla := hl.1 (by simp [hcan])
      rcases hl.2.2.1 hc ht hcan with h | ⟨h1, h2⟩
      · obtain ⟨h0', d, hdd, hb⟩ := hi.1 hc0 ht0 h
        refine ⟨by omega, d, hdd, ?_⟩
        have := hst d
        grind
      · obtain ⟨d, hdd, hb⟩ := hlab _ h2
        refine ⟨?_, d, hdd, ?_⟩
        · have : ¬ (0 < (s.nd i).launches) := by
            intro hpos
            have := hno (fun d hd' => (hd (Or.inr (Or.inl hpos)) d hd').1)
            simp [this] at h2
          omega
        · have := hst d
          grind
    · intro hsk
      have hla := hl.1 (by simp [hsk])
      rcases hl.2.2.2 hsk with h | ⟨h1, h2⟩ | h
      · rcases hi.2 h with hp | ⟨h0', d, hdd, hb⟩
        · exact Or.inl (hl.2.1 hp)
        · refine Or.inr ⟨by omega, d, hdd, ?_⟩
          have := hst d
          grind
      · obtain ⟨d, hdd, hb⟩ := hlab _ h2
        refine Or.inr ⟨?_, d, hdd, ?_⟩
        · have : ¬ (0 < (s.nd i).launches) := by
            intro hpos
            have := hno (fun d hd' => (hd (Or.inr (Or.inl hpos)) d hd').1)
            simp [this] at h2
          omega
        · have := hst d
          grind
      · exact Or.inl h

/-- a step that starts the run from scratch and is finished / failed / running has been launched in it -/
theorem launched_of_ran_from (c : Cfg) (hn : NoRep c) {s0 : State} (h0 : Start s0) (s : State)
    (hr : ReachFrom c s0 s) (i : Nat) (hi0 : s0.nd i = {}) :
    ((s.nd i).status = .success ∨ (s.nd i).status = .error ∨ (s.nd i).status = .running) →
      0 < (s.nd i).launches := by
  induction hr with
  | init => simp [hi0]
  | @step s s' a hr hs ih =>
    have hae := aePc_norep c hn
    have hN := inv_none_idle_from c hn h0 _ hr
    have hL := inv_launching_from c hn h0 _ hr
    have hK := inv_node_from c hn h0 _ hr i
    have hR2 := isReady_label_cases c
    simp only [NodeOKg] at hK
    explode_step a hs <;> grind

/-- local consistency of labels, for the steps that start the run from scratch -/
theorem label_consistent_from (c : Cfg) (hn : NoRep c) (hf : c.tdFaults = false) {s0 : State} (h0 : Start s0)
    (s : State) (hr : ReachFrom c s0 s) (hc : s.canceled = false) (ht : s.timedOut = false)
    (i : Nat) (hi0 : s0.nd i = {}) :
    ((s.nd i).status = .cancel →
        (s.nd i).execs = 0 ∧ ∃ d ∈ (c.node i).deps,
          ((s.nd d).status = .error ∧ (c.node d).contFail = false) ∨ (s.nd d).status = .cancel) ∧
    ((s.nd i).status = .skipped →
        ((s.nd i).preSkip = true ∧ (c.node i).hasPre = true ∧ ∀ d ∈ (c.node i).deps, Licensed c s d) ∨
        ((s.nd i).execs = 0 ∧
         ∃ d ∈ (c.node i).deps, (s.nd d).status = .skipped ∧ (c.node d).contSkip = false)) ∧
    (((s.nd i).status = .success ∨ (s.nd i).status = .error ∨ (s.nd i).status = .running) →
        ∀ d ∈ (c.node i).deps, Licensed c s d) := by
  have hK := inv_node_from c hn h0 s hr i
  have hLab := inv_label_from c hn hf h0 s hr i hi0
  have hD := inv_deps_from c hn hf h0 s hr i
  simp only [NodeOKg, LabelOK, Trig] at hK hLab hD
  refine ⟨?_, ?_, ?_⟩
  · intro h
    obtain ⟨h0', hex⟩ := hLab.1 hc ht h
    exact ⟨by grind, hex⟩
  · intro h
    rcases hLab.2 h with hp | ⟨h0', hex⟩
    · exact Or.inl ⟨hp, by grind, fun d hd => (hD (Or.inr (Or.inr hp)) d hd).1⟩
    · exact Or.inr ⟨by grind, hex⟩
  · intro h d hd
    have hpos := launched_of_ran_from c hn h0 s hr i hi0 h
    exact (hD (Or.inr (Or.inl hpos)) d hd).1

end BdModel.Sched

#print axioms BdModel.Sched.label_consistent_from
