import BdModel.Proofs.Sched.ProgressFrom
import BdModel.Proofs.Sched.LimitFrom
/-
  Termination of the fine system: a natural-number measure that every transition other than a signal
  delivery strictly decreases unless it leaves the state unchanged (a visit of the loop that finds
  nothing to do, a repeated stop request). Together with deadlock freedom (`never_blocks_from` and
  `productive_enabled` below) it bounds every run, fresh or retry: at most `measure s0` productive
  transitions, after which `Schedule` has returned.
-/
namespace BdModel.Sched
open Lim

def phase : PC → NStatus → Nat
  | .idle, .none => 11
  | .idle, _ => 0
  | .setup, _ => 10
  | .check, _ => 9
  | .starting, _ => 8
  | .exec, _ => 7
  | .wErr, _ => 6
  | .wTimeout, _ => 6
  | .retrySleep, _ => 13
  | .tail, _ => 4
  | .td, _ => 3
  | .deferred, _ => 2
  | .gone, _ => 1

/-- remaining work of one step: retries left, position of its worker, old workers still to leave -/
def nodeMeasure (k : NodeCfg) (x : NodeSt) : Nat :=
  3 * ((k.limit - x.retry) * 40 + 2 * phase x.pc x.status + x.zombies + (if x.status = .running then 1 else 0))

def loopRank : LoopPC → Nat
  | .scanning => 6
  | .launching _ => 5
  | .waiting => 4
  | .handlers l => 1 + l.length
  | .returned => 0

def msum (k : Nat → NodeCfg) (n : Nat) (nd : Nat → NodeSt) : Nat :=
  ((List.range n).map (fun j => nodeMeasure (k j) (nd j))).sum

def measure (c : Cfg) (s : State) : Nat :=
  msum c.node c.n s.nd + loopRank s.loop + (if s.canceled then 0 else 1) + (if s.timedOut then 0 else 1)

theorem msum_updN (k : Nat → NodeCfg) (n : Nat) (nd : Nat → NodeSt) (i : Nat) (v : NodeSt) (hi : i < n) :
    msum k n (updN nd i v) + nodeMeasure (k i) (nd i) = msum k n nd + nodeMeasure (k i) v := by
  unfold msum
  induction n with
  | zero => omega
  | succ m ih =>
    simp only [List.range_succ, List.map_append, List.sum_append, List.map_cons, List.map_nil, List.sum_cons,
      List.sum_nil]
    by_cases hm : i = m
    · subst hm
      have : ((List.range i).map (fun j => nodeMeasure (k j) (updN nd i v j))) =
             ((List.range i).map (fun j => nodeMeasure (k j) (nd j))) := by
        apply List.map_congr_left
        intro j hj
        have : j ≠ i := by have := List.mem_range.mp hj; omega
        simp [updN, this]
      rw [this]
      simp [updN]
      omega
    · have := ih (by omega)
      have hmi : m ≠ i := fun h => hm h.symm
      simp [updN, hmi] at this ⊢
      omega

theorem msum_updN_out (k : Nat → NodeCfg) (n : Nat) (nd : Nat → NodeSt) (i : Nat) (v : NodeSt) (hi : n ≤ i) :
    msum k n (updN nd i v) = msum k n nd := by
  unfold msum
  congr 1
  apply List.map_congr_left
  intro j hj
  have : j ≠ i := by have := List.mem_range.mp hj; omega
  simp [updN, this]

theorem measure_lt_of_node (c : Cfg) (s s' : State) (i : Nat) (hi : i < c.n)
    (hsame : ∀ j, j ≠ i → s'.nd j = s.nd j)
    (hc : s'.canceled = s.canceled) (ht : s'.timedOut = s.timedOut)
    (h : nodeMeasure (c.node i) (s'.nd i) + loopRank s'.loop <
         nodeMeasure (c.node i) (s.nd i) + loopRank s.loop) :
    measure c s' < measure c s := by
  have hnd : s'.nd = updN s.nd i (s'.nd i) := by
    funext j
    by_cases hj : j = i
    · subst hj; simp [updN]
    · simp [updN, hj, hsame j hj]
  have := msum_updN c.node c.n s.nd i (s'.nd i) hi
  unfold measure
  rw [hnd, hc, ht]
  omega

theorem measure_le_of_node (c : Cfg) (s s' : State) (i : Nat)
    (hsame : ∀ j, j ≠ i → s'.nd j = s.nd j)
    (hc : s'.canceled = s.canceled) (ht : s'.timedOut = s.timedOut) (hl : s'.loop = s.loop)
    (h : nodeMeasure (c.node i) (s'.nd i) ≤ nodeMeasure (c.node i) (s.nd i)) :
    measure c s' ≤ measure c s := by
  have hnd : s'.nd = updN s.nd i (s'.nd i) := by
    funext j
    by_cases hj : j = i
    · subst hj; simp [updN]
    · simp [updN, hj, hsame j hj]
  unfold measure
  rw [hnd, hc, ht, hl]
  by_cases hi : i < c.n
  · have := msum_updN c.node c.n s.nd i (s'.nd i) hi
    omega
  · rw [msum_updN_out c.node c.n s.nd i (s'.nd i) (by omega)]
    exact Nat.le_refl _

def InRange (c : Cfg) (s : State) : Prop :=
  (∀ i, s.loop = .launching i → i < c.n) ∧ ∀ j, c.n ≤ j → (s.nd j).pc = .idle ∧ (s.nd j).zombies = 0

theorem inv_range_from (c : Cfg) (hn : NoRep c) {s0 : State} (h0 : Start s0) (s : State)
    (hr : ReachFrom c s0 s) : InRange c s := by
  induction hr with
  | init =>
    refine ⟨by simp [h0.loop], fun j _ => ?_⟩
    have := h0.node_cases j
    exact ⟨this.1, this.2.1⟩
  | step a hr hs ih =>
    have hae := BdModel.Sched.aePc_norep c hn
    simp only [InRange] at ih ⊢
    explode_step a hs <;> grind

theorem signal_shape (c : Cfg) (s s' : State) (i sig : Nat) (ovr : Bool)
    (hs : step c s (.signalNode i sig ovr) = some s') :
    (∀ j, j ≠ i → s'.nd j = s.nd j) ∧ s'.canceled = s.canceled ∧ s'.timedOut = s.timedOut ∧ s'.loop = s.loop ∧
    (s'.nd i).pc = (s.nd i).pc ∧ (s'.nd i).retry = (s.nd i).retry ∧ (s'.nd i).zombies = (s.nd i).zombies ∧
    ((s'.nd i).status = (s.nd i).status ∨ ((s.nd i).status = .running ∧ (s'.nd i).status = .cancel)) := by
  step_cases hs
  all_goals
    refine ⟨fun j hj => by simp [hj], rfl, rfl, rfl, ?_⟩
    simp only [setNode_nd, updN_apply, if_true]
    first
      | exact ⟨rfl, rfl, rfl, Or.inl rfl⟩
      | (refine ⟨rfl, rfl, rfl, Or.inr ⟨?_, rfl⟩⟩; simp_all)
      | (refine ⟨?_, ?_, ?_, ?_⟩ <;> (try split) <;> simp_all)


set_option linter.unusedSimpArgs false in
theorem measure_setupDone (c : Cfg) (hn : NoRep c) (s s' : State) (i : Nat) (ok : Bool)
    (inr : ∀ i, ((s.nd i).pc ≠ .idle ∨ (s.nd i).zombies ≠ 0) → i < c.n)
    (hs : step c s (.setupDone i ok) = some s') : measure c s' < measure c s := by
  step_cases hs
  all_goals
    have hi : i < c.n := inr i (by first | (right; omega) | simp_all)
    apply measure_lt_of_node c _ _ i hi
    · intro j hj; simp [hj]
    · simp
    · simp
    · cases hdc : c.doneChan <;> simp [nodeMeasure, phase, loopRank, aePc_noRep hn, *] <;>
        (try (repeat' split)) <;> (try simp_all) <;> (try omega)

set_option linter.unusedSimpArgs false in
theorem measure_check (c : Cfg) (hn : NoRep c) (s s' : State) (i : Nat)
    (inr : ∀ i, ((s.nd i).pc ≠ .idle ∨ (s.nd i).zombies ≠ 0) → i < c.n)
    (hs : step c s (.check i) = some s') : measure c s' < measure c s := by
  step_cases hs
  all_goals
    have hi : i < c.n := inr i (by first | (right; omega) | simp_all)
    apply measure_lt_of_node c _ _ i hi
    · intro j hj; simp [hj]
    · simp
    · simp
    · cases hdc : c.doneChan <;> simp [nodeMeasure, phase, loopRank, aePc_noRep hn, *] <;>
        (try (repeat' split)) <;> (try simp_all) <;> (try omega)

set_option linter.unusedSimpArgs false in
theorem measure_execStart (c : Cfg) (hn : NoRep c) (s s' : State) (i : Nat)
    (inr : ∀ i, ((s.nd i).pc ≠ .idle ∨ (s.nd i).zombies ≠ 0) → i < c.n)
    (hs : step c s (.execStart i) = some s') : measure c s' < measure c s := by
  step_cases hs
  all_goals
    have hi : i < c.n := inr i (by first | (right; omega) | simp_all)
    apply measure_lt_of_node c _ _ i hi
    · intro j hj; simp [hj]
    · simp
    · simp
    · cases hdc : c.doneChan <;> simp [nodeMeasure, phase, loopRank, aePc_noRep hn, *] <;>
        (try (repeat' split)) <;> (try simp_all) <;> (try omega)

set_option linter.unusedSimpArgs false in
theorem measure_execEnd (c : Cfg) (hn : NoRep c) (s s' : State) (i : Nat) (ok : Bool)
    (inr : ∀ i, ((s.nd i).pc ≠ .idle ∨ (s.nd i).zombies ≠ 0) → i < c.n)
    (hs : step c s (.execEnd i ok) = some s') : measure c s' < measure c s := by
  step_cases hs
  all_goals
    have hi : i < c.n := inr i (by first | (right; omega) | simp_all)
    apply measure_lt_of_node c _ _ i hi
    · intro j hj; simp [hj]
    · simp
    · simp
    · cases hdc : c.doneChan <;> simp [nodeMeasure, phase, loopRank, aePc_noRep hn, *] <;>
        (try (repeat' split)) <;> (try simp_all) <;> (try omega)

set_option linter.unusedSimpArgs false in
theorem measure_postWrite (c : Cfg) (hn : NoRep c) (s s' : State) (i : Nat)
    (inr : ∀ i, ((s.nd i).pc ≠ .idle ∨ (s.nd i).zombies ≠ 0) → i < c.n)
    (hs : step c s (.postWrite i) = some s') : measure c s' < measure c s := by
  step_cases hs
  all_goals
    have hi : i < c.n := inr i (by first | (right; omega) | simp_all)
    apply measure_lt_of_node c _ _ i hi
    · intro j hj; simp [hj]
    · simp
    · simp
    · cases hdc : c.doneChan <;> simp [nodeMeasure, phase, loopRank, aePc_noRep hn, *] <;>
        (try (repeat' split)) <;> (try simp_all) <;> (try omega)

set_option linter.unusedSimpArgs false in
theorem measure_retryWake (c : Cfg) (hn : NoRep c) (s s' : State) (i : Nat)
    (inr : ∀ i, ((s.nd i).pc ≠ .idle ∨ (s.nd i).zombies ≠ 0) → i < c.n)
    (hs : step c s (.retryWake i) = some s') : measure c s' < measure c s := by
  step_cases hs
  all_goals
    have hi : i < c.n := inr i (by first | (right; omega) | simp_all)
    apply measure_lt_of_node c _ _ i hi
    · intro j hj; simp [hj]
    · simp
    · simp
    · cases hdc : c.doneChan <;> simp [nodeMeasure, phase, loopRank, aePc_noRep hn, *] <;>
        (try (repeat' split)) <;> (try simp_all) <;> (try omega)

set_option linter.unusedSimpArgs false in
theorem measure_tail (c : Cfg) (hn : NoRep c) (s s' : State) (i : Nat)
    (inr : ∀ i, ((s.nd i).pc ≠ .idle ∨ (s.nd i).zombies ≠ 0) → i < c.n)
    (hs : step c s (.tail i) = some s') : measure c s' < measure c s := by
  step_cases hs
  all_goals
    have hi : i < c.n := inr i (by first | (right; omega) | simp_all)
    apply measure_lt_of_node c _ _ i hi
    · intro j hj; simp [hj]
    · simp
    · simp
    · cases hdc : c.doneChan <;> simp [nodeMeasure, phase, loopRank, aePc_noRep hn, *] <;>
        (try (repeat' split)) <;> (try simp_all) <;> (try omega)

set_option linter.unusedSimpArgs false in
theorem measure_teardown (c : Cfg) (hn : NoRep c) (s s' : State) (i : Nat) (ok : Bool)
    (inr : ∀ i, ((s.nd i).pc ≠ .idle ∨ (s.nd i).zombies ≠ 0) → i < c.n)
    (hs : step c s (.teardown i ok) = some s') : measure c s' < measure c s := by
  step_cases hs
  all_goals
    have hi : i < c.n := inr i (by first | (right; omega) | simp_all)
    apply measure_lt_of_node c _ _ i hi
    · intro j hj; simp [hj]
    · simp
    · simp
    · cases hdc : c.doneChan <;> simp [nodeMeasure, phase, loopRank, aePc_noRep hn, *] <;>
        (try (repeat' split)) <;> (try simp_all) <;> (try omega)

set_option linter.unusedSimpArgs false in
theorem measure_deferred (c : Cfg) (hn : NoRep c) (s s' : State) (i : Nat)
    (inr : ∀ i, ((s.nd i).pc ≠ .idle ∨ (s.nd i).zombies ≠ 0) → i < c.n)
    (hs : step c s (.deferred i) = some s') : measure c s' < measure c s := by
  step_cases hs
  all_goals
    have hi : i < c.n := inr i (by first | (right; omega) | simp_all)
    apply measure_lt_of_node c _ _ i hi
    · intro j hj; simp [hj]
    · simp
    · simp
    · cases hdc : c.doneChan <;> simp [nodeMeasure, phase, loopRank, aePc_noRep hn, *] <;>
        (try (repeat' split)) <;> (try simp_all) <;> (try omega)

set_option linter.unusedSimpArgs false in
theorem measure_zombie (c : Cfg) (hn : NoRep c) (s s' : State) (i : Nat)
    (inr : ∀ i, ((s.nd i).pc ≠ .idle ∨ (s.nd i).zombies ≠ 0) → i < c.n)
    (hs : step c s (.zombie i) = some s') : measure c s' < measure c s := by
  step_cases hs
  all_goals
    have hi : i < c.n := inr i (by first | (right; omega) | simp_all)
    apply measure_lt_of_node c _ _ i hi
    · intro j hj; simp [hj]
    · simp
    · simp
    · cases hdc : c.doneChan <;> simp [nodeMeasure, phase, loopRank, aePc_noRep hn, *] <;>
        (try (repeat' split)) <;> (try simp_all) <;> (try omega)

/-- **the measure.** Every transition of a run (fresh or retry) strictly decreases `measure`, or leaves
    the state unchanged (a loop visit with nothing to do, a repeated stop / timeout), or is a signal
    delivery, which never increases it. -/
theorem step_measure (c : Cfg) (hn : NoRep c) {s0 : State} (h0 : Start s0) (s : State)
    (hr : ReachFrom c s0 s) (a : Act) (s' : State) (hs : step c s a = some s') :
    measure c s' < measure c s ∨ s' = s ∨
      ((∃ i sig ovr, a = .signalNode i sig ovr) ∧ measure c s' ≤ measure c s) := by
  have hN := inv_none_idle_from c hn h0 s hr
  have hL := inv_launching_from c hn h0 s hr
  have hRg := inv_range_from c hn h0 s hr
  have inr : ∀ i, ((s.nd i).pc ≠ .idle ∨ (s.nd i).zombies ≠ 0) → i < c.n := by
    intro i h
    apply Nat.lt_of_not_le
    intro hle
    have := hRg.2 i hle
    rcases h with h | h
    · exact h this.1
    · exact h this.2
  cases a with
  | visitDecide i =>
    rcases step_visitDecide hs with ⟨hsc, hi, rfl | ⟨hst, l, hl, -, rfl⟩ | ⟨hst, -, -, -, rfl⟩⟩
    · exact Or.inr (Or.inl rfl)
    · left
      apply measure_lt_of_node c _ _ i hi
      · intro j hj; simp [hj]
      · rfl
      · rfl
      · have := hN i hst
        rcases hl with rfl | rfl <;> simp [nodeMeasure, phase, this, hst] <;> omega
    · left
      simp [measure, loopRank, hsc]
  | visitLaunch i b =>
    step_cases hs
    all_goals
      rename_i hl hpre
      have hi := hRg.1 i hl
      have hst := hL i hl
      have hpc := hN i hst
      left
      apply measure_lt_of_node c _ _ i hi
      · intro j hj; simp [hj]
      · rfl
      · rfl
      · simp [nodeMeasure, phase, hpc, hst, loopRank, hl]; try omega
  | loopExit =>
    step_cases hs
    rename_i h
    left; simp [measure, loopRank, h.1]
  | setupDone i ok => exact Or.inl (measure_setupDone c hn s s' i ok inr hs)
  | check i => exact Or.inl (measure_check c hn s s' i inr hs)
  | execStart i => exact Or.inl (measure_execStart c hn s s' i inr hs)
  | execEnd i ok => exact Or.inl (measure_execEnd c hn s s' i ok inr hs)
  | postWrite i => exact Or.inl (measure_postWrite c hn s s' i inr hs)
  | retryWake i => exact Or.inl (measure_retryWake c hn s s' i inr hs)
  | tail i => exact Or.inl (measure_tail c hn s s' i inr hs)
  | teardown i ok => exact Or.inl (measure_teardown c hn s s' i ok inr hs)
  | deferred i => exact Or.inl (measure_deferred c hn s s' i inr hs)
  | zombie i => exact Or.inl (measure_zombie c hn s s' i inr hs)
  | setCanceled =>
    step_cases hs
    by_cases hc : s.canceled = true
    · right; left
      cases s; simp_all
    · left
      simp [measure, hc]
  | signalNode i sig ovr =>
    right; right
    refine ⟨⟨i, sig, ovr, rfl⟩, ?_⟩
    obtain ⟨h1, h2, h3, h4, h5, h6, h7, h8⟩ := signal_shape c s s' i sig ovr hs
    apply measure_le_of_node c s s' i h1 h2 h3 h4
    simp only [nodeMeasure, h5, h6, h7]
    rcases h8 with h | ⟨ha, hb⟩
    · rw [h]; exact Nat.le_refl _
    · have hp : phase (s.nd i).pc (s'.nd i).status = phase (s.nd i).pc (s.nd i).status := by
        rw [ha, hb]; cases (s.nd i).pc <;> rfl
      rw [hp, ha, hb]; simp; omega
  | timeout =>
    step_cases hs
    by_cases hc : s.timedOut = true
    · right; left
      cases s; simp_all
    · left
      simp [measure, hc]
  | waitAll =>
    step_cases hs
    rename_i h
    left
    have : (handlerPlan c (overall c s)).length ≤ 2 := by
      unfold handlerPlan
      refine Nat.le_trans (List.length_filter_le _ _) ?_
      cases handlerOf (overall c s) <;> simp
    simp [measure, loopRank, h.1]
    omega
  | handlerRun ok =>
    simp only [step] at hs
    split at hs
    · rename_i h rest hl
      cases hs
      left
      simp [measure, loopRank, hl]
    · cases hs
  | finish =>
    simp only [step] at hs
    split at hs
    · rename_i hl
      cases hs
      left
      simp [measure, loopRank, hl]
    · cases hs

/-- a worker that has not left yet (or an old worker still around) always has an enabled transition,
    and it decreases the measure -/
theorem pc_progress (c : Cfg) (hn : NoRep c) (s : State)
    (inr : ∀ i, ((s.nd i).pc ≠ .idle ∨ (s.nd i).zombies ≠ 0) → i < c.n) (j : Nat)
    (h : ((s.nd j).pc ≠ .idle ∧ (s.nd j).pc ≠ .gone) ∨ (s.nd j).zombies ≠ 0) :
    ∃ a s', step c s a = some s' ∧ measure c s' < measure c s := by
  have en : ∀ a, (step c s a).isSome = true → ∃ s', step c s a = some s' := fun a h =>
    Option.isSome_iff_exists.mp h
  rcases h with ⟨h1, h2⟩ | h
  · cases hp : (s.nd j).pc with
    | idle => exact absurd hp h1
    | gone => exact absurd hp h2
    | setup =>
      obtain ⟨s', hs⟩ := en (.setupDone j true) (by simp [step, hp])
      exact ⟨_, s', hs, measure_setupDone c hn s s' j true inr hs⟩
    | check =>
      obtain ⟨s', hs⟩ := en (.check j) (by simp only [step, hp, if_true]; split <;> rfl)
      exact ⟨_, s', hs, measure_check c hn s s' j inr hs⟩
    | starting =>
      obtain ⟨s', hs⟩ := en (.execStart j) (by simp only [step, hp, if_true]; split <;> rfl)
      exact ⟨_, s', hs, measure_execStart c hn s s' j inr hs⟩
    | exec =>
      obtain ⟨s', hs⟩ := en (.execEnd j true) (by simp [step, hp])
      exact ⟨_, s', hs, measure_execEnd c hn s s' j true inr hs⟩
    | wErr =>
      obtain ⟨s', hs⟩ := en (.postWrite j) (by simp [step, hp])
      exact ⟨_, s', hs, measure_postWrite c hn s s' j inr hs⟩
    | wTimeout =>
      obtain ⟨s', hs⟩ := en (.postWrite j) (by simp [step, hp])
      exact ⟨_, s', hs, measure_postWrite c hn s s' j inr hs⟩
    | retrySleep =>
      obtain ⟨s', hs⟩ := en (.retryWake j) (by simp only [step, hp, if_true]; split <;> rfl)
      exact ⟨_, s', hs, measure_retryWake c hn s s' j inr hs⟩
    | tail =>
      obtain ⟨s', hs⟩ := en (.tail j) (by simp [step, hp])
      exact ⟨_, s', hs, measure_tail c hn s s' j inr hs⟩
    | td =>
      obtain ⟨s', hs⟩ := en (.teardown j true) (by simp [step, hp])
      exact ⟨_, s', hs, measure_teardown c hn s s' j true inr hs⟩
    | deferred =>
      obtain ⟨s', hs⟩ := en (.deferred j) (by simp [step, hp])
      exact ⟨_, s', hs, measure_deferred c hn s s' j inr hs⟩
  · obtain ⟨s', hs⟩ := en (.zombie j) (by simp [step]; omega)
    exact ⟨_, s', hs, measure_zombie c hn s s' j inr hs⟩


theorem inr_of_range (c : Cfg) (s : State) (hRg : InRange c s) :
    ∀ i, ((s.nd i).pc ≠ .idle ∨ (s.nd i).zombies ≠ 0) → i < c.n := by
  intro i h
  apply Nat.lt_of_not_le
  intro hle
  have := hRg.2 i hle
  rcases h with h | h
  · exact h this.1
  · exact h this.2

/-- **progress.** In every state of every run (fresh or retry) in which `Schedule` has not returned,
    some transition is enabled that strictly decreases the measure. -/
theorem productive_enabled (c : Cfg) (hw : WF c) (hrk : Ranked c) (hn : NoRep c) {s0 : State} (h0 : Start s0)
    (s : State) (hr : ReachFrom c s0 s) (hnr : s.loop ≠ .returned) :
    ∃ a s', step c s a = some s' ∧ measure c s' < measure c s := by
  have hRg := inv_range_from c hn h0 s hr
  have inr := inr_of_range c s hRg
  have desc : ∀ a s', step c s a = some s' → s'.loop ≠ s.loop → measure c s' < measure c s := by
    intro a s' hs hne
    rcases step_measure c hn h0 s hr a s' hs with h | h | ⟨⟨i, sig, ovr, rfl⟩, -⟩
    · exact h
    · exact absurd (by rw [h]) hne
    · exact absurd (signal_shape c s s' i sig ovr hs).2.2.2.1 hne
  cases hl : s.loop with
  | returned => exact absurd hl hnr
  | scanning =>
    by_cases hex : isFinished c s = true ∨ s.canceled = true
    · refine ⟨.loopExit, { s with loop := .waiting }, by simp [step, hl, hex], ?_⟩
      apply desc .loopExit _ (by simp [step, hl, hex])
      simp [hl]
    · have hnf : isFinished c s = false := by
        cases h : isFinished c s <;> simp_all
      have hnc : s.canceled = false := by
        cases h : s.canceled <;> simp_all
      rcases never_blocks_from c hw hrk hn h0 s hr hl hnc hnf with ⟨j, -, hrun, -⟩ | ⟨i, s', hs, hne⟩
      · have hb := inv_busy_from c hn h0 s hr j hrun
        apply pc_progress c hn s inr j
        left
        rcases hb with hb | hb
        · rw [PC.active_true_iff] at hb
          rcases hb with hb | hb | hb | hb | hb | hb | hb <;> simp [hb]
        · simp [hb]
      · refine ⟨_, s', hs, ?_⟩
        rcases step_measure c hn h0 s hr _ s' hs with h | h | ⟨⟨_, _, _, h⟩, -⟩
        · exact h
        · exact absurd h hne
        · cases h
  | launching i =>
    have hen : (step c s (.visitLaunch i true)).isSome = true := by
      simp only [step, hl, if_true]; split <;> rfl
    obtain ⟨s', hs⟩ := Option.isSome_iff_exists.mp hen
    refine ⟨_, s', hs, desc _ s' hs ?_⟩
    simp only [step, hl, if_true] at hs
    split at hs <;> cases hs <;> simp [hl]
  | waiting =>
    by_cases hwd : workersDone c s = true
    · refine ⟨.waitAll, _, by simp [step, hl, hwd]; rfl, ?_⟩
      apply desc .waitAll _ (by simp [step, hl, hwd])
      simp [hl]
    · have : ∃ j, (((s.nd j).pc ≠ .idle ∧ (s.nd j).pc ≠ .gone) ∨ (s.nd j).zombies ≠ 0) := by
        apply Classical.byContradiction
        intro hno
        apply hwd
        simp only [workersDone, List.all_eq_true, List.mem_range, Bool.and_eq_true, Bool.or_eq_true, beq_iff_eq]
        intro j _
        have hj : ¬ (((s.nd j).pc ≠ .idle ∧ (s.nd j).pc ≠ .gone) ∨ (s.nd j).zombies ≠ 0) := fun h => hno ⟨j, h⟩
        constructor
        · apply Classical.byContradiction
          intro h
          apply hj
          left
          constructor <;> intro hp <;> exact h (by simp [hp])
        · apply Classical.byContradiction
          intro h
          exact hj (Or.inr h)
      obtain ⟨j, h⟩ := this
      exact pc_progress c hn s inr j h
  | handlers l =>
    cases l with
    | nil =>
      refine ⟨.finish, { s with loop := .returned }, by simp [step, hl], ?_⟩
      apply desc .finish _ (by simp [step, hl])
      simp [hl]
    | cons h rest =>
      refine ⟨.handlerRun true, { s with loop := .handlers rest, hlog := s.hlog ++ [h] }, by simp [step, hl], ?_⟩
      apply desc (.handlerRun true) _ (by simp [step, hl])
      simp [hl]


/-- number of transitions of a run that strictly decrease the measure -/
def descents (c : Cfg) : State → List Act → Nat
  | _, [] => 0
  | s, a :: as =>
    match step c s a with
    | some s' => (if measure c s' < measure c s then 1 else 0) + descents c s' as
    | none => 0

/-- **bound.** However the threads interleave and however long the action sequence is, at most
    `measure c s` of its transitions decrease the measure — and by `step_measure` every other
    transition leaves the state unchanged or is a signal delivery. -/
theorem descents_le (c : Cfg) (hn : NoRep c) {s0 : State} (h0 : Start s0) :
    ∀ (as : List Act) (s : State), ReachFrom c s0 s → descents c s as ≤ measure c s := by
  intro as
  induction as with
  | nil => intro s _; simp [descents]
  | cons a as ih =>
    intro s hr
    simp only [descents]
    cases hs : step c s a with
    | none => simp
    | some s' =>
      have hr' : ReachFrom c s0 s' := .step a hr hs
      have h1 := ih s' hr'
      simp only
      rcases step_measure c hn h0 s hr a s' hs with h | h | ⟨-, h⟩
      · simp [h]; omega
      · subst h; simp; exact h1
      · split <;> omega

/-- **termination.** From every state of every run (fresh or retry) there is a continuation after which
    `Schedule` has returned; by `productive_enabled` + `descents_le` every continuation that keeps
    taking measure-decreasing transitions while one is enabled is such a continuation, and it is at most
    `measure c s` transitions long. -/
theorem can_return (c : Cfg) (hw : WF c) (hrk : Ranked c) (hn : NoRep c) {s0 : State} (h0 : Start s0) :
    ∀ (m : Nat) (s : State), ReachFrom c s0 s → measure c s = m →
      ∃ as s', runActs c s as = some s' ∧ s'.loop = .returned ∧ as.length ≤ m := by
  intro m
  induction m using Nat.strongRecOn with
  | _ m ih =>
    intro s hr hm
    by_cases hl : s.loop = .returned
    · exact ⟨[], s, rfl, hl, Nat.zero_le _⟩
    · obtain ⟨a, s1, hs, hlt⟩ := productive_enabled c hw hrk hn h0 s hr hl
      obtain ⟨as, s', hrun, hret, hlen⟩ := ih (measure c s1) (by omega) s1 (.step a hr hs) rfl
      refine ⟨a :: as, s', by simp [runActs, hs, hrun], hret, ?_⟩
      simp; omega

end BdModel.Sched

#print axioms BdModel.Sched.step_measure
#print axioms BdModel.Sched.productive_enabled
#print axioms BdModel.Sched.descents_le
#print axioms BdModel.Sched.can_return
