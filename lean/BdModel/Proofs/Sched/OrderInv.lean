import BdModel.Sched.Defs
/- basic per-node invariants of the fine system (used by Order.lean) -/
namespace BdModel.Sched

@[simp] theorem updN_apply (f : Nat → NodeSt) (i : Nat) (v : NodeSt) (j : Nat) :
    updN f i v j = if j = i then v else f j := rfl

/-- `afterExec` only rewrites `doneCnt` and `pc` of node `i` -/
theorem afterExec_eq (c : Cfg) (s : State) (i : Nat) (ok : Bool) :
    ∃ dc p, afterExec c s i ok = s.setNode i { s.nd i with doneCnt := dc, pc := p } ∧
      ((p = .check ∧ (c.node i).rep = true) ∨ p = .deferred ∨ p = .tail) := by
  unfold afterExec
  by_cases h1 : ((s.nd i).status != .cancel) = true <;> simp only [h1, ↓reduceIte] <;> split
  all_goals first
    | exact ⟨_, _, rfl, by simp_all⟩
    | (split <;> exact ⟨_, _, rfl, by simp_all⟩)

/-- pc / doneCnt written by `afterExec` -/
def aePc (c : Cfg) (s : State) (i : Nat) (ok : Bool) : PC := ((afterExec c s i ok).nd i).pc
def aeDc (c : Cfg) (s : State) (i : Nat) (ok : Bool) : Nat := ((afterExec c s i ok).nd i).doneCnt

theorem afterExec_set (c : Cfg) (s : State) (i : Nat) (ok : Bool) :
    afterExec c s i ok = s.setNode i { s.nd i with doneCnt := aeDc c s i ok, pc := aePc c s i ok } := by
  obtain ⟨dc, p, he, _⟩ := afterExec_eq c s i ok
  simp [aePc, aeDc, he, State.setNode]

theorem aePc_cases (c : Cfg) (s : State) (i : Nat) (ok : Bool) :
    (aePc c s i ok = .check ∧ (c.node i).rep = true) ∨ aePc c s i ok = .deferred ∨ aePc c s i ok = .tail := by
  obtain ⟨dc, p, he, hp⟩ := afterExec_eq c s i ok
  simpa [aePc, he, State.setNode] using hp

theorem aePc_norep (c : Cfg) (hn : NoRep c) (s : State) (i : Nat) (ok : Bool) :
    aePc c s i ok = .deferred ∨ aePc c s i ok = .tail := by
  have := aePc_cases c s i ok
  have := hn i
  simp_all

theorem PC.active_false_iff (p : PC) :
    p.active = false ↔ (p = .idle ∨ p = .tail ∨ p = .td ∨ p = .deferred ∨ p = .gone) := by
  cases p <;> simp [PC.active]

theorem PC.active_true_iff (p : PC) :
    p.active = true ↔ (p = .setup ∨ p = .check ∨ p = .starting ∨ p = .exec ∨ p = .wErr ∨ p = .wTimeout ∨
      p = .retrySleep) := by
  cases p <;> simp [PC.active]

/-! ### `isReady` -/

theorem readyEffect_go (st : NStatus) (cf cs : Bool) :
    readyEffect st cf cs = .go ↔ (st = .success ∨ (st = .error ∧ cf = true) ∨ (st = .skipped ∧ cs = true)) := by
  cases st <;> cases cf <;> cases cs <;> simp [readyEffect]

theorem readyEffect_block (st : NStatus) (cf cs : Bool) (lab : NStatus) :
    readyEffect st cf cs = .block lab ↔
      ((lab = .cancel ∧ ((st = .error ∧ cf = false) ∨ st = .cancel)) ∨
       (lab = .skipped ∧ st = .skipped ∧ cs = false)) := by
  cases st <;> cases cf <;> cases cs <;> cases lab <;> simp [readyEffect]

theorem readyFold_spec (c : Cfg) (s : State) (ds : List Nat) : ∀ (r : Bool) (l : Option NStatus) (r' : Bool) (l' : Option NStatus),
    readyFold c s ds (r, l) = (r', l') →
    (r' = true → r = true ∧ l' = l ∧
        ∀ d ∈ ds, readyEffect (s.nd d).status (c.node d).contFail (c.node d).contSkip = .go) ∧
    (l' = l ∨ ∃ d ∈ ds, ∃ lab, l' = some lab ∧
        readyEffect (s.nd d).status (c.node d).contFail (c.node d).contSkip = .block lab) := by
  induction ds with
  | nil => intro r l r' l' h; simp [readyFold] at h; simp [h]
  | cons d ds ih =>
    intro r l r' l' h
    simp only [readyFold] at h
    split at h
    · have := ih _ _ _ _ h; grind
    · have := ih _ _ _ _ h; grind
    · have := ih _ _ _ _ h; grind

theorem isReady_true (c : Cfg) (s : State) (i : Nat) (h : (isReady c s i).1 = true) :
    (isReady c s i).2 = none ∧ ∀ d ∈ (c.node i).deps, Licensed c s d := by
  have := readyFold_spec c s (c.node i).deps true none (isReady c s i).1 (isReady c s i).2 rfl
  simp only [Licensed, ← readyEffect_go]
  grind

theorem isReady_label (c : Cfg) (s : State) (i : Nat) (lab : NStatus) (h : (isReady c s i).2 = some lab) :
    ∃ d ∈ (c.node i).deps,
      ((lab = .cancel ∧ (((s.nd d).status = .error ∧ (c.node d).contFail = false) ∨ (s.nd d).status = .cancel)) ∨
       (lab = .skipped ∧ (s.nd d).status = .skipped ∧ (c.node d).contSkip = false)) := by
  have := readyFold_spec c s (c.node i).deps true none (isReady c s i).1 (isReady c s i).2 rfl
  simp only [← readyEffect_block]
  grind

theorem isReady_label_cases (c : Cfg) (s : State) (i : Nat) (lab : NStatus) (h : (isReady c s i).2 = some lab) :
    lab = .cancel ∨ lab = .skipped := by
  obtain ⟨d, _, hd⟩ := isReady_label c s i lab h
  grind

/-- unfold one `step` into its enabled branches (`s'` is substituted) and normalise node updates -/
macro "explode_step " a:ident hs:ident : tactic =>
  `(tactic| (cases $a:ident <;> simp only [step, afterExec_set] at $hs:ident <;> (repeat' split at $hs:ident) <;>
      (try cases $hs:ident) <;> (try simp [State.setNode] at *)))

/-- status none ⇒ no worker -/
theorem inv_none_idle (c : Cfg) (hn : NoRep c) (s : State) (hr : Reach c s) :
    ∀ j, (s.nd j).status = .none → (s.nd j).pc = .idle := by
  induction hr with
  | init => intro j; simp [init]
  | step a hr hs ih =>
    intro j
    have hae := aePc_norep c hn
    explode_step a hs <;> grind

/-- the loop only decides to launch a node that has no status yet, and nobody touches it meanwhile -/
theorem inv_launching (c : Cfg) (hn : NoRep c) (s : State) (hr : Reach c s) :
    ∀ i, s.loop = .launching i → (s.nd i).status = .none := by
  induction hr with
  | init => intro j; simp [init]
  | step a hr hs ih =>
    intro j
    have hae := aePc_norep c hn
    have hN := inv_none_idle c hn _ hr
    have hR := isReady_true c
    explode_step a hs <;> grind

end BdModel.Sched
