import BdModel.Proofs.Sched.OrderInv2
/- per-node invariants of unstopped runs -/
namespace BdModel.Sched

/-- both flags are monotone -/
theorem step_flags_mono (c : Cfg) (s s' : State) (a : Act) (hs : step c s a = some s') :
    (s'.canceled = false → s.canceled = false) ∧ (s'.timedOut = false → s.timedOut = false) := by
  explode_step a hs

/-- `ran` (the worker's `executed` flag) in runs that have not been stopped: it is set as soon as the
    worker has passed `execStart`, and a worker that reaches `tail` still labelled `running` got there
    through an execution (the other way into `tail` with `running` is `check` under a stop) -/
def NodeRan (s : State) (j : Nat) : Prop :=
  s.canceled = false →
    (((s.nd j).pc = .exec ∨ (s.nd j).pc = .wErr ∨ (s.nd j).pc = .wTimeout ∨ (s.nd j).pc = .retrySleep) →
        (s.nd j).ran = true) ∧
    ((s.nd j).pc = .tail → (s.nd j).status = .running → (s.nd j).ran = true)

theorem inv_ran (c : Cfg) (hn : NoRep c) (s : State) (hr : Reach c s) : ∀ j, NodeRan s j := by
  induction hr with
  | init => intro j; simp [init, NodeRan]
  | step a hr hs ih =>
    intro j
    have hae := aePc_norep c hn
    have hN := inv_none_idle c hn _ hr
    simp only [NodeRan] at ih ⊢
    explode_step a hs <;> grind

/-- per-node facts of runs that have not been stopped (so far) -/
def NodeLive (s : State) (j : Nat) : Prop :=
  (s.canceled = false → (s.nd j).status ≠ .running →
      (s.nd j).pc = .idle ∨ (s.nd j).pc = .tail ∨ (s.nd j).pc = .td ∨ (s.nd j).pc = .deferred ∨ (s.nd j).pc = .gone) ∧
  (s.canceled = false → s.timedOut = false → (s.nd j).status = .cancel → (s.nd j).pc = .idle)

theorem inv_live (c : Cfg) (hn : NoRep c) (s : State) (hr : Reach c s) : ∀ j, NodeLive s j := by
  induction hr with
  | init => intro j; simp [init, NodeLive]
  | step a hr hs ih =>
    intro j
    have hae := aePc_norep c hn
    have hN := inv_none_idle c hn _ hr
    have hL := inv_launching c hn _ hr
    have hR := isReady_true c
    have hR2 := isReady_label_cases c
    have hT := fun j => (inv_node c hn _ hr j).2.2.2.1
    have hE := inv_ran c hn _ hr
    simp only [NodeLive, NodeRan] at ih hE ⊢
    explode_step a hs <;> grind

/-- (B) in an unstopped run an active worker's node is `running` -/
theorem active_running (c : Cfg) (hn : NoRep c) (s : State) (hr : Reach c s) (hc : s.canceled = false)
    (j : Nat) (h : (s.nd j).pc.active = true) : (s.nd j).status = .running := by
  have := (inv_live c hn s hr j).1 hc
  revert h
  cases hp : (s.nd j).pc <;> simp_all [PC.active]

end BdModel.Sched
