import BdModel.Sched.Defs
/- frame lemmas for the scheduler model, used by Outcome.lean -/
namespace BdModel.Sched

variable {c : Cfg} {s s' : State} {i j : Nat} {ok : Bool}

theorem updN_apply_ob (f : Nat → NodeSt) (i : Nat) (v : NodeSt) (j : Nat) :
    updN f i v j = if j = i then v else f j := rfl

@[simp] theorem updN_same (f : Nat → NodeSt) (i : Nat) (v : NodeSt) : updN f i v i = v := by
  simp [updN]

theorem updN_ne (f : Nat → NodeSt) {i j : Nat} (v : NodeSt) (h : j ≠ i) : updN f i v j = f j := by
  simp [updN, h]

/-- pc of the worker after the error switch -/
def afterPC (c : Cfg) (s : State) (i : Nat) (ok : Bool) : PC :=
  if (c.node i).rep && (ok || (c.node i).contFail) && !s.canceled then .check
  else if !ok && c.doneChan then .deferred else .tail

theorem afterExec_eq_ob (c : Cfg) (s : State) (i : Nat) (ok : Bool) :
    afterExec c s i ok =
      s.setNode i { (s.nd i) with
        doneCnt := if (s.nd i).status != .cancel then (s.nd i).doneCnt + 1 else (s.nd i).doneCnt,
        pc := afterPC c s i ok } := by
  unfold afterExec afterPC
  by_cases h1 : ((s.nd i).status != .cancel) = true <;>
  by_cases h2 : ((c.node i).rep && (ok || (c.node i).contFail) && !s.canceled) = true <;>
  by_cases h3 : (!ok && c.doneChan) = true <;> simp [h1, h2, h3]

theorem afterPC_norep (h : (c.node i).rep = false) :
    afterPC c s i ok = if !ok && c.doneChan then .deferred else .tail := by
  simp [afterPC, h]


/-- case analysis on one transition: one goal per enabled branch of `step`, with `s'` substituted -/
macro "step_cases" a:ident hs:ident : tactic =>
  `(tactic| (cases $a:ident <;>
      simp only [step, afterExec_eq_ob, State.setNode, updN_same] at $hs:ident <;>
      (repeat' split at $hs:ident) <;> (try cases $hs:ident)))

/-! ### list predicates of the model as quantified statements -/

theorem isFinished_iff_ob (c : Cfg) (s : State) :
    isFinished c s = true ↔ ∀ j, j < c.n → (s.nd j).status ≠ .running ∧ (s.nd j).status ≠ .none := by
  simp [isFinished, List.all_eq_true]

theorem workersDone_iff (c : Cfg) (s : State) :
    workersDone c s = true ↔
      ∀ j, j < c.n → ((s.nd j).pc = .idle ∨ (s.nd j).pc = .gone) ∧ (s.nd j).zombies = 0 := by
  simp [workersDone, List.all_eq_true]

theorem anyRunning_eq_false_iff (c : Cfg) (s : State) :
    anyRunning c s = false ↔ ∀ j, j < c.n → (s.nd j).status ≠ .running := by
  simp [anyRunning]

theorem PC.active_iff (p : PC) :
    p.active = true ↔ p = .setup ∨ p = .check ∨ p = .starting ∨ p = .exec ∨ p = .wErr ∨ p = .wTimeout ∨
      p = .retrySleep := by
  cases p <;> simp [PC.active]

theorem totalExecs_congr (c : Cfg) (s s' : State)
    (h : ∀ j, j < c.n → (s'.nd j).execs = (s.nd j).execs) : totalExecs c s' = totalExecs c s := by
  unfold totalExecs
  congr 1
  apply List.map_congr_left
  intro j hj
  exact h j (List.mem_range.mp hj)

/-! ### loop phases as decidable predicates (friendlier to automation than `∃ l, loop = handlers l`) -/

/-- the loop has left its scanning phase -/
@[grind] def LoopPC.doneO : LoopPC → Bool
  | .waiting | .handlers _ | .returned => true
  | _ => false

/-- `wg.Wait()` has returned -/
@[grind] def LoopPC.inH : LoopPC → Bool
  | .handlers _ | .returned => true
  | _ => false

theorem LoopDone_iff (s : State) : LoopDone s ↔ s.loop.doneO = true := by
  unfold LoopDone
  cases s.loop <;> simp [LoopPC.doneO]

theorem inH_iff (s : State) : ((∃ l, s.loop = .handlers l) ∨ s.loop = .returned) ↔ s.loop.inH = true := by
  cases s.loop <;> simp [LoopPC.inH]

/-! ### `readyFold` -/

theorem readyFold_fst_true (c : Cfg) (s : State) :
    ∀ ds acc, (readyFold c s ds acc).1 = true → (readyFold c s ds acc).2 = acc.2 ∧ acc.1 = true := by
  intro ds
  induction ds with
  | nil => intro acc h; simpa [readyFold] using h
  | cons d ds ih =>
    intro (r, l) h
    simp only [readyFold] at h ⊢
    cases he : readyEffect (s.nd d).status (c.node d).contFail (c.node d).contSkip <;>
      simp only [he] at h ⊢ <;> have := ih _ h <;> simp_all

theorem readyFold_not_error (c : Cfg) (s : State) :
    ∀ ds acc, (readyFold c s ds acc).2 = some .error → acc.2 = some .error := by
  intro ds
  induction ds with
  | nil => intro acc h; simpa [readyFold] using h
  | cons d ds ih =>
    intro (r, l) h
    simp only [readyFold] at h
    split at h <;> rename_i he <;> have := ih _ h
    · simpa using this
    · simpa using this
    · simp only [Option.some.injEq] at this
      subst this
      revert he
      cases (s.nd d).status <;> simp [readyEffect] <;> split <;> simp

theorem readyFold_cancel (c : Cfg) (s : State) :
    ∀ ds acc, (readyFold c s ds acc).2 = some .cancel → acc.2 = some .cancel ∨
      ∃ d, d ∈ ds ∧ (((s.nd d).status = .error ∧ (c.node d).contFail = false) ∨ (s.nd d).status = .cancel) := by
  intro ds
  induction ds with
  | nil => intro acc h; left; simpa [readyFold] using h
  | cons d ds ih =>
    intro (r, l) h
    simp only [readyFold] at h
    split at h <;> rename_i he <;> rcases ih _ h with h1 | ⟨d', hd', h1⟩
    · left; simpa using h1
    · right; exact ⟨d', List.mem_cons_of_mem _ hd', h1⟩
    · left; simpa using h1
    · right; exact ⟨d', List.mem_cons_of_mem _ hd', h1⟩
    · right
      refine ⟨d, List.mem_cons_self, ?_⟩
      simp only [Option.some.injEq] at h1
      subst h1
      revert he
      cases (s.nd d).status <;> simp [readyEffect] <;> split <;> simp
    · right; exact ⟨d', List.mem_cons_of_mem _ hd', h1⟩

theorem readyEffect_block_ob {st : NStatus} {cf cs : Bool} {l : NStatus}
    (h : readyEffect st cf cs = .block l) : l = .cancel ∨ l = .skipped := by
  unfold readyEffect at h
  cases st <;> grind

/-- the loop writes only the labels `cancel` and `skipped` -/
theorem readyFold_label (c : Cfg) (s : State) (l : NStatus) :
    ∀ ds acc, (readyFold c s ds acc).2 = some l → acc.2 = some l ∨ l = .cancel ∨ l = .skipped := by
  intro ds
  induction ds with
  | nil => intro acc h; left; simpa [readyFold] using h
  | cons d ds ih =>
    intro (r, l') h
    simp only [readyFold] at h
    split at h <;> rename_i he <;> rcases ih _ h with h1 | h1
    · left; simpa using h1
    · right; exact h1
    · left; simpa using h1
    · right; exact h1
    · right
      simp only [Option.some.injEq] at h1
      subst h1
      exact readyEffect_block_ob he
    · right; exact h1

theorem isReady_label_ob (c : Cfg) (s : State) (i : Nat) (l : NStatus) (h : (isReady c s i).2 = some l) :
    l = .cancel ∨ l = .skipped := by
  unfold isReady at h
  simpa using readyFold_label c s l _ _ h

theorem isReady_fst_true (c : Cfg) (s : State) (i : Nat) (h : (isReady c s i).1 = true) :
    (isReady c s i).2 = none := by
  unfold isReady at h ⊢
  simpa using (readyFold_fst_true c s _ _ h).1

theorem isReady_not_error (c : Cfg) (s : State) (i : Nat) : (isReady c s i).2 ≠ some .error := by
  intro h
  unfold isReady at h
  simpa using readyFold_not_error c s _ _ h

theorem isReady_cancel (c : Cfg) (s : State) (i : Nat) (h : (isReady c s i).2 = some .cancel) :
    ∃ d, d ∈ (c.node i).deps ∧
      (((s.nd d).status = .error ∧ (c.node d).contFail = false) ∨ (s.nd d).status = .cancel) := by
  unfold isReady at h
  simpa using readyFold_cancel c s _ _ h

end BdModel.Sched
