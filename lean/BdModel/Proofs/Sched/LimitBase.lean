import BdModel.Sched.Defs
/-
  Generic helper lemmas for the invariant proofs in `Limit.lean`:
  frame lemmas for `updN` / `State.setNode` / `afterExec`, counting over `List.range`,
  facts about `readyFold`, and a characterisation of the `visitDecide` action.
-/
namespace BdModel.Sched.Lim
open BdModel.Sched

/-! ### node update -/

@[simp] theorem updN_apply (f : Nat → NodeSt) (i : Nat) (v : NodeSt) (j : Nat) :
    updN f i v j = if j = i then v else f j := rfl

@[simp] theorem setNode_nd (s : State) (i : Nat) (v : NodeSt) :
    (s.setNode i v).nd = updN s.nd i v := rfl
@[simp] theorem setNode_canceled (s : State) (i : Nat) (v : NodeSt) :
    (s.setNode i v).canceled = s.canceled := rfl
@[simp] theorem setNode_lastErr (s : State) (i : Nat) (v : NodeSt) :
    (s.setNode i v).lastErr = s.lastErr := rfl
@[simp] theorem setNode_timedOut (s : State) (i : Nat) (v : NodeSt) :
    (s.setNode i v).timedOut = s.timedOut := rfl
@[simp] theorem setNode_loop (s : State) (i : Nat) (v : NodeSt) :
    (s.setNode i v).loop = s.loop := rfl

/-! ### `afterExec` only touches `pc` and `doneCnt` of node `i` -/

/-- the pc with which `afterExec` leaves node `i` -/
def aePc (c : Cfg) (cn : Bool) (i : Nat) (ok : Bool) : PC :=
  if (c.node i).rep && (ok || (c.node i).contFail) && !cn then .check
  else if !ok && c.doneChan then .deferred else .tail

theorem afterExec_eq (c : Cfg) (s : State) (i : Nat) (ok : Bool) :
    ∃ dc, afterExec c s i ok = s.setNode i { s.nd i with pc := aePc c s.canceled i ok, doneCnt := dc } := by
  unfold afterExec aePc
  by_cases h1 : (s.nd i).status != .cancel <;>
  by_cases h2 : ((c.node i).rep && (ok || (c.node i).contFail) && !s.canceled) = true <;>
  by_cases h3 : (!ok && c.doneChan) = true <;>
  simp only [h1, h2, h3, if_true, if_false, Bool.false_eq_true] <;>
  exact ⟨_, rfl⟩

/-- the `doneCnt` with which `afterExec` leaves node `i` -/
def aeDc (c : Cfg) (s : State) (i : Nat) (ok : Bool) : Nat := ((afterExec c s i ok).nd i).doneCnt

theorem afterExec_eq' (c : Cfg) (s : State) (i : Nat) (ok : Bool) :
    afterExec c s i ok = s.setNode i { s.nd i with pc := aePc c s.canceled i ok, doneCnt := aeDc c s i ok } := by
  obtain ⟨dc, h⟩ := afterExec_eq c s i ok
  have : aeDc c s i ok = dc := by
    unfold aeDc; rw [h]; simp
  rw [this]; exact h

@[simp] theorem afterExec_nd (c : Cfg) (s : State) (i : Nat) (ok : Bool) :
    (afterExec c s i ok).nd = updN s.nd i { s.nd i with pc := aePc c s.canceled i ok, doneCnt := aeDc c s i ok } := by
  rw [afterExec_eq']; rfl
@[simp] theorem afterExec_canceled (c : Cfg) (s : State) (i : Nat) (ok : Bool) :
    (afterExec c s i ok).canceled = s.canceled := by rw [afterExec_eq']; rfl
@[simp] theorem afterExec_lastErr (c : Cfg) (s : State) (i : Nat) (ok : Bool) :
    (afterExec c s i ok).lastErr = s.lastErr := by rw [afterExec_eq']; rfl
@[simp] theorem afterExec_timedOut (c : Cfg) (s : State) (i : Nat) (ok : Bool) :
    (afterExec c s i ok).timedOut = s.timedOut := by rw [afterExec_eq']; rfl
@[simp] theorem afterExec_loop (c : Cfg) (s : State) (i : Nat) (ok : Bool) :
    (afterExec c s i ok).loop = s.loop := by rw [afterExec_eq']; rfl

theorem aePc_norep {c : Cfg} (s : Bool) {i : Nat} (ok : Bool) (h : (c.node i).rep = false) :
    aePc c s i ok = if !ok && c.doneChan then .deferred else .tail := by
  simp [aePc, h]

theorem aePc_noRep {c : Cfg} (hn : NoRep c) (s : Bool) (i : Nat) (ok : Bool) :
    aePc c s i ok = if !ok && c.doneChan then .deferred else .tail := aePc_norep s ok (hn i)

theorem aePc_noRep_cases {c : Cfg} (hn : NoRep c) (s : Bool) (i : Nat) (ok : Bool) :
    aePc c s i ok = .deferred ∨ aePc c s i ok = .tail := by
  rw [aePc_noRep hn]; split <;> simp

theorem aePc_ne_check {c : Cfg} (hn : NoRep c) (s : Bool) (i : Nat) (ok : Bool) :
    (aePc c s i ok = .check) = False := by
  rcases aePc_noRep_cases hn s i ok with h | h <;> simp [h]

theorem aePc_ne_idle (c : Cfg) (s : Bool) (i : Nat) (ok : Bool) :
    (aePc c s i ok = .idle) = False := by
  unfold aePc; split
  · simp
  · split <;> simp

theorem aePc_active {c : Cfg} (hn : NoRep c) (s : Bool) (i : Nat) (ok : Bool) :
    (aePc c s i ok).active = false := by
  rcases aePc_noRep_cases hn s i ok with h | h <;> simp [h, PC.active]

@[simp] theorem active_idle : PC.idle.active = false := rfl
@[simp] theorem active_setup : PC.setup.active = true := rfl
@[simp] theorem active_check : PC.check.active = true := rfl
@[simp] theorem active_starting : PC.starting.active = true := rfl
@[simp] theorem active_exec : PC.exec.active = true := rfl
@[simp] theorem active_wErr : PC.wErr.active = true := rfl
@[simp] theorem active_wTimeout : PC.wTimeout.active = true := rfl
@[simp] theorem active_retrySleep : PC.retrySleep.active = true := rfl
@[simp] theorem active_tail : PC.tail.active = false := rfl
@[simp] theorem active_td : PC.td.active = false := rfl
@[simp] theorem active_deferred : PC.deferred.active = false := rfl
@[simp] theorem active_gone : PC.gone.active = false := rfl

/-- simp-friendly description of `aePc` without repeat policy -/
theorem aePc_eq_noRep {c : Cfg} (hn : NoRep c) (s : Bool) (i : Nat) (ok : Bool) (p : PC) :
    (aePc c s i ok = p) =
      ((p = .deferred ∧ (ok = false ∧ c.doneChan = true)) ∨
       (p = .tail ∧ ¬ (ok = false ∧ c.doneChan = true))) := by
  rw [aePc_noRep hn]
  cases ok <;> cases c.doneChan <;> simp [eq_comm]

theorem aePc_cases (c : Cfg) (s : Bool) (i : Nat) (ok : Bool) :
    aePc c s i ok = .check ∨ aePc c s i ok = .deferred ∨ aePc c s i ok = .tail := by
  unfold aePc; split
  · simp
  · split <;> simp

/-! ### counting over `List.range` -/

/-- number of nodes below `n` whose state satisfies `q` -/
def cnt (q : NodeSt → Bool) (n : Nat) (f : Nat → NodeSt) : Nat :=
  (List.range n).countP (fun j => q (f j))

theorem runningCount_eq (c : Cfg) (s : State) :
    runningCount c s = cnt (fun x => x.status == .running) c.n s.nd := rfl
theorem activeWorkers_eq (c : Cfg) (s : State) :
    activeWorkers c s = cnt (fun x => x.pc.active) c.n s.nd := rfl
theorem executing_eq (c : Cfg) (s : State) :
    executing c s = cnt (fun x => x.pc == .exec || x.pc == .retrySleep) c.n s.nd := rfl

/-- pointwise implication gives `≤` of the counts (also between different predicates) -/
theorem cnt_mono {q q' : NodeSt → Bool} {n : Nat} {f g : Nat → NodeSt}
    (h : ∀ j, j < n → q (g j) = true → q' (f j) = true) : cnt q n g ≤ cnt q' n f := by
  unfold cnt
  apply List.countP_mono_left
  intro j hj
  exact h j (List.mem_range.mp hj)

theorem cnt_zero {q : NodeSt → Bool} {n : Nat} {f : Nat → NodeSt} (h : ∀ j, q (f j) = false) :
    cnt q n f = 0 := by
  unfold cnt
  simp [h]

/-- changing one node increases a count by at most one -/
theorem cnt_frame_succ {q : NodeSt → Bool} {n : Nat} {f g : Nat → NodeSt} (i : Nat)
    (h : ∀ j, j ≠ i → q (g j) = true → q (f j) = true) : cnt q n g ≤ cnt q n f + 1 := by
  unfold cnt
  suffices H : ∀ m, (List.range m).countP (fun j => q (g j)) ≤
      (List.range m).countP (fun j => q (f j)) + (if i < m then 1 else 0) by
    have := H n; split at this <;> omega
  intro m
  induction m with
  | zero => simp
  | succ m ih =>
    simp only [List.range_succ, List.countP_append, List.countP_singleton]
    by_cases hm : m = i
    · subst hm
      simp only [Nat.lt_irrefl, if_false, Nat.lt_succ_self, if_true] at ih ⊢
      split <;> split <;> omega
    · have := h m hm
      have h1 : (i < m + 1) ↔ (i < m) := by omega
      simp only [h1]
      split <;> split <;> first | omega | simp_all

/-! ### `isReady` -/

theorem readyEffect_go_iff (c : Cfg) (s : State) (d : Nat) :
    readyEffect (s.nd d).status (c.node d).contFail (c.node d).contSkip = .go ↔ Licensed c s d := by
  unfold readyEffect Licensed
  cases (s.nd d).status <;> cases (c.node d).contFail <;> cases (c.node d).contSkip <;> simp

theorem readyFold_licensed (c : Cfg) (s : State) (ds : List Nat) (acc : Bool × Option NStatus)
    (h : ∀ d ∈ ds, Licensed c s d) : readyFold c s ds acc = acc := by
  induction ds generalizing acc with
  | nil => rfl
  | cons d ds ih =>
    obtain ⟨r, l⟩ := acc
    have hd := (readyEffect_go_iff c s d).mpr (h d (by simp))
    simp only [readyFold, hd]
    exact ih _ (fun x hx => h x (by simp [hx]))

theorem readyFold_ready (c : Cfg) (s : State) (ds : List Nat) (r : Bool) (l : Option NStatus)
    (h : (readyFold c s ds (r, l)).1 = true) : r = true ∧ ∀ d ∈ ds, Licensed c s d := by
  induction ds generalizing r l with
  | nil => exact ⟨h, by simp⟩
  | cons d ds ih =>
    simp only [readyFold] at h
    split at h
    · next he =>
      have := ih _ _ h
      exact ⟨this.1, by
        intro x hx
        rcases List.mem_cons.mp hx with rfl | hx
        · exact (readyEffect_go_iff c s x).mp he
        · exact this.2 x hx⟩
    · exact absurd (ih _ _ h).1 (by simp)
    · exact absurd (ih _ _ h).1 (by simp)

theorem readyFold_lab (c : Cfg) (s : State) (ds : List Nat) (r : Bool) (l : Option NStatus) (lab : NStatus)
    (h : (readyFold c s ds (r, l)).2 = some lab) : l = some lab ∨ lab = .cancel ∨ lab = .skipped := by
  induction ds generalizing r l with
  | nil => exact Or.inl h
  | cons d ds ih =>
    simp only [readyFold] at h
    split at h
    · exact ih _ _ h
    · exact ih _ _ h
    · next lb he =>
      rcases ih _ _ h with h1 | h1
      · right
        have : lb = lab := by simpa using h1
        subst this
        unfold readyEffect at he
        split at he <;> (try split at he) <;> simp_all
      · exact Or.inr h1

/-- a ready node gets no label -/
theorem isReady_ready {c : Cfg} {s : State} {i : Nat} (h : (isReady c s i).1 = true) :
    (∀ d ∈ (c.node i).deps, Licensed c s d) ∧ (isReady c s i).2 = none := by
  have h1 := (readyFold_ready c s _ _ _ h).2
  refine ⟨h1, ?_⟩
  unfold isReady
  rw [readyFold_licensed c s _ _ h1]

/-- a label is `cancel` or `skipped` and stems from a dependency that is not licensed -/
theorem isReady_lab {c : Cfg} {s : State} {i : Nat} {lab : NStatus} (h : (isReady c s i).2 = some lab) :
    (lab = .cancel ∨ lab = .skipped) ∧ ¬ (∀ d ∈ (c.node i).deps, Licensed c s d) := by
  constructor
  · rcases readyFold_lab c s _ _ _ _ h with h1 | h1
    · simp at h1
    · exact h1
  · intro hl
    unfold isReady at h
    rw [readyFold_licensed c s _ _ hl] at h
    simp at h

/-- the three outcomes of one loop visit -/
theorem step_visitDecide {c : Cfg} {s s' : State} {i : Nat} (h : step c s (.visitDecide i) = some s') :
    s.loop = .scanning ∧ i < c.n ∧
    (s' = s ∨
     ((s.nd i).status = .none ∧ ∃ l, (l = .cancel ∨ l = .skipped) ∧
        ¬ (∀ d ∈ (c.node i).deps, Licensed c s d) ∧ s' = s.setNode i { s.nd i with status := l }) ∨
     ((s.nd i).status = .none ∧ s.canceled = false ∧
        (c.maxActive > 0 → runningCount c s < c.maxActive) ∧
        (∀ d ∈ (c.node i).deps, Licensed c s d) ∧ s' = { s with loop := .launching i })) := by
  simp only [step] at h
  split at h
  · next h0 =>
    refine ⟨h0.1, h0.2, ?_⟩
    split at h
    · left; simpa using h.symm
    · next hst =>
      have hst : (s.nd i).status = .none := by simpa using hst
      cases hlab : (isReady c s i).2 with
      | none =>
        simp only [hlab] at h
        repeat' split at h
        all_goals first
          | (left; simpa using h.symm)
          | (right; right
             have hrd : (isReady c s i).1 = true := by simp_all
             refine ⟨hst, by simp_all, ?_, (isReady_ready hrd).1, by simpa using h.symm⟩
             intro hk
             simp_all
             try omega)
      | some l =>
        have hl := isReady_lab hlab
        have hrd : (isReady c s i).1 = false := by
          cases hrd : (isReady c s i).1
          · rfl
          · have := (isReady_ready hrd).2
            simp [hlab] at this
        simp only [hlab, hrd] at h
        right; left
        exact ⟨hst, l, hl.1, hl.2, by simpa using h.symm⟩
  · simp at h

/-! ### unfolding one transition -/

/-- unfold `step` in `hs : step c s a = some s'` (for a concrete constructor `a`), split all branches,
    discard the disabled ones and substitute `s'` -/
macro "step_cases " hs:ident : tactic => `(tactic| (
  simp only [step] at $hs:ident
  repeat' split at $hs:ident
  all_goals (first | (cases $hs:ident; done) | skip)
  all_goals (first | (injection $hs:ident with $hs:ident; subst $hs:ident) | skip)))
