import BdModel.Proofs.Sched.OrderInv
/- per-node invariants, second layer -/
namespace BdModel.Sched

/-- per-node facts that hold in every reachable state of a repeat-free graph -/
def NodeOK (c : Cfg) (s : State) (j : Nat) : Prop :=
  ((s.nd j).status = .success → (s.nd j).pc = .td ∨ (s.nd j).pc = .deferred ∨ (s.nd j).pc = .gone) ∧
  ((s.nd j).status = .error → (s.nd j).pc = .tail ∨ (s.nd j).pc = .td ∨ (s.nd j).pc = .deferred ∨ (s.nd j).pc = .gone) ∧
  ((s.nd j).status = .skipped → (s.nd j).pc = .idle) ∧
  ((s.nd j).pc = .wTimeout → s.timedOut = true) ∧
  ((s.nd j).pc ≠ .idle → 0 < (s.nd j).launches) ∧
  ((s.nd j).status = .running → 0 < (s.nd j).launches) ∧
  (0 < (s.nd j).execs → 0 < (s.nd j).launches) ∧
  ((s.nd j).preSkip = true → (c.node j).hasPre = true)

theorem inv_node (c : Cfg) (hn : NoRep c) (s : State) (hr : Reach c s) : ∀ j, NodeOK c s j := by
  induction hr with
  | init => intro j; simp [init, NodeOK]
  | step a hr hs ih =>
    intro j
    have hae := aePc_norep c hn
    have hN := inv_none_idle c hn _ hr
    have hL := inv_launching c hn _ hr
    have hR := isReady_true c
    have hR2 := isReady_label_cases c
    simp only [NodeOK] at ih ⊢
    explode_step a hs <;> grind

end BdModel.Sched
