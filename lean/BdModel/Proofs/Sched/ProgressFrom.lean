import BdModel.Proofs.Sched.Progress
import BdModel.Proofs.Sched.OrderFrom
/- deadlock freedom (Progress.lean) for EVERY state `Schedule` can be entered in (`Start`) -/
namespace BdModel.Sched

theorem inv_busy_from (c : Cfg) (hn : NoRep c) {s0 : State} (h0 : Start s0) (s : State)
    (hr : ReachFrom c s0 s) : ∀ j, NodeBusy s j := by
  induction hr with
  | init =>
    intro j
    have := h0.node_cases j
    simp only [NodeBusy]
    grind
  | step a hr hs ih =>
    intro j
    have hae := aePc_norep c hn
    have haet := aePc_true_norep c hn
    have hN := inv_none_idle_from c hn h0 _ hr
    have hL := inv_launching_from c hn h0 _ hr
    have hR := isReady_true c
    have hR2 := isReady_label_cases c
    simp only [NodeBusy, PC.active_true_iff] at ih ⊢
    explode_step a hs <;> grind

/-- the worker of a `running` step is never stuck -/
theorem worker_progress_from (c : Cfg) (hn : NoRep c) {s0 : State} (h0 : Start s0) (s : State)
    (hr : ReachFrom c s0 s) (j : Nat) (h : (s.nd j).status = .running) :
    ∃ a s', step c s a = some s' ∧
      (a = .setupDone j true ∨ a = .check j ∨ a = .execStart j ∨ a = .execEnd j true ∨ a = .postWrite j ∨
       a = .retryWake j ∨ a = .tail j) := by
  rcases inv_busy_from c hn h0 s hr j h with hp | hp
  · rw [PC.active_true_iff] at hp
    rcases hp with hp | hp | hp | hp | hp | hp | hp
    · exact ⟨.setupDone j true, _, by simp [step, hp]; rfl, by simp⟩
    · by_cases hc : s.canceled = true
      · exact ⟨.check j, _, by simp [step, hp, hc]; rfl, by simp⟩
      · exact ⟨.check j, _, by simp [step, hp, hc]; rfl, by simp⟩
    · by_cases hd : c.dry = true
      · exact ⟨.execStart j, _, by simp [step, hp, hd]; rfl, by simp⟩
      · exact ⟨.execStart j, _, by simp [step, hp, hd]; rfl, by simp⟩
    · exact ⟨.execEnd j true, _, by simp [step, hp]; rfl, by simp⟩
    · exact ⟨.postWrite j, _, by simp [step, hp]; rfl, by simp⟩
    · exact ⟨.postWrite j, _, by simp [step, hp]; rfl, by simp⟩
    · have hen : (step c s (.retryWake j)).isSome = true := by
        simp only [step, hp, if_true]
        split <;> rfl
      obtain ⟨s', hs'⟩ := Option.isSome_iff_exists.mp hen
      exact ⟨.retryWake j, s', hs', by simp⟩
  · exact ⟨.tail j, _, by simp [step, hp]; rfl, by simp⟩

/-- deadlock freedom of every run: in an unstopped, unfinished state at the head of the loop a running
    step's worker has an enabled action, or one visit of the loop changes the state -/
theorem never_blocks_from (c : Cfg) (hw : WF c) (hrk : Ranked c) (hn : NoRep c) {s0 : State} (h0 : Start s0)
    (s : State) (hr : ReachFrom c s0 s)
    (hscan : s.loop = .scanning) (hnc : s.canceled = false) (hnf : isFinished c s = false) :
    (∃ j, j < c.n ∧ (s.nd j).status = .running ∧ ∃ a s', step c s a = some s' ∧
        (a = .setupDone j true ∨ a = .check j ∨ a = .execStart j ∨ a = .execEnd j true ∨ a = .postWrite j ∨
         a = .retryWake j ∨ a = .tail j)) ∨
    (∃ i s', step c s (.visitDecide i) = some s' ∧ s' ≠ s) := by
  rcases Classical.em (∃ j, j < c.n ∧ (s.nd j).status = .running) with ⟨j, hj, hrun⟩ | hno
  · exact Or.inl ⟨j, hj, hrun, worker_progress_from c hn h0 s hr j hrun⟩
  · exact Or.inr (scan_progress c hw hrk s hscan hnc hnf (fun j hj h => hno ⟨j, hj, h⟩))

end BdModel.Sched

#print axioms BdModel.Sched.never_blocks_from
