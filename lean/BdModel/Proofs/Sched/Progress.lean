import BdModel.Proofs.Sched.Order
/-
  Deadlock freedom of the scheduling loop (C02 "steps … always run to completion", C15 "the limit
  never prevents a run from completing"): whenever the run is not finished, not stopped, and no step
  is running, one scan of the loop changes the state — it launches a step or labels one.
-/
namespace BdModel.Sched

/-- with no dependency in a waiting state (none / running), `not ready` always comes with a label -/
theorem readyFold_labelled (c : Cfg) (s : State) (ds : List Nat) :
    ∀ (r : Bool) (l : Option NStatus),
      (∀ d ∈ ds, readyEffect (s.nd d).status (c.node d).contFail (c.node d).contSkip ≠ .wait) →
      (r = false → l.isSome = true) →
      ((readyFold c s ds (r, l)).1 = false → (readyFold c s ds (r, l)).2.isSome = true) := by
  induction ds with
  | nil => intro r l _ h; simpa [readyFold] using h
  | cons d ds ih =>
    intro r l hw h
    simp only [readyFold]
    have hd := hw d List.mem_cons_self
    have hrest : ∀ d' ∈ ds, readyEffect (s.nd d').status (c.node d').contFail (c.node d').contSkip ≠ .wait :=
      fun d' hd' => hw d' (List.mem_cons_of_mem _ hd')
    split
    · exact ih r l hrest h
    · rename_i heq; exact absurd heq hd
    · exact ih false _ hrest (fun _ => rfl)

theorem readyEffect_wait (st : NStatus) (cf cs : Bool) :
    readyEffect st cf cs = .wait ↔ (st = .none ∨ st = .running) := by
  cases st <;> cases cf <;> cases cs <;> simp [readyEffect]

/-- a `not started` step of minimal rank -/
theorem exists_min_none (c : Cfg) (s : State) (rank : Nat → Nat) (i0 : Nat) (h0 : i0 < c.n ∧ (s.nd i0).status = .none) :
    ∃ i, (i < c.n ∧ (s.nd i).status = .none) ∧ ∀ j, (j < c.n ∧ (s.nd j).status = .none) → rank i ≤ rank j := by
  have key : ∀ k, (∃ i, (i < c.n ∧ (s.nd i).status = .none) ∧ rank i ≤ k) →
      ∃ i, (i < c.n ∧ (s.nd i).status = .none) ∧ ∀ j, (j < c.n ∧ (s.nd j).status = .none) → rank i ≤ rank j := by
    intro k
    induction k with
    | zero =>
      rintro ⟨i, hi, hk⟩
      exact ⟨i, hi, fun j _ => by omega⟩
    | succ k ih =>
      rintro ⟨i, hi, hk⟩
      rcases Classical.em (∃ j, (j < c.n ∧ (s.nd j).status = .none) ∧ rank j ≤ k) with h | h
      · exact ih h
      · refine ⟨i, hi, fun j hj => ?_⟩
        rcases Nat.lt_or_ge k (rank j) with hlt | hge
        · omega
        · exact absurd ⟨j, hj, hge⟩ h
  exact key (rank i0) ⟨i0, h0, Nat.le_refl _⟩

/-- **progress**: not finished, not stopped, nothing running ⇒ some visit of the loop changes the state
    (whatever `maxActiveRuns` is) -/
theorem scan_progress (c : Cfg) (hw : WF c) (hrk : Ranked c) (s : State)
    (hscan : s.loop = .scanning) (hnc : s.canceled = false) (hnf : isFinished c s = false)
    (hnr : ∀ j, j < c.n → (s.nd j).status ≠ .running) :
    ∃ i s', step c s (.visitDecide i) = some s' ∧ s' ≠ s := by
  obtain ⟨rank, hrank⟩ := hrk
  -- some step is `not started`
  have h0 : ∃ i0, i0 < c.n ∧ (s.nd i0).status = .none := by
    simp only [isFinished, List.all_eq_false, List.mem_range] at hnf
    obtain ⟨j, hj, hb⟩ := hnf
    refine ⟨j, hj, ?_⟩
    have := hnr j hj
    cases hst : (s.nd j).status <;> simp_all
  obtain ⟨i0, h0⟩ := h0
  obtain ⟨i, ⟨hin, hist⟩, hmin⟩ := exists_min_none c s rank i0 h0
  -- none of its dependencies waits
  have hdeps : ∀ d ∈ (c.node i).deps, readyEffect (s.nd d).status (c.node d).contFail (c.node d).contSkip ≠ .wait := by
    intro d hd hwt
    have hdn := hw i hin d hd
    rcases (readyEffect_wait _ _ _).mp hwt with h | h
    · have := hmin d ⟨hdn, h⟩
      have := hrank i hin d hd
      omega
    · exact hnr d hdn h
  have hlab := readyFold_labelled c s (c.node i).deps true none hdeps (by simp)
  -- run the visit
  have hrc : runningCount c s = 0 := by
    simp only [runningCount, List.countP_eq_zero, List.mem_range]
    intro j hj
    have := hnr j hj
    simpa using this
  cases hr : isReady c s i with
  | mk ready lab =>
    have hlab' : ready = false → lab.isSome = true := by
      have := hlab
      simp only [isReady] at hr
      rw [hr] at this
      exact this
    cases ready with
    | true =>
      have hlabn : lab = none := by
        have := (isReady_true c s i (by rw [hr])).1
        rw [hr] at this; exact this
      subst hlabn
      have hlim : ¬ (0 < c.maxActive ∧ c.maxActive = 0) := by omega
      refine ⟨i, { s with loop := .launching i }, ?_, ?_⟩
      · simp [step, hscan, hin, hist, hr, hnc, hrc, hlim]
      · intro he
        have := congrArg State.loop he
        simp [hscan] at this
    | false =>
      obtain ⟨l, rfl⟩ := Option.isSome_iff_exists.mp (hlab' rfl)
      refine ⟨i, s.setNode i { s.nd i with status := l }, ?_, ?_⟩
      · simp [step, hscan, hin, hist, hr]
      · intro he
        have h1 := congrArg (fun t => (t.nd i).status) he
        simp only [State.setNode, updN, if_true] at h1
        -- the label written is `canceled` or `skipped`, never `not started`
        have := isReady_label_cases c s i l (by rw [hr])
        rw [hist] at h1
        rcases this with rfl | rfl <;> simp at h1

end BdModel.Sched

namespace BdModel.Sched

theorem aePc_true_norep (c : Cfg) (hn : NoRep c) (s : State) (i : Nat) : aePc c s i true = .tail := by
  have := hn i
  simp [aePc, afterExec, this, State.setNode, updN]

/-- a step labelled `running` always has a live worker (between launch and the end of its tail) -/
def NodeBusy (s : State) (j : Nat) : Prop :=
  (s.nd j).status = .running → ((s.nd j).pc.active = true ∨ (s.nd j).pc = .tail)

theorem inv_busy (c : Cfg) (hn : NoRep c) (s : State) (hr : Reach c s) : ∀ j, NodeBusy s j := by
  induction hr with
  | init => intro j; simp [init, NodeBusy]
  | step a hr hs ih =>
    intro j
    have hae := aePc_norep c hn
    have haet := aePc_true_norep c hn
    have hN := inv_none_idle c hn _ hr
    have hL := inv_launching c hn _ hr
    have hR := isReady_true c
    have hR2 := isReady_label_cases c
    simp only [NodeBusy, PC.active_true_iff] at ih ⊢
    explode_step a hs <;> grind

/-- the worker of a `running` step is never stuck: one of its own actions — or, while its command
    runs, the command's end — is enabled -/
theorem worker_progress (c : Cfg) (hn : NoRep c) (s : State) (hr : Reach c s) (j : Nat)
    (h : (s.nd j).status = .running) :
    ∃ a s', step c s a = some s' ∧
      (a = .setupDone j true ∨ a = .check j ∨ a = .execStart j ∨ a = .execEnd j true ∨ a = .postWrite j ∨
       a = .retryWake j ∨ a = .tail j) := by
  rcases inv_busy c hn s hr j h with hp | hp
  · rw [PC.active_true_iff] at hp
    rcases hp with hp | hp | hp | hp | hp | hp | hp
    · exact ⟨.setupDone j true, _, by simp [step, hp]; rfl, by simp⟩
    · by_cases hc : s.canceled = true
      · exact ⟨.check j, _, by simp [step, hp, hc]; rfl, by simp⟩
      · exact ⟨.check j, _, by simp [step, hp, hc]; rfl, by simp⟩
    · by_cases hd : c.dry = true
      · exact ⟨.execStart j, _, by simp [step, hp, hd]; rfl, by simp⟩
      · exact ⟨.execStart j, _, by simp [step, hp, hd]; rfl, by simp⟩
    · exact ⟨.execEnd j true, _, by simp [step, hp]; rfl, by simp⟩
    · exact ⟨.postWrite j, _, by simp [step, hp]; rfl, by simp⟩
    · exact ⟨.postWrite j, _, by simp [step, hp]; rfl, by simp⟩
    · have hen : (step c s (.retryWake j)).isSome = true := by
        simp only [step, hp, if_true]
        split <;> rfl
      obtain ⟨s', hs'⟩ := Option.isSome_iff_exists.mp hen
      exact ⟨.retryWake j, s', hs', by simp⟩
  · exact ⟨.tail j, _, by simp [step, hp]; rfl, by simp⟩

end BdModel.Sched
