import BdModel.Proofs.Sched.Outcome
import BdModel.Proofs.Sched.OrderFrom
/-
  The outcome / stop invariants (OutcomeInv.lean, OutcomeFin.lean) and the theorems built on them
  (Outcome.lean; properties C04 and C05) generalised to EVERY state `Schedule` can be entered in
  (`Start`, OrderFrom.lean): a fresh graph, or what `setupRetry` hands over — steps that start from
  scratch next to steps KEPT with their recorded result (finished / skipped, arbitrary recorded
  counters). Used by C10 (retry runs).

  The `*_step` lemmas of OutcomeInv / OutcomeFin are state-local, so every `_from` theorem is the same
  induction with the `init` case re-proved from `Start`. Two points where a start state differs from
  the fresh one:

  * `InvR` (nodes outside the graph are untouched) speaks about `c.n`, which `Start` does not know:
    the theorems that need it take `hout : ∀ i, c.n ≤ i → s0.nd i = {}`.
  * `InvS` (`ran` / `success` ⇒ a command was started in this run) is FALSE for a kept step: it starts
    the run `success` with `execs = 0` and is never executed (C10_kept). It is stated per node
    (`InvSn`), for the nodes that are fresh at the start (`invS_from`, `success_executed_from`).
    Every other invariant of the family holds for kept nodes unchanged.
-/
namespace BdModel.Sched

variable {c : Cfg}

/-! ### OutcomeInv.lean -/

theorem invN_from (hn : NoRep c) {s0 : State} (h0 : Start s0) (s : State) (hr : ReachFrom c s0 s) :
    InvN s := by
  induction hr with
  | init => intro j _; exact Or.inl (h0.node_cases j).1
  | step a _ hs ih => exact invN_step hn hs ih

theorem invL_from (hn : NoRep c) {s0 : State} (h0 : Start s0) (s : State) (hr : ReachFrom c s0 s) :
    InvL c s := by
  induction hr with
  | init => intro j; simp [h0.loop]
  | step a hr hs ih => exact invL_step hs (invN_from hn h0 _ hr) ih

/-- `hout`: the start state has nothing outside the graph (`Start` does not know `c.n`) -/
theorem invR_from (hn : NoRep c) {s0 : State} (h0 : Start s0) (hout : ∀ i, c.n ≤ i → s0.nd i = {})
    (s : State) (hr : ReachFrom c s0 s) : InvR c s := by
  induction hr with
  | init => intro j hj; simp [hout j hj]
  | step a hr hs ih => exact invR_step hs (invL_from hn h0 _ hr) ih

theorem invB_from (hn : NoRep c) {s0 : State} (h0 : Start s0) (s : State) (hr : ReachFrom c s0 s) :
    InvB s := by
  induction hr with
  | init => intro _ j; simp [(h0.node_cases j).1, PC.active]
  | step a hr hs ih => exact invB_step hn hs (invN_from hn h0 _ hr) (invL_from hn h0 _ hr) ih

theorem invT_from {s0 : State} (h0 : Start s0) (s : State) (hr : ReachFrom c s0 s) : InvT s := by
  induction hr with
  | init => intro j; simp [(h0.node_cases j).1]
  | step a hr hs ih => exact invT_step hs ih

theorem invW_from (hn : NoRep c) {s0 : State} (h0 : Start s0) (s : State) (hr : ReachFrom c s0 s) :
    InvW c s := by
  induction hr with
  | init => intro _ h; simp [h0.loop, LoopPC.doneO] at h
  | step a hr hs ih => exact invW_step hs (invB_from hn h0 _ hr) ih

theorem invQ_from {s0 : State} (h0 : Start s0) (s : State) (hr : ReachFrom c s0 s) : InvQ c s := by
  induction hr with
  | init => intro h; simp [h0.loop, LoopPC.inH] at h
  | step a hr hs ih => exact invQ_step hs ih

theorem invA_from {s0 : State} (h0 : Start s0) (s : State) (hr : ReachFrom c s0 s) : InvA s := by
  induction hr with
  | init => intro h; simp [h0.atWait] at h
  | step a hr hs ih => exact invA_step hs ih

/-- a kept step is recorded finished or skipped, never failed: no `error` label at the start -/
theorem invE1_from {s0 : State} (h0 : Start s0) (s : State) (hr : ReachFrom c s0 s) : InvE1 s := by
  induction hr with
  | init =>
    intro j h
    have := (h0.node_cases j).2.2.2.2.2.2.2.2.2
    simp [h] at this
  | step a hr hs ih => exact invE1_step hs ih

theorem invG_from {s0 : State} (h0 : Start s0) (s : State) (hr : ReachFrom c s0 s) : InvG s := by
  induction hr with
  | init => intro _ j; simp [(h0.node_cases j).1]
  | step a hr hs ih => exact invG_step hs ih

theorem invC2_from (hn : NoRep c) {s0 : State} (h0 : Start s0) (s : State) (hr : ReachFrom c s0 s) :
    InvC2 s := by
  induction hr with
  | init => intro _ _ j _; exact Or.inl (h0.node_cases j).1
  | step a hr hs ih =>
    exact invC2_step hs (invN_from hn h0 _ hr) (invT_from h0 _ hr) (invG_from h0 _ hr) ih

/-- no step starts the run `canceled` (a recorded `canceled` step is always reset) -/
theorem invC_from (hn : NoRep c) {s0 : State} (h0 : Start s0) (s : State) (hr : ReachFrom c s0 s) :
    InvC c s := by
  induction hr with
  | init =>
    intro _ _ j h
    have := (h0.node_cases j).2.2.2.2.2.2.2.2.2
    simp [h] at this
  | step a hr hs ih =>
    exact invC_step hs (invL_from hn h0 _ hr) (invB_from hn h0 _ hr) (invC2_from hn h0 _ hr)
      (invT_from h0 _ hr) (invG_from h0 _ hr) ih

theorem invE2_from (hn : NoRep c) {s0 : State} (h0 : Start s0) (hout : ∀ i, c.n ≤ i → s0.nd i = {})
    (s : State) (hr : ReachFrom c s0 s) : InvE2 c s := by
  induction hr with
  | init => intro h; simp [h0.lastErr] at h
  | step a hr hs ih =>
    exact invE2_step hs (invL_from hn h0 _ hr) (invB_from hn h0 _ hr) (invT_from h0 _ hr)
      (invR_from hn h0 hout _ hr) ih

theorem invO_from (hn : NoRep c) {s0 : State} (h0 : Start s0) (hout : ∀ i, c.n ≤ i → s0.nd i = {})
    (s : State) (hr : ReachFrom c s0 s) : InvO s := by
  induction hr with
  | init => intro o h; simp [h0.atWait] at h
  | step a hr hs ih =>
    exact invO_step hs (invA_from h0 _ hr) (invQ_from h0 _ hr) (invR_from hn h0 hout _ hr)
      (invW_from hn h0 _ hr) ih

theorem invX_from {s0 : State} (h0 : Start s0) (s : State) (hr : ReachFrom c s0 s) : InvX c s := by
  induction hr with
  | init => intro h; simp [h0.loop, LoopPC.inH] at h
  | step a hr hs ih => exact invX_step hs (invQ_from h0 _ hr) ih

/-! ### OutcomeFin.lean -/

theorem invK_from (hd : c.dry = false) {s0 : State} (h0 : Start s0) (s : State) (hr : ReachFrom c s0 s) :
    InvK s := by
  induction hr with
  | init => intro j; simp [(h0.node_cases j).1]
  | step a hr hs ih => exact invK_step hd hs ih

/-- (S) for ONE node: `ran` and the label `success` both imply that a command has been started in
    this run. `InvS s ↔ ∀ j, InvSn s j`. -/
def InvSn (s : State) (j : Nat) : Prop :=
  ((s.nd j).ran = true → (s.nd j).execs ≥ 1) ∧ ((s.nd j).status = .success → (s.nd j).execs ≥ 1)

theorem invS_iff (s : State) : InvS s ↔ ∀ j, InvSn s j := Iff.rfl

/-- (S) is node-local: a transition preserves it for each node separately -/
theorem invSn_step {s s' : State} {a : Act} (hd : c.dry = false) (hs : step c s a = some s') (j : Nat)
    (ih : InvSn s j) : InvSn s' j := by
  simp only [InvSn] at *
  have hr := isReady_label_ob c s
  step_cases a hs <;> step_close

/-- (S) for the nodes that are FRESH at the start. Kept-node exception: a step kept by `setupRetry`
    with the record `finished` starts the run with `status = success ∧ execs = 0` and stays so
    (C10_kept) — for it the second clause of (S) is false, so there is no `InvS s` from a general start
    state. (The first clause, `ran → execs ≥ 1`, holds for kept nodes too: see `ran_executed_from`.) -/
theorem invS_from (hd : c.dry = false) {s0 : State} (s : State) (hr : ReachFrom c s0 s)
    (j : Nat) (hj : s0.nd j = {}) : InvSn s j := by
  induction hr with
  | init => simp [InvSn, hj]
  | step a hr hs ih => exact invSn_step hd hs j ih

/-- the `ran` clause of (S) holds for every node of every start state, kept or not -/
theorem ran_executed_from (hd : c.dry = false) {s0 : State} (h0 : Start s0) (s : State)
    (hr : ReachFrom c s0 s) (j : Nat) : (s.nd j).ran = true → (s.nd j).execs ≥ 1 := by
  induction hr with
  | init => simp [(h0.node_cases j).2.2.2.2.2.2.2.1]
  | @step s s' a hr hs ih =>
    step_cases a hs <;> step_close

/-- a kept `skipped` step is not `running`; nor is a kept `finished` one -/
theorem invD_from (hn : NoRep c) {s0 : State} (h0 : Start s0) (s : State) (hr : ReachFrom c s0 s) :
    InvD s := by
  induction hr with
  | init =>
    intro j _ h
    have := (h0.node_cases j).2.2.2.2.2.2.2.2.2
    simp [h] at this
  | step a hr hs ih => exact invD_step hn hs ih

/-! ### Outcome.lean -/

/-- the handler log is always a prefix of the plan computed after `wg.Wait()`; at return it is the
    plan — in every run `Schedule` can make (fresh or retry) -/
theorem hlog_plan_from (c : Cfg) {s0 : State} (h0 : Start s0) (s : State) (hr : ReachFrom c s0 s) :
    (s.hplan = none → s.hlog = [] ∧ s.atWait = none ∧ ¬ (∃ l, s.loop = .handlers l) ∧ s.loop ≠ .returned) ∧
    (∀ p, s.hplan = some p →
        (∃ o, s.atWait = some o ∧ p = handlerPlan c o) ∧
        ((∃ rest, s.loop = .handlers rest ∧ s.hlog ++ rest = p) ∨ (s.loop = .returned ∧ s.hlog = p))) := by
  induction hr with
  | init => simp [h0.hplan, h0.hlog, h0.atWait, h0.loop]
  | @step s s' a hr hs ih =>
    step_cases a hs <;> cases hp : s.hplan <;> grind

/-- no step command starts once the handlers have begun, and no worker can start one -/
theorem no_exec_after_wait_from (c : Cfg) {s0 : State} (h0 : Start s0) (s : State) (hr : ReachFrom c s0 s)
    (hl : (∃ l, s.loop = .handlers l) ∨ s.loop = .returned) :
    totalExecs c s = s.execsAtWait ∧ ∀ i, i < c.n → (s.nd i).pc.active = false := by
  have hH := (inH_iff s).1 hl
  refine ⟨invX_from h0 s hr hH, fun i hi => ?_⟩
  rcases (invQ_from h0 s hr hH i hi).1 with h | h <;> simp [h, PC.active]

/-- a recorded error is never lost -/
theorem error_implies_lastErr_from (c : Cfg) {s0 : State} (h0 : Start s0) (s : State) (hr : ReachFrom c s0 s)
    (i : Nat) (h : (s.nd i).status = .error) : s.lastErr = true :=
  invE1_from h0 s hr i h

/-- outcome read after `wg.Wait()` for a run that was not stopped and did not time out, from every
    start state without nodes outside the graph; the statuses quantified over are those of ALL steps,
    kept (recorded) and executed in this run -/
theorem outcome_unstopped_from (c : Cfg) (hw : WF c) (hn : NoRep c) (hrk : Ranked c)
    {s0 : State} (h0 : Start s0) (hout : ∀ i, c.n ≤ i → s0.nd i = {})
    (s : State) (hr : ReachFrom c s0 s) (hc : s.canceled = false) (ht : s.timedOut = false) (o : SStatus)
    (ho : s.atWait = some o) :
    (o = .success ∨ o = .error) ∧
    (o = .success ↔ ∀ i, i < c.n → (s.nd i).status = .success ∨ (s.nd i).status = .skipped) ∧
    (o = .error ↔ ∃ i, i < c.n ∧ (s.nd i).status = .error) := by
  have hO := invO_from hn h0 hout s hr o ho hc ht
  have hH : s.loop.inH = true := invA_from h0 s hr (by simp [ho])
  have hD : s.loop.doneO = true := by
    revert hH; cases s.loop <;> simp [LoopPC.inH, LoopPC.doneO]
  have hW := invW_from hn h0 s hr hc hD
  have hC := invC_from hn h0 s hr hc ht
  -- a `cancel` label goes back to a node in status `error` (induction on the rank)
  obtain ⟨rank, hrank⟩ := hrk
  have hcan : ∀ k j, rank j < k → j < c.n → (s.nd j).status = .cancel →
      ∃ e, e < c.n ∧ (s.nd e).status = .error := by
    intro k
    induction k with
    | zero => intro j h; omega
    | succ k ih =>
      intro j hjk hj hjc
      obtain ⟨d, hd, hb⟩ := hC j hjc
      have hdn := hw j hj d hd
      have hlt := hrank j hj d hd
      rcases hb with ⟨he, _⟩ | hdc
      · exact ⟨d, hdn, he⟩
      · exact ih d (by omega) hdn hdc
  have hLE : s.lastErr = true ↔ ∃ i, i < c.n ∧ (s.nd i).status = .error :=
    ⟨fun h => invE2_from hn h0 hout s hr h hc ht, fun ⟨i, _, h⟩ => invE1_from h0 s hr i h⟩
  have hAll : (¬ ∃ i, i < c.n ∧ (s.nd i).status = .error) ↔
      ∀ i, i < c.n → (s.nd i).status = .success ∨ (s.nd i).status = .skipped := by
    constructor
    · intro hne i hi
      have h1 := hW i hi
      have h2 : (s.nd i).status ≠ .error := fun h => hne ⟨i, hi, h⟩
      have h3 : (s.nd i).status ≠ .cancel := fun h => hne (hcan _ i (Nat.lt_succ_self _) hi h)
      revert h1 h2 h3
      cases (s.nd i).status <;> simp
    · rintro hall ⟨i, hi, he⟩
      rcases hall i hi with h | h <;> simp [he] at h
  by_cases hl : s.lastErr = true
  · have hex := hLE.1 hl
    have hoe : o = .error := by simpa [hl] using hO
    subst hoe
    refine ⟨Or.inr rfl, ⟨fun h => (by cases h), fun h => absurd hex (hAll.2 h)⟩, ⟨fun _ => hex, fun _ => rfl⟩⟩
  · have hnex : ¬ ∃ i, i < c.n ∧ (s.nd i).status = .error := fun h => hl (hLE.2 h)
    have hos : o = .success := by simpa [hl] using hO
    subst hos
    refine ⟨Or.inl rfl, ⟨fun _ => hAll.1 hnex, fun _ => rfl⟩, ⟨fun h => (by cases h), fun h => absurd h hnex⟩⟩

/-- a worker that is executing a command has an executor (non-dry) -/
theorem exec_has_cmd_from (c : Cfg) (hd : c.dry = false) {s0 : State} (h0 : Start s0) (s : State)
    (hr : ReachFrom c s0 s) (i : Nat) (h : (s.nd i).pc = .exec) : (s.nd i).cmd = true :=
  invK_from hd h0 s hr i h

/-- a step that starts the run FRESH and is reported finished has executed its command in this run,
    also in stopped runs. Kept-node exception: a step kept with the record `finished` is reported
    finished with `execs = 0` — its command ran in the recorded run, not in this one. -/
theorem success_executed_from (c : Cfg) (hd : c.dry = false) {s0 : State} (s : State)
    (hr : ReachFrom c s0 s) (i : Nat) (hi : s0.nd i = {})
    (h : (s.nd i).status = .success) : (s.nd i).execs ≥ 1 :=
  (invS_from hd s hr i hi).2 h

/-- no step (kept or fresh) is left in state running once its worker is gone: every worker that is
    gone or only has its deferred part left has a non-running status -/
theorem no_running_when_gone_from (c : Cfg) (hn : NoRep c) {s0 : State} (h0 : Start s0) (s : State)
    (hr : ReachFrom c s0 s) (i : Nat)
    (hp : (s.nd i).pc = .idle ∨ (s.nd i).pc = .gone ∨ (s.nd i).pc = .deferred ∨ (s.nd i).pc = .td) :
    (s.nd i).status ≠ .running :=
  invD_from hn h0 s hr i hp

end BdModel.Sched

#print axioms BdModel.Sched.hlog_plan_from
#print axioms BdModel.Sched.no_exec_after_wait_from
#print axioms BdModel.Sched.error_implies_lastErr_from
#print axioms BdModel.Sched.outcome_unstopped_from
#print axioms BdModel.Sched.exec_has_cmd_from
#print axioms BdModel.Sched.success_executed_from
#print axioms BdModel.Sched.ran_executed_from
#print axioms BdModel.Sched.no_running_when_gone_from
