import BdModel.Proofs.Sched.LimitFrom
/-
  The attempt bookkeeping (Limit.lean: retry count within the limit, executions = retries + current
  attempt, final accounting) for EVERY state `Schedule` can be entered in (`Start`), for the steps
  that start from scratch there — in a retry run: the steps `setupRetry` has reset.
-/
namespace BdModel.Sched
open Lim

theorem retry_le_limit_from (c : Cfg) {s0 : State} (s : State) (hr : ReachFrom c s0 s) (i : Nat)
    (hi : s0.nd i = {}) : (s.nd i).retry ≤ (c.node i).limit := by
  induction hr with
  | init => simp [hi]
  | step a hr hs ih =>
    cases a with
    | visitDecide j =>
      rcases step_visitDecide hs with ⟨-, -, rfl | ⟨-, l, -, -, rfl⟩ | ⟨-, -, -, -, rfl⟩⟩
      · exact ih
      · simp; split <;> simp_all
      · exact ih
    | _ =>
      step_cases hs
      all_goals first | exact ih | (simp; split <;> simp_all <;> omega)

theorem ex_inv_from (c : Cfg) (hn : NoRep c) (hd : c.dry = false) {s0 : State} (h0 : Start s0) (s : State)
    (hr : ReachFrom c s0 s) (j : Nat) (hj : s0.nd j = {}) : ExInv (s.nd j) := by
  induction hr with
  | init => simp [hj, ExInv]
  | step a hr hs ih =>
    have hB := inv_none_idle_from c hn h0 _ hr j
    have hL := inv_launching_from c hn h0 _ hr j
    cases a with
    | visitDecide i =>
      rcases step_visitDecide hs with ⟨hsc, -, rfl | ⟨hst, l, hl, -, rfl⟩ | ⟨hst, -, -, -, rfl⟩⟩
      · exact ih
      · simp [ExInv] at *; split <;> simp_all
      · exact ih
    | _ =>
      step_cases hs
      all_goals first | exact ih |
        (simp [ExInv, aePc_eq_noRep hn] at * <;> (try split) <;> simp_all [aePc_eq_noRep hn])

theorem ranLast_ran_from (c : Cfg) (hn : NoRep c) (hd : c.dry = false) {s0 : State} (h0 : Start s0) (s : State)
    (hr : ReachFrom c s0 s) (j : Nat) (hj : s0.nd j = {}) :
    (s.nd j).ranLast = true → (s.nd j).ran = true := by
  induction hr with
  | init => simp [hj]
  | step a hr hs ih =>
    have hL := inv_launching_from c hn h0 _ hr j
    have hE := ex_inv_from c hn hd h0 _ hr j hj
    cases a with
    | visitDecide i =>
      rcases step_visitDecide hs with ⟨hsc, -, rfl | ⟨hst, l, hl, -, rfl⟩ | ⟨hst, -, -, -, rfl⟩⟩
      · exact ih
      · simp at *; split <;> simp_all
      · exact ih
    | _ =>
      step_cases hs
      all_goals first | exact ih |
        (simp [ExInv] at * <;> (try split) <;> simp_all)

/-- bookkeeping of attempts, for a step that starts the run from scratch -/
theorem execs_eq_from (c : Cfg) (hn : NoRep c) (hd : c.dry = false) {s0 : State} (h0 : Start s0) (s : State)
    (hr : ReachFrom c s0 s) (i : Nat) (hi : s0.nd i = {}) :
    (s.nd i).execs = (s.nd i).retry + (if (s.nd i).ranLast then 1 else 0) :=
  (ex_inv_from c hn hd h0 s hr i hi).1

theorem status_stable_from (c : Cfg) (hn : NoRep c) (hf : c.tdFaults = false) {s0 : State} (h0 : Start s0)
    (s s' : State) (hr : ReachFrom c s0 s)
    (a : Act) (hs : step c s a = some s') (hc : s'.canceled = false) (j : Nat)
    (h1 : (s.nd j).status ≠ .none) (h2 : (s.nd j).status ≠ .running) :
    (s'.nd j).status = (s.nd j).status := by
  have hc0 := (step_flags hs).1 hc
  have hL := inv_launching_from c hn h0 _ hr j
  have hA := active_running_from c hn h0 _ hr hc0 j
  cases a with
  | visitDecide i =>
    rcases step_visitDecide hs with ⟨-, -, rfl | ⟨hst, l, -, -, rfl⟩ | ⟨-, -, -, -, rfl⟩⟩
    · rfl
    · simp; split <;> simp_all
    · rfl
  | _ =>
    step_cases hs
    all_goals first | rfl | (simp at * <;> (try split) <;> simp_all)

theorem licensed_stable_from (c : Cfg) (hn : NoRep c) (hf : c.tdFaults = false) {s0 : State} (h0 : Start s0)
    (s s' : State) (hr : ReachFrom c s0 s)
    (a : Act) (hs : step c s a = some s') (hc : s'.canceled = false) (d : Nat)
    (h : Licensed c s d) : Licensed c s' d := by
  have := status_stable_from c hn hf h0 s s' hr a hs hc d
  unfold Licensed at *
  rcases h with h | ⟨h, h'⟩ | ⟨h, h'⟩ <;> simp_all

theorem deps_licensed_from (c : Cfg) (hn : NoRep c) (hf : c.tdFaults = false) {s0 : State} (h0 : Start s0)
    (s : State) (hr : ReachFrom c s0 s)
    (hc : s.canceled = false) (i : Nat) (h : Started s i) : ∀ d ∈ (c.node i).deps, Licensed c s d := by
  induction hr with
  | init =>
    have := h0.node_cases i
    simp [Started, h0.loop, this.1, this.2.2.1, PC.active] at h
  | @step s1 s2 a hr hs ih =>
    have hc0 := (step_flags hs).1 hc
    have key : ∀ d ∈ (c.node i).deps, Licensed c s1 d := by
      rcases started_step hs i h with h1 | h1
      · exact ih hc0 h1
      · exact h1
    exact fun d hd => licensed_stable_from c hn hf h0 s1 s2 hr a hs hc d (key d hd)

theorem fin_inv_from (c : Cfg) (hn : NoRep c) (hdry : c.dry = false) (hf : c.tdFaults = false)
    {s0 : State} (h0 : Start s0) (s : State) (hr : ReachFrom c s0 s)
    (hc : s.canceled = false) (ht : s.timedOut = false) (j : Nat) (hj : s0.nd j = {}) :
    FinInv c j (s.nd j) := by
  induction hr with
  | init => simp [hj, FinInv]
  | @step s1 s2 a hr hs ih =>
    have hc0 := (step_flags hs).1 hc
    have ht0 := (step_flags hs).2 ht
    replace ih := ih hc0 ht0
    have hB := inv_none_idle_from c hn h0 _ hr j
    have hL := inv_launching_from c hn h0 _ hr j
    have hA := active_running_from c hn h0 _ hr hc0 j
    have hE := ex_inv_from c hn hdry h0 _ hr j hj
    have hR := retry_le_limit_from c _ hr j hj
    have hN := ranLast_ran_from c hn hdry h0 _ hr j hj
    cases a with
    | visitDecide i =>
      rcases step_visitDecide hs with ⟨hsc, -, rfl | ⟨hst, l, hl, hnl, rfl⟩ | ⟨hst, -, -, -, rfl⟩⟩
      · exact ih
      · have hns : ¬ Started s1 i := fun h => hnl (deps_licensed_from c hn hf h0 s1 hr hc0 i h)
        simp [FinInv, ExInv, Started] at *
        clear hs hnl
        split
        · next hji =>
          subst hji
          simp only [hst] at *
          rcases hl with rfl | rfl <;> simp_all
        · exact ih
      · exact ih
    | _ =>
      step_cases hs
      all_goals first | exact ih |
        (simp only [setNode_nd, afterExec_nd, updN_apply]
         split
         · next hji =>
           subst hji
           simp [FinInv, ExInv, aePc_eq_noRep hn] at * <;> (try simp_all) <;> (try omega)
         · exact ih)

/-- final accounting of a step that starts the run from scratch, in every state of an unstopped,
    un-timed-out run (fresh or retry) -/
theorem final_counts_from (c : Cfg) (hn : NoRep c) (hdry : c.dry = false) (hf : c.tdFaults = false)
    {s0 : State} (h0 : Start s0) (s : State) (hr : ReachFrom c s0 s)
    (hc : s.canceled = false) (ht : s.timedOut = false) (i : Nat) (hi : s0.nd i = {}) :
    ((s.nd i).status = .success → (s.nd i).execs = (s.nd i).retry + 1) ∧
    ((s.nd i).status = .error →
        ((s.nd i).setupFailed = true ∧ (s.nd i).execs = (s.nd i).retry) ∨
        ((s.nd i).execs = (c.node i).limit + 1 ∧ (s.nd i).retry = (c.node i).limit)) ∧
    ((s.nd i).status = .cancel → (s.nd i).execs = 0) ∧
    ((s.nd i).status = .skipped →
        (s.nd i).execs = (s.nd i).retry ∧ ((s.nd i).preSkip = false → (s.nd i).execs = 0)) := by
  have hE := execs_eq_from c hn hdry h0 s hr i hi
  obtain ⟨-, h2, -, h4, -, h6, h7⟩ := fin_inv_from c hn hdry hf h0 s hr hc ht i hi
  refine ⟨fun h => ?_, fun h => ?_, h6, fun h => ?_⟩
  · simpa [h2 h] using hE
  · rcases h4 h with ⟨h1, h3⟩ | ⟨h1, h3⟩
    · exact Or.inl ⟨h1, by simpa [h3] using hE⟩
    · exact Or.inr ⟨by simp [h1] at hE; omega, h3⟩
  · obtain ⟨h1, h3⟩ := h7 h
    exact ⟨by simpa [h1] using hE, h3⟩

end BdModel.Sched

#print axioms BdModel.Sched.final_counts_from
#print axioms BdModel.Sched.execs_eq_from
#print axioms BdModel.Sched.retry_le_limit_from
