import BdModel.Proofs.Sched.OutcomeInv
/- invariants about executed / finished / stopped steps (follow-up of the `executed` fix), used by Outcome.lean -/
namespace BdModel.Sched

variable {c : Cfg} {s s' : State} {a : Act}

/-- (K) non-dry: a worker executing a command has an executor -/
def InvK (s : State) : Prop := ∀ j, (s.nd j).pc = .exec → (s.nd j).cmd = true
/-- (S) non-dry: `ran` and the label `success` both imply that a command has been started -/
def InvS (s : State) : Prop :=
  ∀ j, ((s.nd j).ran = true → (s.nd j).execs ≥ 1) ∧ ((s.nd j).status = .success → (s.nd j).execs ≥ 1)
/-- (D) a node whose worker is gone or past `tail` is not `running` -/
def InvD (s : State) : Prop :=
  ∀ j, ((s.nd j).pc = .idle ∨ (s.nd j).pc = .gone ∨ (s.nd j).pc = .deferred ∨ (s.nd j).pc = .td) →
    (s.nd j).status ≠ .running

theorem invK_step (hd : c.dry = false) (hs : step c s a = some s') (ih : InvK s) : InvK s' := by
  simp only [InvK] at *
  intro j
  step_cases a hs <;> (try simp only [afterPC] at *) <;> step_close

theorem invK (hd : c.dry = false) (hr : Reach c s) : InvK s := by
  induction hr with
  | init => intro j; simp [init]
  | step a hr hs ih => exact invK_step hd hs ih

theorem invS_step (hd : c.dry = false) (hs : step c s a = some s') (ih : InvS s) : InvS s' := by
  simp only [InvS] at *
  intro j
  have hr := isReady_label_ob c s
  step_cases a hs <;> step_close

theorem invS (hd : c.dry = false) (hr : Reach c s) : InvS s := by
  induction hr with
  | init => intro j; simp [init]
  | step a hr hs ih => exact invS_step hd hs ih

theorem invD_step (hn : NoRep c) (hs : step c s a = some s') (ih : InvD s) : InvD s' := by
  simp only [InvD] at *
  intro j
  have hr := isReady_label_ob c s
  step_cases a hs <;> (try simp only [afterPC_norep (hn _)] at *) <;> step_close

theorem invD (hn : NoRep c) (hr : Reach c s) : InvD s := by
  induction hr with
  | init => intro j; simp [init]
  | step a hr hs ih => exact invD_step hn hs ih

end BdModel.Sched
