import BdModel.Sched.Defs
import BdModel.Proofs.Sched.OrderInv3
/- helper lemmas + main proofs for C01 and C02 -/
namespace BdModel.Sched

/-- once a dependency is licensed and settled it stays so and never executes again -/
theorem done_stable (c : Cfg) (hn : NoRep c) (hf : c.tdFaults = false)
    (s s' : State) (hr : Reach c s) (a : Act) (hs : step c s a = some s') (d : Nat)
    (h : Licensed c s d ∧ Settled s d) :
    Licensed c s' d ∧ Settled s' d ∧ (s'.nd d).execs = (s.nd d).execs := by
  have hae := aePc_norep c hn
  have hL := inv_launching c hn _ hr
  simp only [Licensed, Settled, PC.active_false_iff] at h ⊢
  explode_step a hs <;> grind

/-- (L) a licensed node has no active worker -/
theorem licensed_settled (c : Cfg) (hn : NoRep c) (s : State) (hr : Reach c s) (d : Nat)
    (h : Licensed c s d) : Settled s d := by
  have := inv_node c hn s hr d
  simp only [Licensed, Settled, PC.active_false_iff, NodeOK] at *
  grind

/-- the readiness gate has been passed for `i` at some time -/
def Trig (s : State) (i : Nat) : Prop :=
  s.loop = .launching i ∨ 0 < (s.nd i).launches ∨ (s.nd i).preSkip = true

theorem trig_step (c : Cfg) (s s' : State) (a : Act)
    (hs : step c s a = some s') (i : Nat) (ht : Trig s' i) :
    Trig s i ∨ ((isReady c s i).1 = true ∧ s'.nd = s.nd) := by
  have hR := isReady_true c
  simp only [Trig] at ht ⊢
  explode_step a hs <;> grind

/-- (K) once the gate has been passed for `i`, all dependencies are licensed and settled, forever -/
theorem inv_deps (c : Cfg) (hn : NoRep c) (hf : c.tdFaults = false) (s : State) (hr : Reach c s) :
    ∀ i, Trig s i → ∀ d ∈ (c.node i).deps, Licensed c s d ∧ Settled s d := by
  induction hr with
  | init => intro i h; simp [Trig, init] at h
  | @step s s' a hr hs ih =>
    intro i ht d hd
    rcases trig_step c s s' a hs i ht with h | ⟨h1, h2⟩
    · have := done_stable c hn hf s s' hr a hs d (ih i h d hd)
      exact ⟨this.1, this.2.1⟩
    · have hl := (isReady_true c s i h1).2 d hd
      have hse := licensed_settled c hn s hr d hl
      simp only [Licensed, Settled, h2] at *
      exact ⟨hl, hse⟩

/-- readiness gate: whenever a worker of `i` exists that has not finished its executions,
    or the loop has decided to launch `i`, every dependency is licensed and settled -/
theorem deps_done (c : Cfg) (hw : WF c) (hn : NoRep c) (hf : c.tdFaults = false)
    (s : State) (hr : Reach c s) (i : Nat) (hi : i < c.n)
    (hp : (s.nd i).pc.active = true ∨ s.loop = .launching i) :
    ∀ d ∈ (c.node i).deps, Licensed c s d ∧ Settled s d := by
  have _ := hw; have _ := hi
  apply inv_deps c hn hf s hr i
  rcases hp with hp | hp
  · have := (inv_node c hn s hr i).2.2.2.2.1
    simp only [PC.active_true_iff] at hp
    right; left; apply this; grind
  · exact Or.inl hp

theorem isFinished_iff (c : Cfg) (s : State) :
    isFinished c s = true ↔ ∀ j, j < c.n → (s.nd j).status ≠ .running ∧ (s.nd j).status ≠ .none := by
  simp [isFinished]

def LoopPC.done : LoopPC → Bool
  | .waiting | .handlers _ | .returned => true
  | _ => false

theorem loopDone_iff (s : State) : LoopDone s ↔ s.loop.done = true := by
  cases h : s.loop <;> simp [LoopDone, LoopPC.done, h]

theorem inv_final (c : Cfg) (hn : NoRep c) (s : State) (hr : Reach c s) :
    s.canceled = false → LoopDone s → ∀ i, i < c.n → (s.nd i).status ≠ .none ∧ (s.nd i).status ≠ .running := by
  induction hr with
  | init => simp [loopDone_iff, LoopPC.done, init]
  | @step s s' a hr hs ih =>
    intro hc hl i hi
    have hae := aePc_norep c hn
    have hL := inv_launching c hn _ hr
    have hB := fun j => (inv_live c hn _ hr j).1
    have hF := (isFinished_iff c s).1
    simp only [loopDone_iff] at ih hl
    explode_step a hs <;> grind [LoopPC.done]

/-- a run that ended without stop: every node is terminal -/
theorem final_terminal (c : Cfg) (hn : NoRep c)
    (s : State) (hr : Reach c s) (hc : s.canceled = false) (hl : LoopDone s)
    (i : Nat) (hi : i < c.n) : Terminal (s.nd i).status := by
  have := inv_final c hn s hr hc hl i hi
  revert this
  cases (s.nd i).status <;> simp [Terminal]

/-- error / skipped statuses are final; so is `cancel` as long as the run is neither stopped nor timed out -/
theorem stable_step (c : Cfg) (hn : NoRep c) (s s' : State) (hr : Reach c s) (a : Act)
    (hs : step c s a = some s') (d : Nat) :
    ((s.nd d).status = .error → (s'.nd d).status = .error) ∧
    ((s.nd d).status = .skipped → (s'.nd d).status = .skipped) ∧
    (s'.canceled = false → s'.timedOut = false → (s.nd d).status = .cancel → (s'.nd d).status = .cancel) := by
  have hae := aePc_norep c hn
  have hL := inv_launching c hn _ hr
  have hK := inv_node c hn _ hr d
  have hV := inv_live c hn _ hr d
  simp only [NodeOK, NodeLive] at hK hV
  explode_step a hs <;> grind

/-- how a node can get (or keep) a label in one step -/
theorem label_step (c : Cfg) (hn : NoRep c) (s s' : State) (hr : Reach c s) (a : Act)
    (hs : step c s a = some s') (i : Nat) :
    ((s'.nd i).status ≠ .running → (s'.nd i).launches = (s.nd i).launches) ∧
    ((s.nd i).preSkip = true → (s'.nd i).preSkip = true) ∧
    (s'.canceled = false → s'.timedOut = false → (s'.nd i).status = .cancel →
      (s.nd i).status = .cancel ∨ ((s.nd i).status = .none ∧ (isReady c s i).2 = some .cancel)) ∧
    ((s'.nd i).status = .skipped →
      (s.nd i).status = .skipped ∨ ((s.nd i).status = .none ∧ (isReady c s i).2 = some .skipped) ∨
      (s'.nd i).preSkip = true) := by
  have hae := aePc_norep c hn
  have hK := inv_node c hn _ hr i
  have hE := inv_ran c hn _ hr i
  simp only [NodeOK, NodeRan] at hK hE
  explode_step a hs <;> grind

theorem isReady_none_of_licensed (c : Cfg) (s : State) (i : Nat)
    (h : ∀ d ∈ (c.node i).deps, Licensed c s d) : (isReady c s i).2 = none := by
  cases hl : (isReady c s i).2 with
  | none => rfl
  | some lab =>
    obtain ⟨d, hd, hb⟩ := isReady_label c s i lab hl
    have := h d hd
    simp only [Licensed] at this
    grind

/-- labels written by the loop are justified by a blocking dependency -/
def LabelOK (c : Cfg) (s : State) (i : Nat) : Prop :=
  (s.canceled = false → s.timedOut = false → (s.nd i).status = .cancel →
     (s.nd i).launches = 0 ∧ ∃ d ∈ (c.node i).deps,
       ((s.nd d).status = .error ∧ (c.node d).contFail = false) ∨ (s.nd d).status = .cancel) ∧
  ((s.nd i).status = .skipped →
     (s.nd i).preSkip = true ∨ ((s.nd i).launches = 0 ∧ ∃ d ∈ (c.node i).deps,
       (s.nd d).status = .skipped ∧ (c.node d).contSkip = false))

theorem inv_label (c : Cfg) (hn : NoRep c) (hf : c.tdFaults = false) (s : State) (hr : Reach c s) :
    ∀ i, LabelOK c s i := by
  induction hr with
  | init => intro i; simp [LabelOK, init]
  | @step s s' a hr hs ih =>
    intro i
    have hm := step_flags_mono c s s' a hs
    have hl := label_step c hn s s' hr a hs i
    have hst := stable_step c hn s s' hr a hs
    have hd := inv_deps c hn hf s hr i
    have hno := isReady_none_of_licensed c s i
    have hlab := isReady_label c s i
    have hi := ih i
    simp only [LabelOK, Trig] at hi hd ⊢
    refine ⟨?_, ?_⟩
    · intro hc ht hcan
      obtain ⟨hc0, ht0⟩ := And.intro (hm.1 hc) (hm.2 ht)
      have hla := hl.1 (by simp [hcan])
      rcases hl.2.2.1 hc ht hcan with h | ⟨h1, h2⟩
      · obtain ⟨h0, d, hdd, hb⟩ := hi.1 hc0 ht0 h
        refine ⟨by omega, d, hdd, ?_⟩
        have := hst d
        grind
      · obtain ⟨d, hdd, hb⟩ := hlab _ h2
        refine ⟨?_, d, hdd, ?_⟩
        · have : ¬ (0 < (s.nd i).launches) := by
            intro hpos
            have := hno (fun d hd' => (hd (Or.inr (Or.inl hpos)) d hd').1)
            simp [this] at h2
          omega
        · have := hst d
          grind
    · intro hsk
      have hla := hl.1 (by simp [hsk])
      rcases hl.2.2.2 hsk with h | ⟨h1, h2⟩ | h
      · rcases hi.2 h with hp | ⟨h0, d, hdd, hb⟩
        · exact Or.inl (hl.2.1 hp)
        · refine Or.inr ⟨by omega, d, hdd, ?_⟩
          have := hst d
          grind
      · obtain ⟨d, hdd, hb⟩ := hlab _ h2
        refine Or.inr ⟨?_, d, hdd, ?_⟩
        · have : ¬ (0 < (s.nd i).launches) := by
            intro hpos
            have := hno (fun d hd' => (hd (Or.inr (Or.inl hpos)) d hd').1)
            simp [this] at h2
          omega
        · have := hst d
          grind
      · exact Or.inl h

/-- local consistency of labels (holds in every reachable state of an unstopped run) -/
theorem label_consistent (c : Cfg) (hw : WF c) (hn : NoRep c) (hf : c.tdFaults = false)
    (s : State) (hr : Reach c s) (hc : s.canceled = false) (ht : s.timedOut = false)
    (i : Nat) (hi : i < c.n) :
    ((s.nd i).status = .cancel →
        (s.nd i).execs = 0 ∧ ∃ d ∈ (c.node i).deps,
          ((s.nd d).status = .error ∧ (c.node d).contFail = false) ∨ (s.nd d).status = .cancel) ∧
    ((s.nd i).status = .skipped →
        ((s.nd i).preSkip = true ∧ (c.node i).hasPre = true ∧ ∀ d ∈ (c.node i).deps, Licensed c s d) ∨
        ((s.nd i).execs = 0 ∧
         ∃ d ∈ (c.node i).deps, (s.nd d).status = .skipped ∧ (c.node d).contSkip = false)) ∧
    (((s.nd i).status = .success ∨ (s.nd i).status = .error ∨ (s.nd i).status = .running) →
        ∀ d ∈ (c.node i).deps, Licensed c s d) := by
  have _ := hw; have _ := hi
  have hK := inv_node c hn s hr i
  have hLab := inv_label c hn hf s hr i
  have hD := inv_deps c hn hf s hr i
  simp only [NodeOK, LabelOK, Trig] at hK hLab hD
  refine ⟨?_, ?_, ?_⟩
  · intro h
    obtain ⟨h0, hex⟩ := hLab.1 hc ht h
    exact ⟨by grind, hex⟩
  · intro h
    rcases hLab.2 h with hp | ⟨h0, hex⟩
    · exact Or.inl ⟨hp, by grind, fun d hd => (hD (Or.inr (Or.inr hp)) d hd).1⟩
    · exact Or.inr ⟨by grind, hex⟩
  · intro h d hd
    have hpos : 0 < (s.nd i).launches := by grind
    exact (hD (Or.inr (Or.inl hpos)) d hd).1

end BdModel.Sched

#print axioms BdModel.Sched.done_stable
#print axioms BdModel.Sched.deps_done
#print axioms BdModel.Sched.final_terminal
#print axioms BdModel.Sched.label_consistent
