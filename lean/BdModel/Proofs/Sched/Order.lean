import BdModel.Sched.Defs
/- helper lemmas + main proofs for C01 and C02 -/
namespace BdModel.Sched

/-- once a dependency is licensed and settled it stays so and never executes again -/
theorem done_stable (c : Cfg) (hn : NoRep c) (hf : c.tdFaults = false)
    (s s' : State) (hr : Reach c s) (a : Act) (hs : step c s a = some s') (d : Nat)
    (h : Licensed c s d ∧ Settled s d) :
    Licensed c s' d ∧ Settled s' d ∧ (s'.nd d).execs = (s.nd d).execs := by
  sorry

/-- readiness gate: whenever a worker of `i` exists that has not finished its executions,
    or the loop has decided to launch `i`, every dependency is licensed and settled -/
theorem deps_done (c : Cfg) (hw : WF c) (hn : NoRep c) (hf : c.tdFaults = false)
    (s : State) (hr : Reach c s) (i : Nat) (hi : i < c.n)
    (hp : (s.nd i).pc.active = true ∨ s.loop = .launching i) :
    ∀ d ∈ (c.node i).deps, Licensed c s d ∧ Settled s d := by
  sorry

/-- a run that ended without stop: every node is terminal -/
theorem final_terminal (c : Cfg) (hn : NoRep c)
    (s : State) (hr : Reach c s) (hc : s.canceled = false) (hl : LoopDone s)
    (i : Nat) (hi : i < c.n) : Terminal (s.nd i).status := by
  sorry

/-- local consistency of labels (holds in every reachable state of an unstopped run) -/
theorem label_consistent (c : Cfg) (hw : WF c) (hn : NoRep c) (hf : c.tdFaults = false)
    (s : State) (hr : Reach c s) (hc : s.canceled = false) (ht : s.timedOut = false)
    (i : Nat) (hi : i < c.n) :
    ((s.nd i).status = .cancel →
        (s.nd i).execs = 0 ∧ ∃ d ∈ (c.node i).deps,
          ((s.nd d).status = .error ∧ (c.node d).contFail = false) ∨ (s.nd d).status = .cancel) ∧
    ((s.nd i).status = .skipped →
        ((s.nd i).preSkip = true ∧ (c.node i).hasPre = true ∧ ∀ d ∈ (c.node i).deps, Licensed c s d) ∨
        ((s.nd i).execs = 0 ∧
         ∃ d ∈ (c.node i).deps, (s.nd d).status = .skipped ∧ (c.node d).contSkip = false)) ∧
    (((s.nd i).status = .success ∨ (s.nd i).status = .error ∨ (s.nd i).status = .running) →
        ∀ d ∈ (c.node i).deps, Licensed c s d) := by
  sorry

end BdModel.Sched
