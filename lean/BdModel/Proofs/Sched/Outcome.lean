import BdModel.Sched.Defs
/- helper lemmas + main proofs for C04 and C05 -/
namespace BdModel.Sched

/-- the handler log is always a prefix of the plan computed after `wg.Wait()`; at return it is the plan -/
theorem hlog_plan (c : Cfg) (s : State) (hr : Reach c s) :
    (s.hplan = none → s.hlog = [] ∧ s.atWait = none ∧ ¬ (∃ l, s.loop = .handlers l) ∧ s.loop ≠ .returned) ∧
    (∀ p, s.hplan = some p →
        (∃ o, s.atWait = some o ∧ p = handlerPlan c o) ∧
        ((∃ rest, s.loop = .handlers rest ∧ s.hlog ++ rest = p) ∨ (s.loop = .returned ∧ s.hlog = p))) := by
  sorry

/-- no step command starts once the handlers have begun -/
theorem no_exec_after_wait (c : Cfg) (hn : NoRep c) (s : State) (hr : Reach c s)
    (hl : (∃ l, s.loop = .handlers l) ∨ s.loop = .returned) :
    totalExecs c s = s.execsAtWait ∧ ∀ i, i < c.n → (s.nd i).pc.active = false := by
  sorry

/-- a recorded error is never lost -/
theorem error_implies_lastErr (c : Cfg) (s : State) (hr : Reach c s) (i : Nat)
    (h : (s.nd i).status = .error) : s.lastErr = true := by
  sorry

/-- outcome read after `wg.Wait()` for a run that was not stopped and did not time out -/
theorem outcome_unstopped (c : Cfg) (hw : WF c) (hn : NoRep c) (hrk : Ranked c) (hdc : c.doneChan = true)
    (s : State) (hr : Reach c s) (hc : s.canceled = false) (ht : s.timedOut = false) (o : SStatus)
    (ho : s.atWait = some o) :
    (o = .success ∨ o = .error) ∧
    (o = .success ↔ ∀ i, i < c.n → (s.nd i).status = .success ∨ (s.nd i).status = .skipped) ∧
    (o = .error ↔ ∃ i, i < c.n ∧ (s.nd i).status = .error) := by
  sorry

/-- after a stop has been accepted, a command can start only in a worker that had already
    passed its cancel test (`starting`), and at most once -/
theorem no_new_start_after_cancel (c : Cfg) (s s' : State) (hc : s.canceled = true)
    (h : ReachFrom c s s') (i : Nat) :
    (s'.nd i).execs ≤ (s.nd i).execs + (if (s.nd i).pc = .starting then 1 else 0) := by
  sorry

end BdModel.Sched
