import BdModel.Sched.Defs
import BdModel.Proofs.Sched.OutcomeInv
import BdModel.Proofs.Sched.OutcomeFin
/- helper lemmas + main proofs for C04 and C05
   (frame lemmas: OutcomeBase.lean, inductive invariants: OutcomeInv.lean, OutcomeFin.lean) -/
namespace BdModel.Sched

/-- the handler log is always a prefix of the plan computed after `wg.Wait()`; at return it is the plan -/
theorem hlog_plan (c : Cfg) (s : State) (hr : Reach c s) :
    (s.hplan = none → s.hlog = [] ∧ s.atWait = none ∧ ¬ (∃ l, s.loop = .handlers l) ∧ s.loop ≠ .returned) ∧
    (∀ p, s.hplan = some p →
        (∃ o, s.atWait = some o ∧ p = handlerPlan c o) ∧
        ((∃ rest, s.loop = .handlers rest ∧ s.hlog ++ rest = p) ∨ (s.loop = .returned ∧ s.hlog = p))) := by
  induction hr with
  | init => simp [init]
  | @step s s' a hr hs ih =>
    step_cases a hs <;> cases hp : s.hplan <;> grind

-- `hn` is not needed by the proof (the statement is kept as given)
set_option linter.unusedVariables false in
/-- no step command starts once the handlers have begun -/
theorem no_exec_after_wait (c : Cfg) (hn : NoRep c) (s : State) (hr : Reach c s)
    (hl : (∃ l, s.loop = .handlers l) ∨ s.loop = .returned) :
    totalExecs c s = s.execsAtWait ∧ ∀ i, i < c.n → (s.nd i).pc.active = false := by
  have hH := (inH_iff s).1 hl
  refine ⟨invX hr hH, fun i hi => ?_⟩
  rcases (invQ hr hH i hi).1 with h | h <;> simp [h, PC.active]

/-- a recorded error is never lost -/
theorem error_implies_lastErr (c : Cfg) (s : State) (hr : Reach c s) (i : Nat)
    (h : (s.nd i).status = .error) : s.lastErr = true :=
  invE1 hr i h

-- `hdc` is not needed by the proof (the statement is kept as given)
set_option linter.unusedVariables false in
/-- outcome read after `wg.Wait()` for a run that was not stopped and did not time out -/
theorem outcome_unstopped (c : Cfg) (hw : WF c) (hn : NoRep c) (hrk : Ranked c) (hdc : c.doneChan = true)
    (s : State) (hr : Reach c s) (hc : s.canceled = false) (ht : s.timedOut = false) (o : SStatus)
    (ho : s.atWait = some o) :
    (o = .success ∨ o = .error) ∧
    (o = .success ↔ ∀ i, i < c.n → (s.nd i).status = .success ∨ (s.nd i).status = .skipped) ∧
    (o = .error ↔ ∃ i, i < c.n ∧ (s.nd i).status = .error) := by
  have hO := invO hn hr o ho hc ht
  have hH : s.loop.inH = true := invA hr (by simp [ho])
  have hD : s.loop.doneO = true := by
    revert hH; cases s.loop <;> simp [LoopPC.inH, LoopPC.doneO]
  have hW := invW hn hr hc hD
  have hC := invC hn hr hc ht
  -- a `cancel` label goes back to a node in status `error` (induction on the rank)
  obtain ⟨rank, hrank⟩ := hrk
  have hcan : ∀ k j, rank j < k → j < c.n → (s.nd j).status = .cancel →
      ∃ e, e < c.n ∧ (s.nd e).status = .error := by
    intro k
    induction k with
    | zero => intro j h; omega
    | succ k ih =>
      intro j hjk hj hjc
      obtain ⟨d, hd, hb⟩ := hC j hjc
      have hdn := hw j hj d hd
      have hlt := hrank j hj d hd
      rcases hb with ⟨he, _⟩ | hdc
      · exact ⟨d, hdn, he⟩
      · exact ih d (by omega) hdn hdc
  have hLE : s.lastErr = true ↔ ∃ i, i < c.n ∧ (s.nd i).status = .error :=
    ⟨fun h => invE2 hn hr h hc ht, fun ⟨i, _, h⟩ => invE1 hr i h⟩
  have hAll : (¬ ∃ i, i < c.n ∧ (s.nd i).status = .error) ↔
      ∀ i, i < c.n → (s.nd i).status = .success ∨ (s.nd i).status = .skipped := by
    constructor
    · intro hne i hi
      have h1 := hW i hi
      have h2 : (s.nd i).status ≠ .error := fun h => hne ⟨i, hi, h⟩
      have h3 : (s.nd i).status ≠ .cancel := fun h => hne (hcan _ i (Nat.lt_succ_self _) hi h)
      revert h1 h2 h3
      cases (s.nd i).status <;> simp
    · rintro hall ⟨i, hi, he⟩
      rcases hall i hi with h | h <;> simp [he] at h
  by_cases hl : s.lastErr = true
  · have hex := hLE.1 hl
    have hoe : o = .error := by simpa [hl] using hO
    subst hoe
    refine ⟨Or.inr rfl, ⟨fun h => (by cases h), fun h => absurd hex (hAll.2 h)⟩, ⟨fun _ => hex, fun _ => rfl⟩⟩
  · have hnex : ¬ ∃ i, i < c.n ∧ (s.nd i).status = .error := fun h => hl (hLE.2 h)
    have hos : o = .success := by simpa [hl] using hO
    subst hos
    refine ⟨Or.inl rfl, ⟨fun _ => hAll.1 hnex, fun _ => rfl⟩, ⟨fun h => (by cases h), fun h => absurd h hnex⟩⟩

/-- one transition of a stopped run, for `no_new_start_after_cancel` -/
theorem cancel_step {c : Cfg} {s s' : State} {a : Act} (hs : step c s a = some s') (i e0 : Nat) (b : Prop)
    [Decidable b]
    (ih : s.canceled = true ∧ (s.nd i).execs ≤ e0 + (if b then 1 else 0) ∧
      ((s.nd i).pc = .starting → b ∧ (s.nd i).execs = e0)) :
    s'.canceled = true ∧ (s'.nd i).execs ≤ e0 + (if b then 1 else 0) ∧
      ((s'.nd i).pc = .starting → b ∧ (s'.nd i).execs = e0) := by
  step_cases a hs <;> (try simp only [afterPC] at *) <;> step_close

/-- after a stop has been accepted, a command can start only in a worker that had already
    passed its cancel test (`starting`), and at most once -/
theorem no_new_start_after_cancel (c : Cfg) (s s' : State) (hc : s.canceled = true)
    (h : ReachFrom c s s') (i : Nat) :
    (s'.nd i).execs ≤ (s.nd i).execs + (if (s.nd i).pc = .starting then 1 else 0) := by
  have key : s'.canceled = true ∧
      (s'.nd i).execs ≤ (s.nd i).execs + (if (s.nd i).pc = .starting then 1 else 0) ∧
      ((s'.nd i).pc = .starting → (s.nd i).pc = .starting ∧ (s'.nd i).execs = (s.nd i).execs) := by
    induction h with
    | init => refine ⟨hc, ?_, fun h => ⟨h, rfl⟩⟩; split <;> omega
    | step a _ hs ih => exact cancel_step hs i _ _ ih
  exact key.2.1

/-- a worker that is executing a command has an executor (non-dry) -/
theorem exec_has_cmd (c : Cfg) (hd : c.dry = false) (s : State) (hr : Reach c s) (i : Nat)
    (h : (s.nd i).pc = .exec) : (s.nd i).cmd = true :=
  invK hd hr i h

-- `hn` is not needed by the proof (the statement is kept as given)
set_option linter.unusedVariables false in
/-- a step that is reported finished has executed its command (no "finished" without execution),
    also in stopped runs -/
theorem success_executed (c : Cfg) (hn : NoRep c) (hd : c.dry = false) (s : State) (hr : Reach c s) (i : Nat)
    (h : (s.nd i).status = .success) : (s.nd i).execs ≥ 1 :=
  (invS hd hr i).2 h

/-- after a stop no step is left in state running once its worker is gone: every worker that is gone
    or only has its deferred part left has a non-running status -/
theorem no_running_when_gone (c : Cfg) (hn : NoRep c) (s : State) (hr : Reach c s) (i : Nat)
    (hp : (s.nd i).pc = .idle ∨ (s.nd i).pc = .gone ∨ (s.nd i).pc = .deferred ∨ (s.nd i).pc = .td) :
    (s.nd i).status ≠ .running :=
  invD hn hr i hp

end BdModel.Sched

#print axioms BdModel.Sched.hlog_plan
#print axioms BdModel.Sched.no_exec_after_wait
#print axioms BdModel.Sched.error_implies_lastErr
#print axioms BdModel.Sched.outcome_unstopped
#print axioms BdModel.Sched.no_new_start_after_cancel
#print axioms BdModel.Sched.exec_has_cmd
#print axioms BdModel.Sched.success_executed
#print axioms BdModel.Sched.no_running_when_gone
