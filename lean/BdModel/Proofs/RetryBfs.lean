import BdModel.Sched.Retry
import BdModel.Proofs.Kahn
/- helper lemmas for C10 (retry closure): specification of the level-by-level walk -/
namespace BdModel.Retry
open BdModel.Cycle BdModel.Sched Relation

/-! ### `propagate` / `processNode` in closed form -/

theorem propagate_snd (u : Nat) : ∀ (vs : List Nat) (m : Marks) (next : List Nat),
    (propagate u vs (m, next)).2 = next ++ vs
  | [], m, next => by simp [propagate]
  | v :: vs, m, next => by
    simp only [propagate]
    rw [propagate_snd u vs]
    simp

theorem propagate_cleared (u : Nat) : ∀ (vs : List Nat) (m : Marks) (next : List Nat),
    (propagate u vs (m, next)).1.cleared = m.cleared
  | [], m, next => rfl
  | v :: vs, m, next => by
    simp only [propagate]
    rw [propagate_cleared u vs]
    split <;> rfl

theorem propagate_retry (u : Nat) : ∀ (vs : List Nat) (m : Marks) (next : List Nat) (j : Nat),
    (propagate u vs (m, next)).1.retry j = true ↔
      (m.retry j = true ∨ (m.retry u = true ∧ j ∈ vs))
  | [], m, next, j => by simp [propagate]
  | v :: vs, m, next, j => by
    simp only [propagate]
    rw [propagate_retry u vs]
    by_cases hu : m.retry u = true
    · rw [if_pos hu]
      by_cases hjv : j = v
      · by_cases huv : u = v
        · subst huv; simp [hu, updB, hjv]
        · simp [hu, updB, hjv, huv]
      · by_cases huv : u = v
        · subst huv; simp [hu, updB, hjv]
        · simp [hu, updB, hjv, huv]
    · simp [hu]

variable {es : List (Nat × Nat)} {st : Nat → NStatus} {R : NStatus → Bool}

theorem processNode_snd (p : Marks × List Nat) (u : Nat) :
    (processNode es st R p u).2 = p.2 ++ succs es u := by
  obtain ⟨m, next⟩ := p
  simp only [processNode]
  rw [propagate_snd]

theorem processNode_cleared (p : Marks × List Nat) (u j : Nat) :
    (processNode es st R p u).1.cleared j = true ↔
      (p.1.cleared j = true ∨ ((p.1.retry u = true ∨ R (st u) = true) ∧ j = u)) := by
  obtain ⟨m, next⟩ := p
  simp only [processNode]
  rw [propagate_cleared]
  by_cases hb : (m.retry u || R (st u)) = true
  · have hb' := hb
    simp only [Bool.or_eq_true] at hb'
    by_cases hj : j = u <;> simp [hb, hb', updB, hj]
  · have hb' := hb
    simp only [Bool.or_eq_true] at hb'
    simp [hb, hb']

theorem processNode_retry (p : Marks × List Nat) (u j : Nat) :
    (processNode es st R p u).1.retry j = true ↔
      (p.1.retry j = true ∨ ((p.1.retry u = true ∨ R (st u) = true) ∧ (j = u ∨ j ∈ succs es u))) := by
  obtain ⟨m, next⟩ := p
  simp only [processNode]
  rw [propagate_retry]
  by_cases hb : (m.retry u || R (st u)) = true
  · have hb' := hb
    simp only [Bool.or_eq_true] at hb'
    by_cases hj : j = u <;> simp [hb, hb', updB, hj]
  · have hb' := hb
    simp only [Bool.or_eq_true, not_or] at hb'
    simp [hb'.1, hb'.2]

/-! ### one level = a fold of `processNode` -/

/-- fold of `processNode` over a frontier -/
abbrev fold (es : List (Nat × Nat)) (st : Nat → NStatus) (R : NStatus → Bool)
    (fr : List Nat) (p : Marks × List Nat) : Marks × List Nat :=
  fr.foldl (processNode es st R) p

theorem fold_snd : ∀ (fr : List Nat) (p : Marks × List Nat),
    (fold es st R fr p).2 = p.2 ++ fr.flatMap (succs es)
  | [], p => by simp [fold]
  | u :: fr, p => by
    simp only [fold, List.foldl_cons]
    have := fold_snd fr (processNode es st R p u)
    simp only [fold] at this
    rw [this, processNode_snd]
    simp

theorem fold_retry_mono : ∀ (fr : List Nat) (p : Marks × List Nat) (j : Nat),
    p.1.retry j = true → (fold es st R fr p).1.retry j = true
  | [], p, j, h => h
  | u :: fr, p, j, h => by
    simp only [fold, List.foldl_cons]
    exact fold_retry_mono fr _ j ((processNode_retry p u j).2 (Or.inl h))

theorem fold_cleared_mono : ∀ (fr : List Nat) (p : Marks × List Nat) (j : Nat),
    p.1.cleared j = true → (fold es st R fr p).1.cleared j = true
  | [], p, j, h => h
  | u :: fr, p, j, h => by
    simp only [fold, List.foldl_cons]
    exact fold_cleared_mono fr _ j ((processNode_cleared p u j).2 (Or.inl h))

/-- every mark has a cause: a step of the reset set upstream -/
def Sound (n : Nat) (es : List (Nat × Nat)) (st : Nat → NStatus) (R : NStatus → Bool) (m : Marks) : Prop :=
  ∀ v, m.retry v = true → ∃ u, u < n ∧ R (st u) = true ∧ ReflTransGen (Rel es) u v

theorem fold_sound {n : Nat} : ∀ (fr : List Nat) (p : Marks × List Nat), (∀ u ∈ fr, u < n) →
    Sound n es st R p.1 → Sound n es st R (fold es st R fr p).1
  | [], p, _, h => h
  | u :: fr, p, hfr, h => by
    simp only [fold, List.foldl_cons]
    refine fold_sound fr _ (fun w hw => hfr w (List.mem_cons_of_mem _ hw)) ?_
    intro v hv
    rcases (processNode_retry p u v).1 hv with hv | ⟨hb, hj⟩
    · exact h v hv
    · have hun : u < n := hfr u (by simp)
      have hu : ∃ x, x < n ∧ R (st x) = true ∧ ReflTransGen (Rel es) x u := by
        rcases hb with hb | hb
        · exact h u hb
        · exact ⟨u, hun, hb, ReflTransGen.refl⟩
      obtain ⟨x, hxn, hx, hxu⟩ := hu
      rcases hj with rfl | hj
      · exact ⟨x, hxn, hx, hxu⟩
      · exact ⟨x, hxn, hx, hxu.tail (mem_succs.1 hj)⟩

theorem fold_cleared_sub : ∀ (fr : List Nat) (p : Marks × List Nat),
    (∀ v, p.1.cleared v = true → p.1.retry v = true) →
    ∀ v, (fold es st R fr p).1.cleared v = true → (fold es st R fr p).1.retry v = true
  | [], p, h => h
  | u :: fr, p, h => by
    simp only [fold, List.foldl_cons]
    refine fold_cleared_sub fr _ ?_
    intro v hv
    rw [processNode_retry]
    rcases (processNode_cleared p u v).1 hv with hv | ⟨hb, hj⟩
    · exact Or.inl (h v hv)
    · exact Or.inr ⟨hb, Or.inl hj⟩

/-- a step met with its mark set (or in the reset set) is marked, cleared, and marks its successors -/
theorem fold_hot : ∀ (fr : List Nat) (p : Marks × List Nat) (v : Nat), v ∈ fr →
    (p.1.retry v = true ∨ R (st v) = true) →
    (fold es st R fr p).1.retry v = true ∧ (fold es st R fr p).1.cleared v = true ∧
      ∀ w ∈ succs es v, (fold es st R fr p).1.retry w = true
  | u :: fr, p, v, hv, hb => by
    simp only [fold, List.foldl_cons]
    by_cases huv : v = u
    · subst huv
      refine ⟨fold_retry_mono fr _ v ?_, fold_cleared_mono fr _ v ?_, fun w hw => fold_retry_mono fr _ w ?_⟩
      · exact (processNode_retry p v v).2 (Or.inr ⟨hb, Or.inl rfl⟩)
      · exact (processNode_cleared p v v).2 (Or.inr ⟨hb, rfl⟩)
      · exact (processNode_retry p v w).2 (Or.inr ⟨hb, Or.inr hw⟩)
    · have hv' : v ∈ fr := by
        rcases List.mem_cons.1 hv with h | h
        · exact absurd h huv
        · exact h
      refine fold_hot fr _ v hv' ?_
      rcases hb with hb | hb
      · exact Or.inl ((processNode_retry p u v).2 (Or.inl hb))
      · exact Or.inr hb

/-- a marked step is cleared already or still waits in the rest of this frontier / the next one -/
theorem fold_pending : ∀ (fr : List Nat) (p : Marks × List Nat),
    (∀ v, p.1.retry v = true → p.1.cleared v = true ∨ v ∈ fr ∨ v ∈ p.2) →
    ∀ v, (fold es st R fr p).1.retry v = true →
      (fold es st R fr p).1.cleared v = true ∨ v ∈ (fold es st R fr p).2
  | [], p, h => by
    intro v hv
    rcases h v hv with h | h | h
    · exact Or.inl h
    · simp at h
    · exact Or.inr h
  | u :: fr, p, h => by
    simp only [fold, List.foldl_cons]
    refine fold_pending fr _ ?_
    intro v hv
    rw [processNode_cleared, processNode_snd]
    rcases (processNode_retry p u v).1 hv with hv0 | ⟨hb, hj⟩
    · rcases h v hv0 with h1 | h1 | h1
      · exact Or.inl (Or.inl h1)
      · rcases List.mem_cons.1 h1 with h2 | h2
        · subst h2
          exact Or.inl (Or.inr ⟨Or.inl hv0, rfl⟩)
        · exact Or.inr (Or.inl h2)
      · exact Or.inr (Or.inr (List.mem_append_left _ h1))
    · rcases hj with hj | hj
      · exact Or.inl (Or.inr ⟨hb, hj⟩)
      · exact Or.inr (Or.inr (List.mem_append_right _ hj))

/-! ### the sequence of levels -/

/-- marks and frontier after `k` levels -/
def lv (n : Nat) (es : List (Nat × Nat)) (st : Nat → NStatus) (R : NStatus → Bool) : Nat → Marks × List Nat
  | 0 => ({}, sources n es)
  | k + 1 => level es st R (lv n es st R k).1 (lv n es st R k).2

theorem lv_succ (n k : Nat) :
    lv n es st R (k + 1) = fold es st R (lv n es st R k).2 ((lv n es st R k).1, []) := rfl

theorem loop_nil (fuel : Nat) (m : Marks) : loop es st R fuel m [] = (m, []) := by
  cases fuel <;> simp [loop]

theorem lv_stable (n k : Nat) (h : (lv n es st R k).2 = []) : ∀ j, lv n es st R (k + j) = lv n es st R k
  | 0 => rfl
  | j + 1 => by
    have ih := lv_stable n k h j
    rw [← Nat.add_assoc, lv_succ, ih, h]
    simp only [fold, List.foldl_nil]
    rw [← h]

theorem loop_eq_lv (n : Nat) : ∀ (fuel k : Nat),
    loop es st R fuel (lv n es st R k).1 (lv n es st R k).2 = lv n es st R (k + fuel)
  | 0, k => rfl
  | fuel + 1, k => by
    cases h : (lv n es st R k).2 with
    | nil =>
      rw [loop_nil, lv_stable n k h, ← h]
    | cons a fr =>
      have h1 : loop es st R (fuel + 1) (lv n es st R k).1 (a :: fr) =
          loop es st R fuel (level es st R (lv n es st R k).1 (a :: fr)).1
            (level es st R (lv n es st R k).1 (a :: fr)).2 := by
        simp [loop]
      rw [h1, ← h]
      have := loop_eq_lv n fuel (k + 1)
      rw [show k + (fuel + 1) = k + 1 + fuel by omega, ← this]
      rfl

theorem setupRetry_eq_lv (n : Nat) : setupRetry n es st R = lv n es st R (n + 1) := by
  have := loop_eq_lv (es := es) (st := st) (R := R) n (n + 1) 0
  simpa [setupRetry, lv] using this

theorem lv_frontier_succ (n k : Nat) :
    (lv n es st R (k + 1)).2 = (lv n es st R k).2.flatMap (succs es) := by
  rw [lv_succ, fold_snd]
  simp

theorem lv_mem_step (n k : Nat) {w v : Nat} (hw : w ∈ (lv n es st R k).2) (hwv : (w, v) ∈ es) :
    v ∈ (lv n es st R (k + 1)).2 := by
  rw [lv_frontier_succ, List.mem_flatMap]
  exact ⟨w, hw, mem_succs.2 hwv⟩

/-- a member of the `k`-th frontier ends a path of `k` edges -/
theorem lv_path (n : Nat) (hE : ∀ e ∈ es, e.1 < n ∧ e.2 < n) : ∀ (k w : Nat), w ∈ (lv n es st R k).2 →
    ∃ l : List Nat, l.length = k ∧ (w :: l).Pairwise (fun a b => TransGen (Rel es) b a) ∧
      ∀ x ∈ w :: l, x < n
  | 0, w, hw => by
    refine ⟨[], rfl, by simp, ?_⟩
    intro x hx
    simp only [List.mem_singleton] at hx
    subst hx
    simp only [lv, sources, List.mem_filter, List.mem_range] at hw
    exact hw.1
  | k + 1, w, hw => by
    rw [lv_frontier_succ, List.mem_flatMap] at hw
    obtain ⟨x, hx, hxw⟩ := hw
    have hxw := mem_succs.1 hxw
    obtain ⟨l, hl, hp, hlt⟩ := lv_path n hE k x hx
    refine ⟨x :: l, by simp [hl], ?_, ?_⟩
    · rw [List.pairwise_cons]
      refine ⟨?_, hp⟩
      intro y hy
      rcases List.mem_cons.1 hy with rfl | hy
      · exact TransGen.single hxw
      · exact TransGen.tail (List.rel_of_pairwise_cons hp hy) hxw
    · intro y hy
      rcases List.mem_cons.1 hy with rfl | hy
      · exact (hE _ hxw).2
      · exact hlt y hy

theorem lv_lt (n : Nat) (hE : ∀ e ∈ es, e.1 < n ∧ e.2 < n) (k w : Nat) (hw : w ∈ (lv n es st R k).2) :
    w < n := by
  obtain ⟨l, _, _, hlt⟩ := lv_path n hE k w hw
  exact hlt w (by simp)

/-- in an acyclic graph the `k`-th frontier is empty for `k ≥ n` -/
theorem lv_bound (n : Nat) (hE : ∀ e ∈ es, e.1 < n ∧ e.2 < n) (hA : ¬ ∃ v, TransGen (Rel es) v v)
    (k w : Nat) (hw : w ∈ (lv n es st R k).2) : k < n := by
  obtain ⟨l, hl, hp, hlt⟩ := lv_path n hE k w hw
  have hnd : (w :: l).Nodup := by
    refine List.Pairwise.imp ?_ hp
    intro a b hab heq
    subst heq
    exact hA ⟨a, hab⟩
  have hsub : w :: l ⊆ List.range n := fun x hx => List.mem_range.2 (hlt x hx)
  have := (hnd.subperm hsub).length_le
  simp only [List.length_cons, List.length_range] at this
  omega

theorem lv_nil_of_le (n : Nat) (hE : ∀ e ∈ es, e.1 < n ∧ e.2 < n) (hA : ¬ ∃ v, TransGen (Rel es) v v)
    (k : Nat) (hk : n ≤ k) : (lv n es st R k).2 = [] := by
  rw [List.eq_nil_iff_forall_not_mem]
  intro w hw
  have := lv_bound n hE hA k w hw
  omega

/-- every step lies on some frontier -/
theorem lv_cover (n : Nat) (hE : ∀ e ∈ es, e.1 < n ∧ e.2 < n) (hA : ¬ ∃ v, TransGen (Rel es) v v)
    (v : Nat) (hv : v < n) : ∃ k, v ∈ (lv n es st R k).2 := by
  apply Classical.byContradiction
  intro hno
  apply hA
  refine exists_cycle_of_pred (n := n) (fun v => v < n ∧ ¬ ∃ k, v ∈ (lv n es st R k).2)
    (fun v hv => hv.1) ?_ v ⟨hv, hno⟩
  rintro w ⟨hwn, hw⟩
  have hpos : 0 < cnt es [] w := by
    rw [cnt_nil]
    apply Nat.pos_of_ne_zero
    intro h0
    apply hw
    refine ⟨0, ?_⟩
    simp only [lv, sources, List.mem_filter, List.mem_range]
    exact ⟨hwn, by simp [h0]⟩
  obtain ⟨a, haw, _⟩ := cnt_pos hpos
  refine ⟨a, ⟨(hE _ haw).1, ?_⟩, haw⟩
  rintro ⟨k, hk⟩
  exact hw ⟨k + 1, lv_mem_step n k hk haw⟩

/-! ### marks along the levels -/

theorem lv_retry_mono (n : Nat) (v : Nat) {j : Nat} (h : (lv n es st R j).1.retry v = true) :
    ∀ d, (lv n es st R (j + d)).1.retry v = true
  | 0 => h
  | d + 1 => by
    rw [← Nat.add_assoc, lv_succ]
    exact fold_retry_mono _ _ v (lv_retry_mono n v h d)

theorem lv_sound (n : Nat) (hE : ∀ e ∈ es, e.1 < n ∧ e.2 < n) : ∀ k, Sound n es st R (lv n es st R k).1
  | 0 => by
    intro v hv
    simp [lv] at hv
  | k + 1 => by
    rw [lv_succ]
    exact fold_sound _ _ (fun u hu => lv_lt n hE k u hu) (lv_sound n hE k)

theorem lv_cleared_sub (n : Nat) : ∀ k v, (lv n es st R k).1.cleared v = true → (lv n es st R k).1.retry v = true
  | 0 => by
    intro v hv
    simp [lv] at hv
  | k + 1 => by
    rw [lv_succ]
    exact fold_cleared_sub _ _ (lv_cleared_sub n k)

theorem lv_pending (n : Nat) : ∀ k v, (lv n es st R k).1.retry v = true →
    (lv n es st R k).1.cleared v = true ∨ v ∈ (lv n es st R k).2
  | 0 => by
    intro v hv
    simp [lv] at hv
  | k + 1 => by
    rw [lv_succ]
    refine fold_pending _ _ ?_
    intro v hv
    rcases lv_pending n k v hv with h | h
    · exact Or.inl h
    · exact Or.inr (Or.inl h)

theorem lv_hot (n k v : Nat) (hv : v ∈ (lv n es st R k).2)
    (hb : (lv n es st R k).1.retry v = true ∨ R (st v) = true) :
    (lv n es st R (k + 1)).1.retry v = true ∧ (lv n es st R (k + 1)).1.cleared v = true ∧
      ∀ w ∈ succs es v, (lv n es st R (k + 1)).1.retry w = true := by
  rw [lv_succ]
  exact fold_hot _ _ v hv hb

/-- everything downstream of a hot frontier member becomes a hot frontier member -/
theorem lv_chain (n : Nat) {u v : Nat} (h : ReflTransGen (Rel es) u v) {k : Nat}
    (hu : u ∈ (lv n es st R k).2) (hb : (lv n es st R k).1.retry u = true ∨ R (st u) = true) :
    ∃ j, v ∈ (lv n es st R j).2 ∧ ((lv n es st R j).1.retry v = true ∨ R (st v) = true) := by
  induction h with
  | refl => exact ⟨k, hu, hb⟩
  | tail _ hbc ih =>
    obtain ⟨j, hj, hjb⟩ := ih
    exact ⟨j + 1, lv_mem_step n j hj hbc, Or.inl ((lv_hot n j _ hj hjb).2.2 _ (mem_succs.2 hbc))⟩

end BdModel.Retry
