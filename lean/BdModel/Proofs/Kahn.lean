import BdModel.Sched.Cycle
import Mathlib.Logic.Relation
import Mathlib.Data.Fintype.Card
/-
  Helper lemmas for C14 (Kahn's algorithm). May import single Mathlib modules.
-/
namespace BdModel.Cycle

/-- edge relation of an edge list -/
def Rel (es : List (Nat × Nat)) (a b : Nat) : Prop := (a, b) ∈ es

open Relation

/-! ### the loop invariant -/

/-- number of edges into `v` whose source is not in `P` (with multiplicity) -/
def cnt (es : List (Nat × Nat)) (P : List Nat) (v : Nat) : Nat :=
  es.countP (fun e => decide (e.2 = v ∧ e.1 ∉ P))

theorem cnt_nil (es : List (Nat × Nat)) (v : Nat) : cnt es [] v = indeg es v := by
  unfold cnt indeg
  congr 1
  funext e
  cases h : (e.2 == v) <;> simp_all

theorem cnt_eq_zero {es : List (Nat × Nat)} {P : List Nat} {v : Nat} :
    cnt es P v = 0 ↔ ∀ a, (a, v) ∈ es → a ∈ P := by
  unfold cnt
  rw [List.countP_eq_zero]
  constructor
  · intro h a ha
    have := h (a, v) ha
    simpa using this
  · rintro h ⟨a, b⟩ hab
    simp only [decide_eq_true_eq, not_and, Decidable.not_not]
    rintro rfl
    exact h a hab

theorem cnt_pos {es : List (Nat × Nat)} {P : List Nat} {v : Nat} (h : 0 < cnt es P v) :
    ∃ a, (a, v) ∈ es ∧ a ∉ P := by
  unfold cnt at h
  rw [List.countP_pos_iff] at h
  obtain ⟨⟨a, b⟩, hab, hp⟩ := h
  simp only [decide_eq_true_eq] at hp
  obtain ⟨rfl, ha⟩ := hp
  exact ⟨a, hab, ha⟩

theorem count_succs (es : List (Nat × Nat)) (f v : Nat) :
    (succs es f).count v = es.countP (fun e => decide (e.2 = v ∧ e.1 = f)) := by
  induction es with
  | nil => simp [succs]
  | cons e es ih =>
    unfold succs at ih ⊢
    rw [List.countP_cons, ← ih]
    by_cases h1 : e.1 = f
    · by_cases h2 : e.2 = v
      · simp [h1, h2]
      · simp [h1, h2]
    · simp [h1]

theorem cnt_snoc (es : List (Nat × Nat)) (P : List Nat) (f v : Nat) (hf : f ∉ P) :
    cnt es P v = cnt es (P ++ [f]) v + (succs es f).count v := by
  rw [count_succs]
  unfold cnt
  induction es with
  | nil => simp
  | cons e es ih =>
    rw [List.countP_cons, List.countP_cons, List.countP_cons, ih]
    by_cases h2 : e.2 = v
    · by_cases h1 : e.1 = f
      · simp [h1, h2, hf]; omega
      · by_cases h3 : e.1 ∈ P
        · simp [h1, h2, h3]
        · simp [h1, h2, h3]; omega
    · simp [h2]

structure RInv (n : Nat) (es : List (Nat × Nat)) (P : List Nat) (deg : Nat → Nat)
    (q ts : List Nat) : Prop where
  nodup : (P ++ q).Nodup
  lt : ∀ v ∈ P ++ q, v < n
  degEq : ∀ v, deg v = cnt es P v + ts.count v
  zero : ∀ v, v < n → v ∉ P → (deg v = 0 ↔ v ∈ q)
  acyc : ∀ v ∈ P, ¬ TransGen (Rel es) v v
  closed : ∀ a b, (a, b) ∈ es → b ∈ P → a ∈ P
  tsOK : ∀ t ∈ ts, t < n ∧ t ∉ P

theorem RInv.init (n : Nat) (es : List (Nat × Nat)) :
    RInv n es [] (indeg es) (seed n es) [] where
  nodup := by
    simpa [seed] using List.Nodup.filter _ List.nodup_range
  lt := by
    intro v hv
    simp [seed] at hv
    exact hv.1
  degEq := by intro v; simp [cnt_nil]
  zero := by
    intro v hv _
    simp [seed, hv]
  acyc := by simp
  closed := by simp
  tsOK := by simp

theorem RInv.relax {n : Nat} {es : List (Nat × Nat)} {P : List Nat} :
    ∀ (ts : List Nat) (deg : Nat → Nat) (q : List Nat), RInv n es P deg q ts →
      RInv n es P (relax deg q ts).1 (relax deg q ts).2 []
  | [], deg, q, h => by simpa [Cycle.relax] using h
  | t :: ts, deg, q, h => by
    unfold Cycle.relax
    apply RInv.relax ts
    have htn : t < n := (h.tsOK t (by simp)).1
    have htP : t ∉ P := (h.tsOK t (by simp)).2
    have hdt : deg t = cnt es P t + ts.count t + 1 := by
      rw [h.degEq t]; simp; omega
    have htq : t ∉ q := by
      intro hq
      have := (h.zero t htn htP).2 hq
      omega
    have hupd_t : upd deg t (deg t - 1) t = cnt es P t + ts.count t := by
      simp [upd]; omega
    have hupd_ne : ∀ v, v ≠ t → upd deg t (deg t - 1) v = deg v := by
      intro v hv; simp [upd, hv]
    constructor
    · -- nodup
      split
      · rw [← List.append_assoc]
        rw [List.nodup_append]
        refine ⟨h.nodup, by simp, ?_⟩
        intro a ha b hb
        simp at hb
        subst hb
        rintro rfl
        rcases List.mem_append.1 ha with ha | ha
        · exact htP ha
        · exact htq ha
      · exact h.nodup
    · -- lt
      intro v hv
      split at hv
      · rw [← List.append_assoc] at hv
        rcases List.mem_append.1 hv with hv | hv
        · exact h.lt v hv
        · simp at hv; subst hv; exact htn
      · exact h.lt v hv
    · -- degEq
      intro v
      by_cases hv : v = t
      · subst hv; exact hupd_t
      · rw [hupd_ne v hv, h.degEq v, List.count_cons]
        have : (t == v) = false := by simp; exact fun h => hv h.symm
        simp [this]
    · -- zero
      intro v hvn hvP
      by_cases hv : v = t
      · subst hv
        split
        · next h0 => simp [h0]
        · next h0 => simp [h0, htq]
      · rw [hupd_ne v hv, h.zero v hvn hvP]
        split
        · simp [hv]
        · rfl
    · exact h.acyc
    · exact h.closed
    · intro t' ht'
      exact h.tsOK t' (List.mem_cons_of_mem _ ht')

theorem mem_succs {es : List (Nat × Nat)} {f t : Nat} : t ∈ succs es f ↔ (f, t) ∈ es := by
  unfold succs
  simp only [List.mem_map, List.mem_filter, beq_iff_eq]
  constructor
  · rintro ⟨⟨a, b⟩, ⟨hab, rfl⟩, rfl⟩
    exact hab
  · intro h
    exact ⟨(f, t), ⟨h, rfl⟩, rfl⟩

theorem RInv.pop {n : Nat} {es : List (Nat × Nat)} {P : List Nat} {deg : Nat → Nat}
    {f : Nat} {q : List Nat} (hE : ∀ e ∈ es, e.1 < n ∧ e.2 < n)
    (h : RInv n es P deg (f :: q) []) : RInv n es (P ++ [f]) deg q (succs es f) := by
  have hnd := h.nodup
  rw [List.nodup_append] at hnd
  have hfP : f ∉ P := fun hf => hnd.2.2 f hf f (by simp) rfl
  have hfn : f < n := h.lt f (by simp)
  have hdf : deg f = 0 := (h.zero f hfn hfP).2 (by simp)
  have hpred : ∀ a, (a, f) ∈ es → a ∈ P := by
    have := h.degEq f
    rw [hdf] at this
    exact cnt_eq_zero.1 (by simp at this; omega)
  constructor
  · simpa [List.append_assoc] using h.nodup
  · simpa [List.append_assoc] using h.lt
  · intro v
    rw [h.degEq v, cnt_snoc es P f v hfP]
    simp
  · intro v hvn hvP
    simp only [List.mem_append, List.mem_singleton, not_or] at hvP
    rw [h.zero v hvn hvP.1]
    simp [hvP.2]
  · intro v hv
    rcases List.mem_append.1 hv with hv | hv
    · exact h.acyc v hv
    · simp only [List.mem_singleton] at hv
      subst hv
      intro hc
      obtain ⟨a, hva, hav⟩ := TransGen.tail'_iff.1 hc
      exact h.acyc a (hpred a hav) (TransGen.head' hav hva)
  · intro a b hab hb
    rcases List.mem_append.1 hb with hb | hb
    · exact List.mem_append_left _ (h.closed a b hab hb)
    · simp only [List.mem_singleton] at hb
      subst hb
      exact List.mem_append_left _ (hpred a hab)
  · intro t ht
    have hft := mem_succs.1 ht
    refine ⟨(hE _ hft).2, ?_⟩
    intro htP
    rcases List.mem_append.1 htP with htP | htP
    · exact hfP (h.closed f t hft htP)
    · simp only [List.mem_singleton] at htP
      subst htP
      exact hfP (hpred t hft)

theorem RInv.length_le {n : Nat} {es : List (Nat × Nat)} {P : List Nat} {deg : Nat → Nat}
    {q ts : List Nat} (h : RInv n es P deg q ts) : P.length + q.length ≤ n := by
  have hsub : P ++ q ⊆ List.range n := by
    intro v hv
    exact List.mem_range.2 (h.lt v hv)
  have := (h.nodup.subperm hsub).length_le
  simpa using this

theorem RInv.kahn {n : Nat} {es : List (Nat × Nat)} (hE : ∀ e ∈ es, e.1 < n ∧ e.2 < n) :
    ∀ (fuel : Nat) (P : List Nat) (deg : Nat → Nat) (q : List Nat), RInv n es P deg q [] →
      n + 1 ≤ fuel + P.length →
      ∃ P', RInv n es P' (kahn es fuel deg q).1 [] [] ∧ (kahn es fuel deg q).2 = []
  | 0, P, deg, q, h, hl => by
    have := h.length_le
    omega
  | fuel + 1, P, deg, [], h, _ => by
    exact ⟨P, by simpa [Cycle.kahn] using h, by simp [Cycle.kahn]⟩
  | fuel + 1, P, deg, f :: q, h, hl => by
    unfold Cycle.kahn
    have h' := (h.pop hE).relax
    exact RInv.kahn hE fuel (P ++ [f]) _ _ h' (by simp; omega)

/-- final state: some `P` with the empty-queue invariant -/
theorem kahn_final {n : Nat} {es : List (Nat × Nat)} (hE : ∀ e ∈ es, e.1 < n ∧ e.2 < n) :
    ∃ P, RInv n es P (kahn es (n + 1) (indeg es) (seed n es)).1 [] [] ∧
      (kahn es (n + 1) (indeg es) (seed n es)).2 = [] :=
  RInv.kahn hE (n + 1) [] _ _ (RInv.init n es) (by simp)

theorem RInv.final_pos {n : Nat} {es : List (Nat × Nat)} {P : List Nat} {deg : Nat → Nat}
    (h : RInv n es P deg [] []) (v : Nat) (hv : v < n) : 0 < deg v ↔ v ∉ P := by
  constructor
  · intro hpos hvP
    have := h.degEq v
    have h0 : cnt es P v = 0 := cnt_eq_zero.2 (fun a ha => h.closed a v ha hvP)
    simp at this
    omega
  · intro hvP
    have := h.zero v hv hvP
    simp at this
    omega

/-- the fuel `n + 1` always suffices -/
theorem queueDrained_true (n : Nat) (es : List (Nat × Nat))
    (h : ∀ e ∈ es, e.1 < n ∧ e.2 < n) : queueDrained n es = true := by
  obtain ⟨P, _, hq⟩ := kahn_final h
  simp [queueDrained, hq]

/-- in a finite set of nodes where every node has a predecessor in the set, there is a cycle -/
theorem exists_cycle_of_pred {n : Nat} {es : List (Nat × Nat)} (S : Nat → Prop)
    (hS : ∀ v, S v → v < n) (hpred : ∀ v, S v → ∃ a, S a ∧ Rel es a v)
    (v : Nat) (hv : S v) : ∃ w, TransGen (Rel es) w w := by
  apply Classical.byContradiction
  intro hno
  have hirr : ∀ w, ¬ TransGen (Rel es) w w := fun w hw => hno ⟨w, hw⟩
  let r : Fin n → Fin n → Prop := fun a b => TransGen (Rel es) a.1 b.1
  have : Finite (Fin n) := Finite.intro (Equiv.refl _)
  have : IsTrans (Fin n) r := ⟨fun _ _ _ hab hbc => TransGen.trans hab hbc⟩
  have : Std.Irrefl r := ⟨fun a => hirr a.1⟩
  have hwf : WellFounded r := Finite.wellFounded_of_trans_of_irrefl r
  have key : ∀ m : Fin n, ¬ S m.1 := by
    intro m
    induction m using hwf.induction with
    | _ m ih =>
      intro hm
      obtain ⟨a, ha, ham⟩ := hpred m.1 hm
      exact ih ⟨a, hS a ha⟩ (TransGen.single ham) ha
  exact key ⟨v, hS v hv⟩ hv

/-- Kahn's elimination as written in `hasCycle` decides cyclicity -/
theorem hasCycle_iff (n : Nat) (es : List (Nat × Nat))
    (h : ∀ e ∈ es, e.1 < n ∧ e.2 < n) :
    hasCycle n es = true ↔ ∃ v, Relation.TransGen (Rel es) v v := by
  obtain ⟨P, hI, _⟩ := kahn_final h
  have hiff : hasCycle n es = true ↔ ∃ v, v < n ∧ v ∉ P := by
    unfold hasCycle
    simp only [List.any_eq_true, List.mem_range, decide_eq_true_eq]
    constructor
    · rintro ⟨v, hvn, hv⟩
      exact ⟨v, hvn, (hI.final_pos v hvn).1 hv⟩
    · rintro ⟨v, hvn, hv⟩
      exact ⟨v, hvn, (hI.final_pos v hvn).2 hv⟩
  rw [hiff]
  constructor
  · rintro ⟨v, hvn, hvP⟩
    refine exists_cycle_of_pred (fun v => v < n ∧ v ∉ P) (fun v hv => hv.1) ?_ v ⟨hvn, hvP⟩
    rintro w ⟨hwn, hwP⟩
    have hpos := (hI.final_pos w hwn).2 hwP
    have hd := hI.degEq w
    simp only [List.count_nil, Nat.add_zero] at hd
    rw [hd] at hpos
    obtain ⟨a, haw, haP⟩ := cnt_pos hpos
    exact ⟨a, ⟨(h _ haw).1, haP⟩, haw⟩
  · rintro ⟨v, hv⟩
    obtain ⟨b, hvb, _⟩ := TransGen.head'_iff.1 hv
    have hvn : v < n := (h _ hvb).1
    apply Classical.byContradiction
    intro hno
    have hvP : v ∈ P := by
      apply Classical.byContradiction
      intro hvP
      exact hno ⟨v, hvn, hvP⟩
    exact hI.acyc v hvP hv

/-! ### name resolution -/

theorem mapM_option_none {α β} (f : α → Option β) :
    ∀ l : List α, l.mapM f = none ↔ ∃ a ∈ l, f a = none
  | [] => by simp
  | a :: l => by
    rw [List.mapM_cons]
    have ih := mapM_option_none f l
    cases hfa : f a with
    | none => simp [hfa]
    | some b =>
      cases hl : l.mapM f with
      | none =>
        obtain ⟨a', ha', hn⟩ := ih.1 hl
        simp only [Option.bind_eq_bind, Option.bind_some, Option.bind_none, List.mem_cons,
          true_iff]
        exact ⟨a', Or.inr ha', hn⟩
      | some r =>
        have hno : ¬ ∃ a ∈ l, f a = none := fun hex => by
          have := ih.2 hex
          rw [hl] at this
          cases this
        simp only [Option.bind_eq_bind, Option.bind_some, Option.pure_def, reduceCtorEq,
          List.mem_cons, false_iff]
        rintro ⟨a', ha' | ha', hn⟩
        · subst ha'
          rw [hfa] at hn
          cases hn
        · exact hno ⟨a', ha', hn⟩

theorem mapM_option_some_mem {α β} (f : α → Option β) :
    ∀ (l : List α) (r : List β), l.mapM f = some r → ∀ b, b ∈ r ↔ ∃ a ∈ l, f a = some b
  | [], r, h, b => by
    simp at h
    subst h
    simp
  | a :: l, r, h, b => by
    rw [List.mapM_cons] at h
    cases hfa : f a with
    | none => simp [hfa] at h
    | some b' =>
      cases hl : l.mapM f with
      | none => simp [hfa, hl] at h
      | some r' =>
        have ih := mapM_option_some_mem f l r' hl b
        simp [hfa, hl] at h
        subst h
        simp only [List.mem_cons, ih]
        constructor
        · rintro (rfl | ⟨a', ha', hb⟩)
          · exact ⟨a, Or.inl rfl, hfa⟩
          · exact ⟨a', Or.inr ha', hb⟩
        · rintro ⟨a', rfl | ha', hb⟩
          · rw [hfa] at hb
            left
            exact (Option.some.inj hb).symm
          · exact Or.inr ⟨a', ha', hb⟩

theorem mem_depPairs {α} (steps : List (Step α)) (d : α) (i : Nat) :
    (d, i) ∈ depPairs steps ↔ ∃ s, steps[i]? = some s ∧ d ∈ s.depends := by
  unfold depPairs
  simp only [List.mem_flatMap, List.mem_map, Prod.mk.injEq, Prod.exists,
    List.mem_zipIdx_iff_getElem?]
  constructor
  · rintro ⟨s, k, hs, d', hd', rfl, rfl⟩
    exact ⟨s, hs, hd'⟩
  · rintro ⟨s, hs, hd⟩
    exact ⟨s, i, hs, d, hd, rfl, rfl⟩

theorem findStep_none {α} [DecidableEq α] (steps : List (Step α)) (d : α) :
    findStep steps d = none ↔ ∀ t ∈ steps, t.name ≠ d := by
  unfold findStep
  rw [List.findIdx?_eq_none_iff]
  simp

theorem findStep_some {α} [DecidableEq α] (steps : List (Step α))
    (hd : (steps.map (·.name)).Nodup) (d : α) (j : Nat) :
    findStep steps d = some j ↔ ∃ t, steps[j]? = some t ∧ t.name = d := by
  constructor
  · intro h
    unfold findStep at h
    rw [List.findIdx?_eq_some_iff_getElem] at h
    obtain ⟨hj, hp, _⟩ := h
    exact ⟨steps[j], List.getElem?_eq_getElem hj, by simpa using hp⟩
  · rintro ⟨t, ht, htd⟩
    cases hf : findStep steps d with
    | none =>
      exact absurd htd ((findStep_none steps d).1 hf t (List.mem_of_getElem? ht))
    | some j' =>
      unfold findStep at hf
      rw [List.findIdx?_eq_some_iff_getElem] at hf
      obtain ⟨hj', hp, _⟩ := hf
      have hp' : steps[j'].name = d := by simpa using hp
      obtain ⟨hj, hjt⟩ := List.getElem?_eq_some_iff.1 ht
      have hlen : (steps.map (·.name)).length = steps.length := List.length_map _
      have : (steps.map (·.name))[j']'(by omega) = (steps.map (·.name))[j]'(by omega) := by
        simp only [List.getElem_map]
        rw [hp', hjt, htd]
      have := (hd.getElem_inj_iff).1 this
      rw [this]

theorem edgesOf_none {α} [DecidableEq α] (steps : List (Step α)) :
    edgesOf steps = none ↔ ∃ s ∈ steps, ∃ d ∈ s.depends, ∀ t ∈ steps, t.name ≠ d := by
  unfold edgesOf
  rw [mapM_option_none]
  constructor
  · rintro ⟨⟨d, i⟩, hp, hn⟩
    obtain ⟨s, hs, hds⟩ := (mem_depPairs steps d i).1 hp
    simp only [Option.map_eq_none_iff] at hn
    exact ⟨s, List.mem_of_getElem? hs, d, hds, (findStep_none steps d).1 hn⟩
  · rintro ⟨s, hs, d, hds, hn⟩
    obtain ⟨i, hi⟩ := List.mem_iff_getElem?.1 hs
    refine ⟨(d, i), (mem_depPairs steps d i).2 ⟨s, hi, hds⟩, ?_⟩
    simp only [Option.map_eq_none_iff]
    exact (findStep_none steps d).2 hn

theorem mem_edgesOf {α} [DecidableEq α] (steps : List (Step α))
    (hd : (steps.map (·.name)).Nodup) (es : List (Nat × Nat)) (h : edgesOf steps = some es)
    (j i : Nat) : (j, i) ∈ es ↔ DependsOn steps j i := by
  unfold edgesOf at h
  rw [mapM_option_some_mem _ _ _ h]
  unfold DependsOn
  constructor
  · rintro ⟨⟨d, k⟩, hp, hf⟩
    simp only [Option.map_eq_some_iff, Prod.mk.injEq] at hf
    obtain ⟨j', hj', rfl, rfl⟩ := hf
    obtain ⟨s, hs, hds⟩ := (mem_depPairs steps d k).1 hp
    obtain ⟨t, ht, htd⟩ := (findStep_some steps hd d j').1 hj'
    exact ⟨s, t, hs, ht, htd ▸ hds⟩
  · rintro ⟨s, t, hs, ht, hts⟩
    refine ⟨(t.name, i), (mem_depPairs steps t.name i).2 ⟨s, hs, hts⟩, ?_⟩
    rw [(findStep_some steps hd t.name j).2 ⟨t, ht, rfl⟩]
    rfl

theorem resolves_iff {α} [DecidableEq α] (steps : List (Step α)) :
    (∀ s ∈ steps, ∀ d ∈ s.depends, ∃ t ∈ steps, t.name = d) ↔ edgesOf steps ≠ none := by
  rw [Ne, edgesOf_none]
  constructor
  · rintro h ⟨s, hs, d, hds, hn⟩
    obtain ⟨t, ht, htd⟩ := h s hs d hds
    exact hn t ht htd
  · intro h s hs d hds
    apply Classical.byContradiction
    intro hno
    exact h ⟨s, hs, d, hds, fun t ht htd => hno ⟨t, ht, htd⟩⟩

/-- acceptance of a step list with distinct names -/
theorem accept_iff {α} [DecidableEq α] (steps : List (Step α))
    (hd : (steps.map (·.name)).Nodup) :
    accept steps = true ↔
      (∀ s ∈ steps, ∀ d ∈ s.depends, ∃ t ∈ steps, t.name = d) ∧
      ¬ ∃ i, Relation.TransGen (DependsOn steps) i i := by
  rw [resolves_iff]
  unfold accept setupGraph
  cases he : edgesOf steps with
  | none => simp
  | some es =>
    have hrel : Rel es = DependsOn steps := by
      funext j i
      exact propext (mem_edgesOf steps hd es he j i)
    have hE : ∀ e ∈ es, e.1 < steps.length ∧ e.2 < steps.length := by
      rintro ⟨j, i⟩ hji
      obtain ⟨s, t, hs, ht, _⟩ := (mem_edgesOf steps hd es he j i).1 hji
      exact ⟨(List.getElem?_eq_some_iff.1 ht).1, (List.getElem?_eq_some_iff.1 hs).1⟩
    have hc := hasCycle_iff steps.length es hE
    rw [hrel] at hc
    rw [← hc]
    cases hh : hasCycle steps.length es <;> simp [hh]

/-- a dangling dependency name is what `notFound` means -/
theorem setupGraph_notFound_iff {α} [DecidableEq α] (steps : List (Step α)) :
    setupGraph steps = .notFound ↔ ∃ s ∈ steps, ∃ d ∈ s.depends, ∀ t ∈ steps, t.name ≠ d := by
  rw [← edgesOf_none]
  unfold setupGraph
  cases he : edgesOf steps with
  | none => simp
  | some es =>
    simp only [reduceCtorEq, iff_false]
    split <;> simp

end BdModel.Cycle
