import BdModel.Hist.Stamp
import BdModel.Proofs.HistNames
/-
  Helper lemmas for Props/C06Names.lean (file-name / timestamp layer of the history store). Core only.
  digits and fixed-width fields · Go's string order `slt` (strict total; blocks of equal length) · `render` orders like
  the civil time · the regex matcher (`matchSeq`, `findStamp`, `no_straddle`, `findStamp_pre`) · the comparator `newer`
  is a strict total order · insertion sort: sorted, permutation, unique · names of one DAG · the day pattern ·
  the calendar (`dayNo` strictly monotone, `unix_lt_iff`, `ofUnix_spec`) · stolen matches (`findStamp_stolen`,
  `newer_any_prefix`).
-/
namespace BdModel.Hist.Stamp
open BdModel.Hist.Names

/-! ### digits -/

theorem digit_spec (n : Nat) : ∃ i, i < 10 ∧ n % 10 = i ∧ digit n = digits.getD i '0' :=
  ⟨n % 10, Nat.mod_lt _ (by decide), rfl, rfl⟩

theorem digits_facts : ∀ i, i < 10 → ∀ j, j < 10 →
    ((digits.getD i '0' = digits.getD j '0') ↔ i = j) ∧
    (((digits.getD i '0').toNat < (digits.getD j '0').toNat) ↔ i < j) := by decide

theorem digit_eq_iff (a b : Nat) : digit a = digit b ↔ a % 10 = b % 10 := by
  obtain ⟨i, hi, ei, di⟩ := digit_spec a
  obtain ⟨j, hj, ej, dj⟩ := digit_spec b
  rw [di, dj, ei, ej]; exact (digits_facts i hi j hj).1

theorem digit_lt_iff (a b : Nat) : (digit a).toNat < (digit b).toNat ↔ a % 10 < b % 10 := by
  obtain ⟨i, hi, ei, di⟩ := digit_spec a
  obtain ⟨j, hj, ej, dj⟩ := digit_spec b
  rw [di, dj, ei, ej]; exact (digits_facts i hi j hj).2

theorem digits_cls : ∀ i, i < 10 →
    Cls.ok .dig (digits.getD i '0') = true ∧ Cls.ok .any (digits.getD i '0') = true ∧
    Cls.ok .colon (digits.getD i '0') = false ∧ Cls.ok .dot (digits.getD i '0') = false ∧
    digits.getD i '0' ≠ sep ∧ isMeta (digits.getD i '0') = false := by decide

theorem digit_dig (n : Nat) : Cls.ok .dig (digit n) = true := by
  obtain ⟨i, hi, _, di⟩ := digit_spec n; rw [di]; exact (digits_cls i hi).1
theorem digit_any (n : Nat) : Cls.ok .any (digit n) = true := by
  obtain ⟨i, hi, _, di⟩ := digit_spec n; rw [di]; exact (digits_cls i hi).2.1
theorem digit_colon (n : Nat) : Cls.ok .colon (digit n) = false := by
  obtain ⟨i, hi, _, di⟩ := digit_spec n; rw [di]; exact (digits_cls i hi).2.2.1
theorem digit_dot (n : Nat) : Cls.ok .dot (digit n) = false := by
  obtain ⟨i, hi, _, di⟩ := digit_spec n; rw [di]; exact (digits_cls i hi).2.2.2.1
theorem digit_ne_sep (n : Nat) : digit n ≠ sep := by
  obtain ⟨i, hi, _, di⟩ := digit_spec n; rw [di]; exact (digits_cls i hi).2.2.2.2.1
theorem digit_plain (n : Nat) : isMeta (digit n) = false := by
  obtain ⟨i, hi, _, di⟩ := digit_spec n; rw [di]; exact (digits_cls i hi).2.2.2.2.2
theorem digit_two (n : Nat) (h : n % 10 = 2) : Cls.ok .two (digit n) = true := by
  unfold digit; rw [h]; decide

/-! ### Go's string order -/

theorem slt_nil_right (a : List Char) : slt a [] = false := by cases a <;> rfl

theorem slt_cons (a b : Char) (as bs : List Char) :
    slt (a :: as) (b :: bs) = if a = b then slt as bs else decide (a.toNat < b.toNat) := rfl

theorem slt_irrefl : ∀ a : List Char, slt a a = false
  | [] => rfl
  | a :: as => by rw [slt_cons]; simp [slt_irrefl as]

theorem slt_asymm : ∀ a b : List Char, slt a b = true → slt b a = false
  | _, [] => by intro h; rw [slt_nil_right] at h; cases h
  | [], _ :: _ => by intro _; rfl
  | a :: as, b :: bs => by
    rw [slt_cons, slt_cons]
    by_cases h : a = b
    · subst h; simp only [if_true]; exact slt_asymm as bs
    · have h' : ¬ b = a := fun e => h e.symm
      simp only [h, h', if_false, decide_eq_true_eq, decide_eq_false_iff_not]; omega

theorem slt_trans : ∀ a b c : List Char, slt a b = true → slt b c = true → slt a c = true
  | _, _, [] => by intro _ h; rw [slt_nil_right] at h; cases h
  | _, [], _ :: _ => by intro h; rw [slt_nil_right] at h; cases h
  | [], _ :: _, _ :: _ => by intro _ _; rfl
  | a :: as, b :: bs, c :: cs => by
    rw [slt_cons, slt_cons, slt_cons]
    by_cases hab : a = b
    · subst hab
      by_cases hac : a = c
      · subst hac; simp only [if_true]; exact slt_trans as bs cs
      · simp only [if_true, hac, if_false]; intro _ h; exact h
    · by_cases hbc : b = c
      · subst hbc; simp only [hab, if_false, if_true]; intro h _; exact h
      · simp only [hab, hbc, if_false, decide_eq_true_eq]
        intro h1 h2
        have hac : ¬ a = c := by intro e; subst e; omega
        simp only [hac, if_false, decide_eq_true_eq]; omega

theorem slt_total : ∀ a b : List Char, a ≠ b → slt a b = true ∨ slt b a = true
  | [], [] => by intro h; exact absurd rfl h
  | [], _ :: _ => by intro _; left; rfl
  | _ :: _, [] => by intro _; right; rfl
  | a :: as, b :: bs => by
    intro hne
    rw [slt_cons, slt_cons]
    by_cases h : a = b
    · subst h; simp only [if_true]
      exact slt_total as bs (fun e => hne (by rw [e]))
    · have h' : ¬ b = a := fun e => h e.symm
      have : a.toNat ≠ b.toNat := fun e => h (Char.toNat_inj.mp e)
      simp only [h, h', if_false, decide_eq_true_eq]; omega

theorem slt_append_left : ∀ p a b : List Char, slt (p ++ a) (p ++ b) = slt a b
  | [], _, _ => rfl
  | c :: p, a, b => by simp [slt_cons, slt_append_left p a b]

/-- blocks of equal length: the first block decides unless the blocks are equal -/
theorem slt_block : ∀ (u v x y : List Char), u.length = v.length →
    slt (u ++ x) (v ++ y) = if u = v then slt x y else slt u v
  | [], [], _, _, _ => by simp
  | [], _ :: _, _, _, h => by simp at h
  | _ :: _, [], _, _, h => by simp at h
  | a :: u, b :: v, x, y, h => by
    have hl : u.length = v.length := by simpa using h
    simp only [List.cons_append, slt_cons, slt_block u v x y hl, List.cons.injEq]
    by_cases hab : a = b
    · subst hab; simp
    · simp [hab]


/-! ### fixed-width fields -/

theorem pad2_lt (a b : Nat) (ha : a < 100) (hb : b < 100) : slt (pad2 a) (pad2 b) = decide (a < b) := by
  simp only [pad2, slt_cons, digit_eq_iff, slt_nil_right]
  by_cases h1 : a / 10 % 10 = b / 10 % 10
  · by_cases h2 : a % 10 = b % 10
    · simp only [h1, h2, if_true]; symm; rw [decide_eq_false_iff_not]; omega
    · simp only [h1, h2, if_true, if_false, digit_lt_iff]; congr 1; apply propext; omega
  · simp only [h1, if_false, digit_lt_iff]; congr 1; apply propext; omega

theorem pad2_inj (a b : Nat) (ha : a < 100) (hb : b < 100) : pad2 a = pad2 b ↔ a = b := by
  simp only [pad2, List.cons.injEq, digit_eq_iff, and_true]; omega

theorem pad3_lt (a b : Nat) (ha : a < 1000) (hb : b < 1000) : slt (pad3 a) (pad3 b) = decide (a < b) := by
  simp only [pad3, slt_cons, digit_eq_iff, slt_nil_right]
  by_cases h0 : a / 100 % 10 = b / 100 % 10
  · by_cases h1 : a / 10 % 10 = b / 10 % 10
    · by_cases h2 : a % 10 = b % 10
      · simp only [h0, h1, h2, if_true]; symm; rw [decide_eq_false_iff_not]; omega
      · simp only [h0, h1, h2, if_true, if_false, digit_lt_iff]; congr 1; apply propext; omega
    · simp only [h0, h1, if_true, if_false, digit_lt_iff]; congr 1; apply propext; omega
  · simp only [h0, if_false, digit_lt_iff]; congr 1; apply propext; omega

theorem pad3_inj (a b : Nat) (ha : a < 1000) (hb : b < 1000) : pad3 a = pad3 b ↔ a = b := by
  simp only [pad3, List.cons.injEq, digit_eq_iff, and_true]; omega

theorem pad4_lt (a b : Nat) (ha : a < 10000) (hb : b < 10000) : slt (pad4 a) (pad4 b) = decide (a < b) := by
  simp only [pad4, slt_cons, digit_eq_iff, slt_nil_right]
  by_cases h3 : a / 1000 % 10 = b / 1000 % 10
  · by_cases h0 : a / 100 % 10 = b / 100 % 10
    · by_cases h1 : a / 10 % 10 = b / 10 % 10
      · by_cases h2 : a % 10 = b % 10
        · simp only [h3, h0, h1, h2, if_true]; symm; rw [decide_eq_false_iff_not]; omega
        · simp only [h3, h0, h1, h2, if_true, if_false, digit_lt_iff]; congr 1; apply propext; omega
      · simp only [h3, h0, h1, if_true, if_false, digit_lt_iff]; congr 1; apply propext; omega
    · simp only [h3, h0, if_true, if_false, digit_lt_iff]; congr 1; apply propext; omega
  · simp only [h3, if_false, digit_lt_iff]; congr 1; apply propext; omega

theorem pad4_inj (a b : Nat) (ha : a < 10000) (hb : b < 10000) : pad4 a = pad4 b ↔ a = b := by
  simp only [pad4, List.cons.injEq, digit_eq_iff, and_true]; omega

/-- a block whose order and equality are known, followed by more -/
theorem slt_field (u v x y : List Char) (hl : u.length = v.length) (P Q : Prop) [Decidable P] [Decidable Q]
    (hlt : slt u v = decide P) (heq : u = v ↔ Q) :
    slt (u ++ x) (v ++ y) = decide (P ∨ (Q ∧ slt x y = true)) := by
  rw [slt_block u v x y hl]
  by_cases hq : Q
  · have : u = v := heq.mpr hq
    subst this
    have hp : ¬ P := by
      intro hp; have := slt_irrefl u; rw [hlt] at this; simp [hp] at this
    simp [hq, hp]
  · have : ¬ u = v := fun e => hq (heq.mp e)
    simp [this, hq, hlt]

theorem slt_sepc (c : Char) (x y : List Char) : slt (c :: x) (c :: y) = slt x y := by simp [slt_cons]

theorem before_iff_key (a b : Civil) (ha : a.Valid) (hb : b.Valid) : a.before b ↔ key a < key b := by
  unfold Civil.Valid at ha hb
  unfold Civil.before key
  omega

theorem render_lt (a b : Civil) (ha : a.Valid) (hb : b.Valid) :
    slt (render a) (render b) = decide (a.before b) := by
  unfold Civil.Valid at ha hb
  simp only [render, date8, clock13, List.append_assoc, List.cons_append]
  rw [slt_field (pad4 a.year) (pad4 b.year) _ _ rfl _ _ (pad4_lt a.year b.year (by omega) (by omega)) (pad4_inj _ _ (by omega) (by omega))]
  rw [slt_field (pad2 a.month) (pad2 b.month) _ _ rfl _ _ (pad2_lt a.month b.month (by omega) (by omega)) (pad2_inj _ _ (by omega) (by omega))]
  rw [slt_field (pad2 a.day) (pad2 b.day) _ _ rfl _ _ (pad2_lt a.day b.day (by omega) (by omega)) (pad2_inj _ _ (by omega) (by omega))]
  rw [slt_sepc]
  rw [slt_field (pad2 a.hour) (pad2 b.hour) _ _ rfl _ _ (pad2_lt a.hour b.hour (by omega) (by omega)) (pad2_inj _ _ (by omega) (by omega))]
  rw [slt_sepc]
  rw [slt_field (pad2 a.minute) (pad2 b.minute) _ _ rfl _ _ (pad2_lt a.minute b.minute (by omega) (by omega)) (pad2_inj _ _ (by omega) (by omega))]
  rw [slt_sepc]
  rw [slt_field (pad2 a.second) (pad2 b.second) _ _ rfl _ _ (pad2_lt a.second b.second (by omega) (by omega)) (pad2_inj _ _ (by omega) (by omega))]
  rw [slt_sepc, pad3_lt a.milli b.milli (by omega) (by omega)]
  simp only [decide_eq_true_eq, Civil.before]

theorem render_length (t : Civil) : (render t).length = 21 := rfl


/-! ### the matcher -/

theorem matchSeq_get : ∀ (ks : List Cls) (s : List Char), matchSeq ks s = true →
    ∀ i (h : i < ks.length), ∃ c, s[i]? = some c ∧ ks[i].ok c = true
  | [], _, _, i, h => by simp at h
  | _ :: _, [], hm, _, _ => by simp [matchSeq] at hm
  | k :: ks, c :: cs, hm, i, h => by
    simp only [matchSeq, Bool.and_eq_true] at hm
    cases i with
    | zero => exact ⟨c, rfl, hm.1⟩
    | succ j =>
      obtain ⟨d, hd, hk⟩ := matchSeq_get ks cs hm.2 j (by simpa using h)
      exact ⟨d, by simpa using hd, by simpa using hk⟩

/-- what lies beyond the classes does not matter -/
theorem matchSeq_append_long : ∀ (ks : List Cls) (u x : List Char), ks.length ≤ u.length →
    matchSeq ks (u ++ x) = matchSeq ks u
  | [], _, _, _ => rfl
  | _ :: _, [], _, h => by simp at h
  | k :: ks, c :: u, x, h => by
    simp only [List.cons_append, matchSeq]
    rw [matchSeq_append_long ks u x (by simpa using h)]

theorem findStamp_cons (c : Char) (cs : List Char) :
    findStamp (c :: cs) = match stampLen (c :: cs) with
      | some n => (c :: cs).take n
      | none => findStamp cs := rfl

theorem stampLen_cases (s : List Char) :
    (matchSeq coreCls s = false ∧ stampLen s = none) ∨
    (matchSeq coreCls s = true ∧ (stampLen s = some 17 ∨ stampLen s = some 21)) := by
  unfold stampLen
  cases h : matchSeq coreCls s
  · left; simp
  · right; simp only [if_true, true_and]
    cases matchSeq fracCls (s.drop 17) <;> simp

/-- FindString = "" iff the mandatory part matches at no position -/
theorem findStamp_nil_iff : ∀ s : List Char,
    findStamp s = [] ↔ ∀ u v, s = u ++ v → matchSeq coreCls v = false
  | [] => by
    constructor
    · intro _ u v h
      have : v = [] := by
        have := congrArg List.length h; simp at this; exact List.length_eq_zero_iff.mp (by omega)
      subst this; rfl
    · intro _; rfl
  | c :: cs => by
    rw [findStamp_cons]
    rcases stampLen_cases (c :: cs) with ⟨hm, hl⟩ | ⟨hm, hl | hl⟩
    · rw [hl]; simp only
      rw [findStamp_nil_iff cs]
      constructor
      · intro h u v e
        cases u with
        | nil => simp at e; rw [← e]; exact hm
        | cons d u' =>
          simp only [List.cons_append, List.cons.injEq] at e
          exact h u' v e.2
      · intro h u v e; exact h (c :: u) v (by simp [e])
    · rw [hl]; simp only
      constructor
      · intro h; simp at h
      · intro h; have := h [] (c :: cs) rfl; rw [hm] at this; cases this
    · rw [hl]; simp only
      constructor
      · intro h; simp at h
      · intro h; have := h [] (c :: cs) rfl; rw [hm] at this; cases this

theorem core_dot : ∀ i (h : i < coreCls.length), coreCls[i].ok '.' = true → i = 8 := by decide

theorem render_get2 (t : Civil) (x : List Char) : (render t ++ x)[2]? = some (digit (t.year / 10)) := rfl

/-- a real stamp: the mandatory part and the optional group both match, whatever follows -/
theorem stampLen_render (t : Civil) (ht : t.Valid) (x : List Char) : stampLen (render t ++ x) = some 21 := by
  unfold Civil.Valid at ht
  have h2 : Cls.ok .two (digit (t.year / 1000)) = true := digit_two _ (by omega)
  have hdot : Cls.ok .any '.' = true := by decide
  have hdd : Cls.ok .dot '.' = true := by decide
  have hc : Cls.ok .colon ':' = true := by decide
  simp [stampLen, render, date8, clock13, pad4, pad2, pad3, coreCls, fracCls, matchSeq, digit_dig, h2, hdot, hdd, hc]

theorem findStamp_render (t : Civil) (ht : t.Valid) (x : List Char) : findStamp (render t ++ x) = render t := by
  have e : render t ++ x = digit (t.year / 1000) :: ((render t).drop 1 ++ x) := rfl
  have := stampLen_render t ht x
  rw [e] at this
  rw [e, findStamp_cons, this]
  show ((render t) ++ x).take 21 = render t
  rw [List.take_left' (render_length t)]

/-- a match that starts inside `pre.` cannot use the real stamp's characters: the `.` forces offset 8, and then
    offset 11 wants `:` where the year has its third digit -/
theorem no_straddle (w : List Char) (t : Civil) (x : List Char)
    (hw : matchSeq coreCls (w ++ ['.']) = false) :
    matchSeq coreCls (w ++ '.' :: (render t ++ x)) = false := by
  by_cases hl : coreCls.length ≤ (w ++ ['.']).length
  · have e : w ++ '.' :: (render t ++ x) = (w ++ ['.']) ++ (render t ++ x) := by simp
    rw [e, matchSeq_append_long _ _ _ hl]; exact hw
  · cases hm : matchSeq coreCls (w ++ '.' :: (render t ++ x)) with
    | false => rfl
    | true =>
      exfalso
      have hlen : w.length < 16 := by simp [coreCls] at hl; omega
      obtain ⟨c, hc, hk⟩ := matchSeq_get _ _ hm w.length (by simp [coreCls]; omega)
      have hc' : c = '.' := by
        rw [List.getElem?_append_right (Nat.le_refl _)] at hc
        simpa using hc.symm
      subst hc'
      have h8 := core_dot _ _ hk
      obtain ⟨d, hd, hk'⟩ := matchSeq_get _ _ hm 11 (by decide)
      rw [List.getElem?_append_right (by omega)] at hd
      have : 11 - w.length = 3 := by omega
      rw [this] at hd
      have hd' : d = digit (t.year / 10) := by
        have := render_get2 t x
        simp only [List.getElem?_cons_succ] at hd
        rw [this] at hd; exact (Option.some.inj hd).symm
      subst hd'
      have : coreCls[11] = Cls.colon := rfl
      rw [this, digit_colon] at hk'; cases hk'

/-- `timestamp(newFile(...))` is the rendered start time when no match lies inside `pre.` -/
theorem findStamp_pre : ∀ (pre : List Char) (t : Civil) (x : List Char), t.Valid → findStamp (pre ++ ['.']) = [] →
    findStamp (pre ++ '.' :: (render t ++ x)) = render t
  | [], t, x, ht, _ => by
    have : stampLen ('.' :: (render t ++ x)) = none := by
      simp [stampLen, matchSeq, coreCls, Cls.ok]
    rw [List.nil_append, findStamp_cons, this]
    exact findStamp_render t ht x
  | c :: pre, t, x, ht, hf => by
    have hall := (findStamp_nil_iff _).mp hf
    have h0 : matchSeq coreCls ((c :: pre) ++ ['.']) = false := hall [] _ rfl
    have h1 : findStamp (pre ++ ['.']) = [] :=
      (findStamp_nil_iff _).mpr (fun u v e => hall (c :: u) v (by simp [e]))
    have hn := no_straddle (c :: pre) t x h0
    have : stampLen (c :: (pre ++ '.' :: (render t ++ x))) = none := by
      unfold stampLen; simp only [List.cons_append] at hn; rw [hn]; rfl
    rw [List.cons_append, findStamp_cons, this]
    exact findStamp_pre pre t x ht h1


/-! ### the comparator of filterLatest is a strict total order on strings -/

theorem newer_def (a b : List Char) :
    newer a b = if findStamp a ≠ findStamp b then slt (findStamp b) (findStamp a) else slt b a := rfl

theorem newer_irrefl (a : List Char) : newer a a = false := by
  rw [newer_def]; simp [slt_irrefl]

theorem newer_asymm (a b : List Char) (h : newer a b = true) : newer b a = false := by
  rw [newer_def] at h ⊢
  generalize findStamp a = sa at h ⊢
  generalize findStamp b = sb at h ⊢
  by_cases e : sa = sb
  · subst e; simp only [ne_eq, not_true_eq_false, if_false] at h ⊢; exact slt_asymm _ _ h
  · have e' : ¬ sb = sa := fun x => e x.symm
    simp only [ne_eq, e, e', not_false_eq_true, if_true] at h ⊢
    exact slt_asymm _ _ h

theorem newer_trans (a b c : List Char) (h1 : newer a b = true) (h2 : newer b c = true) : newer a c = true := by
  rw [newer_def] at h1 h2 ⊢
  generalize findStamp a = sa at h1 h2 ⊢
  generalize findStamp b = sb at h1 h2 ⊢
  generalize findStamp c = sc at h1 h2 ⊢
  by_cases e1 : sa = sb
  · subst e1
    by_cases e2 : sa = sc
    · subst e2; simp only [ne_eq, not_true_eq_false, if_false] at h1 h2 ⊢; exact slt_trans _ _ _ h2 h1
    · simp only [ne_eq, e2, not_true_eq_false, not_false_eq_true, if_false, if_true] at h1 h2 ⊢; exact h2
  · by_cases e2 : sb = sc
    · subst e2; simp only [ne_eq, e1, not_true_eq_false, not_false_eq_true, if_false, if_true] at h1 h2 ⊢; exact h1
    · simp only [ne_eq, e1, e2, not_false_eq_true, if_true] at h1 h2
      have h3 := slt_trans _ _ _ h2 h1
      have e3 : ¬ sa = sc := by
        intro x; subst x; rw [slt_irrefl] at h3; cases h3
      simp only [ne_eq, e3, not_false_eq_true, if_true]; exact h3

theorem newer_total (a b : List Char) (h : a ≠ b) : newer a b = true ∨ newer b a = true := by
  rw [newer_def, newer_def]
  generalize findStamp a = sa
  generalize findStamp b = sb
  by_cases e : sa = sb
  · subst e; simp only [ne_eq, not_true_eq_false, if_false]
    exact (slt_total b a (fun x => h x.symm))
  · have e' : ¬ sb = sa := fun x => e x.symm
    simp only [ne_eq, e, e', not_false_eq_true, if_true]
    exact (slt_total _ _ e')

/-! ### insertion sort with a strict total order -/

section sort
variable {α : Type} (lt : α → α → Bool)

theorem insertBy_perm (x : α) : ∀ l : List α, (insertBy lt x l).Perm (x :: l)
  | [] => List.Perm.refl _
  | y :: ys => by
    unfold insertBy
    split
    · exact ((insertBy_perm x ys).cons y).trans (List.Perm.swap x y ys)
    · exact List.Perm.refl _

theorem sortBy_perm : ∀ l : List α, (sortBy lt l).Perm l
  | [] => List.Perm.refl _
  | x :: xs => (insertBy_perm lt x _).trans ((sortBy_perm xs).cons x)

/-- "not after": b is not strictly before a -/
def nle (a b : α) : Prop := lt b a = false

theorem insertBy_sorted (htr : ∀ a b c, lt a b = true → lt b c = true → lt a c = true)
    (has : ∀ a b, lt a b = true → lt b a = false)
    (htot : ∀ a b, a ≠ b → lt a b = true ∨ lt b a = true) (x : α) :
    ∀ l : List α, l.Pairwise (nle lt) → (insertBy lt x l).Pairwise (nle lt)
  | [], _ => by simp [insertBy]
  | y :: ys, h => by
    unfold insertBy
    have hy := List.pairwise_cons.mp h
    split
    · rename_i hyx
      refine List.pairwise_cons.mpr ⟨?_, insertBy_sorted htr has htot x ys hy.2⟩
      intro z hz
      rcases (List.mem_cons.mp ((insertBy_perm lt x ys).subset hz)) with rfl | hz
      · exact has _ _ hyx
      · exact hy.1 z hz
    · rename_i hyx
      have hyx : lt y x = false := by simpa using hyx
      refine List.pairwise_cons.mpr ⟨?_, h⟩
      intro z hz
      rcases List.mem_cons.mp hz with rfl | hz
      · exact hyx
      · have hyz : lt z y = false := hy.1 z hz
        cases hzx : lt z x with
        | false => exact hzx
        | true =>
          exfalso
          by_cases e : y = x
          · subst e; rw [hzx] at hyz; cases hyz
          · rcases htot y x e with h1 | h1
            · rw [h1] at hyx; cases hyx
            · have := htr _ _ _ hzx h1; rw [this] at hyz; cases hyz

theorem sortBy_sorted (htr : ∀ a b c, lt a b = true → lt b c = true → lt a c = true)
    (has : ∀ a b, lt a b = true → lt b a = false)
    (htot : ∀ a b, a ≠ b → lt a b = true ∨ lt b a = true) :
    ∀ l : List α, (sortBy lt l).Pairwise (nle lt)
  | [] => List.Pairwise.nil
  | x :: xs => insertBy_sorted lt htr has htot x _ (sortBy_sorted htr has htot xs)

/-- the sorted arrangement is unique: ANY list that is a rearrangement of l and has no element strictly before an
    earlier one is `sortBy lt l` (so every correct sorting algorithm - Go's pdqsort in `sort.Slice` - returns it) -/
theorem sorted_unique (htr : ∀ a b c, lt a b = true → lt b c = true → lt a c = true)
    (has : ∀ a b, lt a b = true → lt b a = false)
    (htot : ∀ a b, a ≠ b → lt a b = true ∨ lt b a = true)
    (l out : List α) (hp : out.Perm l) (hs : out.Pairwise (nle lt)) : out = sortBy lt l := by
  refine List.Perm.eq_of_pairwise (le := nle lt) ?_ hs (sortBy_sorted lt htr has htot l)
    (hp.trans (sortBy_perm lt l).symm)
  intro a b _ _ h1 h2
  by_cases e : a = b
  · exact e
  · rcases htot a b e with h | h
    · unfold nle at h2; rw [h] at h2; cases h2
    · unfold nle at h1; rw [h] at h1; cases h1

theorem sortBy_of_perm (htr : ∀ a b c, lt a b = true → lt b c = true → lt a c = true)
    (has : ∀ a b, lt a b = true → lt b a = false)
    (htot : ∀ a b, a ≠ b → lt a b = true ∨ lt b a = true)
    (l l' : List α) (hp : l.Perm l') : sortBy lt l = sortBy lt l' :=
  sorted_unique lt htr has htot l' _ ((sortBy_perm lt l).trans hp) (sortBy_sorted lt htr has htot l)

/-- sorting commutes with a map when the order is pulled back along it -/
theorem insertBy_map {β : Type} (f : β → α) (x : β) : ∀ l : List β,
    (insertBy (fun a b => lt (f a) (f b)) x l).map f = insertBy lt (f x) (l.map f)
  | [] => rfl
  | y :: ys => by
    simp only [insertBy, List.map_cons]
    split
    · simp [insertBy_map f x ys]
    · simp

theorem sortBy_map {β : Type} (f : β → α) : ∀ l : List β,
    (sortBy (fun a b => lt (f a) (f b)) l).map f = sortBy lt (l.map f)
  | [] => rfl
  | x :: xs => by
    simp only [sortBy, List.map_cons]
    rw [insertBy_map, sortBy_map f xs]

end sort

/-! ### file names -/

theorem fileName_shape (pre : List Char) (t : Civil) (req : List Char) (c : Bool) :
    fileName pre t req c = pre ++ '.' :: (render t ++ tail req c) := by
  simp [fileName, Names.render, tail, List.append_assoc]

theorem slt_pre_dot (pre x y : List Char) : slt (pre ++ '.' :: x) (pre ++ '.' :: y) = slt x y := by
  have e : ∀ z : List Char, pre ++ '.' :: z = (pre ++ ['.']) ++ z := by intro z; simp
  rw [e x, e y, slt_append_left]

theorem stamp_found (pre : List Char) (t : Civil) (req : List Char) (c : Bool) (hf : StampFree pre) (ht : t.Valid) :
    timestamp (fileName pre t req c) = render t := by
  rw [fileName_shape]; exact findStamp_pre pre t _ ht hf

theorem key_inj (a b : Civil) (ha : a.Valid) (hb : b.Valid) (h : key a = key b) : a = b := by
  unfold Civil.Valid at ha hb
  unfold key at h
  cases a; cases b
  simp only [Civil.mk.injEq] at *
  omega

theorem render_inj (a b : Civil) (ha : a.Valid) (hb : b.Valid) : render a = render b ↔ a = b := by
  constructor
  · intro h
    have h1 := render_lt a b ha hb
    have h2 := render_lt b a hb ha
    rw [h, slt_irrefl] at h1
    rw [h, slt_irrefl] at h2
    have n1 : ¬ a.before b := by simpa using h1.symm
    have n2 : ¬ b.before a := by simpa using h2.symm
    rw [before_iff_key a b ha hb] at n1
    rw [before_iff_key b a hb ha] at n2
    exact key_inj a b ha hb (by omega)
  · rintro rfl; rfl

/-- the comparator on two files of one DAG: start time decides; equal start times fall back to what follows the stamp -/
theorem newer_names (pre : List Char) (hf : StampFree pre) (t1 t2 : Civil) (h1 : t1.Valid) (h2 : t2.Valid)
    (r1 r2 : List Char) (c1 c2 : Bool) :
    newer (fileName pre t1 r1 c1) (fileName pre t2 r2 c2) =
      if t1 = t2 then slt (tail r2 c2) (tail r1 c1) else decide (t2.before t1) := by
  have s1 : findStamp (fileName pre t1 r1 c1) = render t1 := stamp_found pre t1 r1 c1 hf h1
  have s2 : findStamp (fileName pre t2 r2 c2) = render t2 := stamp_found pre t2 r2 c2 hf h2
  rw [newer_def, s1, s2]
  by_cases e : t1 = t2
  · subst e
    simp only [ne_eq, not_true_eq_false, if_false, if_true]
    rw [fileName_shape, fileName_shape]
    have : ∀ x : List Char, pre ++ '.' :: (render t1 ++ x) = (pre ++ '.' :: render t1) ++ x := by intro x; simp
    rw [this, this, slt_append_left]
  · have : ¬ render t1 = render t2 := fun x => e ((render_inj t1 t2 h1 h2).mp x)
    simp only [ne_eq, this, not_false_eq_true, if_true, e, if_false]
    exact render_lt t2 t1 h2 h1

/-- comparing WHOLE names gives the same order on the files of one DAG (the stamp sits at the same offset) -/
theorem newer_eq_name_order (pre : List Char) (hf : StampFree pre) (t1 t2 : Civil) (h1 : t1.Valid) (h2 : t2.Valid)
    (r1 r2 : List Char) (c1 c2 : Bool) :
    newer (fileName pre t1 r1 c1) (fileName pre t2 r2 c2) = slt (fileName pre t2 r2 c2) (fileName pre t1 r1 c1) := by
  rw [newer_names pre hf t1 t2 h1 h2]
  rw [fileName_shape, fileName_shape]
  rw [slt_pre_dot, slt_block (render t2) (render t1) _ _ rfl]
  by_cases e : t1 = t2
  · subst e; simp
  · have : ¬ render t2 = render t1 := fun x => e ((render_inj t2 t1 h2 h1).mp x).symm
    simp only [e, this, if_false]
    exact (render_lt t2 t1 h2 h1).symm

/-- the compacted twin's tail is greater: `_` (0x5f) > `.` (0x2e) -/
theorem twin_tail (req : List Char) : slt (tail req false) (tail req true) = true := by
  simp only [tail, if_true, Bool.false_eq_true, if_false, List.append_nil, List.cons_append, List.append_assoc,
    slt_sepc, slt_append_left]
  decide

/-! ### names without a colon are StampFree -/

theorem stampFree_of_no_colon (pre : List Char) (h : ':' ∉ pre) : StampFree pre := by
  unfold StampFree
  rw [findStamp_nil_iff]
  intro u v e
  cases hm : matchSeq coreCls v with
  | false => rfl
  | true =>
    exfalso
    obtain ⟨c, hc, hk⟩ := matchSeq_get _ _ hm 11 (by decide)
    have hk' : Cls.ok .colon c = true := hk
    have : c = ':' := by simpa [Cls.ok] using hk'
    subst this
    have hv : ':' ∈ v := List.mem_of_getElem? hc
    have : ':' ∈ pre ++ ['.'] := by rw [e]; exact List.mem_append_right _ hv
    rcases List.mem_append.mp this with h1 | h1
    · exact h h1
    · simp at h1


/-! ### filterLatest -/

theorem sortNewer_of_perm (l l' : List (List Char)) (hp : l.Perm l') : sortBy newer l = sortBy newer l' :=
  sortBy_of_perm newer newer_trans newer_asymm newer_total l l' hp

theorem filterLatest_of_perm (l l' : List (List Char)) (n : Int) (hp : l.Perm l') :
    filterLatest l n = filterLatest l' n := by
  unfold filterLatest; rw [sortNewer_of_perm l l' hp, hp.length_eq]

/-- the order of runs that the comparator induces through their names -/
def runNewer (pre : List Char) (a b : Run) : Bool := newer (a.name pre) (b.name pre)

theorem filterLatest_runs (pre : List Char) (runs : List Run) (n : Int) :
    filterLatest (runs.map (Run.name pre)) n =
      ((sortBy (runNewer pre) runs).map (Run.name pre)).take (cut n runs.length) := by
  unfold filterLatest runNewer
  rw [sortBy_map newer (Run.name pre) runs, List.length_map]

theorem sortRuns_sorted (pre : List Char) (runs : List Run) :
    (sortBy (runNewer pre) runs).Pairwise (fun a b => newer (b.name pre) (a.name pre) = false) := by
  have := sortBy_sorted newer newer_trans newer_asymm newer_total (runs.map (Run.name pre))
  rw [← sortBy_map newer (Run.name pre) runs] at this
  exact (List.pairwise_map.mp this)

/-! ### the day pattern of latestToday -/

theorem escapeGlob_append : ∀ a b : List Char, escapeGlob (a ++ b) = escapeGlob a ++ escapeGlob b
  | [], _ => rfl
  | c :: a, b => by
    simp only [List.cons_append, escapeGlob]
    split <;> simp [escapeGlob_append a b]

theorem gmatch_ext (s : List Char) : gmatch extDat s = true ↔ s = extDat := by
  have := gmatch_escape extDat s
  rwa [escapeGlob_id _ ext_plain] at this

/-- what `prefix.YYYYMMDD*.*.dat` selects, for every path -/
theorem today_iff (pre d8 name : List Char) (hd : ∀ c ∈ d8, isMeta c = false) :
    gmatch (todayPattern pre d8) name = true ↔
      ∃ m1 m2, name = pre ++ '.' :: d8 ++ m1 ++ '.' :: m2 ++ extDat ∧ sep ∉ m1 ∧ sep ∉ m2 := by
  have hp : todayPattern pre d8 = escapeGlob (pre ++ '.' :: d8) ++ '*' :: '.' :: '*' :: extDat := by
    have h1 : escapeGlob ('.' :: d8) = '.' :: d8 :=
      escapeGlob_id _ (by
        intro c hc
        rcases List.mem_cons.mp hc with rfl | hc
        · decide
        · exact hd c hc)
    rw [escapeGlob_append, h1]; simp [todayPattern]
  rw [hp, gmatch_escape_append]
  have hdot : isMeta '.' = false := by decide
  constructor
  · rintro ⟨s', rfl, hg⟩
    rw [gmatch_star, gstar_iff] at hg
    obtain ⟨m1, t, rfl, hm1, ht⟩ := hg
    cases t with
    | nil => rw [gmatch_lit_nil _ _ hdot] at ht; cases ht
    | cons c t' =>
      rw [gmatch_lit _ _ _ _ hdot] at ht
      simp only [Bool.and_eq_true, beq_iff_eq] at ht
      obtain ⟨rfl, ht⟩ := ht
      rw [gmatch_star, gstar_iff] at ht
      obtain ⟨m2, t'', rfl, hm2, he⟩ := ht
      rw [gmatch_ext] at he
      subst he
      exact ⟨m1, m2, by simp [List.append_assoc], hm1, hm2⟩
  · rintro ⟨m1, m2, rfl, hm1, hm2⟩
    refine ⟨m1 ++ '.' :: m2 ++ extDat, by simp [List.append_assoc], ?_⟩
    rw [gmatch_star, gstar_iff]
    refine ⟨m1, '.' :: (m2 ++ extDat), by simp [List.append_assoc], hm1, ?_⟩
    rw [gmatch_lit _ _ _ _ hdot]
    simp only [beq_self_eq_true, Bool.true_and]
    rw [gmatch_star, gstar_iff]
    exact ⟨m2, extDat, rfl, hm2, (gmatch_ext _).mpr rfl⟩

theorem date8_plain (d : Civil) : ∀ c ∈ date8 d, isMeta c = false := by
  intro c hc
  simp only [date8, pad4, pad2, List.cons_append, List.nil_append, List.mem_cons, List.not_mem_nil, or_false] at hc
  rcases hc with rfl | rfl | rfl | rfl | rfl | rfl | rfl | rfl <;> exact digit_plain _

theorem date8_length (d : Civil) : (date8 d).length = 8 := rfl

theorem date8_inj (a b : Civil) (ha : a.Valid) (hb : b.Valid) :
    date8 a = date8 b ↔ (a.year = b.year ∧ a.month = b.month ∧ a.day = b.day) := by
  unfold Civil.Valid at ha hb
  simp only [date8, pad4, pad2, List.cons_append, List.nil_append, List.cons.injEq, digit_eq_iff, and_true]
  omega

theorem clock13_no_sep (t : Civil) : sep ∉ (clock13 t).drop 1 := by
  intro h
  simp only [clock13, pad2, pad3, List.cons_append, List.nil_append, List.drop_succ_cons, List.drop_zero,
    List.mem_cons, List.not_mem_nil, or_false] at h
  have e1 : sep ≠ ':' := by decide
  have e2 : sep ≠ '.' := by decide
  rcases h with h | h | h | h | h | h | h | h | h | h | h | h
  all_goals first | exact digit_ne_sep _ h.symm | exact e1 h | exact e2 h

theorem clock13_head (t : Civil) : clock13 t = '.' :: (clock13 t).drop 1 := rfl

/-- a file of the SAME DAG is selected iff its start date is the day asked for -/
theorem today_own (pre : List Char) (d t : Civil) (hd : d.Valid) (ht : t.Valid) (req : List Char) (c : Bool)
    (hr : sep ∉ req8 req) :
    gmatch (todayPattern pre (date8 d)) (fileName pre t req c) = true ↔
      (t.year = d.year ∧ t.month = d.month ∧ t.day = d.day) := by
  rw [today_iff _ _ _ (date8_plain d)]
  constructor
  · rintro ⟨m1, m2, e, _, _⟩
    rw [fileName_shape] at e
    simp only [render, List.append_assoc] at e
    have e' := List.append_cancel_left e
    simp only [List.cons.injEq, true_and, List.cons_append] at e'
    have := (List.append_inj e' (by rw [date8_length, date8_length])).1
    exact (date8_inj t d ht hd).mp this
  · intro h
    have hdt : date8 d = date8 t := ((date8_inj t d ht hd).mpr h).symm
    refine ⟨[], (clock13 t).drop 1 ++ '.' :: req8 req ++ (if c then twinSfx else []), ?_, by simp, ?_⟩
    · rw [fileName_shape, hdt]
      conv => lhs; rw [render, clock13_head]
      simp [tail, List.append_assoc]
    · intro hm
      have e2 : sep ≠ '.' := by decide
      have e3 : sep ∉ twinSfx := by decide
      rcases List.mem_append.mp hm with hm | hm
      · rcases List.mem_append.mp hm with hm | hm
        · exact clock13_no_sep t hm
        · rcases List.mem_cons.mp hm with hm | hm
          · exact e2 hm
          · exact hr hm
      · cases c
        · simp at hm
        · exact e3 (by simpa using hm)

/-- the last separator splits a path uniquely -/
theorem split_last_sep (a b x y : List Char) (hx : sep ∉ x) (hy : sep ∉ y) (e : a ++ sep :: x = b ++ sep :: y) :
    a = b ∧ x = y := by
  rcases List.append_eq_append_iff.mp e with ⟨a', rfl, h⟩ | ⟨c', rfl, h⟩
  · cases a' with
    | nil => simp at h; exact ⟨by simp, h⟩
    | cons z a'' =>
      exfalso
      simp only [List.cons_append, List.cons.injEq] at h
      exact hx (by rw [h.2]; simp)
  · cases c' with
    | nil => simp at h; exact ⟨by simp, h.symm⟩
    | cons z c'' =>
      exfalso
      simp only [List.cons_append, List.cons.injEq] at h
      exact hy (by rw [h.2]; simp)

theorem render_no_sep (t : Civil) : sep ∉ render t := by
  intro h
  simp only [render, date8, clock13, pad4, pad2, pad3, List.cons_append, List.nil_append,
    List.mem_cons, List.not_mem_nil, or_false] at h
  have e1 : sep ≠ ':' := by decide
  have e2 : sep ≠ '.' := by decide
  rcases h with h | h | h | h | h | h | h | h | h | h | h | h | h | h | h | h | h | h | h | h | h
  all_goals first | exact digit_ne_sep _ h.symm | exact e1 h | exact e2 h

/-- a file in ANOTHER directory is never selected -/
theorem today_other_dir (dir p dir' p' d8 : List Char) (t : Civil) (req : List Char) (c : Bool)
    (hd : ∀ c ∈ d8, isMeta c = false) (hd8 : sep ∉ d8) (hp : sep ∉ p) (hp' : sep ∉ p') (hr : sep ∉ req8 req)
    (hne : dir ≠ dir') :
    gmatch (todayPattern (dir ++ sep :: p) d8) (fileName (dir' ++ sep :: p') t req c) = false := by
  cases hg : gmatch (todayPattern (dir ++ sep :: p) d8) (fileName (dir' ++ sep :: p') t req c) with
  | false => rfl
  | true =>
    exfalso
    obtain ⟨m1, m2, e, h1, h2⟩ := (today_iff _ _ _ hd).mp hg
    rw [fileName_shape] at e
    have e2 : sep ≠ '.' := by decide
    have e3 : sep ∉ twinSfx := by decide
    have e4 : sep ∉ extDat := by decide
    have el : dir' ++ sep :: p' ++ '.' :: (render t ++ tail req c) = dir' ++ sep :: (p' ++ '.' :: (render t ++ tail req c)) := by
      simp
    have er : dir ++ sep :: p ++ '.' :: d8 ++ m1 ++ '.' :: m2 ++ extDat = dir ++ sep :: (p ++ '.' :: d8 ++ m1 ++ '.' :: m2 ++ extDat) := by
      simp
    rw [el, er] at e
    refine hne (split_last_sep _ _ _ _ ?_ ?_ e).1.symm
    · have ht := render_no_sep t
      simp only [tail, List.mem_append, List.mem_cons, not_or]
      refine ⟨hp', e2, ht, ⟨⟨e2, hr⟩, ?_⟩, e4⟩
      cases c
      · simp
      · simpa using e3
    · simp only [List.mem_append, List.mem_cons, not_or]
      exact ⟨⟨⟨⟨hp, e2, hd8⟩, h1⟩, e2, h2⟩, e4⟩


/-! ### the calendar: the day number is strictly monotone in (year, month, day) -/

theorem daysIn_eq (y m : Nat) : daysIn y m = daysInL (isLeap y) m := rfl
theorem dbm_eq (y m : Nat) : daysBeforeMonth y m = dbmL (isLeap y) m := rfl

theorem month_table : ∀ l : Bool, ∀ m, m < 13 → 1 ≤ m →
    dbmL l m + daysInL l m ≤ (if l then 366 else 365) ∧
    (∀ m', m' < 13 → m < m' → dbmL l m + daysInL l m ≤ dbmL l m') := by decide

theorem dby_succ (y : Nat) : daysBeforeYear (y + 1) = daysBeforeYear y + yearLen y := by
  unfold daysBeforeYear yearLen isLeap
  by_cases h4 : y % 4 = 0 <;> by_cases h100 : y % 100 = 0 <;> by_cases h400 : y % 400 = 0 <;>
    simp [h4, h100, h400] <;> omega

theorem dby_mono (y : Nat) : ∀ k, daysBeforeYear y + yearLen y ≤ daysBeforeYear (y + 1 + k)
  | 0 => by rw [dby_succ]; exact Nat.le_refl _
  | k + 1 => by
    have := dby_mono y k
    have e : y + 1 + (k + 1) = (y + 1 + k) + 1 := by omega
    rw [e, dby_succ]; omega

/-- day number since 0000-01-01 -/
def dayNo (t : Civil) : Nat := daysBeforeYear t.year + daysBeforeMonth t.year t.month + (t.day - 1)

theorem dayNo_lt (a b : Civil) (ha : a.Real) (hb : b.Real)
    (h : a.year < b.year ∨ (a.year = b.year ∧ (a.month < b.month ∨ (a.month = b.month ∧ a.day < b.day)))) :
    dayNo a < dayNo b := by
  obtain ⟨va, da⟩ := ha
  obtain ⟨vb, db⟩ := hb
  unfold Civil.Valid at va vb
  unfold dayNo
  rw [dbm_eq, dbm_eq]
  rw [daysIn_eq] at da db
  have ta := month_table (isLeap a.year) a.month (by omega) (by omega)
  rcases h with h | ⟨hy, h | ⟨hm, hd⟩⟩
  · have hm := dby_mono a.year (b.year - a.year - 1)
    have e : a.year + 1 + (b.year - a.year - 1) = b.year := by omega
    rw [e] at hm
    have := ta.1
    unfold yearLen at hm
    split at hm <;> simp_all <;> omega
  · have := ta.2 b.month (by omega) h
    rw [hy] at this da ⊢
    omega
  · rw [hy, hm]; omega

theorem epoch_le (t : Civil) (h : t.Valid) : 719528 ≤ dayNo t := by
  unfold Civil.Valid at h
  unfold dayNo daysBeforeYear; omega

theorem unix_lt_iff (a b : Civil) (ha : a.Real) (hb : b.Real) : unixMillis a < unixMillis b ↔ a.before b := by
  have ea := epoch_le a ha.1
  have eb := epoch_le b hb.1
  have h1 := dayNo_lt a b ha hb
  have h2 := dayNo_lt b a hb ha
  have h3 : a.year = b.year → a.month = b.month → a.day = b.day → dayNo a = dayNo b := by
    intro x y z; unfold dayNo; rw [x, y, z]
  obtain ⟨va, _⟩ := ha
  obtain ⟨vb, _⟩ := hb
  unfold Civil.Valid at va vb
  have xa : epochDay a = dayNo a - 719528 := rfl
  have xb : epochDay b = dayNo b - 719528 := rfl
  unfold unixMillis Civil.before
  rw [xa, xb]
  generalize dayNo a = na at *
  generalize dayNo b = nb at *
  by_cases hlt : a.year < b.year ∨ (a.year = b.year ∧ (a.month < b.month ∨ (a.month = b.month ∧ a.day < b.day)))
  · have := h1 hlt; omega
  · by_cases hgt : b.year < a.year ∨ (b.year = a.year ∧ (b.month < a.month ∨ (b.month = a.month ∧ b.day < a.day)))
    · have := h2 hgt; omega
    · have : a.year = b.year ∧ a.month = b.month ∧ a.day = b.day := by omega
      have e : na = nb := h3 this.1 this.2.1 this.2.2
      omega


/-! ### `ofUnixMillis` is the inverse of `unixMillis` -/

theorem splitYear_spec : ∀ fuel y d, d < 365 * fuel →
    daysBeforeYear (splitYear fuel y d).1 + (splitYear fuel y d).2 = daysBeforeYear y + d ∧
    (splitYear fuel y d).2 < yearLen (splitYear fuel y d).1 ∧ y ≤ (splitYear fuel y d).1
  | 0, _, _, h => by omega
  | fuel + 1, y, d, h => by
    unfold splitYear
    by_cases hd : d < yearLen y
    · simp [hd]
    · simp only [hd, if_false]
      have hy : 365 ≤ yearLen y := by unfold yearLen; split <;> omega
      obtain ⟨h1, h2, h3⟩ := splitYear_spec fuel (y + 1) (d - yearLen y) (by omega)
      refine ⟨?_, h2, by omega⟩
      rw [h1, dby_succ]; omega

set_option maxRecDepth 20000 in
theorem splitMonth_spec : ∀ l : Bool, ∀ d, d < 366 → d < (if l then 366 else 365) →
    dbmL l (splitMonthL l 11 1 d).1 + (splitMonthL l 11 1 d).2 = d ∧
    (splitMonthL l 11 1 d).2 < daysInL l (splitMonthL l 11 1 d).1 ∧
    1 ≤ (splitMonthL l 11 1 d).1 ∧ (splitMonthL l 11 1 d).1 ≤ 12 := by decide


theorem dby_le (a b : Nat) (h : a ≤ b) : daysBeforeYear a ≤ daysBeforeYear b := by
  rcases Nat.eq_or_lt_of_le h with rfl | hlt
  · exact Nat.le_refl _
  · have := dby_mono a (b - a - 1)
    have e : a + 1 + (b - a - 1) = b := by omega
    rw [e] at this; omega

/-- every instant from 2000-01-01T00:00:00.000Z to 2999-12-31T23:59:59.999Z has a calendar date, and
    `unixMillis` gives the instant back -/
theorem ofUnix_spec (ms : Nat) (hlo : 946684800000 ≤ ms) (hhi : ms < 32503680000000) :
    (ofUnixMillis ms).Real ∧ unixMillis (ofUnixMillis ms) = ms := by
  have hsy := splitYear_spec (ms / 86400000 / 365 + 1) 1970 (ms / 86400000) (by omega)
  generalize hsyd : splitYear (ms / 86400000 / 365 + 1) 1970 (ms / 86400000) = sy at hsy
  obtain ⟨y, d⟩ := sy
  simp only at hsy
  obtain ⟨s1, s2, s3⟩ := hsy
  have h1970 : daysBeforeYear 1970 = 719528 := by decide
  rw [h1970] at s1
  have hyl : yearLen y = if isLeap y then 366 else 365 := rfl
  have hsm := splitMonth_spec (isLeap y) d (by rw [hyl] at s2; split at s2 <;> omega) (by rw [← hyl]; exact s2)
  generalize hsmd : splitMonthL (isLeap y) 11 1 d = sm at hsm
  obtain ⟨m, d'⟩ := sm
  simp only at hsm
  obtain ⟨m1, m2, m3, m4⟩ := hsm
  have hof : ofUnixMillis ms = Civil.mk y m (d' + 1) (ms % 86400000 / 3600000)
      (ms % 86400000 / 60000 % 60) (ms % 86400000 / 1000 % 60) (ms % 86400000 % 1000) := by
    simp only [ofUnixMillis, hsyd, hsmd]
  have hy1 : 2000 ≤ y := by
    refine Nat.le_of_not_lt (fun hlt => ?_)
    have := dby_mono y (2000 - y - 1)
    have e : y + 1 + (2000 - y - 1) = 2000 := by omega
    rw [e] at this
    have h2000 : daysBeforeYear 2000 = 730485 := by decide
    omega
  have hy2 : y ≤ 2999 := by
    refine Nat.le_of_not_lt (fun hlt => ?_)
    have := dby_le 3000 y (by omega)
    have h3000 : daysBeforeYear 3000 = 1095728 := by decide
    omega
  have hdl : daysInL (isLeap y) m ≤ 31 := by
    unfold daysInL; split <;> (try split) <;> omega
  rw [hof]
  refine ⟨⟨?_, ?_⟩, ?_⟩
  · unfold Civil.Valid; simp only; omega
  · show d' + 1 ≤ daysInL (isLeap y) m; omega
  · unfold unixMillis epochDay
    simp only
    have : daysBeforeMonth y m = dbmL (isLeap y) m := rfl
    rw [this]
    omega


/-! ### the comparator orders the files of one DAG by whole name - for EVERY prefix, StampFree or not -/

theorem matchSeq_length : ∀ (ks : List Cls) (s : List Char), matchSeq ks s = true → ks.length ≤ s.length
  | [], _, _ => by simp
  | _ :: _, [], h => by simp [matchSeq] at h
  | _ :: ks, _ :: cs, h => by
    simp only [matchSeq, Bool.and_eq_true] at h
    have := matchSeq_length ks cs h.2
    simp; omega

theorem suffix_dot : ∀ (a pre b : List Char), pre ++ ['.'] = a ++ b → b ≠ [] → ∃ w, b = w ++ ['.']
  | [], pre, b, e, _ => ⟨pre, by simpa using e.symm⟩
  | c :: a, [], b, e, hb => by
    exfalso
    simp only [List.nil_append, List.cons_append, List.cons.injEq] at e
    have : a ++ b = [] := e.2.symm
    exact hb (List.append_eq_nil_iff.mp this).2
  | c :: a, d :: pre, b, e, hb => by
    simp only [List.cons_append, List.cons.injEq] at e
    exact suffix_dot a pre b e.2 hb

/-- positions at which the mandatory part does not match are skipped -/
theorem findStamp_skip : ∀ (u z : List Char),
    (∀ u1 v1, u = u1 ++ v1 → v1 ≠ [] → matchSeq coreCls (v1 ++ z) = false) → findStamp (u ++ z) = findStamp z
  | [], _, _ => rfl
  | c :: u, z, h => by
    have h0 : matchSeq coreCls ((c :: u) ++ z) = false := h [] (c :: u) rfl (by simp)
    have : stampLen (c :: (u ++ z)) = none := by
      unfold stampLen; simp only [List.cons_append] at h0; rw [h0]; rfl
    rw [List.cons_append, findStamp_cons, this]
    exact findStamp_skip u z (fun u1 v1 e hv => h (c :: u1) v1 (by simp [e]) hv)

/-- the leftmost position where the mandatory part matches -/
theorem findStamp_leftmost : ∀ s : List Char, findStamp s ≠ [] →
    ∃ u v, s = u ++ v ∧ matchSeq coreCls v = true ∧
      (∀ u1 v1, u = u1 ++ v1 → v1 ≠ [] → matchSeq coreCls (v1 ++ v) = false)
  | [], h => absurd rfl h
  | c :: cs, h => by
    rcases stampLen_cases (c :: cs) with ⟨hm, hl⟩ | ⟨hm, _⟩
    · rw [findStamp_cons, hl] at h
      obtain ⟨u, v, e, hv, hall⟩ := findStamp_leftmost cs h
      refine ⟨c :: u, v, by simp [e], hv, ?_⟩
      intro u1 v1 e1 hne
      cases u1 with
      | nil =>
        simp only [List.nil_append] at e1
        rw [← e1, List.cons_append, ← e]; exact hm
      | cons d u1' =>
        simp only [List.cons_append, List.cons.injEq] at e1
        exact hall u1' v1 e1.2 hne
    · exact ⟨[], c :: cs, rfl, hm, fun u1 v1 e hne => by
        have := List.append_eq_nil_iff.mp e.symm
        exact absurd this.2 hne⟩

theorem frac_render (t : Civil) (x : List Char) : matchSeq fracCls (render t ++ x) = false := by
  simp [render, date8, pad4, fracCls, matchSeq, digit_dot]

theorem frac_dot_render (t : Civil) (x : List Char) : matchSeq fracCls ('.' :: (render t ++ x)) = true := by
  have hdd : Cls.ok .dot '.' = true := by decide
  simp [render, date8, pad4, fracCls, matchSeq, digit_dig, hdd]

theorem frac_dot2 (a : Char) (z : List Char) : matchSeq fracCls (a :: '.' :: z) = false := by
  have : Cls.ok .dig '.' = false := by decide
  simp [fracCls, matchSeq, this]

theorem frac_dot3 (a b : Char) (z : List Char) : matchSeq fracCls (a :: b :: '.' :: z) = false := by
  have : Cls.ok .dig '.' = false := by decide
  simp [fracCls, matchSeq, this]

theorem findStamp_head (v : List Char) (hm : matchSeq coreCls v = true) (hv : v ≠ []) :
    findStamp v = if matchSeq fracCls (v.drop 17) then v.take 21 else v.take 17 := by
  cases v with
  | nil => exact absurd rfl hv
  | cons c cs =>
    rw [findStamp_cons]; unfold stampLen; rw [hm]; simp only [if_true]
    cases matchSeq fracCls ((c :: cs).drop 17) <;> rfl

/-- the stamp found in `pre.<stamp><x>` when `pre.` itself contains a match: either a string that does not depend on
    the real stamp at all, or such a string followed by the first three digits of the year -/
theorem findStamp_stolen (pre : List Char) (hnf : findStamp (pre ++ ['.']) ≠ []) :
    ∃ k : List Char, (∀ (t : Civil) (x : List Char), findStamp (pre ++ '.' :: (render t ++ x)) = k) ∨
      (∀ (t : Civil) (x : List Char), findStamp (pre ++ '.' :: (render t ++ x)) = k ++ (render t).take 3) := by
  obtain ⟨u, v, e, hm, hall⟩ := findStamp_leftmost _ hnf
  have hvne : v ≠ [] := by intro h; subst h; simp [matchSeq, coreCls] at hm
  have hlen : 17 ≤ v.length := matchSeq_length _ _ hm
  -- in the long name the leftmost match is at the same place
  have hsame : ∀ (t : Civil) (x : List Char),
      findStamp (pre ++ '.' :: (render t ++ x)) = findStamp (v ++ (render t ++ x)) := by
    intro t x
    have e1 : pre ++ '.' :: (render t ++ x) = u ++ (v ++ (render t ++ x)) := by
      have : pre ++ '.' :: (render t ++ x) = (pre ++ ['.']) ++ (render t ++ x) := by simp
      rw [this, e, List.append_assoc]
    rw [e1]
    apply findStamp_skip
    intro u1 v1 eu hne
    obtain ⟨w, hw⟩ := suffix_dot u1 pre (v1 ++ v) (by rw [e, eu, List.append_assoc]) (by simp [hne])
    have := no_straddle w t x (by rw [← hw]; exact hall u1 v1 eu hne)
    rw [← List.append_assoc, hw]; simpa using this
  have hlong : ∀ (t : Civil) (x : List Char), matchSeq coreCls (v ++ (render t ++ x)) = true := by
    intro t x; rw [matchSeq_append_long coreCls v _ hlen]; exact hm
  have hhead : ∀ (t : Civil) (x : List Char), findStamp (v ++ (render t ++ x)) =
      if matchSeq fracCls (v.drop 17 ++ (render t ++ x)) then (v ++ (render t ++ x)).take 21
      else v.take 17 := by
    intro t x
    rw [findStamp_head _ (hlong t x) (by simp [hvne]), List.drop_append_of_le_length hlen,
      List.take_append_of_le_length hlen]
  obtain ⟨w, hw⟩ := suffix_dot u pre v e hvne
  -- the part of v behind the mandatory 17 characters
  have hsplit : v = v.take 17 ++ v.drop 17 := (List.take_append_drop 17 v).symm
  generalize hd : v.drop 17 = v' at *
  have hv'len : v'.length + 17 = v.length := by rw [← hd, List.length_drop]; omega
  match v', hd with
  | [], hd =>
    refine ⟨v.take 17, Or.inl (fun t x => ?_)⟩
    rw [hsame, hhead, List.nil_append, frac_render]; rfl
  | [a], hd =>
    have ha : a = '.' := by
      have h1 : v = v.take 17 ++ [a] := hsplit
      rw [hw] at h1
      have := congrArg List.getLast? h1
      simpa using this.symm
    subst ha
    refine ⟨v, Or.inr (fun t x => ?_)⟩
    rw [hsame, hhead, List.singleton_append, frac_dot_render]
    simp only [if_true]
    have hl : v.length = 18 := by simp at hv'len; omega
    rw [List.take_append, List.take_of_length_le (by omega), hl]
    show v ++ List.take 3 (render t ++ x) = v ++ List.take 3 (render t)
    rw [List.take_append_of_le_length (by rw [render_length]; omega)]
  | [a, b], hd =>
    have hb : b = '.' := by
      have h1 : v = v.take 17 ++ [a, b] := hsplit
      rw [hw] at h1
      have := congrArg List.getLast? h1
      simpa using this.symm
    subst hb
    refine ⟨v.take 17, Or.inl (fun t x => ?_)⟩
    rw [hsame, hhead]
    have : [a, '.'] ++ (render t ++ x) = a :: '.' :: (render t ++ x) := rfl
    rw [this, frac_dot2]; rfl
  | [a, b, c], hd =>
    have hc : c = '.' := by
      have h1 : v = v.take 17 ++ [a, b, c] := hsplit
      rw [hw] at h1
      have := congrArg List.getLast? h1
      simpa using this.symm
    subst hc
    refine ⟨v.take 17, Or.inl (fun t x => ?_)⟩
    rw [hsame, hhead]
    have : [a, b, '.'] ++ (render t ++ x) = a :: b :: '.' :: (render t ++ x) := rfl
    rw [this, frac_dot3]; rfl
  | a :: b :: c :: d :: rest, hd =>
    refine ⟨if matchSeq fracCls (a :: b :: c :: d :: rest) then v.take 21 else v.take 17, Or.inl (fun t x => ?_)⟩
    rw [hsame, hhead, matchSeq_append_long fracCls (a :: b :: c :: d :: rest) _ (by simp [fracCls])]
    have hl : 21 ≤ v.length := by simp at hv'len; omega
    rw [List.take_append_of_le_length hl]


/-- whole-name order of two files of one DAG = order of their start times, then of what follows the stamp -/
theorem name_order_chrono (pre : List Char) (t1 t2 : Civil) (h1 : t1.Valid) (h2 : t2.Valid) (x1 x2 : List Char) :
    slt (pre ++ '.' :: (render t2 ++ x2)) (pre ++ '.' :: (render t1 ++ x1)) =
      if t1 = t2 then slt x2 x1 else decide (t2.before t1) := by
  rw [slt_pre_dot, slt_block (render t2) (render t1) _ _ rfl]
  by_cases e : t1 = t2
  · subst e; simp
  · have : ¬ render t2 = render t1 := fun x => e ((render_inj t2 t1 h2 h1).mp x).symm
    simp only [e, this, if_false]
    exact render_lt t2 t1 h2 h1

/-- `filterLatest`'s comparator on two files of one DAG is whole-name order, whatever the prefix: a match stolen by
    the prefix is either the same for both names (then the comparator falls back to the names) or differs only in the
    first three digits of the year (then it orders by those, like the names do) -/
theorem newer_any_prefix (pre : List Char) (t1 t2 : Civil) (h1 : t1.Valid) (h2 : t2.Valid) (x1 x2 : List Char) :
    newer (pre ++ '.' :: (render t1 ++ x1)) (pre ++ '.' :: (render t2 ++ x2)) =
      slt (pre ++ '.' :: (render t2 ++ x2)) (pre ++ '.' :: (render t1 ++ x1)) := by
  by_cases hf : findStamp (pre ++ ['.']) = []
  · rw [newer_def, findStamp_pre pre t1 x1 h1 hf, findStamp_pre pre t2 x2 h2 hf, name_order_chrono pre t1 t2 h1 h2]
    by_cases e : t1 = t2
    · subst e
      simp only [ne_eq, not_true_eq_false, if_false, if_true]
    · have : ¬ render t1 = render t2 := fun x => e ((render_inj t1 t2 h1 h2).mp x)
      simp only [ne_eq, this, not_false_eq_true, if_true, e, if_false]
      exact render_lt t2 t1 h2 h1
  · obtain ⟨k, hk | hk⟩ := findStamp_stolen pre hf
    · rw [newer_def, hk t1 x1, hk t2 x2]; simp
    · rw [newer_def, hk t1 x1, hk t2 x2]
      by_cases e : (render t1).take 3 = (render t2).take 3
      · rw [e]; simp
      · have e' : ¬ k ++ (render t1).take 3 = k ++ (render t2).take 3 := fun x => e (List.append_cancel_left x)
        simp only [ne_eq, e', not_false_eq_true, if_true]
        rw [slt_append_left, slt_pre_dot]
        have s1 : render t1 ++ x1 = (render t1).take 3 ++ ((render t1).drop 3 ++ x1) := by
          rw [← List.append_assoc, List.take_append_drop]
        have s2 : render t2 ++ x2 = (render t2).take 3 ++ ((render t2).drop 3 ++ x2) := by
          rw [← List.append_assoc, List.take_append_drop]
        rw [s1, s2, slt_block ((render t2).take 3) ((render t1).take 3) _ _ rfl]
        have e2 : ¬ (render t2).take 3 = (render t1).take 3 := fun x => e x.symm
        simp [e2]

/-- … hence, for every prefix: later start first; equal start times: greater rest-of-name first -/
theorem newer_names_any (pre : List Char) (t1 t2 : Civil) (h1 : t1.Valid) (h2 : t2.Valid)
    (r1 r2 : List Char) (c1 c2 : Bool) :
    newer (fileName pre t1 r1 c1) (fileName pre t2 r2 c2) =
      if t1 = t2 then slt (tail r2 c2) (tail r1 c1) else decide (t2.before t1) := by
  rw [fileName_shape, fileName_shape, newer_any_prefix pre t1 t2 h1 h2, name_order_chrono pre t1 t2 h1 h2]

end BdModel.Hist.Stamp
