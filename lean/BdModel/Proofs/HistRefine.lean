import BdModel.Proofs.Hist
/-
  C06, operation level: the record-layer store REFINES the run-log specification of the property
  (the reference `Spec` of lib/hist.py: a log of runs {start time, request id, last status, age}).
  This file: the specification (`SRun`, `Spec`, its operations), the operations of both sides as data
  (`HOp`, `applyStore`, `applySpec`), what the callers guarantee (`Admissible`), the simulation relation
  (`Sim`), the simulation step, and the three queries read off the specification.
  Property theorems: Props/C06.lean. Core-only.
-/
namespace BdModel.Hist

/-! ### the specification: a log of runs -/

/-- one run as the property speaks of it (`run` in `Spec.apply` of lib/hist.py) -/
structure SRun where
  dag    : Nat
  t      : Nat                   -- start time (ms)
  req8   : Nat                   -- the part of the request id that goes into the file name
  req    : Nat                   -- full request id
  last   : Option Nat := none    -- payload of the last recorded status; none = nothing recorded yet
  age    : Nat := 0              -- days since the run's record was last modified
  holder : Option Nat := none    -- recording process that still has the run open (`Spec.open[k]`)
  comp   : Bool := false         -- bookkeeping only: the recorder was closed after a status was written
deriving DecidableEq, Repr

abbrev Spec := List SRun

/-- the status a run shows to the queries -/
def SRun.status (r : SRun) : Option Line := r.last.map (fun p => ⟨r.req, p⟩)

/-- `Spec.recorded(d)`: the runs of `d` that hold a status -/
def Spec.recorded (sp : Spec) (d : Nat) : List SRun := sp.filter (fun r => r.dag == d && r.last.isSome)

/-- `open.pop(k)`: process `w` no longer records anything -/
def Spec.release (sp : Spec) (w : Nat) : Spec :=
  sp.map (fun r => if r.holder = some w then { r with holder := none } else r)

/-- `open`: a new run is appended to the log; `open[k] = run` (an earlier run of `k` is let go) -/
def Spec.openRun (sp : Spec) (w d t r8 req : Nat) : Spec :=
  Spec.release sp w ++ [{ dag := d, t := t, req8 := r8, req := req, holder := some w }]

/-- `write`: the run held by `w` gets a new last status -/
def Spec.write (sp : Spec) (w : Nat) (p : Nat) : Spec :=
  sp.map (fun r => if r.holder = some w then { r with last := some p, age := 0 } else r)

/-- `close`: the run is let go; compaction rewrites its record if there is a status -/
def Spec.close (sp : Spec) (w : Nat) : Spec :=
  sp.map (fun r => if r.holder = some w then
    (if r.last.isSome then { r with holder := none, comp := true, age := 0 } else { r with holder := none }) else r)

/-- `abandon`: the recorder is killed, no compaction -/
def Spec.abandon (sp : Spec) (w : Nat) : Spec := Spec.release sp w

/-- `update`: a manual status for the recorded run of `d` with that request id -/
def Spec.update (sp : Spec) (d : Nat) (l : Line) : Spec :=
  sp.map (fun r => if r.dag = d ∧ r.req = l.req ∧ r.last.isSome then { r with last := some l.pay, age := 0 } else r)

/-- `rename`: the log of `d` is appended to that of `d2` -/
def Spec.rename (sp : Spec) (d d2 : Nat) : Spec :=
  if d = d2 then sp else sp.map (fun r => if r.dag = d then { r with dag := d2 } else r)

def Spec.age (sp : Spec) (d days : Nat) : Spec :=
  sp.map (fun r => if r.dag = d then { r with age := r.age + days } else r)

/-- `removeOld`: runs of `d` not modified for `days` days are forgotten, except those still being
    recorded (`or r in self.open.values()`); `removeAll` = `removeOld 0` -/
def Spec.removeOld (sp : Spec) (d days : Nat) : Spec :=
  sp.filter (fun r => !(r.dag == d && decide (r.age ≥ days) && r.holder.isNone))

/-! ### operations of both sides as data -/

inductive HOp
  | openRun (w d t r8 req : Nat)
  | write (w : Nat) (l : Line)
  | close (w : Nat)
  | abandon (w : Nat)
  | update (d : Nat) (l : Line)
  | rename (d d2 : Nat)
  | age (d days : Nat)
  | removeOld (d days : Nat)
deriving DecidableEq, Repr

/-- the recorder is killed: its entry is dropped, nothing is compacted (Driver/Hist.lean, `abandon`) -/
def abandon (s : Store) (w : Nat) : Store := { s with writers := s.writers.filter (fun p => p.1 != w) }

def applyStore (s : Store) : HOp → Store
  | .openRun w d t r8 _ => openRun s w d t r8
  | .write w l => write s w l
  | .close w => close s w
  | .abandon w => abandon s w
  | .update d l => (update s d l).1
  | .rename d d2 => rename s d d2
  | .age d days => ageFiles s d days
  | .removeOld d days => removeOld s d days

def applySpec (sp : Spec) : HOp → Spec
  | .openRun w d t r8 req => Spec.openRun sp w d t r8 req
  | .write w l => Spec.write sp w l.pay
  | .close w => Spec.close sp w
  | .abandon w => Spec.abandon sp w
  | .update d l => Spec.update sp d l
  | .rename d d2 => Spec.rename sp d d2
  | .age d days => Spec.age sp d days
  | .removeOld d days => Spec.removeOld sp d days

/-! ### what the callers guarantee -/

/-- two runs that could be confused inside one DAG: same request id, or same file name
    (start time and the request-id prefix that goes into the name) -/
def Clash (a b : SRun) : Prop := a.dag = b.dag ∧ (a.req = b.req ∨ (a.t = b.t ∧ a.req8 = b.req8))

instance (a b : SRun) : Decidable (Clash a b) := by unfold Clash; infer_instance

/-- side condition of one operation, a decidable statement about the specification state alone:
    * `openRun`: no run of the DAG has the new run's request id or its (start time, req8) name;
    * `write`: a recorder writes statuses of its own run (the request id of a run never changes);
    * `rename d d2` (d ≠ d2): no run of `d` is still being recorded, and no run of `d` has the request
      id or the (start time, req8) name of a run of `d2`;
    * `removeOld d days`: no run of `d` that is old enough to be removed is still being recorded;
    * `close`, `abandon`, `update`, `age`: nothing. -/
def Admissible (sp : Spec) : HOp → Prop
  | .openRun _ d t r8 req => ∀ r ∈ sp, r.dag = d → ¬ (r.req = req ∨ (r.t = t ∧ r.req8 = r8))
  | .write w l => ∀ r ∈ sp, r.holder = some w → r.req = l.req
  | .rename d d2 => d ≠ d2 →
      (∀ r ∈ sp, r.dag = d → r.holder = none) ∧
      (∀ a ∈ sp, ∀ b ∈ sp, a.dag = d → b.dag = d2 → ¬ (a.req = b.req ∨ (a.t = b.t ∧ a.req8 = b.req8)))
  | .removeOld d days => ∀ r ∈ sp, r.dag = d → r.age ≥ days → r.holder = none
  | _ => True

instance (sp : Spec) (op : HOp) : Decidable (Admissible sp op) := by
  cases op <;> unfold Admissible <;> infer_instance

/-- every operation of the sequence is admissible in the specification state it is applied to -/
def AdmissibleSeq : Spec → List HOp → Prop
  | _, [] => True
  | sp, op :: ops => Admissible sp op ∧ AdmissibleSeq (applySpec sp op) ops

instance : (sp : Spec) → (ops : List HOp) → Decidable (AdmissibleSeq sp ops)
  | _, [] => isTrue trivial
  | sp, op :: ops =>
    have := instDecidableAdmissibleSeq (applySpec sp op) ops
    by unfold AdmissibleSeq; infer_instance

/-! ### the simulation relation -/

/-- name of the run's original file -/
def SRun.origKey (r : SRun) : Key := ⟨r.dag, r.t, r.req8, false⟩

/-- name of the run's effective file: the original, or the `_c` twin once the recorder was closed
    after a status was written -/
def SRun.fileKey (r : SRun) : Key := ⟨r.dag, r.t, r.req8, r.comp⟩

/-- file `f` is the record of run `r`: it has the run's name, its modification age, and its last
    complete line is the run's last status (no complete line iff nothing was recorded) -/
structure Matches (f : RunFile) (r : SRun) : Prop where
  key : f.key = r.fileKey
  age : f.age = r.age
  status : parse f = r.status

/-- bookkeeping of one run: a run that is still being recorded has not been compacted, and a
    compacted run holds a status -/
def WFRun (r : SRun) : Prop := (r.holder ≠ none → r.comp = false) ∧ (r.comp = true → r.last ≠ none)

/-- **simulation relation**: every run of the specification has a file that is its record, every file
    of the store is the record of a run, different files have different names, no two runs of the
    specification can be confused, and the recorders of both sides hold the same runs. -/
structure Sim (s : Store) (sp : Spec) : Prop where
  run_file : ∀ r ∈ sp, ∃ f ∈ s.files, Matches f r
  file_run : ∀ f ∈ s.files, ∃ r ∈ sp, Matches f r
  key_inj : ∀ f ∈ s.files, ∀ g ∈ s.files, f.key = g.key → f = g
  distinct : sp.Pairwise (fun a b => ¬ Clash a b)
  wf : ∀ r ∈ sp, WFRun r
  writer : ∀ w k, writerKey s w = some k ↔ ∃ r ∈ sp, r.holder = some w ∧ k = r.origKey
  holder_unique : ∀ a ∈ sp, ∀ b ∈ sp, ∀ w, a.holder = some w → b.holder = some w → a = b

theorem sim_init : Sim {} [] := by
  constructor <;> simp [writerKey]

/-! ### helpers -/

theorem Clash.symm {a b : SRun} (h : Clash a b) : Clash b a := by
  unfold Clash at *; omega

theorem eq_of_pairwise_not {α} {R : α → α → Prop} (hsym : ∀ a b, R a b → R b a) {l : List α}
    (hp : l.Pairwise (fun a b => ¬ R a b)) {a b : α} (ha : a ∈ l) (hb : b ∈ l) (h : R a b) : a = b := by
  induction l with
  | nil => cases ha
  | cons x xs ih =>
    have hx := List.pairwise_cons.mp hp
    rcases List.mem_cons.mp ha with ha' | ha' <;> rcases List.mem_cons.mp hb with hb' | hb'
    · rw [ha', hb']
    · subst ha'; exact absurd h (hx.1 b hb')
    · subst hb'; exact absurd (hsym _ _ h) (hx.1 a ha')
    · exact ih hx.2 ha' hb'

theorem Sim.eq_of_clash {s sp} (h : Sim s sp) {a b : SRun} (ha : a ∈ sp) (hb : b ∈ sp) (hc : Clash a b) : a = b :=
  eq_of_pairwise_not (fun _ _ => Clash.symm) h.distinct ha hb hc

theorem clash_of_fileKey {a b : SRun} (h : a.fileKey = b.fileKey) : Clash a b := by
  simp only [SRun.fileKey, Key.mk.injEq] at h
  exact ⟨h.1, Or.inr ⟨h.2.1, h.2.2.1⟩⟩

theorem Matches.fields {f : RunFile} {r : SRun} (h : Matches f r) :
    f.dag = r.dag ∧ f.stamp = r.t ∧ f.req8 = r.req8 ∧ f.comp = r.comp := by
  have := h.key
  simp only [RunFile.key, SRun.fileKey, Key.mk.injEq] at this
  exact this

/-- the run a file belongs to is unique -/
theorem Sim.run_unique {s sp} (h : Sim s sp) {f : RunFile} {a b : SRun} (ha : a ∈ sp) (hb : b ∈ sp)
    (ma : Matches f a) (mb : Matches f b) : a = b :=
  h.eq_of_clash ha hb (clash_of_fileKey (by rw [← ma.key, mb.key]))

/-- the record of a run is unique -/
theorem Sim.file_unique {s sp} (h : Sim s sp) {f g : RunFile} {a : SRun} (hf : f ∈ s.files) (hg : g ∈ s.files)
    (mf : Matches f a) (mg : Matches g a) : f = g :=
  h.key_inj f hf g hg (by rw [mf.key, mg.key])

/-- the relation looks at the files of the store as a set, and at its recorders -/
theorem Sim.congr {s s' : Store} {sp} (h : Sim s sp) (hf : ∀ f, f ∈ s'.files ↔ f ∈ s.files)
    (hw : s'.writers = s.writers) : Sim s' sp := by
  have hwk : ∀ w, writerKey s' w = writerKey s w := fun w => by simp [writerKey, hw]
  exact {
    run_file := fun r hr => by obtain ⟨f, hf', m⟩ := h.run_file r hr; exact ⟨f, (hf f).mpr hf', m⟩
    file_run := fun f hf' => h.file_run f ((hf f).mp hf')
    key_inj := fun f hf' g hg => h.key_inj f ((hf f).mp hf') g ((hf g).mp hg)
    distinct := h.distinct
    wf := h.wf
    writer := fun w k => by rw [hwk]; exact h.writer w k
    holder_unique := h.holder_unique }

/-- both sides are transformed file by file / run by run -/
theorem Sim.map {s : Store} {sp : Spec} (h : Sim s sp) (F : RunFile → RunFile) (G : SRun → SRun)
    (ws : List (Nat × Key))
    (hM : ∀ f ∈ s.files, ∀ r ∈ sp, Matches f r → Matches (F f) (G r))
    (hC : ∀ a ∈ sp, ∀ b ∈ sp, Clash (G a) (G b) → Clash a b)
    (hwf : ∀ r ∈ sp, WFRun (G r))
    (hwr : ∀ w k, writerKey ⟨s.files.map F, ws⟩ w = some k ↔ ∃ r ∈ sp, (G r).holder = some w ∧ k = (G r).origKey)
    (hhu : ∀ a ∈ sp, ∀ b ∈ sp, ∀ w, (G a).holder = some w → (G b).holder = some w → a = b) :
    Sim ⟨s.files.map F, ws⟩ (sp.map G) := by
  refine ⟨?_, ?_, ?_, ?_, ?_, ?_, ?_⟩
  · intro r' hr'
    obtain ⟨r, hr, rfl⟩ := List.mem_map.mp hr'
    obtain ⟨f, hf, m⟩ := h.run_file r hr
    exact ⟨F f, List.mem_map.mpr ⟨f, hf, rfl⟩, hM f hf r hr m⟩
  · intro f' hf'
    obtain ⟨f, hf, rfl⟩ := List.mem_map.mp hf'
    obtain ⟨r, hr, m⟩ := h.file_run f hf
    exact ⟨G r, List.mem_map.mpr ⟨r, hr, rfl⟩, hM f hf r hr m⟩
  · intro f' hf' g' hg' hk
    obtain ⟨a, ha, rfl⟩ := List.mem_map.mp hf'
    obtain ⟨b, hb, rfl⟩ := List.mem_map.mp hg'
    obtain ⟨ra, hra, ma⟩ := h.file_run a ha
    obtain ⟨rb, hrb, mb⟩ := h.file_run b hb
    have hk' : (G ra).fileKey = (G rb).fileKey := by
      rw [← (hM a ha ra hra ma).key, ← (hM b hb rb hrb mb).key]; exact hk
    have : ra = rb := h.eq_of_clash hra hrb (hC ra hra rb hrb (clash_of_fileKey hk'))
    subst this
    rw [h.file_unique ha hb ma mb]
  · rw [List.pairwise_map]
    exact List.Pairwise.imp_of_mem (fun ha hb hn hc => hn (hC _ ha _ hb hc)) h.distinct
  · intro r' hr'
    obtain ⟨r, hr, rfl⟩ := List.mem_map.mp hr'
    exact hwf r hr
  · intro w k
    rw [hwr]
    constructor
    · rintro ⟨r, hr, h1, h2⟩; exact ⟨G r, List.mem_map.mpr ⟨r, hr, rfl⟩, h1, h2⟩
    · rintro ⟨r', hr', h1, h2⟩
      obtain ⟨r, hr, rfl⟩ := List.mem_map.mp hr'
      exact ⟨r, hr, h1, h2⟩
  · intro a' ha' b' hb' w h1 h2
    obtain ⟨a, ha, rfl⟩ := List.mem_map.mp ha'
    obtain ⟨b, hb, rfl⟩ := List.mem_map.mp hb'
    rw [hhu a ha b hb w h1 h2]

/-! ### recorders -/

set_option linter.unusedSimpArgs false in
theorem writerKey_filter (fs : List RunFile) (ws : List (Nat × Key)) (w w' : Nat) :
    writerKey ⟨fs, ws.filter (fun p => p.1 != w)⟩ w' = if w' = w then none else writerKey ⟨fs, ws⟩ w' := by
  simp only [writerKey]
  induction ws with
  | nil => simp
  | cons p ps ih =>
    by_cases hp : p.1 = w <;> by_cases hw : w' = w <;> by_cases hpw : p.1 = w' <;>
      simp_all [List.filter_cons, List.find?_cons]

theorem Sim.key_iff {s sp} (h : Sim s sp) {f : RunFile} {r r0 : SRun} (hr : r ∈ sp) (hr0 : r0 ∈ sp)
    (m : Matches f r) : f.key = r0.fileKey ↔ r = r0 := by
  constructor
  · intro hk
    exact h.eq_of_clash hr hr0 (clash_of_fileKey (by rw [← m.key, hk]))
  · rintro rfl; exact m.key

/-- the runs keep their recorders -/
theorem Sim.writers_keep {s sp} (h : Sim s sp) (G : SRun → SRun) (fs : List RunFile)
    (hG : ∀ r ∈ sp, (G r).holder = r.holder ∧ (r.holder ≠ none → (G r).origKey = r.origKey)) :
    (∀ w k, writerKey ⟨fs, s.writers⟩ w = some k ↔ ∃ r ∈ sp, (G r).holder = some w ∧ k = (G r).origKey) ∧
    (∀ a ∈ sp, ∀ b ∈ sp, ∀ w, (G a).holder = some w → (G b).holder = some w → a = b) := by
  constructor
  · intro w k
    have : writerKey ⟨fs, s.writers⟩ w = writerKey s w := rfl
    rw [this, h.writer]
    constructor
    · rintro ⟨r, hr, h1, h2⟩
      obtain ⟨g1, g2⟩ := hG r hr
      exact ⟨r, hr, by rw [g1, h1], by rw [g2 (by simp [h1]), h2]⟩
    · rintro ⟨r, hr, h1, h2⟩
      obtain ⟨g1, g2⟩ := hG r hr
      rw [g1] at h1
      exact ⟨r, hr, h1, by rw [← g2 (by simp [h1]), h2]⟩
  · intro a ha b hb w h1 h2
    rw [(hG a ha).1] at h1; rw [(hG b hb).1] at h2
    exact h.holder_unique a ha b hb w h1 h2

/-- recorder `w0` lets its run go -/
theorem Sim.writers_release {s sp} (h : Sim s sp) (G : SRun → SRun) (fs : List RunFile) (w0 : Nat)
    (hG : ∀ r ∈ sp, (G r).holder = (if r.holder = some w0 then none else r.holder) ∧ (G r).origKey = r.origKey) :
    (∀ w k, writerKey ⟨fs, s.writers.filter (fun p => p.1 != w0)⟩ w = some k ↔
        ∃ r ∈ sp, (G r).holder = some w ∧ k = (G r).origKey) ∧
    (∀ a ∈ sp, ∀ b ∈ sp, ∀ w, (G a).holder = some w → (G b).holder = some w → a = b) := by
  constructor
  · intro w k
    rw [writerKey_filter]
    have : writerKey ⟨fs, s.writers⟩ w = writerKey s w := rfl
    rw [this]
    by_cases hw : w = w0
    · subst hw
      simp only [if_true]
      constructor
      · intro hc; cases hc
      · rintro ⟨r, hr, h1, _⟩
        rw [(hG r hr).1] at h1
        split at h1 <;> simp_all
    · simp only [hw, if_false]
      rw [h.writer]
      constructor
      · rintro ⟨r, hr, h1, h2⟩
        obtain ⟨g1, g2⟩ := hG r hr
        refine ⟨r, hr, ?_, by rw [g2, h2]⟩
        rw [g1, h1]; simp [hw]
      · rintro ⟨r, hr, h1, h2⟩
        obtain ⟨g1, g2⟩ := hG r hr
        rw [g1] at h1
        split at h1
        · cases h1
        · exact ⟨r, hr, h1, by rw [← g2, h2]⟩
  · intro a ha b hb w h1 h2
    rw [(hG a ha).1] at h1; rw [(hG b hb).1] at h2
    split at h1
    · cases h1
    · split at h2
      · cases h2
      · exact h.holder_unique a ha b hb w h1 h2

theorem clash_congr {a b a' b' : SRun} (ha : a'.dag = a.dag ∧ a'.t = a.t ∧ a'.req8 = a.req8 ∧ a'.req = a.req)
    (hb : b'.dag = b.dag ∧ b'.t = b.t ∧ b'.req8 = b.req8 ∧ b'.req = b.req) (h : Clash a' b') : Clash a b := by
  unfold Clash at *; omega

/-! ### the simulation step, operation by operation -/

theorem map_eq_self {α} {l : List α} {f : α → α} (h : ∀ a ∈ l, f a = a) : l.map f = l := by
  have := List.map_congr_left (l := l) (f := f) (g := id) (fun a ha => by simp [h a ha])
  simpa using this

/-- no run is held by a process that is not a recorder of the store -/
theorem Sim.no_holder {s sp} (h : Sim s sp) {w : Nat} (hw : writerKey s w = none) : ∀ r ∈ sp, r.holder ≠ some w := by
  intro r hr hh
  have := (h.writer w r.origKey).mpr ⟨r, hr, hh, rfl⟩
  rw [hw] at this; cases this

theorem sim_write {s sp} (h : Sim s sp) (w : Nat) (l : Line) (ha : ∀ r ∈ sp, r.holder = some w → r.req = l.req) :
    Sim (write s w l) (Spec.write sp w l.pay) := by
  unfold write
  cases hw : writerKey s w with
  | none =>
    have : Spec.write sp w l.pay = sp := by
      unfold Spec.write
      exact map_eq_self (fun r hr => by simp [h.no_holder hw r hr])
    rw [this]; exact h
  | some k =>
    obtain ⟨r0, hr0, hh0, hk⟩ := (h.writer w k).mp hw
    have hc0 : r0.comp = false := (h.wf r0 hr0).1 (by simp [hh0])
    have hk' : k = r0.fileKey := by rw [hk]; simp [SRun.origKey, SRun.fileKey, hc0]
    obtain ⟨hwr, hhu⟩ := h.writers_keep (fun r => if r.holder = some w then { r with last := some l.pay, age := 0 } else r)
      (s.files.map (fun f => if f.key = k then { f with lines := f.lines ++ [l], age := 0 } else f))
      (by intro r _; split <;> simp [SRun.origKey])
    refine h.map _ _ s.writers ?_ ?_ ?_ hwr hhu
    · intro f hf r hr m
      have hiff := h.key_iff hr hr0 m
      rw [← hk'] at hiff
      by_cases hrr : r = r0
      · subst hrr
        simp only [hiff.mpr rfl, hh0, if_true]
        exact ⟨m.key, rfl, by simp [parse, SRun.status, ha r hr hh0]⟩
      · have h1 : ¬ f.key = k := fun e => hrr (hiff.mp e)
        have h2 : ¬ r.holder = some w := fun e => hrr (h.holder_unique r hr r0 hr0 w e hh0)
        simpa [h1, h2] using m
    · intro a _ b _
      exact clash_congr (by split <;> simp) (by split <;> simp)
    · intro r hr
      have := h.wf r hr
      split <;> simp_all [WFRun]

theorem sim_release {s sp} (h : Sim s sp) (w : Nat) : Sim (abandon s w) (Spec.release sp w) := by
  obtain ⟨hwr, hhu⟩ := h.writers_release (fun r => if r.holder = some w then { r with holder := none } else r)
    (s.files.map id) w (by intro r _; split <;> simp_all [SRun.origKey])
  have hm := h.map id _ (s.writers.filter (fun p => p.1 != w)) ?_ ?_ ?_ hwr hhu
  · exact hm.congr (by simp [abandon]) rfl
  · intro f _ r _ m
    split
    · exact ⟨m.key, m.age, m.status⟩
    · exact m
  · intro a _ b _
    exact clash_congr (by split <;> simp) (by split <;> simp)
  · intro r hr
    have := h.wf r hr
    split <;> simp_all [WFRun]

theorem sim_abandon {s sp} (h : Sim s sp) (w : Nat) : Sim (abandon s w) (Spec.abandon sp w) := sim_release h w

theorem sim_age {s sp} (h : Sim s sp) (d days : Nat) : Sim (ageFiles s d days) (Spec.age sp d days) := by
  obtain ⟨hwr, hhu⟩ := h.writers_keep (fun r => if r.dag = d then { r with age := r.age + days } else r)
    (s.files.map (fun f => if f.dag = d then { f with age := f.age + days } else f))
    (by intro r _; split <;> simp [SRun.origKey])
  refine h.map _ _ s.writers ?_ ?_ ?_ hwr hhu
  · intro f _ r _ m
    have hd : f.dag = r.dag := m.fields.1
    by_cases hr : r.dag = d
    · have hf : f.dag = d := by rw [hd, hr]
      rw [if_pos hf, if_pos hr]
      exact ⟨m.key, by simp [m.age], m.status⟩
    · have hf : ¬ f.dag = d := by rw [hd]; exact hr
      simpa [hf, hr] using m
  · intro a _ b _
    exact clash_congr (by split <;> simp) (by split <;> simp)
  · intro r hr
    have := h.wf r hr
    split <;> simp_all [WFRun]

theorem find_none {s : Store} {d r : Nat} (h : find s d r = none) :
    ∀ f ∈ s.files, f.dag = d → ∀ l, parse f = some l → l.req ≠ r := by
  intro f hf hd l hl hr
  unfold find at h
  rw [List.head?_eq_none_iff, List.filterMap_eq_nil_iff] at h
  have := h f (by rw [List.mem_reverse, mem_glob]; exact ⟨hf, hd⟩)
  simp [hl, hr] at this

theorem status_eq_some {r : SRun} {l : Line} (h : r.status = some l) : r.last = some l.pay ∧ l.req = r.req := by
  unfold SRun.status at h
  cases hl : r.last with
  | none => simp [hl] at h
  | some p => simp [hl] at h; subst h; simp

theorem sim_update {s sp} (h : Sim s sp) (d : Nat) (l : Line) : Sim (update s d l).1 (Spec.update sp d l) := by
  unfold update
  cases hfd : find s d l.req with
  | none =>
    have : Spec.update sp d l = sp := by
      unfold Spec.update
      refine map_eq_self (fun r hr => ?_)
      obtain ⟨f, hf, m⟩ := h.run_file r hr
      split
      · rename_i hc
        obtain ⟨p, hp⟩ := Option.isSome_iff_exists.mp hc.2.2
        exact absurd hc.2.1 (find_none hfd f hf (by rw [m.fields.1, hc.1]) ⟨r.req, p⟩ (by rw [m.status]; simp [SRun.status, hp]))
      · rfl
    rw [this]; exact h
  | some fl =>
    obtain ⟨f0, l0⟩ := fl
    obtain ⟨hf0, hd0, hp0, hq0⟩ := find_dag hfd
    obtain ⟨r0, hr0, m0⟩ := h.file_run f0 hf0
    have hs0 := status_eq_some (by rw [← m0.status]; exact hp0)
    have hrd0 : r0.dag = d := by rw [← m0.fields.1]; exact hd0
    have hrq0 : r0.req = l.req := by rw [← hs0.2]; exact hq0
    have hcond : ∀ r ∈ sp, (r.dag = d ∧ r.req = l.req ∧ r.last.isSome) ↔ r = r0 := by
      intro r hr
      constructor
      · intro hc
        exact h.eq_of_clash hr hr0 ⟨by rw [hc.1, hrd0], Or.inl (by rw [hc.2.1, hrq0])⟩
      · rintro rfl; exact ⟨hrd0, hrq0, by simp [hs0.1]⟩
    obtain ⟨hwr, hhu⟩ := h.writers_keep
      (fun r => if r.dag = d ∧ r.req = l.req ∧ r.last.isSome then { r with last := some l.pay, age := 0 } else r)
      (s.files.map (fun f => if f.key = f0.key then { f with lines := f.lines ++ [l], age := 0 } else f))
      (by intro r _; split <;> simp [SRun.origKey])
    refine h.map _ _ s.writers ?_ ?_ ?_ hwr hhu
    · intro f hf r hr m
      have hiff := h.key_iff hr hr0 m
      rw [← m0.key] at hiff
      by_cases hrr : r = r0
      · subst hrr
        rw [if_pos (hiff.mpr rfl), if_pos ((hcond r hr).mpr rfl)]
        exact ⟨m.key, rfl, by simp [parse, SRun.status, hrq0]⟩
      · have h1 : ¬ f.key = f0.key := fun e => hrr (hiff.mp e)
        have h2 : ¬ (r.dag = d ∧ r.req = l.req ∧ r.last.isSome) := fun e => hrr ((hcond r hr).mp e)
        rw [if_neg h1, if_neg h2]
        exact m
    · intro a _ b _
      exact clash_congr (by split <;> simp) (by split <;> simp)
    · intro r hr
      have := h.wf r hr
      split <;> simp_all [WFRun]

/-- both sides forget the same runs -/
theorem Sim.filter {s sp} (h : Sim s sp) (P : RunFile → Bool) (Q : SRun → Bool)
    (hPQ : ∀ f ∈ s.files, ∀ r ∈ sp, Matches f r → P f = Q r)
    (hQ : ∀ r ∈ sp, Q r = false → r.holder = none) :
    Sim ⟨s.files.filter P, s.writers⟩ (sp.filter Q) := by
  refine ⟨?_, ?_, ?_, ?_, ?_, ?_, ?_⟩
  · intro r hr
    obtain ⟨hr, hq⟩ := List.mem_filter.mp hr
    obtain ⟨f, hf, m⟩ := h.run_file r hr
    exact ⟨f, List.mem_filter.mpr ⟨hf, by rw [hPQ f hf r hr m]; exact hq⟩, m⟩
  · intro f hf
    obtain ⟨hf, hp⟩ := List.mem_filter.mp hf
    obtain ⟨r, hr, m⟩ := h.file_run f hf
    exact ⟨r, List.mem_filter.mpr ⟨hr, by rw [← hPQ f hf r hr m]; exact hp⟩, m⟩
  · intro f hf g hg
    exact h.key_inj f (List.mem_filter.mp hf).1 g (List.mem_filter.mp hg).1
  · exact h.distinct.filter Q
  · intro r hr; exact h.wf r (List.mem_filter.mp hr).1
  · intro w k
    have : writerKey ⟨s.files.filter P, s.writers⟩ w = writerKey s w := rfl
    rw [this, h.writer]
    constructor
    · rintro ⟨r, hr, h1, h2⟩
      refine ⟨r, List.mem_filter.mpr ⟨hr, ?_⟩, h1, h2⟩
      cases hq : Q r with
      | true => rfl
      | false => have := hQ r hr hq; rw [h1] at this; cases this
    · rintro ⟨r, hr, h1, h2⟩
      exact ⟨r, (List.mem_filter.mp hr).1, h1, h2⟩
  · intro a ha b hb
    exact h.holder_unique a (List.mem_filter.mp ha).1 b (List.mem_filter.mp hb).1

theorem sim_removeOld {s sp} (h : Sim s sp) (d days : Nat)
    (ha : ∀ r ∈ sp, r.dag = d → r.age ≥ days → r.holder = none) :
    Sim (removeOld s d days) (Spec.removeOld sp d days) := by
  refine h.filter _ _ ?_ ?_
  · intro f _ r hr m
    have hd : f.dag = r.dag := m.fields.1
    have hg : f.age = r.age := m.age
    rw [hd, hg]
    by_cases h1 : r.dag = d <;> by_cases h2 : r.age ≥ days
    · simp [h1, h2, ha r hr h1 h2]
    · simp [h1, h2]
    · simp [h1]
    · simp [h1]
  · intro r _ hq
    simp only [Bool.not_eq_false', Bool.and_eq_true] at hq
    simpa using hq.2

/-- a new run and its (empty) original file are added on both sides -/
theorem Sim.add {s sp} (h : Sim s sp) (w d t r8 req : Nat)
    (hfresh : ∀ r ∈ sp, r.dag = d → ¬ (r.req = req ∨ (r.t = t ∧ r.req8 = r8)))
    (hw : writerKey s w = none) :
    Sim ⟨s.files ++ [{ dag := d, stamp := t, req8 := r8, comp := false }], (w, ⟨d, t, r8, false⟩) :: s.writers⟩
      (sp ++ [{ dag := d, t := t, req8 := r8, req := req, holder := some w }]) := by
  have hnew : Matches { dag := d, stamp := t, req8 := r8, comp := false }
      { dag := d, t := t, req8 := r8, req := req, holder := some w } := ⟨rfl, rfl, rfl⟩
  have hnk : ∀ f ∈ s.files, f.key ≠ ⟨d, t, r8, false⟩ := by
    intro f hf hk
    obtain ⟨r, hr, m⟩ := h.file_run f hf
    have := m.fields
    simp only [RunFile.key, Key.mk.injEq] at hk
    exact hfresh r hr (by omega) (Or.inr ⟨by omega, by omega⟩)
  have hwk : ∀ w', writerKey ⟨s.files ++ [{ dag := d, stamp := t, req8 := r8, comp := false }],
      (w, ⟨d, t, r8, false⟩) :: s.writers⟩ w' = if w = w' then some ⟨d, t, r8, false⟩ else writerKey s w' := by
    intro w'
    by_cases e : w = w' <;> simp [writerKey, e]
  refine ⟨?_, ?_, ?_, ?_, ?_, ?_, ?_⟩
  · intro r hr
    rcases List.mem_append.mp hr with hr | hr
    · obtain ⟨f, hf, m⟩ := h.run_file r hr
      exact ⟨f, List.mem_append_left _ hf, m⟩
    · rw [List.mem_singleton] at hr; subst hr
      exact ⟨_, List.mem_append_right _ List.mem_cons_self, hnew⟩
  · intro f hf
    rcases List.mem_append.mp hf with hf | hf
    · obtain ⟨r, hr, m⟩ := h.file_run f hf
      exact ⟨r, List.mem_append_left _ hr, m⟩
    · rw [List.mem_singleton] at hf; subst hf
      exact ⟨_, List.mem_append_right _ List.mem_cons_self, hnew⟩
  · intro f hf g hg hk
    rcases List.mem_append.mp hf with hf | hf <;> rcases List.mem_append.mp hg with hg | hg
    · exact h.key_inj f hf g hg hk
    · rw [List.mem_singleton] at hg; subst hg
      exact absurd hk (hnk f hf)
    · rw [List.mem_singleton] at hf; subst hf
      exact absurd hk.symm (hnk g hg)
    · rw [List.mem_singleton] at hf hg; rw [hf, hg]
  · rw [List.pairwise_append]
    refine ⟨h.distinct, by simp, ?_⟩
    intro a ha b hb hc
    rw [List.mem_singleton] at hb; subst hb
    exact hfresh a ha hc.1 hc.2
  · intro r hr
    rcases List.mem_append.mp hr with hr | hr
    · exact h.wf r hr
    · rw [List.mem_singleton] at hr; subst hr; simp [WFRun]
  · intro w' k
    rw [hwk]
    by_cases e : w = w'
    · subst e
      simp only [if_true]
      constructor
      · intro hk
        exact ⟨_, List.mem_append_right _ List.mem_cons_self, rfl, by simpa [SRun.origKey] using hk.symm⟩
      · rintro ⟨r, hr, h1, h2⟩
        rcases List.mem_append.mp hr with hr | hr
        · exact absurd h1 (h.no_holder hw r hr)
        · rw [List.mem_singleton] at hr; subst hr; rw [h2]; rfl
    · simp only [e, if_false]
      rw [h.writer]
      constructor
      · rintro ⟨r, hr, h1, h2⟩; exact ⟨r, List.mem_append_left _ hr, h1, h2⟩
      · rintro ⟨r, hr, h1, h2⟩
        rcases List.mem_append.mp hr with hr | hr
        · exact ⟨r, hr, h1, h2⟩
        · rw [List.mem_singleton] at hr; subst hr
          simp at h1; exact absurd h1 e
  · intro a ha b hb w' h1 h2
    rcases List.mem_append.mp ha with ha | ha <;> rcases List.mem_append.mp hb with hb | hb
    · exact h.holder_unique a ha b hb w' h1 h2
    · rw [List.mem_singleton] at hb; subst hb
      simp at h2; subst h2
      exact absurd h1 (h.no_holder hw a ha)
    · rw [List.mem_singleton] at ha; subst ha
      simp at h1; subst h1
      exact absurd h2 (h.no_holder hw b hb)
    · rw [List.mem_singleton] at ha hb; rw [ha, hb]

theorem sim_openRun {s sp} (h : Sim s sp) (w d t r8 req : Nat)
    (ha : ∀ r ∈ sp, r.dag = d → ¬ (r.req = req ∨ (r.t = t ∧ r.req8 = r8))) :
    Sim (openRun s w d t r8) (Spec.openRun sp w d t r8 req) := by
  have h1 := sim_release h w
  have hfresh : ∀ r ∈ Spec.release sp w, r.dag = d → ¬ (r.req = req ∨ (r.t = t ∧ r.req8 = r8)) := by
    intro r' hr'
    obtain ⟨r, hr, rfl⟩ := List.mem_map.mp hr'
    have := ha r hr
    split <;> simpa using this
  have hw : writerKey (abandon s w) w = none := by
    have := writerKey_filter s.files s.writers w w
    simpa [abandon] using this
  have h2 := h1.add w d t r8 req hfresh hw
  have hk : hasKey s ⟨d, t, r8, false⟩ = false := by
    cases hh : hasKey s ⟨d, t, r8, false⟩ with
    | false => rfl
    | true =>
      simp only [hasKey, List.any_eq_true, beq_iff_eq] at hh
      obtain ⟨f, hf, hk⟩ := hh
      obtain ⟨r, hr, m⟩ := h.file_run f hf
      have := m.fields
      simp only [RunFile.key, Key.mk.injEq] at hk
      exact absurd (Or.inr ⟨by omega, by omega⟩) (ha r hr (by omega))
  have : openRun s w d t r8 = ⟨(abandon s w).files ++ [{ dag := d, stamp := t, req8 := r8, comp := false }],
      (w, ⟨d, t, r8, false⟩) :: (abandon s w).writers⟩ := by
    simp [openRun, hk, abandon]
  rw [this]
  exact h2

/-- the compacted twin written by `close` -/
def twin (k : Key) (l : Line) : RunFile :=
  { dag := k.dag, stamp := k.stamp, req8 := k.req8, comp := true, lines := [l] }

theorem sim_close {s sp} (h : Sim s sp) (w : Nat) : Sim (close s w) (Spec.close sp w) := by
  cases hw : writerKey s w with
  | none =>
    have h1 : close s w = s := by simp [close, hw]
    have h2 : Spec.close sp w = sp := by
      unfold Spec.close
      exact map_eq_self (fun r hr => by simp [h.no_holder hw r hr])
    rw [h1, h2]; exact h
  | some k =>
    obtain ⟨r0, hr0, hh0, hk⟩ := (h.writer w k).mp hw
    have hc0 : r0.comp = false := (h.wf r0 hr0).1 (by simp [hh0])
    have hk' : k = r0.fileKey := by rw [hk]; simp [SRun.origKey, SRun.fileKey, hc0]
    obtain ⟨f0, hf0, m0⟩ := h.run_file r0 hr0
    have hfind : s.files.find? (fun f => f.key == k) = some f0 := by
      cases hfi : s.files.find? (fun f => f.key == k) with
      | none =>
        have := List.find?_eq_none.mp hfi f0 hf0
        simp [m0.key, hk'] at this
      | some g =>
        have hg := List.mem_of_find?_eq_some hfi
        have hgk : g.key = k := by simpa using List.find?_some hfi
        rw [h.key_inj g hg f0 hf0 (by rw [hgk, hk', m0.key])]
    have hb : (s.files.find? (fun f => f.key == k)).bind parse = r0.status := by
      rw [hfind]; exact m0.status
    have hone : ∀ r ∈ sp, r.holder = some w → r = r0 := fun r hr e => h.holder_unique r hr r0 hr0 w e hh0
    cases hl : r0.last with
    | none =>
      have h1 : close s w = abandon s w := by
        simp [close, hw, hb, SRun.status, hl, abandon]
      have h2 : Spec.close sp w = Spec.release sp w := by
        unfold Spec.close Spec.release
        apply List.map_congr_left
        intro r hr
        by_cases e : r.holder = some w
        · have := hone r hr e; subst this
          simp [e, hl]
        · simp [e]
      rw [h1, h2]; exact sim_release h w
    | some p =>
      have hst : r0.status = some ⟨r0.req, p⟩ := by simp [SRun.status, hl]
      have hnk : hasKey { s with writers := s.writers.filter (fun q => q.1 != w) } { k with comp := true } = false := by
        cases hh : hasKey { s with writers := s.writers.filter (fun q => q.1 != w) } { k with comp := true } with
        | false => rfl
        | true =>
          simp only [hasKey, List.any_eq_true, beq_iff_eq] at hh
          obtain ⟨f, hf, hfk⟩ := hh
          obtain ⟨r, hr, m⟩ := h.file_run f hf
          have hrk : r.fileKey = ⟨r0.dag, r0.t, r0.req8, true⟩ := by rw [← m.key, hfk, hk]; rfl
          simp only [SRun.fileKey, Key.mk.injEq] at hrk
          have : r = r0 := h.eq_of_clash hr hr0 ⟨hrk.1, Or.inr ⟨hrk.2.1, hrk.2.2.1⟩⟩
          subst this
          rw [hc0] at hrk; simp at hrk
      have h1 : close s w = ⟨(s.files ++ [twin k ⟨r0.req, p⟩]).filter (fun f => f.key != k), s.writers.filter (fun q => q.1 != w)⟩ := by
        simp only [close, hw, hb, hst, hnk, twin]
        simp
      rw [h1]
      obtain ⟨hwr, hhu⟩ := h.writers_release
        (fun r => if r.holder = some w then
          (if r.last.isSome then { r with holder := none, comp := true, age := 0 } else { r with holder := none }) else r)
        (s.files.map (fun f => if f.key = k then twin k ⟨r0.req, p⟩ else f)) w
        (by intro r _; split <;> (try split) <;> simp_all [SRun.origKey])
      have hm := h.map _ _ (s.writers.filter (fun q => q.1 != w)) ?_ ?_ ?_ hwr hhu
      · refine hm.congr ?_ rfl
        intro f'
        simp only [List.mem_filter, List.mem_append, List.mem_singleton, List.mem_map, bne_iff_ne, ne_eq]
        constructor
        · rintro ⟨hf' | hf', hne⟩
          · exact ⟨f', hf', by rw [if_neg hne]⟩
          · exact ⟨f0, hf0, by rw [if_pos (by rw [m0.key, hk']), hf']⟩
        · rintro ⟨f, hf, rfl⟩
          by_cases e : f.key = k
          · rw [if_pos e]
            refine ⟨Or.inr rfl, ?_⟩
            rw [hk]; simp [RunFile.key, SRun.origKey, twin]
          · rw [if_neg e]; exact ⟨Or.inl hf, e⟩
      · intro f hf r hr m
        have hiff := h.key_iff hr hr0 m
        rw [← hk'] at hiff
        by_cases hrr : r = r0
        · subst hrr
          rw [if_pos (hiff.mpr rfl), if_pos hh0, if_pos (by simp [hl])]
          refine ⟨?_, rfl, ?_⟩
          · rw [hk]; rfl
          · simp [parse, SRun.status, hl, twin]
        · rw [if_neg (fun e => hrr (hiff.mp e)), if_neg (fun e => hrr (hone r hr e))]
          exact m
      · intro a _ b _
        exact clash_congr (by split <;> (try split) <;> simp) (by split <;> (try split) <;> simp)
      · intro r hr
        have := h.wf r hr
        split <;> (try split) <;> simp_all [WFRun]

theorem sim_rename {s sp} (h : Sim s sp) (d d2 : Nat)
    (ha : d ≠ d2 → (∀ r ∈ sp, r.dag = d → r.holder = none) ∧
      (∀ a ∈ sp, ∀ b ∈ sp, a.dag = d → b.dag = d2 → ¬ (a.req = b.req ∨ (a.t = b.t ∧ a.req8 = b.req8)))) :
    Sim (rename s d d2) (Spec.rename sp d d2) := by
  by_cases e : d = d2
  · simp only [rename, Spec.rename, e, if_true]; exact h
  obtain ⟨hno, hcol⟩ := ha e
  obtain ⟨hwr, hhu⟩ := h.writers_keep (fun r => if r.dag = d then { r with dag := d2 } else r)
    (s.files.map (fun f => if f.dag = d then { f with dag := d2 } else f))
    (by
      intro r hr
      by_cases er : r.dag = d
      · rw [if_pos er]
        exact ⟨rfl, fun hn => absurd (hno r hr er) hn⟩
      · rw [if_neg er]; exact ⟨rfl, fun _ => rfl⟩)
  have hm := h.map _ _ s.writers ?_ ?_ ?_ hwr hhu
  · have hsp : Spec.rename sp d d2 = sp.map (fun r => if r.dag = d then { r with dag := d2 } else r) := by
      simp [Spec.rename, e]
    rw [hsp]
    refine hm.congr ?_ (by simp [rename, e])
    intro f'
    simp only [rename, if_neg e, List.mem_append, List.mem_filter, List.mem_map, mem_glob]
    constructor
    · rintro (⟨hf', hc⟩ | ⟨g, ⟨hg, hgd⟩, rfl⟩)
      · have : ¬ f'.dag = d := by
          intro e'; simp [e'] at hc
        exact ⟨f', hf', by rw [if_neg this]⟩
      · exact ⟨g, hg, by rw [if_pos hgd]⟩
    · rintro ⟨f, hf, rfl⟩
      by_cases ef : f.dag = d
      · rw [if_pos ef]; exact Or.inr ⟨f, ⟨hf, ef⟩, rfl⟩
      · rw [if_neg ef]
        refine Or.inl ⟨hf, ?_⟩
        have hany : (List.map (fun f => ({ f with dag := d2 } : RunFile)) (glob s d)).any (fun m => m.key == f.key) = false := by
          rw [List.any_eq_false]
          intro m hm'
          obtain ⟨g, hg, rfl⟩ := List.mem_map.mp hm'
          rw [mem_glob] at hg
          intro hk
          simp only [RunFile.key, beq_iff_eq, Key.mk.injEq] at hk
          obtain ⟨rg, hrg, mg⟩ := h.file_run g hg.1
          obtain ⟨rf, hrf, mf⟩ := h.file_run f hf
          have fg := mg.fields
          have ff := mf.fields
          exact hcol rg hrg rf hrf (by omega) (by omega) (Or.inr ⟨by omega, by omega⟩)
        simp [ef, hany]
  · intro f _ r _ m
    have hd : f.dag = r.dag := m.fields.1
    by_cases hr : r.dag = d
    · have hf : f.dag = d := by rw [hd, hr]
      rw [if_pos hf, if_pos hr]
      have := m.fields
      refine ⟨?_, m.age, m.status⟩
      simp only [RunFile.key, SRun.fileKey, Key.mk.injEq]
      exact ⟨trivial, this.2.1, this.2.2.1, this.2.2.2⟩
    · have hf : ¬ f.dag = d := by rw [hd]; exact hr
      rw [if_neg hf, if_neg hr]; exact m
  · intro a ha' b hb' hc
    have h1 := hcol a ha' b hb'
    have h2 := hcol b hb' a ha'
    by_cases ea : a.dag = d <;> by_cases eb : b.dag = d
    · rw [if_pos ea, if_pos eb] at hc; unfold Clash at *; simp only at hc; omega
    · rw [if_pos ea, if_neg eb] at hc; unfold Clash at *; simp only at hc; omega
    · rw [if_neg ea, if_pos eb] at hc; unfold Clash at *; simp only at hc; omega
    · rw [if_neg ea, if_neg eb] at hc; exact hc
  · intro r hr
    have := h.wf r hr
    split <;> simp_all [WFRun]

/-- what the callers guarantee for the next operation suffices to keep both sides in step -/
theorem sim_step {s sp} (h : Sim s sp) (op : HOp) (ha : Admissible sp op) :
    Sim (applyStore s op) (applySpec sp op) := by
  cases op with
  | openRun w d t r8 req => exact sim_openRun h w d t r8 req ha
  | write w l => exact sim_write h w l ha
  | close w => exact sim_close h w
  | abandon w => exact sim_abandon h w
  | update d l => exact sim_update h d l
  | rename d d2 => exact sim_rename h d d2 ha
  | age d days => exact sim_age h d days
  | removeOld d days => exact sim_removeOld h d days ha

theorem sim_seq {s sp} (h : Sim s sp) (ops : List HOp) (ha : AdmissibleSeq sp ops) :
    Sim (ops.foldl applyStore s) (ops.foldl applySpec sp) := by
  induction ops generalizing s sp with
  | nil => exact h
  | cons op rest ih => exact ih (sim_step h op ha.1) ha.2

/-! ### reading the queries off the specification: helpers -/

theorem length_le_of_nodup_subset {α} [DecidableEq α] {l₁ l₂ : List α} (hn : l₁.Nodup) (hs : ∀ a ∈ l₁, a ∈ l₂) :
    l₁.length ≤ l₂.length := by
  induction l₁ generalizing l₂ with
  | nil => simp
  | cons a l ih =>
    have hn' := List.nodup_cons.mp hn
    have ha : a ∈ l₂ := hs a List.mem_cons_self
    have := ih (l₂ := l₂.erase a) hn'.2 (fun b hb => by
      have hne : b ≠ a := fun e => hn'.1 (e ▸ hb)
      exact (List.mem_erase_of_ne hne).mpr (hs b (List.mem_cons_of_mem _ hb)))
    rw [List.length_erase_of_mem ha] at this
    have hpos : 0 < l₂.length := List.length_pos_of_mem ha
    simp only [List.length_cons]
    omega

theorem filterMap_eq_map_of {α β} (g : α → Option β) (f : α → β) (l : List α) (h : ∀ a ∈ l, g a = some (f a)) :
    l.filterMap g = l.map f := by
  induction l with
  | nil => rfl
  | cons a l ih =>
    rw [List.filterMap_cons_some (h a List.mem_cons_self), List.map_cons,
      ih (fun b hb => h b (List.mem_cons_of_mem _ hb))]

theorem Spec.mem_recorded {sp : Spec} {d : Nat} {r : SRun} :
    r ∈ Spec.recorded sp d ↔ r ∈ sp ∧ r.dag = d ∧ r.last.isSome = true := by
  simp [Spec.recorded]

/-- no run is listed twice in the log -/
theorem Sim.nodup {s sp} (h : Sim s sp) : sp.Nodup := by
  rw [List.nodup_iff_pairwise_ne]
  exact h.distinct.imp (fun {a b} (hn : ¬ Clash a b) (e : a = b) => hn (by subst e; exact ⟨rfl, Or.inl rfl⟩))

theorem Sim.recorded_nodup {s sp} (h : Sim s sp) (d : Nat) : (Spec.recorded sp d).Nodup :=
  h.nodup.sublist List.filter_sublist

/-- a list of files of the store, read as the list of their runs -/
theorem Sim.lift {s sp} (h : Sim s sp) (fs : List RunFile) (hfs : ∀ f ∈ fs, f ∈ s.files) :
    ∃ rs : List SRun, rs.length = fs.length ∧ (∀ r ∈ rs, r ∈ sp) ∧
      fs.filterMap parse = rs.filterMap SRun.status ∧
      fs.filterMap reqOf = rs.filterMap (fun r => r.status.map (·.req)) ∧
      fs.map (·.stamp) = rs.map (·.t) ∧
      (∀ r ∈ rs, ∃ f ∈ fs, Matches f r) ∧ (∀ f ∈ fs, ∃ r ∈ rs, Matches f r) := by
  induction fs with
  | nil => exact ⟨[], by simp⟩
  | cons f fs ih =>
    obtain ⟨rs, h1, h2, h3, h4, h5, h6, h7⟩ := ih (fun g hg => hfs g (List.mem_cons_of_mem _ hg))
    obtain ⟨r, hr, m⟩ := h.file_run f (hfs f List.mem_cons_self)
    refine ⟨r :: rs, by simp [h1], ?_, ?_, ?_, ?_, ?_, ?_⟩
    · intro r' hr'
      rcases List.mem_cons.mp hr' with rfl | hr'
      · exact hr
      · exact h2 r' hr'
    · cases hp : parse f with
      | none =>
        have : r.status = none := by rw [← m.status]; exact hp
        rw [List.filterMap_cons_none hp, List.filterMap_cons_none this]; exact h3
      | some l =>
        have : r.status = some l := by rw [← m.status]; exact hp
        rw [List.filterMap_cons_some hp, List.filterMap_cons_some this, h3]
    · have hq : reqOf f = r.status.map (·.req) := by simp [reqOf, m.status]
      cases hp : reqOf f with
      | none =>
        rw [List.filterMap_cons_none hp, List.filterMap_cons_none (by rw [← hq]; exact hp)]; exact h4
      | some q =>
        rw [List.filterMap_cons_some hp, List.filterMap_cons_some (by rw [← hq]; exact hp), h4]
    · simp [h5, m.fields.2.1]
    · intro r' hr'
      rcases List.mem_cons.mp hr' with rfl | hr'
      · exact ⟨f, List.mem_cons_self, m⟩
      · obtain ⟨g, hg, mg⟩ := h6 r' hr'
        exact ⟨g, List.mem_cons_of_mem _ hg, mg⟩
    · intro g hg
      rcases List.mem_cons.mp hg with rfl | hg
      · exact ⟨r, List.mem_cons_self, m⟩
      · obtain ⟨r', hr', mg⟩ := h7 g hg
        exact ⟨r', List.mem_cons_of_mem _ hr', mg⟩

/-! ### no file name is listed twice (an invariant of the store operations by themselves) -/

/-- the file names of the store are pairwise different -/
def KeysNodup (s : Store) : Prop := (s.files.map RunFile.key).Nodup

theorem keys_modifyFile (s : Store) (k : Key) (g : RunFile → RunFile) (hg : ∀ f, (g f).key = f.key) :
    (modifyFile s k g).files.map RunFile.key = s.files.map RunFile.key := by
  simp only [modifyFile, List.map_map]
  apply List.map_congr_left
  intro f _
  simp only [Function.comp]
  split
  · exact hg f
  · rfl

theorem KeysNodup.appendLine {s : Store} (h : KeysNodup s) (k : Key) (l : Line) : KeysNodup (appendLine s k l) := by
  unfold KeysNodup Hist.appendLine
  rw [keys_modifyFile s k (fun f => { f with lines := f.lines ++ [l], age := 0 }) (fun _ => rfl)]
  exact h

theorem KeysNodup.add {s : Store} (h : KeysNodup s) (f : RunFile) (hk : hasKey s f.key = false) (ws : List (Nat × Key)) :
    KeysNodup ⟨s.files ++ [f], ws⟩ := by
  unfold KeysNodup
  simp only [List.map_append, List.map_cons, List.map_nil]
  rw [List.nodup_append]
  refine ⟨h, by simp, ?_⟩
  intro a ha b hb
  rw [List.mem_singleton] at hb; subst hb
  obtain ⟨g, hg, rfl⟩ := List.mem_map.mp ha
  intro e
  have : hasKey s f.key = true := by
    simp only [hasKey, List.any_eq_true, beq_iff_eq]
    exact ⟨g, hg, e⟩
  rw [hk] at this; cases this

theorem KeysNodup.filter {s : Store} (h : KeysNodup s) (p : RunFile → Bool) (ws : List (Nat × Key)) :
    KeysNodup ⟨s.files.filter p, ws⟩ :=
  List.Nodup.sublist (List.Sublist.map _ List.filter_sublist) h

/-- every operation keeps the file names pairwise different — whatever the callers do -/
theorem keysNodup_step (s : Store) (op : HOp) (h : KeysNodup s) : KeysNodup (applyStore s op) := by
  cases op with
  | openRun w d t r8 req =>
    simp only [applyStore, openRun]
    cases hk : hasKey s ⟨d, t, r8, false⟩ with
    | true => exact h
    | false => exact h.add { dag := d, stamp := t, req8 := r8, comp := false } hk _
  | write w l =>
    simp only [applyStore, write]
    split
    · exact h.appendLine _ _
    · exact h
  | close w =>
    simp only [applyStore, close]
    split
    · exact h
    · rename_i k _
      have h1 : KeysNodup { s with writers := s.writers.filter (fun p => p.1 != w) } := h
      split
      · exact h1
      · rename_i l _
        apply KeysNodup.filter
        split
        · exact h1.appendLine _ _
        · rename_i hk
          exact h1.add (twin k l) (by simpa [twin, RunFile.key] using hk) _
  | abandon w => exact h
  | update d l =>
    simp only [applyStore, update]
    split
    · exact h.appendLine _ _
    · exact h
  | rename d d2 =>
    simp only [applyStore, rename]
    split
    · exact h
    · unfold KeysNodup
      simp only [List.map_append]
      rw [List.nodup_append]
      refine ⟨List.Nodup.sublist (List.Sublist.map _ List.filter_sublist) h, ?_, ?_⟩
      · -- the moved files: a permutation of the files of `d`, renamed injectively
        have hp : (glob s d).Perm (s.files.filter (fun f => f.dag == d)) := sortBy_perm _ _
        rw [((hp.map _).map _).nodup_iff, List.map_map, List.nodup_iff_pairwise_ne, List.pairwise_map]
        have hpw : s.files.Pairwise (fun a b => a.key ≠ b.key) := by
          have := h; unfold KeysNodup at this
          rwa [List.nodup_iff_pairwise_ne, List.pairwise_map] at this
        refine List.Pairwise.imp_of_mem ?_ (hpw.filter _)
        intro a b ha hb hne e
        have hda : a.dag = d := by simpa using (List.mem_filter.mp ha).2
        have hdb : b.dag = d := by simpa using (List.mem_filter.mp hb).2
        apply hne
        simp only [Function.comp, RunFile.key, Key.mk.injEq] at e
        simp only [RunFile.key, Key.mk.injEq]
        exact ⟨by rw [hda, hdb], e.2.1, e.2.2.1, e.2.2.2⟩
      · intro a ha b hb e
        obtain ⟨f, hf, rfl⟩ := List.mem_map.mp ha
        obtain ⟨m, hm, rfl⟩ := List.mem_map.mp hb
        have := (List.mem_filter.mp hf).2
        simp only [Bool.and_eq_true, Bool.not_eq_true', List.any_eq_false, beq_iff_eq] at this
        exact this.2 m hm e.symm
  | age d days =>
    simp only [applyStore, ageFiles]
    unfold KeysNodup
    have : (s.files.map (fun f => if f.dag = d then { f with age := f.age + days } else f)).map RunFile.key =
        s.files.map RunFile.key := by
      rw [List.map_map]
      apply List.map_congr_left
      intro f _
      simp only [Function.comp]
      split <;> rfl
    rw [this]; exact h
  | removeOld d days => exact h.filter _ _

theorem keysNodup_seq (ops : List HOp) (s : Store) (h : KeysNodup s) : KeysNodup (ops.foldl applyStore s) := by
  induction ops generalizing s with
  | nil => exact h
  | cons op rest ih => exact ih _ (keysNodup_step s op h)

/-- **exactly one file per run**: under `Sim`, with pairwise different file names, the files that are
    the record of run `r` are one entry of the file list -/
theorem Sim.one_file {s sp} (h : Sim s sp) (hn : KeysNodup s) (r : SRun) (hr : r ∈ sp) :
    ∃ f, Matches f r ∧ s.files.filter (fun g => g.key == r.fileKey) = [f] := by
  obtain ⟨f, hf, m⟩ := h.run_file r hr
  refine ⟨f, m, ?_⟩
  have hpw : s.files.Pairwise (fun a b => a.key ≠ b.key) := by
    unfold KeysNodup at hn
    rwa [List.nodup_iff_pairwise_ne, List.pairwise_map] at hn
  rw [← m.key]
  clear h m hn hr
  generalize s.files = fs at hf hpw
  induction fs with
  | nil => cases hf
  | cons a l ih =>
    have hc := List.pairwise_cons.mp hpw
    rcases List.mem_cons.mp hf with rfl | hf'
    · have : l.filter (fun g => g.key == f.key) = [] := by
        rw [List.filter_eq_nil_iff]
        intro g hg
        have := hc.1 g hg
        simpa using fun e => this e.symm
      simp [this]
    · have hne : ¬ a.key = f.key := hc.1 f hf'
      simp only [List.filter_cons, beq_iff_eq, hne, if_false]
      exact ih hf' hc.2

end BdModel.Hist
