import BdModel.Proofs.Lock
/- mutual exclusion of the lock + socket protocol for DAG files every agent of which can open the
   file (core only) -/
namespace BdModel.Lock

/-- past the probe, not yet listening -/
def inWindow : Pc → Bool
  | .removeOld | .histOpen | .firstWrite | .unlink | .bind | .listen => true
  | _ => false

/-- listening, endpoint not yet closed -/
def holding : Pc → Bool
  | .steps | .handlers | .finalWrite | .unlock | .shutClose => true
  | _ => false

/-- between "passed the already-running check" and "endpoint closed" -/
def inRegion (pc : Pc) : Bool := inWindow pc || holding pc

/-- program counters at which an agent that could open the file holds the lock -/
def holdsLock : Pc → Bool
  | .probe | .removeOld | .histOpen | .firstWrite | .unlink | .bind | .listen
  | .steps | .handlers | .finalWrite | .unlock | .failUnlock => true
  | _ => false

/-- the bind-failure path -/
def failing : Pc → Bool
  | .failUnlock | .failClose | .bindFailed => true
  | _ => false

/-- every agent of DAG file `d` can open the file (so takes the lock) -/
def OpenDag (w : World) (d : Nat) : Prop := ∀ c, (w.agents c).dag = d → (w.agents c).canOpen = true

@[simp] theorem holding_afterListen (ag : Agent) : holding (afterListen ag) = true := by
  unfold afterListen; split <;> (try split) <;> rfl
@[simp] theorem inWindow_afterListen (ag : Agent) : inWindow (afterListen ag) = false := by
  unfold afterListen; split <;> (try split) <;> rfl
@[simp] theorem holdsLock_afterListen (ag : Agent) : holdsLock (afterListen ag) = true := by
  unfold afterListen; split <;> (try split) <;> rfl
@[simp] theorem failing_afterListen (ag : Agent) : failing (afterListen ag) = false := by
  unfold afterListen; split <;> (try split) <;> rfl
@[simp] theorem afterListen_ne_listen (ag : Agent) : (afterListen ag = Pc.listen) = False := by
  unfold afterListen; split <;> (try split) <;> simp
@[simp] theorem afterListen_ne_bind (ag : Agent) : (afterListen ag = Pc.bind) = False := by
  unfold afterListen; split <;> (try split) <;> simp

theorem inWindow_holdsLock {pc : Pc} (h : inWindow pc = true) : holdsLock pc = true := by
  cases pc <;> simp_all [inWindow, holdsLock]
theorem holding_region {pc : Pc} (h : holding pc = true) : inRegion pc = true := by simp [inRegion, h]
theorem window_region {pc : Pc} (h : inWindow pc = true) : inRegion pc = true := by simp [inRegion, h]

/-- the agent's ability to open the file never changes -/
theorem step_canOpen {w w' : World} {a : Nat} {act : Act} (h : step w a act = some w') (b : Nat) :
    (w'.agents b).canOpen = (w.agents b).canOpen := by
  by_cases hb : b = a
  · subst hb
    unfold step stepAg at h
    split at h <;> (try split at h) <;> (try split at h) <;> (try split at h) <;>
      first
      | (injection h with h; subst h; simp [didStep, didHandler])
      | (cases h)
  · rw [step_other h b hb]

/-- an action of agent `a` changes only the lock of `a`'s own DAG file -/
theorem step_lk_other {w w' : World} {a : Nat} {act : Act} (h : step w a act = some w') (e : Nat)
    (he : e ≠ (w.agents a).dag) : w'.lk e = w.lk e := by
  unfold step stepAg at h
  split at h <;> (try split at h) <;> (try split at h) <;> (try split at h) <;>
    first
    | (injection h with h; subst h; simp [he, release_lk])
    | (cases h)

/-- an agent enters the region only through its own probe, and only when the probe is not answered -/
theorem enter_region {w w' : World} {a : Nat} {act : Act} (h : step w a act = some w')
    (hr : inRegion (w'.agents a).pc = true) :
    inRegion (w.agents a).pc = true ∨
      (act = .probe ∧ (w.agents a).pc = .probe ∧ ∀ b, w.ns (w.agents a).sock ≠ .bound b true) := by
  unfold step stepAg at h
  split at h <;> (try split at h) <;> (try split at h) <;> (try split at h)
  all_goals first | (cases h; done) | skip
  all_goals (injection h with h; subst h; simp only [setNs_agents, setLk_agents, release_agents, setAgent_same] at hr)
  all_goals first
    | (simp [inRegion, inWindow, holding] at hr; done)
    | (left; simp [*, inRegion, inWindow, holding]; done)
    | (right; refine ⟨rfl, by assumption, ?_⟩; intro b hb; simp_all; done)

/-- who can change the socket path of DAG file `d` -/
theorem ns_changed {w w' : World} {a : Nat} {act : Act} (h : step w a act = some w') (d : Nat)
    (hc : w'.ns d ≠ w.ns d) :
    d = (w.agents a).sock ∧
      (inRegion (w.agents a).pc = true ∨ (act = .kill ∧ ∃ l, w.ns d = .bound a l)) := by
  by_cases hd : d = (w.agents a).sock
  · refine ⟨hd, ?_⟩
    subst hd
    unfold step stepAg at h
    split at h <;> (try split at h) <;> (try split at h) <;> (try split at h)
    all_goals first | (cases h; done) | skip
    all_goals (injection h with h; subst h)
    all_goals first
      | (exfalso; apply hc; simp [setNs, setAgent]; done)
      | (left; simp [*, inRegion, inWindow, holding]; done)
      | (right; refine ⟨rfl, ?_⟩; simp_all; done)
  · exact absurd (step_ns_other h d hd) hc

/-- an agent that holds the endpoint after its own action has a bound, listening socket -/
theorem hold_ns {w w' : World} {a : Nat} {act : Act} (h : step w a act = some w')
    (hh : holding (w'.agents a).pc = true)
    (h2 : holding (w.agents a).pc = true → w.ns (w.agents a).sock = .bound a true)
    (h3 : (w.agents a).pc = .listen → w.ns (w.agents a).sock = .bound a false) :
    w'.ns (w'.agents a).sock = .bound a true := by
  unfold step stepAg at h
  split at h <;> (try split at h) <;> (try split at h) <;> (try split at h)
  all_goals first | (cases h; done) | skip
  all_goals (injection h with h; subst h; simp only [setNs_agents, setLk_agents, release_agents, setAgent_same] at hh)
  all_goals first
    | (simp [holding] at hh; done)
    | (simp_all [holding, setNs, setAgent, didStep, didHandler]; done)

/-- an agent that is at `listen` after its own action has just bound the path -/
theorem listen_ns {w w' : World} {a : Nat} {act : Act} (h : step w a act = some w')
    (hl : (w'.agents a).pc = .listen) : w'.ns (w'.agents a).sock = .bound a false := by
  unfold step stepAg at h
  split at h <;> (try split at h) <;> (try split at h) <;> (try split at h)
  all_goals first | (cases h; done) | skip
  all_goals (injection h with h; subst h; simp only [setNs_agents, setLk_agents, release_agents, setAgent_same] at hl)
  all_goals first
    | (simp at hl; done)
    | (simp [setNs, setAgent]; done)
    | (split at hl <;> simp at hl; done)

/-- an agent that is at `bind` after its own action has just unlinked the path -/
theorem bind_ns {w w' : World} {a : Nat} {act : Act} (h : step w a act = some w')
    (hl : (w'.agents a).pc = .bind) : w'.ns (w'.agents a).sock = .absent := by
  unfold step stepAg at h
  split at h <;> (try split at h) <;> (try split at h) <;> (try split at h)
  all_goals first | (cases h; done) | skip
  all_goals (injection h with h; subst h; simp only [setNs_agents, setLk_agents, release_agents, setAgent_same] at hl)
  all_goals first
    | (simp at hl; done)
    | (simp [setNs, setAgent]; done)
    | (split at hl <;> simp at hl; done)

/-- the bind-failure path is entered only by a bind onto an existing path -/
theorem enter_failing {w w' : World} {a : Nat} {act : Act} (h : step w a act = some w')
    (hf : failing (w'.agents a).pc = true) :
    failing (w.agents a).pc = true ∨ ((w.agents a).pc = .bind ∧ w.ns (w.agents a).sock ≠ .absent) := by
  unfold step stepAg at h
  split at h <;> (try split at h) <;> (try split at h) <;> (try split at h)
  all_goals first | (cases h; done) | skip
  all_goals (injection h with h; subst h; simp only [setNs_agents, setLk_agents, release_agents, setAgent_same] at hf)
  all_goals first
    | (simp at hf; done)
    | (simp [failing] at hf; done)
    | (left; simp [*, failing]; done)
    | (right; refine ⟨?_, ?_⟩ <;> simp_all; done)

/-- an agent that can open the file and is at a lock-holding program counter after its own action
    holds the lock -/
theorem own_lock {w w' : World} {a : Nat} {act : Act} (h : step w a act = some w')
    (hl : holdsLock (w'.agents a).pc = true) (hopen : (w.agents a).canOpen = true)
    (hinv : holdsLock (w.agents a).pc = true → w.lk (w.agents a).dag = some a) :
    w'.lk (w'.agents a).dag = some a := by
  unfold step stepAg at h
  split at h <;> (try split at h) <;> (try split at h) <;> (try split at h)
  all_goals first | (cases h; done) | skip
  all_goals (injection h with h; subst h; simp only [setNs_agents, setLk_agents, release_agents, setAgent_same] at hl)
  all_goals first
    | (simp [holdsLock] at hl; done)
    | (simp_all [holdsLock, didStep, didHandler]; done)

/-- nobody takes the lock away from its holder -/
theorem lock_kept {w w' : World} {a x : Nat} {act : Act} (h : step w a act = some w') (hx : x ≠ a) (d : Nat)
    (hl : w.lk d = some x) : w'.lk d = some x := by
  unfold step stepAg at h
  split at h <;> (try split at h) <;> (try split at h) <;> (try split at h)
  all_goals first | (cases h; done) | skip
  all_goals (injection h with h; subst h)
  all_goals first
    | (simpa using hl)
    | (by_cases hd : d = (w.agents a).dag
       · subst hd; simp_all [release_lk]
       · simp [release_lk, setLk, hd, hl])

/-- in every reachable world: an agent that could open the DAG file and is at a lock-holding program
    counter holds the lock of that file — whatever socket names the agents use -/
def LockInv (w : World) : Prop :=
  ∀ a, (w.agents a).canOpen = true → holdsLock (w.agents a).pc = true → w.lk (w.agents a).dag = some a

theorem step_lockInv {w w' : World} {a : Nat} {act : Act} (inv : LockInv w) (h : step w a act = some w') :
    LockInv w' := by
  intro x hopen hl
  by_cases hxa : x = a
  · subst hxa
    rw [step_canOpen h x] at hopen
    exact own_lock h hl hopen (inv x hopen)
  · rw [step_other h x hxa] at hopen hl ⊢
    exact lock_kept h hxa _ (inv x hopen hl)

theorem reach_lockInv {w : World} (hw : Reach w) : LockInv w := by
  obtain ⟨cfgs, tr, h⟩ := hw
  have h0 : LockInv (init cfgs) := by
    intro a _ hl
    have hpc : ((init cfgs).agents a).pc = .setup ∨ ((init cfgs).agents a).pc = .done := by
      simp only [init]; split <;> simp [fresh, idle]
    rcases hpc with e | e <;> rw [e] at hl <;> simp [holdsLock] at hl
  generalize init cfgs = w0 at h h0
  induction tr generalizing w0 with
  | nil => simp [run] at h; subst h; exact h0
  | cons x tr ih =>
    obtain ⟨a, act⟩ := x
    simp only [run] at h
    split at h
    · cases h
    · rename_i w1 hs
      exact ih w1 h (step_lockInv h0 hs)

/-- DAG file `d` is reached under ONE spelling of its path: its agents, and only they, use socket name `s` -/
def OneSpelling (w : World) (d s : Nat) : Prop := ∀ c, (w.agents c).dag = d ↔ (w.agents c).sock = s

/-- the invariant of DAG file `d` with socket name `s` -/
structure Excl (w : World) (d s : Nat) : Prop where
  /-- whoever is at a lock-holding program counter holds the lock -/
  lockOk : ∀ a, (w.agents a).dag = d → holdsLock (w.agents a).pc = true → w.lk d = some a
  /-- at most one agent between its probe and the close of its endpoint -/
  one : ∀ a b, a ≠ b → (w.agents a).dag = d → (w.agents b).dag = d →
          ¬ (inRegion (w.agents a).pc = true ∧ inRegion (w.agents b).pc = true)
  /-- whoever holds the endpoint owns a bound, listening socket -/
  hold : ∀ a, (w.agents a).dag = d → holding (w.agents a).pc = true → w.ns s = .bound a true
  /-- whoever is about to listen owns the bound socket -/
  lis : ∀ a, (w.agents a).dag = d → (w.agents a).pc = .listen → w.ns s = .bound a false
  /-- whoever is about to bind finds the path free -/
  bnd : ∀ a, (w.agents a).dag = d → (w.agents a).pc = .bind → w.ns s = .absent
  /-- nobody is on the bind-failure path -/
  nofail : ∀ a, (w.agents a).dag = d → failing (w.agents a).pc = false

/-- nobody else touches the socket of the file while agent `x` is in the region -/
theorem ns_kept {w w' : World} {a x : Nat} {act : Act} {d s : Nat} (key : OneSpelling w d s) (inv : Excl w d s)
    (h : step w a act = some w')
    (hx : x ≠ a) (hdx : (w.agents x).dag = d) (hr : inRegion (w.agents x).pc = true)
    (hb : ∀ c l, w.ns s = .bound c l → c = x) : w'.ns s = w.ns s := by
  apply Classical.byContradiction
  intro hc
  obtain ⟨hd, hwho⟩ := ns_changed h _ hc
  rcases hwho with hreg | ⟨_, l, hl⟩
  · exact inv.one x a hx hdx ((key a).2 hd.symm) ⟨hr, hreg⟩
  · exact hx (hb a l hl).symm

theorem step_excl {w w' : World} {a : Nat} {act : Act} {d s : Nat} (hopen : OpenDag w d) (key : OneSpelling w d s)
    (inv : Excl w d s) (h : step w a act = some w') : Excl w' d s := by
  have hdag : ∀ b, (w'.agents b).dag = (w.agents b).dag := step_dag h
  have hoth : ∀ b, b ≠ a → w'.agents b = w.agents b := step_other h
  by_cases hda : (w.agents a).dag = d
  · -- the actor is an agent of this file
    have hsa : (w.agents a).sock = s := (key a).1 hda
    have hsa' : (w'.agents a).sock = s := by rw [step_sock h a]; exact hsa
    have keyf : ∀ x, x ≠ a → (w.agents x).dag = d → inRegion (w.agents x).pc = true →
        inRegion (w'.agents a).pc = true → False := by
      intro x hx hd hrx hra
      rcases enter_region h hra with hold | ⟨_, hpc, hnb⟩
      · exact inv.one x a hx hd hda ⟨hrx, hold⟩
      · have hla : w.lk d = some a := inv.lockOk a hda (by rw [hpc]; rfl)
        by_cases hw : inWindow (w.agents x).pc = true
        · have hlx := inv.lockOk x hd (inWindow_holdsLock hw)
          rw [hla] at hlx; injection hlx with e; exact hx e.symm
        · have hh : holding (w.agents x).pc = true := by
            simp [inRegion, hw] at hrx; exact hrx
          have := inv.hold x hd hh
          rw [← hsa] at this
          exact hnb x this
    refine ⟨?_, ?_, ?_, ?_, ?_, ?_⟩
    · intro x hdx hl
      rw [hdag x] at hdx
      by_cases hxa : x = a
      · subst hxa
        have := own_lock h hl (hopen x hdx) (fun hp => by rw [hdx]; exact inv.lockOk x hdx hp)
        rw [hdag x, hdx] at this; exact this
      · rw [hoth x hxa] at hl
        exact lock_kept h hxa d (inv.lockOk x hdx hl)
    · intro x y hxy hdx hdy ⟨hx, hy⟩
      rw [hdag x] at hdx; rw [hdag y] at hdy
      by_cases hxa : x = a
      · subst hxa
        have hya : y ≠ x := fun e => hxy e.symm
        rw [hoth y hya] at hy
        exact keyf y hya hdy hy hx
      · by_cases hya : y = a
        · subst hya
          rw [hoth x hxa] at hx
          exact keyf x hxa hdx hx hy
        · rw [hoth x hxa] at hx; rw [hoth y hya] at hy
          exact inv.one x y hxy hdx hdy ⟨hx, hy⟩
    · intro x hdx hx
      rw [hdag x] at hdx
      by_cases hxa : x = a
      · subst hxa
        have := hold_ns h hx (fun hp => by rw [hsa]; exact inv.hold x hdx hp) (fun hp => by rw [hsa]; exact inv.lis x hdx hp)
        rw [hsa'] at this; exact this
      · rw [hoth x hxa] at hx
        have hb := inv.hold x hdx hx
        rw [ns_kept key inv h hxa hdx (holding_region hx) (fun c l hc => by rw [hb] at hc; injection hc with e _; exact e.symm)]
        exact hb
    · intro x hdx hx
      rw [hdag x] at hdx
      by_cases hxa : x = a
      · subst hxa
        have := listen_ns h hx
        rw [hsa'] at this; exact this
      · rw [hoth x hxa] at hx
        have hb := inv.lis x hdx hx
        rw [ns_kept key inv h hxa hdx (by rw [hx]; rfl) (fun c l hc => by rw [hb] at hc; injection hc with e _; exact e.symm)]
        exact hb
    · intro x hdx hx
      rw [hdag x] at hdx
      by_cases hxa : x = a
      · subst hxa
        have := bind_ns h hx
        rw [hsa'] at this; exact this
      · rw [hoth x hxa] at hx
        have hb := inv.bnd x hdx hx
        rw [ns_kept key inv h hxa hdx (by rw [hx]; rfl) (fun c l hc => by rw [hb] at hc; cases hc)]
        exact hb
    · intro x hdx
      rw [hdag x] at hdx
      by_cases hxa : x = a
      · subst hxa
        cases hf : failing (w'.agents x).pc with
        | false => rfl
        | true =>
          rcases enter_failing h hf with hold | ⟨hpc, hne⟩
          · rw [inv.nofail x hdx] at hold; cases hold
          · rw [hsa] at hne; exact absurd (inv.bnd x hdx hpc) hne
      · rw [hoth x hxa]; exact inv.nofail x hdx
  · -- the actor belongs to another file (and so uses another socket name): nothing of this file moves
    have hne : ∀ x, (w.agents x).dag = d → x ≠ a := fun x hx e => hda (e ▸ hx)
    have hsne : s ≠ (w.agents a).sock := fun e => hda ((key a).2 e.symm)
    have hns : w'.ns s = w.ns s := step_ns_other h s hsne
    have hlk : w'.lk d = w.lk d := step_lk_other h d (fun e => hda e.symm)
    refine ⟨?_, ?_, ?_, ?_, ?_, ?_⟩
    · intro x hdx hl; rw [hdag x] at hdx; rw [hoth x (hne x hdx)] at hl; rw [hlk]; exact inv.lockOk x hdx hl
    · intro x y hxy hdx hdy hxy'
      rw [hdag x] at hdx; rw [hdag y] at hdy
      rw [hoth x (hne x hdx), hoth y (hne y hdy)] at hxy'
      exact inv.one x y hxy hdx hdy hxy'
    · intro x hdx hx; rw [hdag x] at hdx; rw [hoth x (hne x hdx)] at hx; rw [hns]; exact inv.hold x hdx hx
    · intro x hdx hx; rw [hdag x] at hdx; rw [hoth x (hne x hdx)] at hx; rw [hns]; exact inv.lis x hdx hx
    · intro x hdx hx; rw [hdag x] at hdx; rw [hoth x (hne x hdx)] at hx; rw [hns]; exact inv.bnd x hdx hx
    · intro x hdx; rw [hdag x] at hdx; rw [hoth x (hne x hdx)]; exact inv.nofail x hdx

theorem init_excl (cfgs : List Cfg) (d s : Nat) : Excl (init cfgs) d s := by
  have hpc : ∀ a, ((init cfgs).agents a).pc = .setup ∨ ((init cfgs).agents a).pc = .done := by
    intro a; simp only [init]; split <;> simp [fresh, idle]
  refine ⟨?_, ?_, ?_, ?_, ?_, ?_⟩
  · intro a _ ha
    rcases hpc a with h | h <;> rw [h] at ha <;> simp [holdsLock] at ha
  · intro a b _ _ _ ⟨ha, _⟩
    rcases hpc a with h | h <;> rw [h] at ha <;> simp [inRegion, inWindow, holding] at ha
  · intro a _ ha
    rcases hpc a with h | h <;> rw [h] at ha <;> simp [holding] at ha
  · intro a _ ha
    rcases hpc a with h | h <;> rw [h] at ha <;> cases ha
  · intro a _ ha
    rcases hpc a with h | h <;> rw [h] at ha <;> cases ha
  · intro a _
    rcases hpc a with h | h <;> rw [h] <;> rfl

/-- `dag`, `sock` and `canOpen` are constants of a step -/
theorem step_const {w w' : World} {a : Nat} {act : Act} (h : step w a act = some w') (c : Nat) :
    (w'.agents c).dag = (w.agents c).dag ∧ (w'.agents c).sock = (w.agents c).sock ∧
    (w'.agents c).canOpen = (w.agents c).canOpen :=
  ⟨step_dag h c, step_sock h c, step_canOpen h c⟩

theorem run_excl {w w' : World} {tr : List (Nat × Act)} {d s : Nat} (h : run w tr = some w')
    (hopen : OpenDag w d) (key : OneSpelling w d s) (inv : Excl w d s) : Excl w' d s := by
  induction tr generalizing w with
  | nil => simp [run] at h; subst h; exact inv
  | cons x tr ih =>
    obtain ⟨a, act⟩ := x
    simp only [run] at h
    split at h
    · cases h
    · rename_i w1 hs
      refine ih h ?_ ?_ (step_excl hopen key inv hs)
      · intro c hc
        rw [(step_const hs c).2.2]
        exact hopen c (by rw [← (step_const hs c).1]; exact hc)
      · intro c
        rw [(step_const hs c).1, (step_const hs c).2.1]
        exact key c

/-- `dag`, `sock` and `canOpen` are constants of a run -/
theorem run_const {w w' : World} {tr : List (Nat × Act)} (h : run w tr = some w') (c : Nat) :
    (w'.agents c).dag = (w.agents c).dag ∧ (w'.agents c).sock = (w.agents c).sock ∧
    (w'.agents c).canOpen = (w.agents c).canOpen := by
  induction tr generalizing w with
  | nil => simp [run] at h; subst h; exact ⟨rfl, rfl, rfl⟩
  | cons x tr ih =>
    obtain ⟨a, act⟩ := x
    simp only [run] at h
    split at h
    · cases h
    · rename_i w1 hs
      have := ih h
      have h1 := step_const hs c
      exact ⟨by rw [this.1, h1.1], by rw [this.2.1, h1.2.1], by rw [this.2.2, h1.2.2]⟩

/-- **the invariant holds in every reachable world**, for every DAG file all of whose agents can open it
    and reach it under one spelling of its path -/
theorem reach_excl {w : World} (h : Reach w) (d s : Nat) (hopen : OpenDag w d) (key : OneSpelling w d s) :
    Excl w d s := by
  obtain ⟨cfgs, tr, h⟩ := h
  have h0 : OpenDag (init cfgs) d := by
    intro c hc
    have := run_const h c
    rw [← this.2.2]; exact hopen c (by rw [this.1]; exact hc)
  have k0 : OneSpelling (init cfgs) d s := by
    intro c
    have := run_const h c
    rw [← this.1, ← this.2.1]; exact key c
  exact run_excl h h0 k0 (init_excl cfgs d s)

end BdModel.Lock
