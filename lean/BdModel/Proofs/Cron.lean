import BdModel.Cron.Daemon
/-
  Helper lemmas for C09: the search behind `Next` returns the least firing minute (induction on the
  search, for every fuel / limit), the tick arithmetic, and the structure of `runTickPinned`.
-/
namespace BdModel.Cron

/-! ## `search` / `next` -/

theorem fires_eq (s : Spec) (m : Nat) : fires s m = (dayOk s (m / 1440) && timeOk s (m % 1440)) := rfl

theorem fires_false_of_day (s : Spec) (m : Nat) (h : dayOk s (m / 1440) = false) : fires s m = false := by
  simp [fires_eq, h]

/-- whatever `search` answers is a firing minute in `[m, lim)` and nothing in `[m, r)` fires -/
theorem search_some (s : Spec) (lim : Nat) : ∀ (fuel m r : Nat), search s lim fuel m = some r →
    m ≤ r ∧ r < lim ∧ fires s r = true ∧ ∀ k, m ≤ k → k < r → fires s k = false := by
  intro fuel
  induction fuel with
  | zero => intro m r h; simp [search] at h
  | succ n ih =>
    intro m r h
    unfold search at h
    by_cases hl : lim ≤ m
    · simp [hl] at h
    · simp only [hl, if_false] at h
      by_cases hf : fires s m = true
      · simp only [hf, if_true] at h
        have : m = r := by simpa using h
        subst this
        exact ⟨Nat.le_refl _, by omega, hf, fun k h1 h2 => by omega⟩
      · have hf' : fires s m = false := by simpa using hf
        simp only [hf] at h
        by_cases hd : dayOk s (m / 1440) = true
        · simp only [hd, if_true] at h
          obtain ⟨a, b, c, d⟩ := ih (m + 1) r h
          refine ⟨by omega, b, c, fun k h1 h2 => ?_⟩
          by_cases hk : k = m
          · subst hk; exact hf'
          · exact d k (by omega) h2
        · have hd' : dayOk s (m / 1440) = false := by simpa using hd
          simp only [hd] at h
          obtain ⟨a, b, c, d⟩ := ih ((m / 1440 + 1) * 1440) r h
          refine ⟨by omega, b, c, fun k h1 h2 => ?_⟩
          by_cases hk : k < (m / 1440 + 1) * 1440
          · apply fires_false_of_day
            have : k / 1440 = m / 1440 := by omega
            rw [this]; exact hd'
          · exact d k (by omega) h2

/-- with enough fuel, `none` means that nothing fires in `[m, lim)` -/
theorem search_none (s : Spec) (lim : Nat) : ∀ (fuel m : Nat), lim - m ≤ fuel → search s lim fuel m = none →
    ∀ k, m ≤ k → k < lim → fires s k = false := by
  intro fuel
  induction fuel with
  | zero => intro m hfu _ k h1 h2; omega
  | succ n ih =>
    intro m hfu h k h1 h2
    unfold search at h
    have hl : ¬ lim ≤ m := by omega
    simp only [hl, if_false] at h
    by_cases hf : fires s m = true
    · simp [hf] at h
    · have hf' : fires s m = false := by simpa using hf
      simp only [hf] at h
      by_cases hd : dayOk s (m / 1440) = true
      · simp only [hd, if_true] at h
        by_cases hk : k = m
        · subst hk; exact hf'
        · exact ih (m + 1) (by omega) h k (by omega) h2
      · have hd' : dayOk s (m / 1440) = false := by simpa using hd
        simp only [hd] at h
        by_cases hk : k < (m / 1440 + 1) * 1440
        · apply fires_false_of_day
          have : k / 1440 = m / 1440 := by omega
          rw [this]; exact hd'
        · exact ih ((m / 1440 + 1) * 1440) (by omega) h k (by omega) h2

/-- `Next(u) = r`: r is the least firing minute strictly after instant `u`, inside the horizon -/
theorem next_some (s : Spec) (u r : Nat) (h : next s u = some r) :
    u < 60 * r ∧ r < horizon u ∧ fires s r = true ∧ ∀ k, u < 60 * k → k < r → fires s k = false := by
  obtain ⟨a, b, c, d⟩ := search_some s _ _ _ _ h
  exact ⟨by omega, b, c, fun k h1 h2 => d k (by omega) h2⟩

/-- `Next(u)` = zero time: nothing fires after `u` inside the horizon -/
theorem next_none (s : Spec) (u : Nat) (h : next s u = none) :
    ∀ k, u < 60 * k → k < horizon u → fires s k = false := by
  intro k h1 h2
  exact search_none s _ _ _ (Nat.le_refl _) h k (by omega) h2

/-- completeness: a least firing minute inside the horizon IS what `Next` answers -/
theorem next_complete (s : Spec) (u r : Nat) (h1 : u < 60 * r) (h2 : r < horizon u) (h3 : fires s r = true)
    (h4 : ∀ k, u < 60 * k → k < r → fires s k = false) : next s u = some r := by
  cases h : next s u with
  | none => have := next_none s u h r h1 h2; simp [h3] at this
  | some r' =>
    obtain ⟨a, b, c, d⟩ := next_some s u r' h
    by_cases hlt : r' < r
    · have := h4 r' a hlt; simp [c] at this
    · by_cases hgt : r < r'
      · have := d r h1 hgt; simp [h3] at this
      · have : r' = r := by omega
        rw [this]

/-! ## the horizon lies beyond the minute asked about (civil-calendar fact) -/

/-- the March-based year of the era decomposition inside `civilOfDay` -/
def eraYear (d : Nat) : Nat :=
  ((d + 306) % 146097 - (d + 306) % 146097 / 1460 + (d + 306) % 146097 / 36524 - (d + 306) % 146097 / 146096) / 365
    + (d + 306) / 146097 * 400

theorem ite_succ_ge (c : Prop) [Decidable c] (A : Nat) : (if c then A + 1 else A) ≥ A := by
  split <;> omega

theorem civil_year_ge (d : Nat) : (civilOfDay d).year ≥ eraYear d := by
  unfold civilOfDay eraYear
  exact ite_succ_ge _ _

theorem dayOfCivil_jan1 (y : Nat) (h : 1 ≤ y) :
    dayOfCivil y 1 1 = (y - 1) / 400 * 146097 + ((y - 1) % 400 * 365 + (y - 1) % 400 / 4 - (y - 1) % 400 / 100) := by
  unfold dayOfCivil
  have h12 : (1 : Nat) ≤ 2 := by decide
  have h12' : ¬ (1 : Nat) > 2 := by decide
  simp only [h12, h12', if_true, if_false]
  omega

/-- every day lies before 1 January of (its own year + 6) -/
theorem day_lt_year_end (d : Nat) : d < dayOfCivil ((civilOfDay d).year + 6) 1 1 := by
  have h1 := civil_year_ge d
  rw [dayOfCivil_jan1 _ (by omega)]
  unfold eraYear at h1
  generalize (civilOfDay d).year = Y at h1 ⊢
  omega

/-- the minute a tick asks about is always inside the horizon of its own `Next(tick - 1s)` -/
theorem minute_lt_horizon (m : Nat) (hm : 0 < m) : m < horizon (60 * m - 1) := by
  unfold horizon minuteOfYearStart yearOfSec
  have h : (60 * m - 1 + 1) / 86400 = m / 1440 := by omega
  rw [h]
  have := day_lt_year_end (m / 1440)
  generalize dayOfCivil ((civilOfDay (m / 1440)).year + 6) 1 1 = D at this ⊢
  omega

/-- a schedule that fires in the tick's own minute never gets the zero time -/
theorem next_ne_none_of_fires (s : Spec) (m : Nat) (hm : 0 < m) (hf : fires s m = true) :
    next s (60 * m - 1) ≠ none := by
  intro hn
  have := next_none s _ hn m (by omega) (minute_lt_horizon m hm)
  rw [hf] at this
  cases this

/-! ## invoke test -/

/-- the zero time is skipped (F8 fix) -/
theorem not_invoked_of_none (s : Spec) (t : Nat) (h : next s (t - 1) = none) : invoked s t = false := by
  simp [invoked, h]

/-- an invoked entry has a real `Next`, not after the tick -/
theorem invoked_next (s : Spec) (t : Nat) (h : invoked s t = true) :
    ∃ r, next s (t - 1) = some r ∧ 60 * r ≤ t := by
  unfold invoked at h
  cases hn : next s (t - 1) with
  | none => simp [hn] at h
  | some r =>
    simp only [hn] at h
    refine ⟨r, rfl, ?_⟩
    have : ¬ (60 * r > t) := by simpa using h
    omega

/-- for a tick `t = 60*m`: the entry is invoked iff minute m fires — no side condition -/
theorem invoked_iff_fires (s : Spec) (m : Nat) (hm : 0 < m) :
    invoked s (60 * m) = true ↔ fires s m = true := by
  constructor
  · intro hi
    obtain ⟨r, hn, hle⟩ := invoked_next s _ hi
    obtain ⟨a, b, c, d⟩ := next_some s _ r hn
    have : r = m := by omega
    rw [← this]; exact c
  · intro hf
    cases hn : next s (60 * m - 1) with
    | none => exact absurd hn (next_ne_none_of_fires s m hm hf)
    | some r =>
      obtain ⟨a, b, c, d⟩ := next_some s _ r hn
      simp only [invoked, hn]
      by_cases hlt : m < r
      · have := d m (by omega) hlt; simp [hf] at this
      · have : r = m := by omega
        subst this; simp

/-- … and then the `Next` handed to the job is the tick itself -/
theorem nextTime_of_invoked (s : Spec) (m : Nat) (hm : 0 < m)
    (hi : invoked s (60 * m) = true) : nextTime s (60 * m - 1) = 60 * m := by
  obtain ⟨r, hn, hle⟩ := invoked_next s _ hi
  obtain ⟨a, b, c, d⟩ := next_some s _ r hn
  simp only [nextTime, hn]
  omega

/-! ## ticks -/

theorem truncMin_mul (m : Nat) : truncMin (60 * m) = 60 * m := by simp [truncMin]

theorem truncMin_dvd (t : Nat) : ∃ m, truncMin t = 60 * m := ⟨t / 60, by unfold truncMin; omega⟩

theorem nextTick_mul (m : Nat) : nextTick (60 * m) = 60 * (m + 1) := by
  unfold nextTick truncMin; omega

theorem loopTicks_fst (m : Nat) : ∀ (nows : List Nat),
    (loopTicks (60 * m) nows).map (·.1) = (List.range nows.length).map (fun k => 60 * (m + k)) := by
  intro nows
  induction nows generalizing m with
  | nil => simp [loopTicks]
  | cons n rest ih =>
    simp only [loopTicks, List.map_cons, List.length_cons, List.range_succ_eq_map, nextTick_mul, ih (m + 1)]
    simp only [List.map_map, Nat.add_zero, List.cons.injEq, true_and]
    apply List.map_congr_left
    intro k _
    simp only [Function.comp]
    omega

/-! ## structure of `runTickPinned` -/

theorem runTickPinned_nil (susp : Nat → Bool) (st : Nat → Status) (t : Nat) : runTickPinned [] susp st t = [] := rfl

theorem runTickPinned_cons (d : Dag) (rest : List Dag) (susp : Nat → Bool) (st : Nat → Status) (t : Nat) :
    runTickPinned (d :: rest) susp st t =
      (if susp d.id then [] else (entriesOf d).filterMap (entryAct st t)) ++ runTickPinned rest susp st t := by
  unfold runTickPinned readEntries
  by_cases h : susp d.id = true
  · simp [h]
  · have h' : susp d.id = false := by simpa using h
    simp [h', List.filterMap_append]

theorem mem_runTickPinned (dags : List Dag) (susp : Nat → Bool) (st : Nat → Status) (t : Nat) (a : Act) :
    a ∈ runTickPinned dags susp st t ↔
      ∃ d ∈ dags, susp d.id = false ∧ ∃ e ∈ entriesOf d, entryAct st t e = some a := by
  unfold runTickPinned readEntries
  simp only [List.mem_filterMap, List.mem_flatMap, List.mem_filter]
  constructor
  · rintro ⟨e, ⟨d, ⟨hd, hs⟩, he⟩, ha⟩
    exact ⟨d, hd, by simpa using hs, e, he, ha⟩
  · rintro ⟨d, hd, hs, e, he, ha⟩
    exact ⟨e, ⟨d, ⟨hd, by simp [hs]⟩, he⟩, ha⟩

theorem mem_entriesOf (d : Dag) (e : Entry) :
    e ∈ entriesOf d ↔ e.dag = d.id ∧
      ((e.kind = .start ∧ e.spec ∈ d.starts) ∨ (e.kind = .stop ∧ e.spec ∈ d.stops) ∨
       (e.kind = .restart ∧ e.spec ∈ d.restarts)) := by
  unfold entriesOf
  simp only [List.mem_append, List.mem_map]
  constructor
  · rintro ((⟨sp, h, rfl⟩ | ⟨sp, h, rfl⟩) | ⟨sp, h, rfl⟩) <;> simp [h]
  · rintro ⟨h1, (⟨h2, h3⟩ | ⟨h2, h3⟩ | ⟨h2, h3⟩)⟩
    · exact Or.inl (Or.inl ⟨e.spec, h3, by cases e; simp_all⟩)
    · exact Or.inl (Or.inr ⟨e.spec, h3, by cases e; simp_all⟩)
    · exact Or.inr ⟨e.spec, h3, by cases e; simp_all⟩

/-- every call issued for an entry names the entry's own DAG and has the entry's kind -/
theorem entryAct_shape (st : Nat → Status) (t : Nat) (e : Entry) (a : Act) (h : entryAct st t e = some a) :
    invoked e.spec t = true ∧
    ((e.kind = .start ∧ a = .start e.dag) ∨ (e.kind = .stop ∧ a = .stop e.dag) ∨
     (e.kind = .restart ∧ a = .restart e.dag)) := by
  unfold entryAct at h
  by_cases hi : invoked e.spec t = true
  · simp only [hi, if_true] at h
    refine ⟨hi, ?_⟩
    unfold invoke at h
    cases hk : e.kind with
    | start =>
      simp only [hk] at h
      unfold jobStart at h
      left
      refine ⟨rfl, ?_⟩
      split at h
      · simp at h
      · split at h
        · simp at h
        · split at h
          · split at h
            · simp at h
            · simpa using h.symm
          · simpa using h.symm
    | stop =>
      simp only [hk] at h
      unfold jobStop at h
      right; left
      refine ⟨rfl, ?_⟩
      split at h
      · simp at h
      · split at h
        · simpa using h.symm
        · simp at h
    | restart =>
      simp only [hk] at h
      unfold jobRestart at h
      right; right
      exact ⟨rfl, by simpa using h.symm⟩
  · simp [hi] at h

theorem entryAct_dag (st : Nat → Status) (t : Nat) (e : Entry) (a : Act) (h : entryAct st t e = some a) :
    a.dag = e.dag := by
  obtain ⟨_, (⟨_, rfl⟩ | ⟨_, rfl⟩ | ⟨_, rfl⟩)⟩ := entryAct_shape st t e a h <;> rfl

/-- the guard of `jobImpl.Start`, as a proposition -/
def StartGuard (st : Status) (jnext : Nat) : Prop :=
  st.err = false ∧ st.running = false ∧ ∀ l, st.started = some l → truncMin l < jnext

theorem jobStart_iff (dag jnext : Nat) (st : Status) :
    jobStart dag jnext st = some (.start dag) ↔ StartGuard st jnext := by
  unfold jobStart StartGuard
  cases he : st.err <;> cases hr : st.running <;> cases hs : st.started <;> simp

/-! ## the loader never panics (since the F9 / F26 fixes) -/

theorem parseCron_ne_panic (v : List Char) : parseCron v ≠ .panic := by
  unfold parseCron
  cases parse v <;> simp

theorem parseList_no_panic : ∀ (vs : List (List Char)) (bad : Load), parseList vs = .inr bad → bad ≠ .panic := by
  intro vs
  induction vs with
  | nil => intro bad h; simp [parseList] at h
  | cons v rest ih =>
    intro bad h
    unfold parseList at h
    cases hp : parseCron v with
    | ok sp =>
      simp only [hp] at h
      cases hr : parseList rest with
      | inl r => simp [hr] at h
      | inr b =>
        simp only [hr] at h
        have : b = bad := by simpa using h
        subst this
        exact ih b hr
    | err => simp only [hp] at h; have : Load.err = bad := by simpa using h
             subst this; simp
    | panic => exact absurd hp (parseCron_ne_panic v)
    | zone => simp only [hp] at h; have : Load.zone = bad := by simpa using h
              subst this; simp

theorem scheduleMap_no_panic : ∀ (kvs : List (SKey × SVal)) (acc : List (List Char) × List (List Char) × List (List Char))
    (bad : Load), scheduleMap kvs acc = .inr bad → bad ≠ .panic := by
  intro kvs
  induction kvs with
  | nil => intro acc bad h; simp [scheduleMap] at h
  | cons kv rest ih =>
    intro acc bad h
    obtain ⟨k, v⟩ := kv
    obtain ⟨a, b, c⟩ := acc
    unfold scheduleMap at h
    by_cases hk : (k == SKey.nonString) = true
    · simp only [hk, if_true] at h
      have : Load.err = bad := by simpa using h
      subst this; simp
    · simp only [hk] at h
      cases hv : valStrings v with
      | none =>
        simp only [hv] at h
        have : Load.err = bad := by simpa using h
        subst this; simp
      | some vals =>
        simp only [hv] at h
        cases k with
        | start =>
          simp only at h
          cases hp : parseList vals with
          | inr b' => simp only [hp] at h; have : b' = bad := by simpa using h
                      subst this; exact parseList_no_panic vals b' hp
          | inl r => simp only [hp] at h; exact ih _ bad h
        | stop =>
          simp only at h
          cases hp : parseList vals with
          | inr b' => simp only [hp] at h; have : b' = bad := by simpa using h
                      subst this; exact parseList_no_panic vals b' hp
          | inl r => simp only [hp] at h; exact ih _ bad h
        | restart =>
          simp only at h
          cases hp : parseList vals with
          | inr b' => simp only [hp] at h; have : b' = bad := by simpa using h
                      subst this; exact parseList_no_panic vals b' hp
          | inl r => simp only [hp] at h; exact ih _ bad h
        | unknown => simp only at h; have : Load.err = bad := by simpa using h
                     subst this; simp
        | nonString => simp at hk

theorem parseThree_no_panic (a b c : List (List Char)) : parseThree a b c ≠ .panic := by
  unfold parseThree
  cases ha : parseList a with
  | inr bad => simp only; exact parseList_no_panic a bad ha
  | inl sa =>
    simp only
    cases hb : parseList b with
    | inr bad => simp only; exact parseList_no_panic b bad hb
    | inl sb =>
      simp only
      cases hc : parseList c with
      | inr bad => simp only; exact parseList_no_panic c bad hc
      | inl sc => simp

/-- `buildSchedule` answers ok or error for EVERY decoded `schedule:` value — never a panic -/
theorem buildSchedule_no_panic (d : SchedDef) : buildSchedule d ≠ .panic := by
  cases d with
  | absent => simp [buildSchedule]
  | unreadable => simp [buildSchedule]
  | val v =>
    cases v with
    | str s => simp only [buildSchedule]; exact parseThree_no_panic _ _ _
    | list items =>
      simp only [buildSchedule]
      split
      · exact parseThree_no_panic _ _ _
      · simp
    | other => simp [buildSchedule]
  | map kvs =>
    simp only [buildSchedule]
    cases h : scheduleMap kvs ([], [], []) with
    | inr bad => simp only; exact scheduleMap_no_panic kvs _ bad h
    | inl acc =>
      obtain ⟨a, b, c⟩ := acc
      simp only
      exact parseThree_no_panic _ _ _

/-- with no panicking load `initDags` always yields a DAG map -/
theorem initDags_isSome (files : List (Nat × Load)) (h : ∀ f ∈ files, f.2 ≠ .panic) :
    ∀ m, (initDags files m).isSome = true := by
  induction files with
  | nil => intro m; simp [initDags]
  | cons f rest ih =>
    intro m
    obtain ⟨id, l⟩ := f
    have hl : l ≠ .panic := h (id, l) (by simp)
    have hrest : ∀ f ∈ rest, f.2 ≠ .panic := fun f hf => h f (by simp [hf])
    unfold initDags
    cases l with
    | panic => exact absurd rfl hl
    | ok a b c => simp only [loadFile]; exact ih hrest _
    | err => simp only [loadFile]; exact ih hrest _
    | zone => simp only [loadFile]; exact ih hrest _

/-! ## isolation -/

theorem initDags_skip_err (pre post : List (Nat × Load)) (id : Nat) (m : List Dag) :
    initDags (pre ++ (id, .err) :: post) m = initDags (pre ++ post) m := by
  induction pre generalizing m with
  | nil => simp [initDags, loadFile]
  | cons p rest ih =>
    obtain ⟨pid, pl⟩ := p
    simp only [List.cons_append, initDags]
    cases loadFile m pid pl with
    | none => rfl
    | some m' => exact ih m'

/-- the calls issued for DAG `d` depend only on the definitions loaded under id `d` -/
theorem runTickPinned_filter_dag (dags : List Dag) (susp : Nat → Bool) (st : Nat → Status) (t d : Nat) :
    (runTickPinned dags susp st t).filter (fun a => a.dag == d) =
      runTickPinned (dags.filter (fun x => x.id == d)) susp st t := by
  induction dags with
  | nil => simp [runTickPinned_nil]
  | cons x rest ih =>
    rw [runTickPinned_cons, List.filter_append, ih]
    have hall : ∀ a ∈ (if susp x.id then [] else (entriesOf x).filterMap (entryAct st t)), a.dag = x.id := by
      intro a ha
      by_cases hs : susp x.id = true
      · simp [hs] at ha
      · simp only [hs] at ha
        obtain ⟨e, he, hea⟩ := List.mem_filterMap.mp ha
        rw [entryAct_dag st t e a hea]
        exact ((mem_entriesOf x e).mp he).1
    by_cases hx : x.id = d
    · have h1 : (x :: rest).filter (fun y => y.id == d) = x :: rest.filter (fun y => y.id == d) := by
        simp [hx]
      rw [h1, runTickPinned_cons]
      congr 1
      apply List.filter_eq_self.mpr
      intro a ha
      simp [hall a ha, hx]
    · have h1 : (x :: rest).filter (fun y => y.id == d) = rest.filter (fun y => y.id == d) := by
        simp [hx]
      rw [h1]
      have : List.filter (fun a => a.dag == d) (if susp x.id then [] else (entriesOf x).filterMap (entryAct st t)) = [] := by
        apply List.filter_eq_nil_iff.mpr
        intro a ha
        simp [hall a ha, hx]
      rw [this, List.nil_append]

theorem replace_filter_other (m : List Dag) (x : Dag) (d : Nat) (h : x.id ≠ d) :
    (m.map (fun y => if y.id == x.id then x else y)).filter (fun y => y.id == d) = m.filter (fun y => y.id == d) := by
  induction m with
  | nil => rfl
  | cons y rest ih =>
    simp only [List.map_cons, List.filter_cons, ih]
    by_cases hy : y.id = x.id
    · simp [hy, h]
    · simp [hy]

theorem upsert_filter_other (m : List Dag) (x : Dag) (d : Nat) (h : x.id ≠ d) :
    (upsert m x).filter (fun y => y.id == d) = m.filter (fun y => y.id == d) := by
  unfold upsert
  split
  · exact replace_filter_other m x d h
  · simp [List.filter_append, h]

end BdModel.Cron
