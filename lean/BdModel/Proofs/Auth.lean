import BdModel.Auth.Chain
/- helper lemmas and main proofs for C17 -/
namespace BdModel.Auth

def WFBytes (bs : Bytes) : Prop := ∀ b ∈ bs, b < 256

/-! ### base64 round trip -/

theorem b64val_b64char (v : Nat) (h : v < 64) : b64val (b64char v) = some v := by
  unfold b64char b64val
  split
  · rw [if_pos (by omega)]; congr 1; omega
  split
  · rw [if_neg (by omega), if_pos (by omega)]; congr 1; omega
  split
  · rw [if_neg (by omega), if_neg (by omega), if_pos (by omega)]; congr 1; omega
  split
  · simp; omega
  · simp; omega

theorem b64char_ne (v : Nat) : b64char v ≠ 61 ∧ b64char v ≠ 13 ∧ b64char v ≠ 10 := by
  unfold b64char
  repeat' split
  all_goals omega

theorem encode_mem (bs : Bytes) : ∀ c ∈ encode bs, c ≠ 13 ∧ c ≠ 10 := by
  fun_induction encode bs with
  | case1 => simp
  | case2 a => 
    intro c hc
    simp only [List.mem_cons, List.not_mem_nil, or_false, pad] at hc
    have := b64char_ne (a/4)
    have := b64char_ne ((a%4)*16)
    omega
  | case3 a b =>
    intro c hc
    simp only [List.mem_cons, List.not_mem_nil, or_false, pad] at hc
    have := b64char_ne (a/4)
    have := b64char_ne ((a%4)*16 + b/16)
    have := b64char_ne ((b%16)*4)
    omega
  | case4 a b c rest ih =>
    intro x hx
    simp only [List.mem_cons] at hx
    have := b64char_ne (a/4)
    have := b64char_ne ((a%4)*16 + b/16)
    have := b64char_ne ((b%16)*4 + c/64)
    have := b64char_ne (c%64)
    have := ih x
    rcases hx with h|h|h|h|h
    all_goals (first | omega | exact ih x h)

theorem encode_filter (bs : Bytes) : (encode bs).filter (fun ch => ch != 13 && ch != 10) = encode bs := by
  rw [List.filter_eq_self]
  intro a ha
  have := encode_mem bs a ha
  simp [this.1, this.2]

theorem decodeClean_step (c0 c1 c2 c3 v0 v1 v2 v3 : Nat) (rest : Bytes)
    (h0 : b64val c0 = some v0) (h1 : b64val c1 = some v1) (h2 : b64val c2 = some v2) (h3 : b64val c3 = some v3)
    (p2 : c2 ≠ pad) (p3 : c3 ≠ pad) :
    decodeClean (c0 :: c1 :: c2 :: c3 :: rest) = (decodeClean rest).map (fun t =>
        (v0 * 4 + v1 / 16) % 256 :: ((v1 % 16) * 16 + v2 / 4) % 256 :: ((v2 % 4) * 64 + v3) % 256 :: t) := by
  cases rest with
  | nil => simp [decodeClean, h0, h1, h2, h3, p2, p3]
  | cons x xs => simp [decodeClean, h0, h1, h2, h3]

theorem decodeClean_encode (bs : Bytes) (h : WFBytes bs) : decodeClean (encode bs) = some bs := by
  fun_induction encode bs with
  | case1 => simp [decodeClean]
  | case2 a =>
    have ha : a < 256 := h a (by simp)
    simp only [decodeClean]
    rw [b64val_b64char _ (by omega), b64val_b64char _ (by omega)]
    simp
    omega
  | case3 a b =>
    have ha : a < 256 := h a (by simp)
    have hb : b < 256 := h b (by simp)
    simp only [decodeClean]
    rw [b64val_b64char _ (by omega), b64val_b64char _ (by omega)]
    have := (b64char_ne (b % 16 * 4)).1
    simp [pad, this]
    rw [b64val_b64char _ (by omega)]
    simp
    omega
  | case4 a b c rest ih =>
    have ha : a < 256 := h a (by simp)
    have hb : b < 256 := h b (by simp)
    have hc : c < 256 := h c (by simp)
    have hr : WFBytes rest := fun x hx => h x (by simp [hx])
    rw [decodeClean_step _ _ _ _ _ _ _ _ _ (b64val_b64char _ (by omega)) (b64val_b64char _ (by omega))
      (b64val_b64char _ (by omega)) (b64val_b64char _ (by omega)) (b64char_ne _).1 (b64char_ne _).1, ih hr]
    simp
    omega

theorem decode_encode (bs : Bytes) (h : WFBytes bs) : decode (encode bs) = some bs := by
  unfold decode
  rw [encode_filter]
  exact decodeClean_encode bs h

/-! ### chain: soundness, shape, path -/

theorem tokenStage_api_or_401 (cfg : Cfg) (fields : List Bytes) (a : Bool) :
    tokenStage cfg fields a = .api ∨ tokenStage cfg fields a = .unauthorized := by
  unfold tokenStage
  repeat' split
  all_goals simp

theorem authChain_api_or_401 (cfg : Cfg) (hdr : Bytes) :
    authChain cfg hdr = .api ∨ authChain cfg hdr = .unauthorized := by
  unfold authChain
  simp only
  repeat' split
  all_goals first | exact tokenStage_api_or_401 _ _ _ | simp

theorem tokenStage_false_api (cfg : Cfg) (hdr : Bytes) (h : tokenStage cfg (splitSpace hdr) false = .api) :
    cfg.token = none ∨ ∃ t, cfg.token = some t ∧ t ≠ [] ∧ field1 hdr = some t := by
  unfold tokenStage at h
  split at h
  · left; assumption
  · rename_i t ht
    right
    refine ⟨t, ht, ?_⟩
    simp only [Bool.false_eq_true, if_false] at h
    unfold field1
    split at h
    · rename_i f0 f1 fs hf
      split at h
      · cases h
      · split at h
        · subst_vars; simp_all
        · cases h
    · cases h

theorem authChain_sound (cfg : Cfg) (hdr : Bytes) (h : authChain cfg hdr = .api) :
    (cfg.basic = none ∧ cfg.token = none) ∨
    (∃ u p, cfg.basic = some (u, p) ∧ parseBasic hdr = some (u, p)) ∨
    (∃ t, cfg.token = some t ∧ t ≠ [] ∧ field1 hdr = some t) := by
  unfold authChain at h
  simp only at h
  split at h
  · rename_i hb
    rcases tokenStage_false_api cfg hdr h with h1 | h1
    · left; exact ⟨hb, h1⟩
    · right; right; exact h1
  · rename_i u p hb
    split at h
    · rename_i hc
      rcases tokenStage_false_api cfg hdr h with h1 | h1
      · rw [h1] at hc; simp at hc
      · right; right; exact h1
    · split at h
      · cases h
      · rename_i u' p' hp
        split at h
        · rename_i he
          right; left
          refine ⟨u, p, hb, ?_⟩
          rw [hp, he.1, he.2]
        · cases h

theorem noauth_passes (cfg : Cfg) (hdr : Bytes) (hb : cfg.basic = none) (ht : cfg.token = none) :
    authChain cfg hdr = .api := by
  unfold authChain
  simp only [hb]
  unfold tokenStage
  simp [ht]

theorem isPrefixOf_eq (p s : Bytes) (h : isPrefixOf p s = true) : s = p ++ s.drop p.length := by
  unfold isPrefixOf at h
  have : s.take p.length = p := by simpa using h
  conv => lhs; rw [← List.take_append_drop p.length s, this]

theorem decide_api_path (cfg : Cfg) (path hdr : Bytes) (h : decide cfg path hdr = .api) :
    authChain cfg hdr = .api ∧
    ∃ p, isPrefixOf apiPrefix p = true ∧ (path = cfg.basePath ++ p ∨ (cfg.basePath = [] ∧ path = p)) := by
  unfold decide at h
  split at h
  · cases h
  · simp only at h
    split at h
    · cases h
    · rename_i p hp
      split at h
      · rename_i hpre
        refine ⟨h, p, hpre, ?_⟩
        split at hp
        · rename_i he
          right; simp at hp; exact ⟨he, hp⟩
        · split at hp
          · rename_i hpp
            simp at hp
            left; rw [← hp]; exact isPrefixOf_eq _ _ hpp
          · cases hp
      · cases h

/-- the PATH dimension: whatever follows `/api` in a URL path on the API side (base path stripped) — dot segments,
    `docs`, doubled slashes, anything — the decision is the chain's verdict on the header alone: the model has no
    path-dependent exemption from the chain -/
theorem decide_api_any_path (cfg : Cfg) (rest hdr : Bytes) :
    decide cfg (cfg.basePath ++ apiPrefix ++ rest) hdr = authChain cfg hdr := by
  have hne : cfg.basePath ++ apiPrefix ++ rest ≠ [47] := by
    intro h
    have := congrArg List.length h
    simp [apiPrefix] at this
    omega
  unfold decide
  rw [if_neg (fun h => hne h.2)]
  by_cases hb : cfg.basePath = []
  · simp [hb, isPrefixOf, apiPrefix]
  · simp [hb, isPrefixOf, apiPrefix, List.append_assoc]

/-! ### chain: completeness -/


theorem splitSpace_nospace (a : Bytes) (h : (32 : Nat) ∉ a) : splitSpace a = [a] := by
  induction a with
  | nil => simp [splitSpace]
  | cons x xs ih =>
    simp only [List.mem_cons, not_or] at h
    have hx : x ≠ 32 := fun e => h.1 e.symm
    simp [splitSpace, hx, ih h.2]

theorem splitSpace_append (a b : Bytes) (h : (32 : Nat) ∉ a) :
    splitSpace (a ++ 32 :: b) = a :: splitSpace b := by
  induction a with
  | nil => simp [splitSpace]
  | cons x xs ih =>
    simp only [List.mem_cons, not_or] at h
    have hx : x ≠ 32 := fun e => h.1 e.symm
    simp [splitSpace, hx, ih h.2]

theorem cutColon_append (u p : Bytes) (h : (58 : Nat) ∉ u) : cutColon (u ++ 58 :: p) = some (u, p) := by
  induction u with
  | nil => simp [cutColon]
  | cons x xs ih =>
    simp only [List.mem_cons, not_or] at h
    have hx : x ≠ 58 := fun e => h.1 e.symm
    simp [cutColon, hx, ih h.2]

theorem complete_token (cfg : Cfg) (t : Bytes) (ht : cfg.token = some t) (hne : t ≠ []) (hs : (32 : Nat) ∉ t) :
    authChain cfg (bearer ++ [32] ++ t) = .api := by
  have hsplit : splitSpace (bearer ++ [32] ++ t) = [bearer, t] := by
    rw [List.append_assoc, List.singleton_append, splitSpace_append _ _ (by decide), splitSpace_nospace _ hs]
  have hts : tokenStage cfg [bearer, t] false = .api := by
    simp [tokenStage, ht, hne]
  unfold authChain
  simp only [hsplit]
  split
  · exact hts
  · rw [if_pos]
    · exact hts
    · simp [ht]

theorem complete_basic (cfg : Cfg) (u p : Bytes) (hb : cfg.basic = some (u, p))
    (hu : WFBytes u) (hp : WFBytes p) (hc : (58 : Nat) ∉ u) :
    authChain cfg (basicPrefix ++ encode (u ++ [58] ++ p)) = .api := by
  have hwf : WFBytes (u ++ [58] ++ p) := by
    intro b hb
    simp only [List.mem_append, List.mem_singleton] at hb
    rcases hb with (h | h) | h
    · exact hu b h
    · omega
    · exact hp b h
  have hsplit : splitSpace (basicPrefix ++ encode (u ++ [58] ++ p)) =
      [66, 97, 115, 105, 99] :: splitSpace (encode (u ++ [58] ++ p)) := by
    have : basicPrefix ++ encode (u ++ [58] ++ p) = [66, 97, 115, 105, 99] ++ 32 :: encode (u ++ [58] ++ p) := by
      simp [basicPrefix]
    rw [this, splitSpace_append _ _ (by decide)]
  have hparse : parseBasic (basicPrefix ++ encode (u ++ [58] ++ p)) = some (u, p) := by
    unfold parseBasic
    have hlen : ¬ (basicPrefix ++ encode (u ++ [58] ++ p)).length < 6 := by
      simp [basicPrefix]
    have htake : (basicPrefix ++ encode (u ++ [58] ++ p)).take 6 = basicPrefix := by
      simp [basicPrefix]
    have hdrop : (basicPrefix ++ encode (u ++ [58] ++ p)).drop 6 = encode (u ++ [58] ++ p) := by
      simp [basicPrefix]
    rw [if_neg hlen, htake, hdrop, decode_encode _ hwf]
    simp only [bne_self_eq_false, Bool.false_eq_true, if_false]
    rw [List.append_assoc, List.singleton_append, cutColon_append _ _ hc]
  have hts : ∀ f, tokenStage cfg f true = .api := by
    intro f; unfold tokenStage; split <;> simp
  unfold authChain
  simp only [hsplit, hb, hparse]
  rw [if_neg]
  · simp [hts]
  · simp [bearer]

end BdModel.Auth

#print axioms BdModel.Auth.decode_encode
#print axioms BdModel.Auth.authChain_sound
#print axioms BdModel.Auth.authChain_api_or_401
#print axioms BdModel.Auth.decide_api_path
#print axioms BdModel.Auth.decide_api_any_path
#print axioms BdModel.Auth.complete_basic
#print axioms BdModel.Auth.complete_token
#print axioms BdModel.Auth.noauth_passes
