import BdModel.Sched.Retry
import BdModel.Proofs.Kahn
import BdModel.Proofs.RetryBfs
import BdModel.Proofs.RetryKeep
/- helper lemmas and main proofs for C10 (retry closure) -/
namespace BdModel.Retry
open BdModel.Cycle BdModel.Sched

/-- `u` reaches `v` along edges (reflexive-transitive) -/
def Reaches (es : List (Nat × Nat)) (u v : Nat) : Prop := Relation.ReflTransGen (Rel es) u v

/-- the graph is acyclic and all endpoints are < n -/
def GoodGraph (n : Nat) (es : List (Nat × Nat)) : Prop :=
  (∀ e ∈ es, e.1 < n ∧ e.2 < n) ∧ ¬ ∃ v, Relation.TransGen (Rel es) v v

/-- the fuel suffices: the walk ends with an empty frontier -/
theorem setupRetry_drained (n : Nat) (es : List (Nat × Nat)) (st : Nat → NStatus) (R : NStatus → Bool)
    (hg : GoodGraph n es) : (setupRetry n es st R).2 = [] := by
  rw [setupRetry_eq_lv]
  exact lv_nil_of_le n hg.1 hg.2 (n + 1) (Nat.le_succ n)

set_option linter.unusedVariables false in
/-- marked for retry ⇔ recorded in the reset set, or downstream of such a step -/
theorem retry_iff_closure (n : Nat) (es : List (Nat × Nat)) (st : Nat → NStatus) (R : NStatus → Bool)
    (hg : GoodGraph n es) (v : Nat) (hv : v < n) :
    (setupRetry n es st R).1.retry v = true ↔ ∃ u, u < n ∧ R (st u) = true ∧ Reaches es u v := by
  rw [setupRetry_eq_lv]
  constructor
  · intro h
    exact lv_sound n hg.1 (n + 1) v h
  · rintro ⟨u, hun, hu, huv⟩
    obtain ⟨k, hk⟩ := lv_cover (st := st) (R := R) n hg.1 hg.2 u hun
    obtain ⟨j, hj, hjb⟩ := lv_chain n huv hk (Or.inr hu)
    have hjn : j < n := lv_bound n hg.1 hg.2 j v hj
    have h1 := (lv_hot n j v hj hjb).1
    have h2 := lv_retry_mono n v h1 (n - j)
    rwa [show j + 1 + (n - j) = n + 1 by omega] at h2

set_option linter.unusedVariables false in
/-- cleared ⇔ marked: every marked step is actually reset (and nothing else is) -/
theorem cleared_iff_retry (n : Nat) (es : List (Nat × Nat)) (st : Nat → NStatus) (R : NStatus → Bool)
    (hg : GoodGraph n es) (v : Nat) (hv : v < n) :
    (setupRetry n es st R).1.cleared v = (setupRetry n es st R).1.retry v := by
  rw [setupRetry_eq_lv, Bool.eq_iff_iff]
  constructor
  · exact lv_cleared_sub n (n + 1) v
  · intro h
    rcases lv_pending n (n + 1) v h with h | h
    · exact h
    · rw [lv_nil_of_le n hg.1 hg.2 (n + 1) (Nat.le_succ n)] at h
      simp at h

/-- in the retry run, a step that was kept (recorded finished / skipped and not reset) is never executed
    and keeps its recorded state -/
theorem kept_never_executes (c : Cfg) (st : Nat → NStatus) (s : State) (h : ReachFrom c (initFrom st) s) (i : Nat)
    (hk : st i = .success ∨ st i = .skipped) :
    (s.nd i).execs = 0 ∧ (s.nd i).status = st i ∧ (s.nd i).pc = .idle := by
  have := keep_inv c st i hk s h
  exact ⟨this.1, this.2.1, this.2.2.1⟩

end BdModel.Retry

#print axioms BdModel.Retry.setupRetry_drained
#print axioms BdModel.Retry.retry_iff_closure
#print axioms BdModel.Retry.cleared_iff_retry
#print axioms BdModel.Retry.kept_never_executes
