/-
  Record-layer model of the JSON-file history store (internal/persistence/jsondb, after the fixes
  f3a91b0 / fe426dd / 2ac8499): one file per run and its compacted twin, named
  `<prefix>.<yyyymmdd.hh:mm:ss.mmm>.<req8>[_c].dat` inside a per-DAG directory `<prefix>-<md5(path)>`.
  A file is the structured record of what its name and content say; the string layer (rendering of
  names, glob matching, timestamp extraction) is below this model: DAG identity = directory (md5 of
  the path is assumed injective), glob(pattern d) = files of d, timestamp = millisecond stamp.
  Core-only.
-/
namespace BdModel.Hist

/-- one status line: the full request id recorded in the JSON and a payload marker -/
structure Line where
  req : Nat
  pay : Nat
deriving DecidableEq, Repr

structure RunFile where
  dag   : Nat
  stamp : Nat          -- start time, unix milliseconds (fixed-width in the name ⇒ numeric order = name order)
  req8  : Nat          -- first 8 characters of the request id (fixed width hex ⇒ numeric order = name order)
  comp  : Bool         -- `_c` twin ('.' < '_' ⇒ the original sorts before its twin)
  lines : List Line := []   -- complete status lines, oldest first
  age   : Nat := 0     -- days since the file was last modified (retention works on mtime)
deriving DecidableEq, Repr

structure Key where
  dag : Nat
  stamp : Nat
  req8 : Nat
  comp : Bool
deriving DecidableEq, Repr

def RunFile.key (f : RunFile) : Key := ⟨f.dag, f.stamp, f.req8, f.comp⟩

structure Store where
  files   : List RunFile := []
  writers : List (Nat × Key) := []     -- recording process k ↦ the file it has open
deriving DecidableEq

/-- order of file names inside one DAG directory -/
def nameLt (a b : RunFile) : Bool :=
  a.stamp < b.stamp || (a.stamp == b.stamp && (a.req8 < b.req8 || (a.req8 == b.req8 && (!a.comp && b.comp))))

/-- stable insertion sort: `x` goes before the first element `y` with `lt x y` -/
def insertBy (lt : RunFile → RunFile → Bool) (x : RunFile) : List RunFile → List RunFile
  | [] => [x]
  | y :: ys => if lt x y then x :: y :: ys else y :: insertBy lt x ys

/-- Go's insertion sort (used by sort.Slice below 12 elements) in functional form; stable -/
def sortBy (lt : RunFile → RunFile → Bool) (l : List RunFile) : List RunFile :=
  l.foldl (fun acc x => insertBy lt x acc) []

/-- `filepath.Glob(globPattern d)`: the files of DAG `d` in name order -/
def glob (s : Store) (d : Nat) : List RunFile := sortBy nameLt (s.files.filter (fun f => f.dag == d))

/-- `ParseFile`: the last status line; none = EOF (no complete line) -/
def parse (f : RunFile) : Option Line := f.lines.getLast?

/-- `filterLatest`: newest first by the timestamp in the name; equal timestamps are ordered by name,
    descending (since fix 9dcbd59: a total order, the compacted twin precedes its original) -/
def newestFirst (l : List RunFile) : List RunFile := sortBy (fun a b => nameLt b a) l

/-- `FindByRequestID`: names in descending order, first file whose last status carries the id -/
def find (s : Store) (d : Nat) (req : Nat) : Option (RunFile × Line) :=
  ((glob s d).reverse.filterMap (fun f => (parse f).bind (fun l => if l.req = req then some (f, l) else none))).head?

/-- `ReadStatusToday` (not restricted to today): newest file that holds a status -/
def latest (s : Store) (d : Nat) : Option Line :=
  ((newestFirst (glob s d)).filterMap parse).head?

/-- the loop of `ReadStatusRecent`: files without a status are skipped, and so is a file whose request
    id was already listed (original + twin of one run left by a crash during compaction; fix 9dcbd59) -/
def dedupFiles : List RunFile → List Nat → List RunFile
  | [], _ => []
  | f :: fs, seen =>
    match parse f with
    | none => dedupFiles fs seen
    | some l => if seen.contains l.req then dedupFiles fs seen else f :: dedupFiles fs (l.req :: seen)

/-- `ReadStatusRecent d n` -/
def recent (s : Store) (d : Nat) (n : Nat) : List Line :=
  ((dedupFiles (newestFirst (glob s d)) []).take n).filterMap parse

/-! ### operations -/

def hasKey (s : Store) (k : Key) : Bool := s.files.any (fun f => f.key == k)

def modifyFile (s : Store) (k : Key) (g : RunFile → RunFile) : Store :=
  { s with files := s.files.map (fun f => if f.key = k then g f else f) }

def appendLine (s : Store) (k : Key) (l : Line) : Store :=
  modifyFile s k (fun f => { f with lines := f.lines ++ [l], age := 0 })

/-- `Open`: create the run's file unless it exists (then it is opened for append) -/
def openRun (s : Store) (w : Nat) (d t r8 : Nat) : Store :=
  let k : Key := ⟨d, t, r8, false⟩
  let files := if hasKey s k then s.files else s.files ++ [{ dag := d, stamp := t, req8 := r8, comp := false }]
  { files := files, writers := (w, k) :: s.writers.filter (fun p => p.1 != w) }

def writerKey (s : Store) (w : Nat) : Option Key := (s.writers.find? (fun p => p.1 == w)).map (·.2)

/-- `Write` -/
def write (s : Store) (w : Nat) (l : Line) : Store :=
  match writerKey s w with
  | some k => appendLine s k l
  | none => s

/-- `Close` = `Compact`: write the last status to the twin, then remove the original;
    nothing happens when the file holds no status (EOF) -/
def close (s : Store) (w : Nat) : Store :=
  match writerKey s w with
  | none => s
  | some k =>
    let s1 : Store := { s with writers := s.writers.filter (fun p => p.1 != w) }
    match (s.files.find? (fun f => f.key == k)).bind parse with
    | none => s1
    | some l =>
      let tk : Key := { k with comp := true }
      let s2 := if hasKey s1 tk then appendLine s1 tk l
                else { s1 with files := s1.files ++ [{ dag := k.dag, stamp := k.stamp, req8 := k.req8, comp := true, lines := [l] }] }
      { s2 with files := s2.files.filter (fun f => f.key != k) }

/-- `Update`: append the status to the file found by request id -/
def update (s : Store) (d : Nat) (l : Line) : Store × Bool :=
  match find s d l.req with
  | some (f, _) => (appendLine s f.key l, true)
  | none => (s, false)

/-- `RemoveOld d days` (mtime older than `days` days); `RemoveAll` = `RemoveOld 0` -/
def removeOld (s : Store) (d days : Nat) : Store :=
  { s with files := s.files.filter (fun f => !(f.dag == d && f.age ≥ days)) }

/-- test harness only: make the files of `d` look `days` days older -/
def ageFiles (s : Store) (d days : Nat) : Store :=
  { s with files := s.files.map (fun f => if f.dag = d then { f with age := f.age + days } else f) }

/-- `Rename old new`: every file of `old` is moved (os.Rename replaces a file of the same name) -/
def rename (s : Store) (d d2 : Nat) : Store :=
  if d = d2 then s else
  let moved := (glob s d).map (fun f => { f with dag := d2 })
  let keep := s.files.filter (fun f => f.dag != d && !(moved.any (fun m => m.key == f.key)))
  { s with files := keep ++ moved }

end BdModel.Hist
