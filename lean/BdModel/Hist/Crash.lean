import BdModel.Hist.Store
/-
  Crash model of the history store at the record layer (C07). A process kill leaves the data
  directory in the state reached after a PREFIX of the mutating system calls of the operation in
  progress (DESIGN Appendix B: Open = create; Write = one append; Close = create twin, append the last
  status to it, unlink the original; Update = one append; RemoveOld = unlink per aged file in glob
  order; Rename = renameat per file in glob order). A write cut in the middle leaves a trailing
  fragment without newline that `ParseFile` ignores, so at this layer a torn append is the state
  before the append (cut anywhere) or after it (cut at the newline). Core-only.
-/
namespace BdModel.Hist

/-- the twin of the writer's file exists, but is still empty (crash right after its creation) -/
def closeTwinCreated (s : Store) (k : Key) : Store :=
  let tk : Key := { k with comp := true }
  if hasKey s tk then s else { s with files := s.files ++ [{ dag := k.dag, stamp := k.stamp, req8 := k.req8, comp := true }] }

/-- the twin holds the last status, the original is still there (crash before the unlink) -/
def closeTwinWritten (s : Store) (k : Key) (l : Line) : Store :=
  appendLine (closeTwinCreated s k) { k with comp := true } l

/-- the states a kill during `Close` (= `Compact`) can leave, in order -/
def closeStates (s : Store) (w : Nat) : List Store :=
  match writerKey s w with
  | none => [s]
  | some k =>
    match (s.files.find? (fun f => f.key == k)).bind parse with
    | none => [s, close s w]
    | some l => [s, closeTwinCreated s k, closeTwinWritten s k l, close s w]

/-- `RemoveOld` interrupted after `j` unlinks (glob order) -/
def removeOldPrefix (s : Store) (d days j : Nat) : Store :=
  let gone := ((glob s d).filter (fun f => f.age ≥ days)).take j
  { s with files := s.files.filter (fun f => !(gone.any (fun g => g.key == f.key))) }

/-- `Rename` interrupted after `j` renameat calls (glob order); exact when no file of the target
    directory has the name a moved file gets (`NoCollision`) -/
def renamePrefix (s : Store) (d d2 j : Nat) : Store :=
  let moved := (glob s d).take j
  { s with files := s.files.map (fun f => if moved.any (fun g => g.key == f.key) then { f with dag := d2 } else f) }

inductive COp
  | openRun (w d t r8 : Nat)
  | write (w : Nat) (l : Line)
  | close (w : Nat)
  | update (d : Nat) (l : Line)
  | removeOld (d days : Nat)
  | rename (d d2 : Nat)

/-- every state a kill during the operation can leave behind (first = before, last = completed) -/
def crashStates (s : Store) : COp → List Store
  | .openRun w d t r8 => [s, openRun s w d t r8]
  | .write w l => [s, write s w l]
  | .close w => closeStates s w
  | .update d l => [s, (update s d l).1]
  | .removeOld d days =>
    (List.range (((glob s d).filter (fun f => f.age ≥ days)).length + 1)).map (removeOldPrefix s d days)
  | .rename d d2 =>
    if d = d2 then [s] else (List.range ((glob s d).length + 1)).map (renamePrefix s d d2)

end BdModel.Hist
