/-
  Model of the history store's READ CACHE (internal/persistence/filecache/filecache.go) as jsondb uses
  it: `ReadStatusRecent` / `ReadStatusToday` call `cache.LoadLatest(file, func() { ParseFile(file) })`
  per history file, while OTHER processes (the agents recording a run) append status lines to those
  files, create new ones, and retention / compaction unlink them.

  A history file is what `os.Stat` reports (size, mtime in whole seconds: `ModTime().Unix()`) plus the
  payload of its last complete status line (`data`; meaningless while `size = 0`: `ParseFile` answers
  EOF on a file without a status). A cache entry is (data, size, mtime) as `Store` recorded them.
  `LoadLatest` is split where writes of other processes can land: stat | read | store.
  TTL / capacity eviction and `Invalidate` only ever delete entries: `evict f`, `invalidate f`.

  `LoadLatest` follows the code after fix F46 (99b4ced): the entry is read ONCE (`c.entries.Load`),
  and the loader is called when the entry is stale OR there is none. Before that fix the not-stale
  branch read the map a second time and asserted `item.(Entry[T])`: a name without entry whose file
  looked like the zero `Entry[T]{}` (empty, mtime = epoch) panicked, and so did an eviction /
  `Invalidate` landing between the two reads. The old behaviour is kept as `Variant.preF46`
  (regression example in Props/C07Cache.lean). The model's hit path is ONE atomic step (stat + the
  single map read); the real interleavings with concurrent deletions are sampled by the harness op
  `race` (go/harness/cache), not modelled.

  The same definitions, with one of two edits applied, are the mutants the property theorems are
  sensitive to (`Variant.mutA`: `Store` uses a stat taken AFTER the loader; `Variant.mutB`: `IsStale`
  compares only the mtime). Core-only.
-/
namespace BdModel.Hist.Cache

/-- a history file as the reader sees it -/
structure File where
  size  : Nat          -- bytes
  mtime : Nat          -- `fi.ModTime().Unix()` (seconds; times before the epoch are not modelled)
  data  : Nat          -- payload of the last status line (read by `ParseFile`); irrelevant while size = 0
deriving DecidableEq, Repr

/-- `filecache.Entry[T]` without `ExpiresAt` (expiry only matters to `evict`, modelled as an op) -/
structure Entry where
  data  : Nat
  size  : Nat
  mtime : Nat
deriving DecidableEq, Repr

/-- one append by an O_APPEND writer: `grow + 1` bytes (a status line is never empty), the mtime moves
    on by `dt` seconds (`dt = 0`: the same second), the last status becomes `newData` -/
structure Write where
  grow    : Nat
  dt      : Nat
  newData : Nat
deriving DecidableEq, Repr

structure State where
  files : Nat → Option File  := fun _ => none      -- the directory: file id ↦ file (none = no such name)
  cache : Nat → Option Entry := fun _ => none      -- `Cache.entries`

def init : State := {}

def upd {α : Type} (m : Nat → Option α) (f : Nat) (v : Option α) : Nat → Option α :=
  fun g => if g = f then v else m g

/-- `Entry[T]{}`: what `Cache.Entry` returns for a name that has no entry -/
def zeroEntry : Entry := ⟨0, 0, 0⟩

inductive Variant
  | real
  | mutA      -- Store(fileName, data, <stat taken after the loader returned>)
  | mutB      -- IsStale: `entry.LastModified < t` only
  | preF46    -- before fix F46: no `|| !cached`; the not-stale branch asserts the (possibly nil) map item
deriving DecidableEq, Repr

/-- `IsStale` (after a successful stat) -/
def isStaleV (v : Variant) (e : Entry) (fi : File) : Bool :=
  match v with
  | .mutB => decide (e.mtime < fi.mtime)
  | _ => decide (e.mtime < fi.mtime) || decide (e.size ≠ fi.size)

def isStale (e : Entry) (fi : File) : Bool := isStaleV .real e fi

def applyWrite (fi : File) (w : Write) : File := ⟨fi.size + w.grow + 1, fi.mtime + w.dt, w.newData⟩

def applyWrites (fi : File) (ws : List Write) : File := ws.foldl applyWrite fi

inductive Out
  | ok                    -- operations that return nothing
  | data (d : Nat)        -- LoadLatest returned this status
  | errStat               -- LoadLatest: "failed to stat file" (the name does not exist)
  | errLoad               -- LoadLatest: the loader failed, file gone between stat and read
  | errEmpty              -- LoadLatest: the loader failed with EOF (the file holds no status yet)
  | panic                 -- LoadLatest before fix F46: `item.(Entry[T])` on a nil item (no entry, yet "not stale")
deriving DecidableEq, Repr

def Out.isErr : Out → Bool
  | .errStat | .errLoad | .errEmpty => true
  | _ => false

/-- the loader `ParseFile` on an existing file -/
def readOut (fi : File) : Out := if fi.size = 0 then .errEmpty else .data fi.data

inductive Op
  | create (f : Nat) (w : Write)      -- a new file: size = w.grow (0 = still empty), mtime = w.dt, last status w.newData
  | append (f : Nat) (w : Write)
  | remove (f : Nat)
  | invalidate (f : Nat)
  | evict (f : Nat)
  | load (f : Nat) (pre post : List Write)   -- `pre` lands between stat and read, `post` between read and store
  | loadRm (f : Nat) (pre : List Write)      -- as `load`, but the file is unlinked between stat and read (after `pre`)
deriving DecidableEq, Repr

/-- `LoadLatest f`. The concurrent writes are only applied when the loader is called (a cache hit is
    one stat and one map lookup; writes around it are separate `append` ops). -/
def loadV (v : Variant) (s : State) (f : Nat) (pre post : List Write) (rm : Bool) : State × Out :=
  match s.files f with
  | none => (s, .errStat)                                   -- (1) stat fails; cache untouched
  | some fi =>
    -- `stale || !cached` (the `!cached` disjunct is fix F46)
    if isStaleV v ((s.cache f).getD zeroEntry) fi || (match v with | .preF46 => false | _ => (s.cache f).isNone) then
      let fi1 := applyWrites fi pre
      if rm then ({ s with files := upd s.files f none }, .errLoad)       -- (3) loader: open fails
      else
        let fi2 := applyWrites fi1 post
        if fi1.size = 0 then ({ s with files := upd s.files f (some fi2) }, .errEmpty)   -- (3) loader: EOF
        else
          let st := match v with | .mutA => fi2 | _ => fi                 -- (4) Store(f, data, fi of step 1)
          ({ files := upd s.files f (some fi2), cache := upd s.cache f (some ⟨fi1.data, st.size, st.mtime⟩) },
           .data fi1.data)
    else
      match s.cache f with                                   -- (2) not stale: the entry's data, no loader call
      | some e => (s, .data e.data)
      | none => (s, .panic)                                  -- only reachable for `preF46`

def stepV (v : Variant) (s : State) : Op → State × Out
  | .create f w => ({ s with files := upd s.files f (some ⟨w.grow, w.dt, w.newData⟩) }, .ok)
  | .append f w =>
    match s.files f with
    | some fi => ({ s with files := upd s.files f (some (applyWrite fi w)) }, .ok)
    | none => (s, .ok)                    -- a writer holding an unlinked file: nothing under that name
  | .remove f => ({ s with files := upd s.files f none }, .ok)
  | .invalidate f => ({ s with cache := upd s.cache f none }, .ok)
  | .evict f => ({ s with cache := upd s.cache f none }, .ok)
  | .load f pre post => loadV v s f pre post false
  | .loadRm f pre => loadV v s f pre [] true

def step : State → Op → State × Out := stepV .real
def stepMutA : State → Op → State × Out := stepV .mutA
def stepMutB : State → Op → State × Out := stepV .mutB
def stepPreF46 : State → Op → State × Out := stepV .preF46

/-- run a list of operations; answers oldest first -/
def runWith (st : State → Op → State × Out) (s : State) : List Op → State × List Out
  | [] => (s, [])
  | o :: os =>
    let r := st s o
    let rest := runWith st r.1 os
    (rest.1, r.2 :: rest.2)

def run : State → List Op → State × List Out := runWith step

/-- the state after the operations -/
def exec (s : State) (ops : List Op) : State := ops.foldl (fun s o => (step s o).1) s

/-- the names created by an operation list, in order -/
def created : List Op → List Nat
  | [] => []
  | .create f _ :: os => f :: created os
  | _ :: os => created os

/-- ADMISSIBILITY: no name is created twice (a history file is never re-created under a name it had
    before: the name carries the run's start time in milliseconds and its request id). Decidable. -/
def Admissible (ops : List Op) : Prop := (created ops).Nodup

instance (ops : List Op) : Decidable (Admissible ops) := by unfold Admissible; infer_instance

/-- operations of a period in which writers are quiet: queries and evictions only -/
def Op.quiet : Op → Bool
  | .load _ [] [] => true
  | .invalidate _ => true
  | .evict _ => true
  | _ => false

/-- what a query must answer when nothing is being written: the file's current last status -/
def quietAnswer : Option File → Out
  | none => .errStat
  | some fi => readOut fi

end BdModel.Hist.Cache
