/-
  String layer of the history store's file selection (jsondb.go: globPattern / escapeGlob, after fix
  2ac8499) and Go's `filepath.Match` restricted to what `globPattern` can produce.
  `gmatch` follows path/filepath.Match: `*` = any sequence of non-separator characters, `?` = one
  non-separator character, `\c` = the character c literally, everything else literally; a character
  class `[` … makes the match fail here (escapeGlob never emits a raw `[`; patterns with classes are
  outside this model and compared with the real Match differentially only). Core-only.
-/
namespace BdModel.Hist.Names

def sep : Char := '/'

/-- `.dat` and the compaction suffix `_c`, as explicit lists (they reduce in the kernel) -/
def extDat : List Char := ['.', 'd', 'a', 't']
def twinSfx : List Char := ['_', 'c']

def isMeta (c : Char) : Bool := c == '\\' || c == '*' || c == '?' || c == '['

/-- `globEscaper.Replace`: every glob meta character is preceded by a backslash -/
def escapeGlob : List Char → List Char
  | [] => []
  | c :: cs => if isMeta c then '\\' :: c :: escapeGlob cs else c :: escapeGlob cs

/-- `*`: try the rest of the pattern at every position reachable without crossing a separator -/
def gstar (rest : List Char → Bool) : List Char → Bool
  | [] => rest []
  | c :: s => rest (c :: s) || (c != sep && gstar rest s)

def gmatch : List Char → List Char → Bool
  | [], s => s.isEmpty
  | x :: p, s =>
    if x = '*' then gstar (gmatch p) s
    else match s with
      | [] => false
      | c :: s' =>
        if x = '?' then c != sep && gmatch p s'
        else if x = '[' then false
        else if x = '\\' then
          (match p with
           | [] => false
           | y :: p' => y == c && gmatch p' s')
        else x == c && gmatch p s'

/-- `globPattern dagFile` for the per-DAG path prefix `<data>/<prefix>-<md5>/<prefix>` -/
def globPattern (pwd : List Char) : List Char := escapeGlob pwd ++ '*' :: extDat

/-- name of a history file: `<pwd>.<timestamp>.<req8>[_c].dat` -/
def render (pwd ts req8 : List Char) (comp : Bool) : List Char :=
  pwd ++ '.' :: ts ++ '.' :: req8 ++ (if comp then twinSfx else []) ++ extDat

end BdModel.Hist.Names
