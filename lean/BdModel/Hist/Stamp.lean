import BdModel.Hist.Names
/-
  FILE-NAME / TIMESTAMP layer of the history store (internal/persistence/jsondb/jsondb.go):

    newFile        "%s.%s.%s.dat"  prefixWithDirectory, t.Format("20060102.15:04:05.000"), TruncString(requestID, 8)
    Compact        "<base without .dat>_c.dat" in the same directory
    rTimestamp     2\d{7}.\d{2}:\d{2}:\d{2}(\.\d{3})?         (the dot after the date is UNESCAPED: any character but \n)
    timestamp(f)   rTimestamp.FindString(f)                   (leftmost match in the WHOLE path; "" when there is none)
    filterLatest   sort.Slice by (timestamp descending, then whole name descending); first n (all when n < 0 or n > len)
    latestToday    Glob(escapeGlob(prefix) + "." + day.Format("20060102") + "*.*.dat") then filterLatest(-1)

  Strings are `List Char`. Go compares strings BYTEWISE; `slt` below compares CODE POINTS. For valid UTF-8 the two
  orders coincide (a design property of UTF-8, not proved here; every character the store itself writes - digits,
  `.`, `:`, `_c`, `.dat` - is ASCII; non-ASCII only occurs inside the DAG name / data directory, where the
  correspondence stream exercises it). `TruncString` cuts BYTES; `List.take 8` cuts characters: identical for ASCII
  request ids (the real ones are UUIDs); no theorem below depends on the request id beyond "some string".
  Go's regexp reads invalid UTF-8 bytes as U+FFFD; not modelled (strings here are valid by construction).
  Core-only (linked into the driver).
-/
namespace BdModel.Hist.Stamp
open BdModel.Hist.Names

/-! ### civil time (UTC; Go's `time.Time` has no leap seconds) -/

structure Civil where
  year : Nat
  month : Nat
  day : Nat
  hour : Nat
  minute : Nat
  second : Nat
  milli : Nat
  deriving DecidableEq, Repr

/-- field ranges only (day ≤ 31 for every month): everything about rendering and order needs no more.
    2000 ≤ year ≤ 2999 because the regex demands a leading `2` and Go prints 4 digits up to 9999. -/
def Civil.Valid (t : Civil) : Prop :=
  2000 ≤ t.year ∧ t.year ≤ 2999 ∧ 1 ≤ t.month ∧ t.month ≤ 12 ∧ 1 ≤ t.day ∧ t.day ≤ 31 ∧
  t.hour ≤ 23 ∧ t.minute ≤ 59 ∧ t.second ≤ 59 ∧ t.milli ≤ 999

instance (t : Civil) : Decidable t.Valid := by unfold Civil.Valid; infer_instance

/-- chronological order of civil UTC times = lexicographic order of the fields = order of this number -/
def key (t : Civil) : Nat :=
  (((((t.year * 13 + t.month) * 32 + t.day) * 24 + t.hour) * 60 + t.minute) * 60 + t.second) * 1000 + t.milli

/-- lexicographic "strictly earlier" on the fields (the definition of chronological order on a calendar) -/
def Civil.before (a b : Civil) : Prop :=
  a.year < b.year ∨ (a.year = b.year ∧ (a.month < b.month ∨ (a.month = b.month ∧ (a.day < b.day ∨ (a.day = b.day ∧
  (a.hour < b.hour ∨ (a.hour = b.hour ∧ (a.minute < b.minute ∨ (a.minute = b.minute ∧ (a.second < b.second ∨
  (a.second = b.second ∧ a.milli < b.milli)))))))))))

instance (a b : Civil) : Decidable (a.before b) := by unfold Civil.before; infer_instance

/-! the same instant as a number of milliseconds since 1970-01-01T00:00:00Z (proleptic Gregorian calendar; what
    `time.UnixMilli` counts), for calendar-correct dates: `Civil.Real` -/

def isLeap (y : Nat) : Bool := y % 4 == 0 && (y % 100 != 0 || y % 400 == 0)

def daysInL (leap : Bool) (m : Nat) : Nat :=
  match m with
  | 2 => if leap then 29 else 28
  | 4 => 30 | 6 => 30 | 9 => 30 | 11 => 30
  | _ => 31

def daysIn (y m : Nat) : Nat := daysInL (isLeap y) m

/-- days of the year before the first of month m (m = 1..12) -/
def dbmL (leap : Bool) (m : Nat) : Nat :=
  (match m with
   | 1 => 0 | 2 => 31 | 3 => 59 | 4 => 90 | 5 => 120 | 6 => 151
   | 7 => 181 | 8 => 212 | 9 => 243 | 10 => 273 | 11 => 304 | _ => 334)
  + (if 2 < m ∧ leap then 1 else 0)

def daysBeforeMonth (y m : Nat) : Nat := dbmL (isLeap y) m

/-- days from 0000-01-01 to the first of January of year y (year 0 is a leap year) -/
def daysBeforeYear (y : Nat) : Nat := 365 * y + (y + 3) / 4 + (y + 399) / 400 - (y + 99) / 100

/-- days from 1970-01-01 (719528 days after 0000-01-01) -/
def epochDay (t : Civil) : Nat := daysBeforeYear t.year + daysBeforeMonth t.year t.month + (t.day - 1) - 719528

def unixMillis (t : Civil) : Nat :=
  (((epochDay t * 24 + t.hour) * 60 + t.minute) * 60 + t.second) * 1000 + t.milli

/-- a date of the calendar: `Valid` and the day exists in that month -/
def Civil.Real (t : Civil) : Prop := t.Valid ∧ t.day ≤ daysIn t.year t.month

instance (t : Civil) : Decidable t.Real := by unfold Civil.Real; infer_instance

def yearLen (y : Nat) : Nat := if isLeap y then 366 else 365

def splitYear : Nat → Nat → Nat → Nat × Nat
  | 0, y, d => (y, d)
  | fuel + 1, y, d => if d < yearLen y then (y, d) else splitYear fuel (y + 1) (d - yearLen y)

def splitMonthL (leap : Bool) : Nat → Nat → Nat → Nat × Nat
  | 0, m, d => (m, d)
  | fuel + 1, m, d => if d < daysInL leap m then (m, d) else splitMonthL leap fuel (m + 1) (d - daysInL leap m)

/-- the calendar date (and time) of an instant: year by year, month by month (structural; used by the driver to
    answer `render <unix millis>`; the driver re-checks `unixMillis (ofUnixMillis m) = m` on every answer) -/
def ofUnixMillis (ms : Nat) : Civil :=
  let days := ms / 86400000
  let rest := ms % 86400000
  let (y, d) := splitYear (days / 365 + 1) 1970 days
  let (m, d') := splitMonthL (isLeap y) 11 1 d
  { year := y, month := m, day := d' + 1, hour := rest / 3600000, minute := rest / 60000 % 60,
    second := rest / 1000 % 60, milli := rest % 1000 }

/-! ### rendering: `t.Format("20060102.15:04:05.000")` -/

def digits : List Char := ['0', '1', '2', '3', '4', '5', '6', '7', '8', '9']

/-- the last decimal digit of n -/
def digit (n : Nat) : Char := digits.getD (n % 10) '0'

def pad2 (n : Nat) : List Char := [digit (n / 10), digit n]
def pad3 (n : Nat) : List Char := [digit (n / 100), digit (n / 10), digit n]
def pad4 (n : Nat) : List Char := [digit (n / 1000), digit (n / 100), digit (n / 10), digit n]

/-- `20060102`: the day part (also `day.Format(dateFormat)` of `latestToday`) -/
def date8 (t : Civil) : List Char := pad4 t.year ++ pad2 t.month ++ pad2 t.day

/-- `.15:04:05.000`: what follows the day part -/
def clock13 (t : Civil) : List Char :=
  '.' :: pad2 t.hour ++ ':' :: pad2 t.minute ++ ':' :: pad2 t.second ++ '.' :: pad3 t.milli

/-- 21 characters, fixed width, zero padded -/
def render (t : Civil) : List Char := date8 t ++ clock13 t

/-! ### Go's string order (`<` on strings) -/

/-- strict lexicographic order by code point (= bytewise order of the UTF-8 encodings) -/
def slt : List Char → List Char → Bool
  | _, [] => false
  | [], _ :: _ => true
  | a :: as, b :: bs => if a = b then slt as bs else decide (a.toNat < b.toNat)

/-! ### the regex `2\d{7}.\d{2}:\d{2}:\d{2}(\.\d{3})?` and `FindString` -/

inductive Cls where
  | two | dig | any | colon | dot
  deriving DecidableEq, Repr

def Cls.ok : Cls → Char → Bool
  | .two, c => c == '2'
  | .dig, c => decide (48 ≤ c.toNat ∧ c.toNat ≤ 57)      -- `\d` is ASCII [0-9] in Go
  | .any, c => c != '\n'                                 -- `.` without the s flag
  | .colon, c => c == ':'
  | .dot, c => c == '.'

/-- the mandatory 17 characters `2\d{7}.\d{2}:\d{2}:\d{2}` -/
def coreCls : List Cls :=
  [.two, .dig, .dig, .dig, .dig, .dig, .dig, .dig, .any, .dig, .dig, .colon, .dig, .dig, .colon, .dig, .dig]

/-- the optional group `\.\d{3}` -/
def fracCls : List Cls := [.dot, .dig, .dig, .dig]

/-- the string starts with one character of each class, in order -/
def matchSeq : List Cls → List Char → Bool
  | [], _ => true
  | _ :: _, [] => false
  | k :: ks, c :: cs => k.ok c && matchSeq ks cs

/-- length of the match that starts at the head of s (leftmost-first with a greedy `?`: the optional group is taken
    whenever it matches), or none -/
def stampLen (s : List Char) : Option Nat :=
  if matchSeq coreCls s then (if matchSeq fracCls (s.drop 17) then some 21 else some 17) else none

/-- `rTimestamp.FindString`: the match at the leftmost position that has one; `[]` (Go: "") when there is none -/
def findStamp : List Char → List Char
  | [] => []
  | c :: cs =>
    match stampLen (c :: cs) with
    | some n => (c :: cs).take n
    | none => findStamp cs

/-- `timestamp(file)` -/
def timestamp (file : List Char) : List Char := findStamp file

/-- no match of the regex inside `pre.` - which (for a real stamp following) is the same as "no match STARTS inside
    `pre.`": a match that starts there cannot run into the real stamp, because the only class that accepts the `.` is
    the unescaped dot at offset 8, and then offset 11 wants `:` where the year has a digit (`no_straddle`) -/
def StampFree (pre : List Char) : Prop := findStamp (pre ++ ['.']) = []

instance (pre : List Char) : Decidable (StampFree pre) := by unfold StampFree; infer_instance

/-! ### file names -/

/-- `util.TruncString(requestID, 8)` (bytes in Go; characters here: the same for ASCII ids) -/
def req8 (req : List Char) : List Char := req.take 8

/-- `newFile` (comp = false) and the name `Compact` gives the compacted twin (comp = true):
    `<pre>.<stamp>.<req8>.dat` / `<pre>.<stamp>.<req8>_c.dat`; `pre` = `prefixWithDirectory(dagFile)` -/
def fileName (pre : List Char) (t : Civil) (req : List Char) (comp : Bool) : List Char :=
  Names.render pre (render t) (req8 req) comp

/-- what follows the stamp in a file name -/
def tail (req : List Char) (comp : Bool) : List Char :=
  '.' :: req8 req ++ (if comp then twinSfx else []) ++ extDat

/-! ### filterLatest -/

/-- the `less(i, j)` of `sort.Slice` in `filterLatest`: a goes before b -/
def newer (a b : List Char) : Bool :=
  let ta := timestamp a
  let tb := timestamp b
  if ta ≠ tb then slt tb ta else slt b a

/-- insertion sort: x goes in front of the first element that is not strictly before it. `sort.Slice` is another
    (unstable) algorithm; `C06_newer_strict_total` + `C06_filterLatest_unique` show that EVERY correct sort yields this
    list (the order is strict and total on strings, so the sorted arrangement of a given collection is unique). -/
def insertBy (lt : α → α → Bool) (x : α) : List α → List α
  | [] => [x]
  | y :: ys => if lt y x then y :: insertBy lt x ys else x :: y :: ys

def sortBy (lt : α → α → Bool) : List α → List α
  | [] => []
  | x :: xs => insertBy lt x (sortBy lt xs)

/-- `if n < 0 || n > len(files) { n = len(files) }` -/
def cut (n : Int) (len : Nat) : Nat := if n < 0 ∨ (len : Int) < n then len else n.toNat

def filterLatest (files : List (List Char)) (n : Int) : List (List Char) :=
  (sortBy newer files).take (cut n files.length)

/-! ### latestToday -/

/-- `escapeGlob(prefix) + "." + day.Format("20060102") + "*.*.dat"` -/
def todayPattern (pre d8 : List Char) : List Char :=
  escapeGlob pre ++ '.' :: d8 ++ '*' :: '.' :: '*' :: extDat

/-- `latestToday(dagFile, day, true)` over the paths that exist (filepath.Glob = the existing paths the pattern
    matches, as in `Names`): nil+error when nothing matches, else all of them, newest first -/
def latestToday (pre d8 : List Char) (existing : List (List Char)) : List (List Char) :=
  filterLatest (existing.filter (gmatch (todayPattern pre d8))) (-1)

/-- one run's file: start time, request id, compacted or not -/
structure Run where
  t : Civil
  req : List Char
  comp : Bool
  deriving DecidableEq, Repr

def Run.name (pre : List Char) (r : Run) : List Char := fileName pre r.t r.req r.comp

end BdModel.Hist.Stamp
