import BdModel.Hist.Store
import BdModel.Hist.Crash
import Driver.Util
namespace Driver.Hist
open BdModel.Hist Driver

def answer (s : Store) (nd : Nat) (reqs : List Nat) (ns : List Nat) : String :=
  let ds := List.range nd
  let f := ds.map (fun d => ",".intercalate (reqs.map (fun r => match find s d r with | some (_, l) => toString l.pay | none => "-")))
  let la := ds.map (fun d => match latest s d with | some l => toString l.pay | none => "-")
  let re := ds.map (fun d => "/".intercalate (ns.map (fun n => joinNat ((recent s d n).map (·.pay)))))
  "ans find=" ++ ";".intercalate f ++ " latest=" ++ ",".intercalate la ++ " recent=" ++ ";".intercalate re ++
  " nfiles=" ++ toString s.files.length

/-- canonical rendering of a store state: one `dag.stamp.req8.comp.lastpay` per file, sorted -/
def canonState (s : Store) : String :=
  let items := s.files.map (fun f => toString f.dag ++ "." ++ toString f.stamp ++ "." ++ toString f.req8 ++ "." ++
    (if f.comp then "1" else "0") ++ "." ++ (match parse f with | some l => toString l.pay | none => "-"))
  ",".intercalate (items.toArray.qsort (· < ·)).toList

def statesLine (s : Store) (op : COp) : String :=
  "states " ++ ";".intercalate ((crashStates s op).map canonState)

/-- lines: `case <id> nd <n> reqs <r1,r2> ns <1,2,5>` then ops:
    `open w d t r8` | `write w req pay` | `close w` | `update d req pay` | `rename d d2` | `removeOld d days` | `age d days` -/
def run (lines : List String) : List String := Id.run do
  let mut out : List String := []
  let mut s : Store := {}
  let mut nd := 0
  let mut reqs : List Nat := []
  let mut ns : List Nat := []
  let mut crash := false
  for line in lines do
    -- crash mode (C07): before applying a victim operation, print every state a kill during it can leave
    if crash then
      match words line with
      | ["open", w, d, t, r8] => out := out ++ [statesLine s (.openRun (natD w) (natD d) (natD t) (natD r8))]
      | ["write", w, r, p] => out := out ++ [statesLine s (.write (natD w) ⟨natD r, natD p⟩)]
      | ["close", w] => out := out ++ [statesLine s (.close (natD w))]
      | ["update", d, r, p] => out := out ++ [statesLine s (.update (natD d) ⟨natD r, natD p⟩)]
      | ["rename", d, d2] => out := out ++ [statesLine s (.rename (natD d) (natD d2))]
      | ["removeOld", d, days] => out := out ++ [statesLine s (.removeOld (natD d) (natD days))]
      | _ => pure ()
    match words line with
    | ["crash"] => crash := true
    | "case" :: rest =>
      crash := false
      s := {}; nd := natD (kv rest "nd"); reqs := natList (kv rest "reqs"); ns := natList (kv rest "ns")
      out := out ++ ["case " ++ kv rest "id"]
    | ["open", w, d, t, r8] => s := openRun s (natD w) (natD d) (natD t) (natD r8); out := out ++ [answer s nd reqs ns]
    | ["write", w, r, p] => s := write s (natD w) ⟨natD r, natD p⟩; out := out ++ [answer s nd reqs ns]
    | ["close", w] => s := close s (natD w); out := out ++ [answer s nd reqs ns]
    | ["abandon", w] => s := { s with writers := s.writers.filter (fun p => p.1 != natD w) }; out := out ++ [answer s nd reqs ns]
    | ["update", d, r, p] => s := (update s (natD d) ⟨natD r, natD p⟩).1; out := out ++ [answer s nd reqs ns]
    | ["rename", d, d2] => s := rename s (natD d) (natD d2); out := out ++ [answer s nd reqs ns]
    | ["removeOld", d, days] => s := removeOld s (natD d) (natD days); out := out ++ [answer s nd reqs ns]
    | ["age", d, days] => s := ageFiles s (natD d) (natD days); out := out ++ [answer s nd reqs ns]
    | [] => pure ()
    | _ => out := out ++ ["bad-line"]
  return out

end Driver.Hist
