import BdModel.Hist.Store
import Driver.Util
namespace Driver.Hist
open BdModel.Hist Driver

def answer (s : Store) (nd : Nat) (reqs : List Nat) (ns : List Nat) : String :=
  let ds := List.range nd
  let f := ds.map (fun d => ",".intercalate (reqs.map (fun r => match find s d r with | some (_, l) => toString l.pay | none => "-")))
  let la := ds.map (fun d => match latest s d with | some l => toString l.pay | none => "-")
  let re := ds.map (fun d => "/".intercalate (ns.map (fun n => joinNat ((recent s d n).map (·.pay)))))
  "ans find=" ++ ";".intercalate f ++ " latest=" ++ ",".intercalate la ++ " recent=" ++ ";".intercalate re ++
  " nfiles=" ++ toString s.files.length

/-- lines: `case <id> nd <n> reqs <r1,r2> ns <1,2,5>` then ops:
    `open w d t r8` | `write w req pay` | `close w` | `update d req pay` | `rename d d2` | `removeOld d days` | `age d days` -/
def run (lines : List String) : List String := Id.run do
  let mut out : List String := []
  let mut s : Store := {}
  let mut nd := 0
  let mut reqs : List Nat := []
  let mut ns : List Nat := []
  for line in lines do
    match words line with
    | "case" :: rest =>
      s := {}; nd := natD (kv rest "nd"); reqs := natList (kv rest "reqs"); ns := natList (kv rest "ns")
      out := out ++ ["case " ++ kv rest "id"]
    | ["open", w, d, t, r8] => s := openRun s (natD w) (natD d) (natD t) (natD r8); out := out ++ [answer s nd reqs ns]
    | ["write", w, r, p] => s := write s (natD w) ⟨natD r, natD p⟩; out := out ++ [answer s nd reqs ns]
    | ["close", w] => s := close s (natD w); out := out ++ [answer s nd reqs ns]
    | ["update", d, r, p] => s := (update s (natD d) ⟨natD r, natD p⟩).1; out := out ++ [answer s nd reqs ns]
    | ["rename", d, d2] => s := rename s (natD d) (natD d2); out := out ++ [answer s nd reqs ns]
    | ["removeOld", d, days] => s := removeOld s (natD d) (natD days); out := out ++ [answer s nd reqs ns]
    | ["age", d, days] => s := ageFiles s (natD d) (natD days); out := out ++ [answer s nd reqs ns]
    | [] => pure ()
    | _ => out := out ++ ["bad-line"]
  return out

end Driver.Hist
