/- small parsing helpers for the driver's line protocol (core-only) -/
namespace Driver

def words (s : String) : List String := (s.splitOn " ").filter (· ≠ "")

def natList (s : String) : List Nat :=
  if s == "-" || s == "" then [] else (s.splitOn ",").filterMap (·.toNat?)

def natD (s : String) : Nat := s.toNat?.getD 0

def boolOf (s : String) : Bool := s == "1" || s == "true"

/-- value following a key in a flat `key value key value …` list -/
def kv (ws : List String) (k : String) : String :=
  match ws with
  | a :: b :: rest => if a == k then b else kv (b :: rest) k
  | _ => ""

def joinNat (l : List Nat) : String := ",".intercalate (l.map toString)

partial def readLines (h : IO.FS.Stream) (acc : Array String := #[]) : IO (Array String) := do
  let line ← h.getLine
  if line.isEmpty then return acc
  readLines h (acc.push (line.trimAsciiEnd.toString))

end Driver
