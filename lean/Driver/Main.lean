import Driver.Sched
import Driver.Cycle
import Driver.Auth
import Driver.Hist
/- line-protocol oracle: `driver <mode>` reads stdin, writes one answer per request -/
open Driver

def main (args : List String) : IO UInt32 := do
  let stdin ← IO.getStdin
  let lines ← readLines stdin
  let out ← IO.getStdout
  match args with
  | ["sched"] =>
    for l in Sched.run lines.toList do out.putStrLn l
    return 0
  | ["cycle"] =>
    for l in lines do out.putStrLn (Cycle.runLine l)
    return 0
  | ["hist"] =>
    for l in Hist.run lines.toList do out.putStrLn l
    return 0
  | ["auth"] =>
    for l in lines do out.putStrLn (Auth.runLine l)
    return 0
  | _ =>
    IO.eprintln "usage: driver sched|cycle|auth"
    return 2
