import Driver.Sched
import Driver.Cycle
import Driver.Auth
import Driver.Hist
import Driver.Cache
import Driver.Defs
import Driver.Glob
import Driver.Params
import Driver.Log
import Driver.Load
import Driver.Lock
import Driver.Api
import Driver.Cron
import Driver.Stamp
import Driver.Resolver
/- line-protocol oracle: `driver <mode>` reads stdin, writes one answer per request -/
open Driver

def main (args : List String) : IO UInt32 := do
  let stdin ← IO.getStdin
  let lines ← readLines stdin
  let out ← IO.getStdout
  match args with
  | ["sched"] =>
    for l in Sched.run lines.toList do out.putStrLn l
    return 0
  | ["cycle"] =>
    for l in lines do out.putStrLn (Cycle.runLine l)
    return 0
  | ["glob"] =>
    for l in lines do out.putStrLn (Glob.runLine l)
    return 0
  | ["defs"] =>
    for l in Defs.run lines.toList do out.putStrLn l
    return 0
  | ["hist"] =>
    for l in Hist.run lines.toList do out.putStrLn l
    return 0
  | ["cache"] =>
    for l in Cache.run lines.toList do out.putStrLn l
    return 0
  | ["cron"] =>
    for l in Cron.run lines.toList do out.putStrLn l
    return 0
  | ["load"] =>
    for l in lines do out.putStrLn (Load.runLine l)
    return 0
  | ["auth"] =>
    for l in lines do out.putStrLn (Auth.runLine l)
    return 0
  | ["api"] =>
    for l in Api.run lines.toList do out.putStrLn l
    return 0
  | ["lock"] =>
    for l in lines do out.putStrLn (Lock.runLine l)
    return 0
  | ["params"] =>
    for l in lines do out.putStrLn (Params.runLine l)
    return 0
  | ["log"] =>
    for l in lines do out.putStrLn (Log.runLine l)
    return 0
  | ["stamp"] =>
    for l in lines do out.putStrLn (Stamp.runLine l)
    return 0
  | ["resolver"] =>
    for l in lines do out.putStrLn (Resolver.runLine l)
    return 0
  | _ =>
    IO.eprintln "usage: driver sched|cycle|auth"
    return 2
