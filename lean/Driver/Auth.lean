import BdModel.Auth.Chain
import Driver.Util
namespace Driver.Auth
open BdModel.Auth Driver

def hexVal (c : Char) : Nat :=
  if '0' ≤ c ∧ c ≤ '9' then c.toNat - 48 else if 'a' ≤ c ∧ c ≤ 'f' then c.toNat - 87 else 0

def unhex (s : String) : Bytes :=
  if s == "-" then [] else
  let rec go : List Char → Bytes
    | a :: b :: rest => (hexVal a * 16 + hexVal b) :: go rest
    | _ => []
  go s.toList

def decName : Decision → String
  | .api => "api" | .default => "default" | .unauthorized => "unauthorized"
  | .redirect => "redirect" | .notFound => "notFound"

/-- line: `id hasBasic user pass hasToken token base path hdr` (hex, `-` = empty) -/
def runLine (line : String) : String :=
  match words line with
  | [id, hb, u, p, ht, t, base, path, hdr] =>
    let cfg : Cfg := { basic := if hb == "1" then some (unhex u, unhex p) else none,
                       token := if ht == "1" then some (unhex t) else none, basePath := unhex base }
    id ++ " " ++ decName (decide cfg (unhex path) (unhex hdr))
  | _ => "bad-line"

end Driver.Auth
