import BdModel.Sched.Cycle
import Driver.Util
namespace Driver.Cycle
open BdModel.Cycle Driver

/-- line: `<id> <n> <deps of step 0>;<deps of step 1>;…` with dependency names as numbers
    (k < n is step k, anything else is dangling); `-` for none -/
def runLine (line : String) : String :=
  match words line with
  | [id, _n, spec] =>
    let parts := spec.splitOn ";"
    let steps : List (Step Nat) := parts.zipIdx.map (fun (p, i) => { name := i, depends := natList p })
    let v := match setupGraph steps with
      | .ok => "ok" | .notFound => "notfound" | .cycle => "cycle"
    id ++ " " ++ v
  | _ => "bad-line"

end Driver.Cycle
