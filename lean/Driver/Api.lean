import BdModel.Api.Actions
import Driver.Util
namespace Driver.Api
open BdModel.Api Driver

def hexVal (c : Char) : Nat :=
  if '0' ≤ c ∧ c ≤ '9' then c.toNat - 48 else if 'a' ≤ c ∧ c ≤ 'f' then c.toNat - 87 else 0

/-- comma separated code points, `-` = empty -/
def strOf (s : String) : Str := natList s

def showStr (s : Str) : String := if s.isEmpty then "-" else joinNat s

def emptyWorld : World :=
  { dags := fun _ => none, susp := fun _ => false, live := fun _ => none, hist := fun _ => [], log := [] }

def optNat (s : String) : Option Nat := if s == "-" then none else s.toNat?

def specOf (s : String) : Spec :=
  match natList s with
  | [i, y, g] => { id := i, yamlOk := y == 1, graphOk := g == 1 }
  | _ => { id := 0 }

def nodesOf (s : String) : List (Nat × Nat) :=
  if s == "-" then [] else (s.splitOn ",").map fun t => match t.splitOn ":" with
    | [a, b] => (natD a, natD b)
    | _ => (0, 0)

def insertRun (r : Run) : List Run → List Run
  | [] => [r]
  | a :: as => if a.ts < r.ts then r :: a :: as else a :: insertRun r as

def actionOf : String → Option Action
  | "start" => some .start | "stop" => some .stop | "retry" => some .retry | "suspend" => some .suspend
  | "mark-success" => some .markSuccess | "mark-failed" => some .markFailed | "save" => some .save
  | "rename" => some .rename | "-" => none
  | _ => some .unknown

def showRun (r : Run) : String :=
  s!"{r.ts}/{r.reqId}/{r.status}/{r.rest}/" ++
    (if r.nodes.isEmpty then "-" else ",".intercalate (r.nodes.map fun n => s!"{n.1}:{n.2}"))

def showCmd : Cmd → String
  | .start d a => s!"start:{d}:" ++ (match a with | none => "none" | some x => showStr x)
  | .retry d q => s!"retry:{d}:{q}"
  | .stop d => s!"stop:{d}"

def showDag (w : World) (d : Nat) : String :=
  let sp := match w.dags d with
    | none => "-"
    | some s => s!"{s.id}/{if s.yamlOk then 1 else 0}/{if s.graphOk then 1 else 0}"
  let lv := match w.live d with | none => "-" | some q => toString q
  let hs := if (w.hist d).isEmpty then "-" else ";".intercalate ((w.hist d).map showRun)
  s!"D {d} spec={sp} susp={if w.susp d then 1 else 0} live={lv} hist={hs}"

def dump (w : World) (n : Nat) : String :=
  " | ".intercalate ((List.range n).map (showDag w)) ++ " | log=" ++
    (if w.log.isEmpty then "-" else " ".intercalate (w.log.map showCmd))

/-- one protocol line; returns the new world and the answer -/
def stepLine (w : World) (line : String) : World × String :=
  match words line with
  | ["reset"] => (emptyWorld, "ok")
  | ["dag", d, sp] => ({ w with dags := upd w.dags (natD d) (some (specOf sp)) }, "ok")
  | ["susp", d, v] => ({ w with susp := upd w.susp (natD d) (v == "1") }, "ok")
  | ["run", d, ts, q, st, rest, nodes] =>
      let r : Run := { ts := natD ts, reqId := natD q, status := natD st, nodes := nodesOf nodes, rest := natD rest }
      ({ w with hist := upd w.hist (natD d) (insertRun r (w.hist (natD d))) }, "ok")
  | ["live", d, q] => (setLive w (natD d) (optNat q), "ok")
  | ["post", d, act, q, stp, params, vt, sp, tgt] =>
      let b : Body := { action := actionOf act, requestId := natD q, step := natD stp, params := strOf params,
                        valueTrue := vt == "1", newSpec := specOf sp, target := optNat tgt }
      let (w', r) := post w (natD d) b
      (w', s!"code {r.code} new=" ++ (match r.newDagId with | none => "-" | some t => toString t))
  | ["dump", n] => (w, dump w (natD n))
  | _ => (w, "bad-line")

def run (lines : List String) : List String :=
  let rec go (w : World) : List String → List String
    | [] => []
    | l :: ls => let (w', out) := stepLine w l; out :: go w' ls
  go emptyWorld lines

end Driver.Api
