import BdModel.Load.Build
import BdModel.Load.Effects
import BdModel.Load.Display
import Driver.Util
/-
  `driver load`: one case per line
      <id> o<k> <hex>:<cron><re><sig> …(k oracle entries)  <tree tokens>
  tree tokens (prefix order): n | t | f | i<dec> | d<yaml float text> | s<hex utf-8> | l<count> … | m<count> (k v)…
  answer:  <id>|LoadYAML=<res>[~<alt>…]|LoadMetadata=…|LoadWithoutEval=…|Load=…
  `driver effects`: prints the model's reach matrix (C19); `display`: the display-path matrix (C19).
-/
namespace Driver.Load
open BdModel.Load Driver

def hexVal (c : Char) : Nat :=
  if '0' ≤ c ∧ c ≤ '9' then c.toNat - 48 else if 'a' ≤ c ∧ c ≤ 'f' then c.toNat - 87 else 0

def unhexBytes (s : String) : ByteArray :=
  let rec go : List Char → ByteArray → ByteArray
    | a :: b :: rest, acc => go rest (acc.push (UInt8.ofNat (hexVal a * 16 + hexVal b)))
    | _, acc => acc
  go s.toList ByteArray.empty

def unhexStr (s : String) : Str :=
  match String.fromUTF8? (unhexBytes s) with
  | some str => str.toList
  | none => (unhexBytes s).toList.map (fun b => Char.ofNat b.toNat)

def hexDigit (n : Nat) : Char := if n < 10 then Char.ofNat (48 + n) else Char.ofNat (87 + n)

def hexOf (s : Str) : String :=
  let bs := (String.ofList s).toUTF8
  if bs.size == 0 then "-" else
  String.ofList (bs.toList.flatMap (fun b => [hexDigit (b.toNat / 16), hexDigit (b.toNat % 16)]))

/-- yaml.v2 keeps the last of two equal keys (scalar keys only) -/
def keyEq : Tree → Tree → Bool
  | .null, .null => true
  | .bool a, .bool b => a == b
  | .int a, .int b => a == b
  | .str a, .str b => a == b
  | _, _ => false

def dedupLast : List (Tree × Tree) → List (Tree × Tree)
  | [] => []
  | kv :: rest => if rest.any (fun r => keyEq r.1 kv.1) then dedupLast rest else kv :: dedupLast rest

partial def parseTree : List String → Option (Tree × List String)
  | [] => none
  | tok :: rest =>
    let body := (tok.drop 1).toString
    match tok.toList.head? with
    | some 'n' => some (.null, rest)
    | some 't' => some (.bool true, rest)
    | some 'f' => some (.bool false, rest)
    | some 'i' => some (.int (body.toInt?.getD 0), rest)
    | some 'd' => some (.float (!(body.contains "nan" || body.contains "inf" || body.contains "NaN" || body.contains "Inf")), rest)
    | some 's' => some (.str (unhexStr body), rest)
    | some 'l' =>
      let n := body.toNat?.getD 0
      let rec items (k : Nat) (toks : List String) (acc : List Tree) : Option (List Tree × List String) :=
        if k == 0 then some (acc.reverse, toks) else
        match parseTree toks with
        | some (t, r) => items (k - 1) r (t :: acc)
        | none => none
      (items n rest []).map (fun (xs, r) => (.list xs, r))
    | some 'm' =>
      let n := body.toNat?.getD 0
      let rec pairs (k : Nat) (toks : List String) (acc : List (Tree × Tree)) : Option (List (Tree × Tree) × List String) :=
        if k == 0 then some (acc.reverse, toks) else
        match parseTree toks with
        | some (key, r) =>
          (match parseTree r with
           | some (v, r2) => pairs (k - 1) r2 ((key, v) :: acc)
           | none => none)
        | none => none
      (pairs n rest []).map (fun (kvs, r) => (.map (dedupLast kvs), r))
    | _ => none

structure OEntry where
  s : Str
  cron : Bool
  re : Bool
  sig : Bool

def mkOrc (es : List OEntry) : Orc :=
  { cronOk := fun s => (es.find? (·.s == s)).map (·.cron) |>.getD false,
    sigOk := fun s => (es.find? (·.s == s)).map (·.sig) |>.getD false }

def parseOracle (toks : List String) : List OEntry :=
  toks.filterMap fun t =>
    match t.splitOn ":" with
    | [h, flags] =>
      let fl := flags.toList
      some { s := if h == "-" then [] else unhexStr h, cron := fl.getD 0 '1' == '0', re := fl.getD 1 '1' == '1', sig := fl.getD 2 '0' == '1' }
    | _ => none

def siteName : Site → String
  | .assertStepDef => "assertStepDef" | .buildConditions => "buildConditions"
  | .assertFunctions => "assertFunctions" | .parseFuncCall => "parseFuncCall"

def b01 (b : Bool) : String := if b then "1" else "0"

def stepStr (o : Orc) (s : Step) : String :=
  hexOf s.name ++ ":" ++ b01 s.hasExec ++ ":" ++ b01 (s.signal.isEmpty || o.sigOk s.signal) ++ ":" ++ hexOf s.execType

def optStep (o : Orc) : Option Step → String
  | none => "-"
  | some s => stepStr o s

def dagStr (o : Orc) (d : Dag) : String :=
  let ser := d.allSteps.all Step.serial
  let ev := d.preconds.all condSafe && d.allSteps.all (fun s => s.preconds.all condSafe)
  let exprs (l : List Str) : String := ",".intercalate (l.map hexOf)
  "ok;n=" ++ hexOf d.name ++ ";sc=" ++ exprs d.starts ++ "/" ++ exprs d.stops ++ "/" ++ exprs d.restarts
    ++ ";st=" ++ ",".intercalate (d.steps.map (stepStr o))
    ++ ";h=" ++ ",".intercalate [optStep o d.onExit, optStep o d.onSuccess, optStep o d.onFailure, optStep o d.onCancel]
    ++ ";ser=" ++ b01 ser ++ ";ev=" ++ b01 ev

def resStr (o : Orc) : Res Dag → String
  | .ok d => dagStr o d
  | .err => "err"
  | .panic s => "panic:" ++ siteName s

/-- Go iterates the schedule map in arbitrary order: the variants with each entry moved to the front -/
def rotations {α} (l : List α) : List (List α) :=
  (List.range l.length).map (fun i => (l.drop i).take 1 ++ l.take i ++ l.drop (i + 1))

def scheduleVariants : Tree → List Tree
  | .map kvs =>
    match kvs.find? (matchesField (S "Schedule")) with
    | some (_, .map sk) =>
      (rotations sk).map (fun sk' => Tree.map (kvs.map (fun kv => if matchesField (S "Schedule") kv then (kv.1, Tree.map sk') else kv)))
    | _ => []
  | _ => []

def entries : List (String × Opts) :=
  [("LoadYAML", { noEval := true, metadataOnly := false, fileName := [] }),
   ("LoadMetadata", { noEval := true, metadataOnly := true, fileName := S "vcase" }),
   ("LoadWithoutEval", { noEval := true, metadataOnly := false, fileName := S "vcase" }),
   ("Load", { noEval := false, metadataOnly := false, fileName := S "vcase" })]

/-- the model's reach matrix (C19): `effects|<entry>:<Field>=<fn>/<callee>#<idx>,…|…` for every entry point and
    every field read by some builder step (other fields reach nothing: `reach_exhaustive`) -/
def effectsLine : String :=
  let T := Effects.canon
  let cells := (T.entries.map (fun r => Effects.col r 0)).flatMap fun e =>
    (Effects.mentioned T).map fun f =>
      e ++ ":" ++ f ++ "=" ++ ",".intercalate ((Effects.reach T e f).map (fun x => x.fn ++ "/" ++ x.callee ++ "#" ++ x.idx))
  "effects|" ++ "|".intercalate cells

/-- the model's display matrix (C19): `display|<entry>=<fn>/<callee>#<idx>,…;<loader>,…|…` for every display and start entry -/
def displayLine : String :=
  let D := Display.canonD
  let cells := (Display.displayEntries ++ Display.startEntries).map fun e =>
    e ++ "=" ++ ",".intercalate ((Display.effectsFrom D e).map (fun x => x.fn ++ "/" ++ x.callee ++ "#" ++ x.idx))
      ++ ";" ++ ",".intercalate (Display.loadersFrom D e)
  "display|" ++ "|".intercalate cells

def runLine (line : String) : String :=
  if line == "effects" then effectsLine else
  if line == "display" then displayLine else
  match words line with
  | id :: ocount :: rest =>
    let k := ((ocount.drop 1).toString.toNat?).getD 0
    let o := mkOrc (parseOracle (rest.take k))
    match parseTree (rest.drop k) with
    | some (t, []) =>
      let parts := entries.map fun (name, opts) =>
        let main := resStr o (build o opts t)
        let alts := ((scheduleVariants t).map (fun v => resStr o (build o opts v))).eraseDups.filter (· != main)
        name ++ "=" ++ "~".intercalate (main :: alts)
      id ++ "|" ++ "|".intercalate parts
    | _ => id ++ "|bad-tree"
  | _ => "bad-line"

end Driver.Load
