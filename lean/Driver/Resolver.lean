import BdModel.Config.Resolver
import Driver.Util
/- line oracle for the configuration resolver (the definitions of Config/Resolver.lean that Props/C15Config.lean is about).
   One environment per line:
     <BLACKDAGGER_HOME> <XDG_CONFIG_HOME> <HOME> <legacy exists 0|1> <xdg dir exists 0|1> <BLACKDAGGER_BASE_CONFIG> <--config> (<dir> <baseConfig key of dir/config.yaml>)*
   a path is its components joined by `/` (`H` = the private home of the case); `-` = unset / absent, `=` = set to the empty string.
   <--config>: `-` = not given, `!` = a file without a `baseConfig:` key, else the key of the file given.
   Answer: `<cfg.BaseConfig> <cfg.DAGs> <configuration directory> <home|legacy|xdg>`. -/
namespace Driver.Resolver
open BdModel.Config.Resolver Driver

def pathOf (s : String) : Option Path :=
  if s == "-" then none else if s == "=" then some [] else some (s.splitOn "/")

def showPath (p : Path) : String := if p.isEmpty then "=" else "/".intercalate p

def keysOf : List String → List (Path × Path)
  | d :: k :: rest => ((pathOf d).getD [], (pathOf k).getD []) :: keysOf rest
  | _ => []

def envOf (ws : List String) : Option Env :=
  match ws with
  | bd :: xc :: home :: leg :: xdg :: eb :: flag :: keys =>
    let ks := keysOf keys
    some { bdHome := pathOf bd, xdgConfigHome := pathOf xc, home := (pathOf home).getD [], legacyExists := boolOf leg,
           xdgExists := boolOf xdg, cfgKey := fun d => (ks.find? (fun x => x.1 == d)).map (·.2), envBase := pathOf eb,
           explicitCfg := if flag == "-" then none else if flag == "!" then some none else some (pathOf flag) }
  | _ => none

def caseName (e : Env) : String :=
  match getenv e.bdHome with
  | some _ => "home"
  | none => if e.legacyExists then "legacy" else "xdg"

def runLine (line : String) : String :=
  match envOf (words line) with
  | some e => s!"{showPath (baseConfigFile e)} {showPath (dagsDir e)} {showPath (configDir e)} {caseName e}"
  | none => "bad-line"

end Driver.Resolver
