import BdModel.Lock.Socket
import Driver.Util
namespace Driver.Lock
open BdModel.Lock Driver

def actOf : String → Option Act
  | "setup1" => some (.setup true) | "setup0" => some (.setup false)
  | "precond1" => some (.precond true) | "precond0" => some (.precond false)
  | "dryRun" => some .dryRun | "lock" => some .lock | "unlock" => some .unlock | "probe" => some .probe
  | "removeOld" => some .histRemoveOld | "histOpen" => some .histOpen | "histWrite" => some .histWrite
  | "unlink" => some .unlink | "bind" => some .bind | "listen" => some .listen
  | "execStep" => some .execStep | "handler" => some .handler | "finalWrite" => some .finalWrite
  | "shutClose" => some .shutClose | "histClose" => some .histClose
  | "kill" => some .kill
  | _ => none

def pcName : Pc → String
  | .setup => "setup" | .precond => "precond" | .dryRun => "dryRun" | .lock => "lock" | .probe => "probe"
  | .removeOld => "removeOld" | .histOpen => "histOpen" | .firstWrite => "firstWrite"
  | .unlink => "unlink" | .bind => "bind" | .listen => "listen" | .steps => "steps"
  | .handlers => "handlers" | .finalWrite => "finalWrite" | .unlock => "unlock" | .shutClose => "shutClose"
  | .histClose => "histClose" | .done => "done"
  | .refused => "refused" | .failed => "failed" | .failUnlock => "failUnlock" | .failClose => "failClose"
  | .bindFailed => "bindFailed" | .dead => "dead"

def sockName : Sock → String
  | .absent => "absent" | .stale => "stale"
  | .bound a l => "bound:" ++ toString a ++ (if l then ":listening" else ":notlistening")

def cfgOf (s : String) : Cfg :=
  match natList s with
  | [d, dry, st, h] => { dag := d, dry := dry == 1, steps := st, hands := h }
  | [d, dry, st, h, o] => { dag := d, dry := dry == 1, steps := st, hands := h, canOpen := o == 1 }
  | [d, dry, st, h, o, sk] => { dag := d, dry := dry == 1, steps := st, hands := h, canOpen := o == 1, sock := sk }
  | _ => { dag := 0 }

def parseTr (ws : List String) : List (Nat × Option Act) :=
  ws.map fun t => match t.splitOn ":" with
    | [a, x] => (natD a, actOf x)
    | _ => (0, none)

/-- replay; returns (index of the first action that is not enabled or unknown, world so far) -/
def replay (w : World) (k : Nat) : List (Nat × Option Act) → Option Nat × World
  | [] => (none, w)
  | (_, none) :: _ => (some k, w)
  | (a, some act) :: tr => match step w a act with
    | none => (some k, w)
    | some w' => replay w' (k + 1) tr

def showAgent (w : World) (a : Nat) : String :=
  let ag := w.agents a
  s!"a{a} pc={pcName ag.pc} ex={ag.execs} hx={ag.hexecs} hist={ag.hist} recs={ag.recs} unl={ag.unlinks} binds={ag.binds} mid={if midRun ag then 1 else 0}"

/-- line: `id agents d,dry,steps,hands[,canOpen[,sock]];… tr a:act a:act …` -/
def runLine (line : String) : String :=
  match words line with
  | id :: "agents" :: cs :: "tr" :: rest =>
    let cfgs := (cs.splitOn ";").map cfgOf
    let (stuck, w) := replay (init cfgs) 0 (parseTr rest)
    let n := cfgs.length
    let dags := (cfgs.map (·.dag)).eraseDups
    let st := match stuck with | none => "ok" | some k => s!"stuck@{k}"
    id ++ " " ++ st ++ " | " ++ " | ".intercalate ((List.range n).map (showAgent w)) ++ " | " ++
      " ".intercalate (((cfgs.map (·.sock)).eraseDups).map fun k => s!"ns{k}={sockName (w.ns k)}") ++ " " ++
      " ".intercalate (dags.map fun d => s!"lk{d}=" ++ (match w.lk d with | none => "-" | some a => toString a))
  | _ => "bad-line"

end Driver.Lock
