import BdModel.Log.Writers
import Driver.Util
/- driver mode `log`: the writer-wiring model on position-coded outputs -/
namespace Driver.Log
open BdModel.Log Driver

/-- a byte is identified by (attempt, stream, position in that stream of that attempt) -/
def code (att strm pos : Nat) : Nat := att * 1099511627776 + strm * 549755813888 + pos

/-- chunks of one attempt from tokens `o<n>` / `e<n>` -/
def mkAttempt (att : Nat) (toks : List String) : Attempt :=
  let rec go : List String → Nat → Nat → Attempt
    | [], _, _ => []
    | t :: r, po, pe =>
      let n := natD (t.drop 1).toString
      if t.startsWith "e" then (true, (List.range n).map (fun i => code att 1 (pe + i))) :: go r po (pe + n)
      else (false, (List.range n).map (fun i => code att 0 (po + i))) :: go r (po + n) pe
  go toks 0 0

/-- split the token list at "|" -/
def splitBar : List String → List (List String)
  | [] => [[]]
  | t :: r => if t == "|" then [] :: splitBar r else
      match splitBar r with
      | g :: gs => (t :: g) :: gs
      | [] => [[t]]

/-- run-length form of a disk content: `att.stream.start.len` per maximal run of consecutive codes -/
def segs (d : Bytes) : String :=
  let rec go : List Nat → Nat → Nat → List String → List String
    | [], st, ln, acc => if ln == 0 then acc else (fmt st ln) :: acc
    | v :: r, st, ln, acc =>
      if ln != 0 && v == st + ln then go r st (ln + 1) acc
      else go r v 1 (if ln == 0 then acc else (fmt st ln) :: acc)
  let l := (go d 0 0 []).reverse
  if l.isEmpty then "-" else ",".intercalate l
where
  fmt (st ln : Nat) : String :=
    let att := st / 1099511627776
    let rem := st % 1099511627776
    toString att ++ "." ++ toString (rem / 549755813888) ++ "." ++ toString (rem % 549755813888) ++ "." ++ toString ln

/-- line: `id stdoutFile stderrFile output script | o5 e3 … | o7 …` (one group per attempt);
    answer: `id done log=<segs> out=<segs> err=<segs> pipe=<segs> logbuf=<n> outbuf=<n> scripts=<n>` -/
def runLine (line : String) : String :=
  match splitBar (words line) with
  | [id, so, se, ou, sc] :: groups =>
    let c : Cfg := { stdoutFile := boolOf so, stderrFile := boolOf se, output := boolOf ou, script := boolOf sc }
    let as : List Attempt := (List.range groups.length).zip groups |>.map (fun (i, g) => mkAttempt i g)
    let s := run c as
    id ++ " done=" ++ (if s.done then "1" else "0") ++ " log=" ++ segs s.log.disk ++ " out=" ++ segs s.out.disk ++
      " err=" ++ segs s.err.disk ++ " pipe=" ++ segs s.pipe ++ " logbuf=" ++ toString s.log.buf.length ++
      " outbuf=" ++ toString s.out.buf.length ++ " scripts=" ++ toString s.scriptsLeft ++
      -- did the last attempt's teardown flush (done not yet set when it began)?  is the log writer behind a MultiWriter?
      " flushed=" ++ (if (setup c (run c as.dropLast)).done then "0" else "1") ++
      " buffered=" ++ (if c.buffered then "1" else "0")
  | _ => "bad-line"

end Driver.Log
