import BdModel.Params.Parse
import BdModel.Params.Output
import Driver.Util
/- driver mode `params`: the parameter model on hex-encoded (UTF-8) strings -/
namespace Driver.Params
open BdModel.Params Driver

def hexVal (c : Char) : Nat :=
  if '0' ≤ c ∧ c ≤ '9' then c.toNat - 48 else if 'a' ≤ c ∧ c ≤ 'f' then c.toNat - 87 else 0

def unhexBytes (s : String) : ByteArray :=
  if s == "-" then ByteArray.empty else
  let rec go : List Char → ByteArray → ByteArray
    | a :: b :: rest, acc => go rest (acc.push (UInt8.ofNat (hexVal a * 16 + hexVal b)))
    | _, acc => acc
  go s.toList ByteArray.empty

/-- hex of UTF-8 → characters (`none`: not valid UTF-8) -/
def unhex (s : String) : Option (List Char) := (String.fromUTF8? (unhexBytes s)).map String.toList

def hexDigit (n : Nat) : Char := if n < 10 then Char.ofNat (48 + n) else Char.ofNat (87 + n)

def hex (cs : List Char) : String :=
  let bs := (String.ofList cs).toUTF8
  if bs.size == 0 then "-" else
  String.ofList (bs.toList.flatMap (fun b => [hexDigit (b.toNat / 16), hexDigit (b.toNat % 16)]))

def pairs (ps : List (List Char × List Char)) : String :=
  if ps.isEmpty then "-" else ";".intercalate (ps.map (fun p => hex p.1 ++ ":" ++ hex p.2))

/-- line: `id <hex of the parameter string>`; answer:
    `id pairs joined reparsed-pairs removeQuotes escapeArg viaStart capture` -/
def runLine (line : String) : String :=
  match words line with
  | [id, h] =>
    match unhex h with
    | none => id ++ " not-utf8"
    | some p =>
      id ++ " " ++ pairs (parse p) ++ " " ++ hex (recorded p) ++ " " ++ pairs (parse (recorded p)) ++ " " ++
        hex (removeQuotes p) ++ " " ++ hex (escapeArg p) ++ " " ++ hex (viaStart p) ++ " " ++ hex (capture p)
  | _ => "bad-line"

end Driver.Params
