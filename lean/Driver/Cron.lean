import BdModel.Cron.Daemon
import Driver.Util
/-
  driver mode `cron` — evaluates BdModel.Cron definitions (the ones Props/C09 is about).
  All times on the wire are Unix seconds / minutes / days; the model's origin is Go's zero time.

  stateless queries
    spec  <id> <unixMinute> <hexspec>   → `<id> ok <minute> <hour> <dom> <month> <dow> <fires>` | `<id> err|panic|zone`
                                           (fields as robfig's uint64: bits, + 2^63 when starred)
    next  <id> <unixSec> <hexspec>      → `<id> n1 n2 n3` three successive `Next` (Unix s; 0 = zero time, then stops)
    civil <id> <unixDay>                → `<id> y m d weekday`
    ticks <id> <now0> <now,now,…>       → `<id> t:wait t:wait …`   (`daemonTicks`)
  daemon simulation (stateful)
    begin <id>
    file <fid> <def>      def = absent | bad | o | s:<hex> | l:<item>,… | m:<key>=<val>;…   item = <hex> | ~
                          key = start|stop|restart|unknown|nonstr    val = o | s:<hex> | l:<item>,…
    rm <fid>
    boot <now0>           → `<id> boot ok <loaded fids>` | `<id> boot dead` | `<id> boot zone`
    ev write <fid> | ev remove <fid>    → `<id> ev ok <loaded fids>` | `<id> ev dead`
    tick <susp fids|-> <fid>:<code>[:<unixSec>] …   code n (never run) z ("-") r (running) f (finished) x (failed, legacy time format) c (canceled)
                          o (status none WITH a start time) e (unreadable)
                          → `<id> tick <t> <acts>`  acts: S<fid> start, T<fid> stop, R<fid> restart, sorted; `-` = none
-/
namespace Driver.Cron
open BdModel.Cron Driver

def hexVal (c : Char) : Nat :=
  if '0' ≤ c ∧ c ≤ '9' then c.toNat - 48 else if 'a' ≤ c ∧ c ≤ 'f' then c.toNat - 87 else 0

def unhexBytes (s : String) : List UInt8 :=
  let rec go : List Char → List UInt8
    | a :: b :: rest => (UInt8.ofNat (hexVal a * 16 + hexVal b)) :: go rest
    | _ => []
  go s.toList

def unhex (s : String) : List Char :=
  if s == "-" then [] else
  match String.fromUTF8? (ByteArray.mk (unhexBytes s).toArray) with
  | some str => str.toList
  | none => []

def fieldU64 (f : Field) : Nat := f.bits + (if f.star then 2 ^ 63 else 0)

def b01 (b : Bool) : String := if b then "1" else "0"

def specLine (id : String) (unixMin : Nat) (hex : String) : String :=
  match parse (unhex hex) with
  | .ok s => id ++ " ok " ++ " ".intercalate ([s.minute, s.hour, s.dom, s.month, s.dow].map (fun f => toString (fieldU64 f))) ++
             " " ++ b01 (fires s (unixMin + unixEpochMin))
  | .err => id ++ " err"
  | .panic => id ++ " panic"
  | .zone => id ++ " zone"

def toUnix (t : Nat) : Nat := if t == 0 then 0 else t - unixEpoch

def nextLine (id : String) (unixSec : Nat) (hex : String) : String :=
  match parse (unhex hex) with
  | .ok s =>
    let n1 := nextTime s (unixSec + unixEpoch)
    let n2 := if n1 == 0 then 0 else nextTime s n1
    let n3 := if n2 == 0 then 0 else nextTime s n2
    id ++ " " ++ " ".intercalate ([n1, n2, n3].map (fun n => toString (toUnix n)))
  | _ => id ++ " noparse"

def civilLine (id : String) (unixDay : Nat) : String :=
  let d := unixDay + unixEpochDay
  let c := civilOfDay d
  id ++ " " ++ toString c.year ++ " " ++ toString c.month ++ " " ++ toString c.day ++ " " ++ toString (weekday d)

def ticksLine (id : String) (now0 : Nat) (nows : List Nat) : String :=
  id ++ " " ++ " ".intercalate ((daemonTicks (now0 + unixEpoch) (nows.map (· + unixEpoch))).map
    (fun p => toString (toUnix p.1) ++ ":" ++ toString p.2))

/-! file definitions -/

def items (s : String) : List (Option (List Char)) :=
  if s == "" then [] else (s.splitOn ",").map (fun it => if it == "~" then none else some (unhex it))

def sval (s : String) : SVal :=
  if s == "o" then .other
  else if s.startsWith "s:" then .str (unhex (s.drop 2).toString)
  else if s.startsWith "l:" then .list (items (s.drop 2).toString)
  else .other

def skey (s : String) : SKey :=
  match s with
  | "start" => .start | "stop" => .stop | "restart" => .restart | "unknown" => .unknown | _ => .nonString

def schedDef (s : String) : SchedDef :=
  if s == "absent" then .absent
  else if s == "bad" then .unreadable
  else if s.startsWith "m:" then
    let body := (s.drop 2).toString
    .map (if body == "" then [] else (body.splitOn ";").map (fun kvs =>
      match kvs.splitOn "=" with
      | [k, v] => (skey k, sval v)
      | _ => (.nonString, .other)))
  else .val (sval s)

def setFile (files : List (Nat × SchedDef)) (fid : Nat) (d : SchedDef) : List (Nat × SchedDef) :=
  let rest := files.filter (fun f => f.1 != fid)
  let (lo, hi) := rest.partition (fun f => f.1 < fid)
  lo ++ (fid, d) :: hi

def statusOf (toks : List String) (fid : Nat) : Status :=
  match toks.find? (fun t => (t.splitOn ":").headD "" == toString fid) with
  | none => ⟨false, .none, none⟩
  | some t =>
    match t.splitOn ":" with
    | [_, "n"] => ⟨false, .none, none⟩
    | [_, "z"] => ⟨false, .success, some 0⟩
    | [_, "e"] => ⟨true, .none, none⟩
    | [_, "r", s] => ⟨false, .running, some (natD s + unixEpoch)⟩
    | [_, "f", s] => ⟨false, .success, some (natD s + unixEpoch)⟩
    | [_, "x", s] => ⟨false, .error, some (natD s + unixEpoch)⟩
    | [_, "c", s] => ⟨false, .cancel, some (natD s + unixEpoch)⟩
    | [_, "o", s] => ⟨false, .none, some (natD s + unixEpoch)⟩
    | _ => ⟨false, .none, none⟩

def actName : Act → String
  | .start d => "S" ++ toString d
  | .stop d => "T" ++ toString d
  | .restart d => "R" ++ toString d

def insertSorted (x : String) : List String → List String
  | [] => [x]
  | y :: ys => if x ≤ y then x :: y :: ys else y :: insertSorted x ys

def sortStrings (l : List String) : List String := l.foldl (fun acc x => insertSorted x acc) []

def loadedNames (m : List Dag) : String :=
  if m.isEmpty then "-" else ",".intercalate (sortStrings (m.map (fun d => toString d.id)))

def run (lines : List String) : List String := Id.run do
  let mut out : Array String := #[]
  let mut id := "?"
  let mut files : List (Nat × SchedDef) := []
  let mut dags : Option (List Dag) := none
  let mut t : Nat := 0
  for line in lines do
    match words line with
    | ["spec", i, m, hex] => out := out.push (specLine i (natD m) hex)
    | ["next", i, u, hex] => out := out.push (nextLine i (natD u) hex)
    | ["civil", i, d] => out := out.push (civilLine i (natD d))
    | ["ticks", i, n0, ns] => out := out.push (ticksLine i (natD n0) (natList ns))
    | ["begin", i] => id := i; files := []; dags := none; t := 0
    | ["file", fid, d] => files := setFile files (natD fid) (schedDef d)
    | ["rm", fid] => files := files.filter (fun f => f.1 != natD fid)
    | ["boot", now0] =>
      let loads := files.map (fun f => (f.1, buildSchedule f.2))
      t := truncMin (natD now0 + unixEpoch)
      if loads.any (fun l => l.2 == .zone) then
        dags := none; out := out.push (id ++ " boot zone")
      else
        dags := initDags loads []
        out := out.push (match dags with
          | some m => id ++ " boot ok " ++ loadedNames m
          | none => id ++ " boot dead")
    | ["ev", kind, fid] =>
      match dags with
      | none => out := out.push (id ++ " ev dead")
      | some m =>
        let ev : Event := if kind == "write" then
            .write (natD fid) (match files.find? (fun f => f.1 == natD fid) with
                               | some f => buildSchedule f.2
                               | none => .err)
          else .remove (natD fid)
        dags := applyEvent m ev
        out := out.push (match dags with
          | some m' => id ++ " ev ok " ++ loadedNames m'
          | none => id ++ " ev dead")
    | "tick" :: susp :: sts =>
      match dags with
      | none => out := out.push (id ++ " tick dead")
      | some m =>
        let sl := natList susp
        let acts := runTick m (fun d => sl.contains d) (statusOf sts) t
        let names := sortStrings (acts.map actName)
        out := out.push (id ++ " tick " ++ toString (toUnix t) ++ " " ++ (if names.isEmpty then "-" else " ".intercalate names))
        t := nextTick t
    | [] => pure ()
    | _ => out := out.push "bad-line"
  return out.toList

end Driver.Cron
