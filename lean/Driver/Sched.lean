import BdModel.Sched.Model
import BdModel.Sched.Retry
import BdModel.Sched.AgentRun
import Driver.Util
/-
  Deterministic chooser over the fine system for the correspondence runs: after every harness
  operation the SAME `step` function the theorems quantify over is applied until nothing moves
  (workers to fix-point, then one scan of the loop in node order, …), exactly like the quiescent
  points the Go harness observes. Every driver run is therefore a run of the proved system.
-/
namespace Driver.Sched
open BdModel.Sched Driver

structure Case where
  cfg   : Cfg
  pre   : Nat → Nat     -- harness flavour of the step's precondition (see `preOk`); 3 = answered by the harness (op "pre")
  obeys : Nat → Bool

/-- Does `dag.EvalConditions(step.Preconditions)` return nil for the harness flavour `p` of a precondition?
    That boolean is all the scheduler looks at (`Act.visitLaunch i preOk`): 1 met, 6 `re:` pattern that matches;
    2 unmet, 7 `re:` that does not match, 8 invalid `re:` (dropped by MatchPattern: nothing matches), and
    4 / 5 = the condition CANNOT BE EVALUATED (its command substitution exits non-zero / cannot be started):
    `evalCondition` then returns `errEvalCondition`, an error like `errConditionNotMet`, and Schedule does not tell
    the two apart - the step is skipped. (0 = no precondition: the model ignores the argument.) -/
def preOk (p : Nat) : Bool := !(p == 2 || p == 4 || p == 5 || p == 7 || p == 8)

def tryAct (c : Cfg) (s : State) (a : Act) : State × Bool :=
  match step c s a with
  | some s' => (s', true)
  | none => (s, false)

/-- apply an action if enabled -/
def act (c : Cfg) (s : State) (a : Act) : State := (tryAct c s a).1

/-- all worker-internal actions of node i that are enabled (everything except the command's end) -/
def workerStep (c : Cfg) (s : State) (i : Nat) : State × Bool :=
  let pc := (s.nd i).pc
  let a? : Option Act :=
    match pc with
    | .setup => some (.setupDone i true)
    | .check => some (.check i)
    | .starting => some (.execStart i)
    | .exec => if c.dry then some (.execEnd i true) else none
    | .wErr => some (.postWrite i)
    | .wTimeout => some (.postWrite i)
    | .retrySleep => some (.retryWake i)
    | .tail => some (.tail i)
    | .td => some (.teardown i true)
    | .deferred => some (.deferred i)
    | _ => if (s.nd i).zombies > 0 then some (.zombie i) else none
  match a? with
  | some a => tryAct c s a
  | none => (s, false)

def workersPass (c : Cfg) (s : State) : State × Bool :=
  (List.range c.n).foldl (fun (acc : State × Bool) i =>
    let (s', ch) := workerStep c acc.1 i
    (s', acc.2 || ch)) (s, false)

/-- one scan of the loop over nodes `from … n-1`; a step whose precondition is controlled by the
    harness (pre = 3) blocks the loop thread in `launching` until the harness answers -/
def scanFrom (k : Case) (s : State) (start : Nat) : State :=
  ((List.range k.cfg.n).foldl (fun (acc : State × Bool) i =>
    let (s, broke) := acc
    if i < start || broke then acc else
    match s.loop with
    | .scanning =>
      -- `if sc.isCanceled() { break NodesIteration }` for a node that is none and ready
      let brk := s.canceled && (s.nd i).status == .none && (isReady k.cfg s i).1
      let s1 := act k.cfg s (.visitDecide i)
      match s1.loop with
      | .launching j => if k.pre j == 3 then (s1, false) else (act k.cfg s1 (.visitLaunch j (preOk (k.pre j))), false)
      | _ => (s1, brk)
    | _ => acc) (s, false)).1

def scan (k : Case) (s : State) : State := scanFrom k s 0

/-- observable part used to detect a fix-point -/
def obs (c : Cfg) (s : State) : List (NStatus × PC × Nat × Nat × Nat) × Bool × Bool × List Handler × Nat :=
  ((List.range c.n).map (fun i => ((s.nd i).status, (s.nd i).pc, (s.nd i).retry, (s.nd i).doneCnt, (s.nd i).zombies)),
   s.canceled, s.lastErr, s.hlog,
   match s.loop with | .scanning => 0 | .launching _ => 1 | .waiting => 2 | .handlers l => 3 + l.length | .returned => 100)

def loopPass (k : Case) (s : State) : State :=
  let c := k.cfg
  match s.loop with
  | .scanning =>
    if isFinished c s || s.canceled then act c s .loopExit else scan k s
  | .waiting => act c s .waitAll
  | .handlers [] => act c s .finish
  | .handlers (_ :: _) => if c.dry then act c s (.handlerRun true) else s
  | _ => s

def quiesce (k : Case) : Nat → State → State
  | 0, s => s
  | fuel + 1, s =>
    let (s1, _) := workersPass k.cfg s
    let s2 := loopPass k s1
    if obs k.cfg s2 == obs k.cfg s then s2 else quiesce k fuel s2

def stName : NStatus → String
  | .none => "not started" | .running => "running" | .error => "failed"
  | .cancel => "canceled" | .success => "finished" | .skipped => "skipped"

def stOfCode : Nat → NStatus
  | 1 => .running | 2 => .error | 3 => .cancel | 4 => .success | 5 => .skipped | _ => .none

def ovName : SStatus → String
  | .none => "not started" | .running => "running" | .error => "failed"
  | .cancel => "canceled" | .success => "finished"

def hIdx : Handler → Nat
  | .onSuccess => 0 | .onFailure => 1 | .onCancel => 2 | .onExit => 3

def snapLine (c : Cfg) (s : State) : String :=
  let r := List.range c.n
  let fl := r.filter (fun i => (s.nd i).pc == .exec && !c.dry)
  let fl := fl ++ (match s.loop with | .handlers (h :: _) => if c.dry then [] else [1000 + hIdx h] | _ => [])
  "snap st=" ++ "|".intercalate (r.map (fun i => stName (s.nd i).status)) ++
  " rc=" ++ joinNat (r.map (fun i => (s.nd i).retry)) ++
  " dc=" ++ joinNat (r.map (fun i => (s.nd i).doneCnt)) ++
  " fl=" ++ joinNat fl ++
  " ov=" ++ ovName (reported c s) ++
  " pp=" ++ (match s.loop with | .launching j => toString j | _ => "") ++
  " ag=" ++ ovName (agentStatus c true s) ++
  " ex=" ++ joinNat (r.map (fun i => (s.nd i).execs)) ++
  " hl=" ++ joinNat (s.hlog.map hIdx)

def parseNode (ws : List String) : NodeCfg × Nat × Bool :=
  ({ deps := natList (kv ws "deps"), contFail := boolOf (kv ws "cf"), contSkip := boolOf (kv ws "cs"),
     limit := natD (kv ws "limit"), hasPre := natD (kv ws "pre") != 0, rep := boolOf (kv ws "rep"),
     sigOnStop := (kv ws "sig").toNat? },
   natD (kv ws "pre"), boolOf (kv ws "obeys"))

structure Sess where
  k : Case
  s : State
  nodes : List (NodeCfg × Nat × Bool) := []

def mkCase (ws : List String) (nodes : List (NodeCfg × Nat × Bool)) : Case :=
  let arr := nodes.toArray
  let hs := natList (kv ws "h")
  { cfg := { n := natD (kv ws "n"), node := fun i => (arr[i]?.map (·.1)).getD {},
             maxActive := natD (kv ws "max"), dry := boolOf (kv ws "dry"),
             hSuccess := hs.getD 0 0 != 0, hFailure := hs.getD 1 0 != 0,
             hCancel := hs.getD 2 0 != 0, hExit := hs.getD 3 0 != 0 },
    pre := fun i => (arr[i]?.map (·.2.1)).getD 0,
    obeys := fun i => (arr[i]?.map (·.2.2)).getD true }

/-- stop = what `Scheduler.Signal(g, SIGTERM, _, true)` does, then processes that obey die -/
def doStop (k : Case) (s : State) : State :=
  let c := k.cfg
  let s := act c s .setCanceled
  (List.range c.n).foldl (fun s i =>
    let before := (s.nd i).sigs.length
    let s1 := act c s (.signalNode i 15 true)
    let delivered := (s1.nd i).sigs.length > before
    if delivered && (s1.nd i).pc == .exec && (k.obeys i || (s1.nd i).sigs.getLast? == some 9) then
      act c s1 (.execEnd i false)
    else s1) s

/-- escalation = `Scheduler.Signal(g, SIGKILL, nil, false)`; a process that receives KILL dies -/
def doKill (k : Case) (s : State) : State :=
  let c := k.cfg
  let s := act c s .setCanceled
  (List.range c.n).foldl (fun s i =>
    let before := (s.nd i).sigs.length
    let s1 := act c s (.signalNode i 9 false)
    if (s1.nd i).sigs.length > before && (s1.nd i).pc == .exec then act c s1 (.execEnd i false) else s1) s

/-- process all lines of one session; returns output lines -/
def run (lines : List String) : List String := Id.run do
  let mut out : List String := []
  let mut caseWs : List String := []
  let mut nodes : List (NodeCfg × Nat × Bool) := []
  let mut sess : Option Sess := none
  for line in lines do
    let ws := words line
    match ws with
    | "case" :: rest =>
      caseWs := rest; nodes := []; sess := none
      out := out ++ ["case " ++ kv rest "id"]
    | "node" :: rest => nodes := nodes ++ [parseNode rest]
    | ["run"] =>
      let k := mkCase caseWs nodes
      let ini := kv caseWs "init"
      if ini == "" then
        let s := quiesce k 10000 (init k.cfg)
        sess := some { k := k, s := s }
        out := out ++ [snapLine k.cfg s]
      else
        -- retry mode: the run starts from what `setupRetry` makes of the recorded vector
        let codes := (natList ini).toArray
        let rcs := (natList (kv caseWs "irc")).toArray
        let dcs := (natList (kv caseWs "idc")).toArray
        let es : List (Nat × Nat) := nodes.zipIdx.flatMap (fun (nd, i) => nd.1.deps.map (fun d => (d, i)))
        let s0 := BdModel.Retry.initRetry k.cfg.n es (fun i => stOfCode (codes.getD i 0)) (fun i => rcs.getD i 0)
                    (fun i => dcs.getD i 0) BdModel.Retry.resetSet
        let r := List.range k.cfg.n
        out := out ++ ["init st=" ++ "|".intercalate (r.map (fun i => stName (s0.nd i).status)) ++
                       " rc=" ++ joinNat (r.map (fun i => (s0.nd i).retry))]
        let s := quiesce k 10000 s0
        sess := some { k := k, s := s }
        out := out ++ [snapLine k.cfg s]
    | ["op", "stop"] =>
      match sess with
      | some se =>
        let s := quiesce se.k 10000 (doStop se.k se.s)
        sess := some { se with s := s }
        out := out ++ [snapLine se.k.cfg s]
      | none => out := out ++ ["bad-op"]
    | ["op", "kill"] =>
      match sess with
      | some se =>
        let s := quiesce se.k 10000 (doKill se.k se.s)
        sess := some { se with s := s }
        out := out ++ [snapLine se.k.cfg s]
      | none => out := out ++ ["bad-op"]
    | ["op", "pre", i, v] =>
      match sess with
      | some se =>
        let i := natD i
        match step se.k.cfg se.s (.visitLaunch i (v == "1")) with
        | some s1 =>
          let s := quiesce se.k 10000 (scanFrom se.k s1 (i + 1))
          sess := some { se with s := s }
          out := out ++ [snapLine se.k.cfg s]
        | none => out := out ++ ["bad-op"]
      | none => out := out ++ ["bad-op"]
    | ["op", "relstop", i] =>
      -- the iteration of the repeating step `i` ends, and the stop is accepted while its worker sleeps the
      -- repeat interval (before it is back at the head of its loop)
      match sess with
      | some se =>
        match step se.k.cfg se.s (.execEnd (natD i) true) with
        | some s1 =>
          let s := quiesce se.k 10000 (doStop se.k s1)
          sess := some { se with s := s }
          out := out ++ [snapLine se.k.cfg s]
        | none => out := out ++ ["bad-op"]
      | none => out := out ++ ["bad-op"]
    | ["op", "rel", i, ok] =>
      match sess with
      | some se =>
        let i := natD i
        let ok := boolOf ok
        let c := se.k.cfg
        let r : Option State :=
          if i ≥ 1000 then
            match se.s.loop with
            | .handlers (h :: _) => if hIdx h + 1000 == i then step c se.s (.handlerRun ok) else none
            | _ => none
          else step c se.s (.execEnd i ok)
        match r with
        | some s1 =>
          let s := quiesce se.k 10000 s1
          sess := some { se with s := s }
          out := out ++ [snapLine c s]
        | none => out := out ++ ["bad-op"]
      | none => out := out ++ ["bad-op"]
    | [] => pure ()
    | _ => out := out ++ ["bad-line"]
  return out

end Driver.Sched
