import BdModel.Defs.Store
import Driver.Util
namespace Driver.Defs
open BdModel.Defs BdModel.Hist Driver

def tmplId : Nat := 1000

def dumpLine (w : World) (nn : Nat) (err : Bool) : String :=
  let r := List.range nn
  "dump err=" ++ (if err then "1" else "0") ++
  " defs=" ++ ",".intercalate (r.map (fun n => match lookup w n with
      | none => "-" | some t => if t == tmplId then "tmpl" else "t" ++ toString t)) ++
  " hist=" ++ ";".intercalate (r.map (fun n => joinNat ((recent w.hist n 20).map (·.pay))))

/-- lines: `case id <id> nn <n> valid <0/1,…>` then `create n` | `save n t` | `rename a b` | `delete n` | `list` |
    `run n t r8 req pay` -/
def run (lines : List String) : List String := Id.run do
  let mut out : List String := []
  let mut w : World := {}
  let mut nn := 0
  let mut valid : Array Nat := #[]
  let mut k := 0
  for line in lines do
    match words line with
    | "case" :: rest =>
      w := {}; nn := natD (kv rest "nn"); valid := (natList (kv rest "valid")).toArray; k := 0
      out := out ++ ["case " ++ kv rest "id"]
    | ["create", n] =>
      let (w', r) := create w (natD n) tmplId
      w := w'; out := out ++ [dumpLine w nn (r == .err)]
    | ["save", n, t] =>
      let (w', r) := save (fun t => valid.getD t 0 == 1) w (natD n) (natD t)
      w := w'; out := out ++ [dumpLine w nn (r == .err)]
    | ["rename", a, b] =>
      let (w', r) := BdModel.Defs.rename w (natD a) (natD b)
      w := w'; out := out ++ [dumpLine w nn (r == .err)]
    | ["delete", n] =>
      let (w', r) := delete w (natD n)
      w := w'; out := out ++ [dumpLine w nn (r == .err)]
    | ["list"] => out := out ++ [dumpLine w nn false]
    | ["run", n, t, r8, req, pay] =>
      let h := openRun w.hist k (natD n) (natD t) (natD r8)
      let h := write h k ⟨natD req, natD pay⟩
      let h := close h k
      k := k + 1
      w := { w with hist := h }; out := out ++ [dumpLine w nn false]
    | [] => pure ()
    | _ => out := out ++ ["bad-line"]
  return out

end Driver.Defs
