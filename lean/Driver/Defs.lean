import BdModel.Defs.Store
import BdModel.Defs.Names
import Driver.Util
namespace Driver.Defs
open BdModel.Defs BdModel.Hist Driver

def tmplId : Nat := 1000

/-- one entry per NAME INDEX of the case; `key` maps a name index to the model's name (the resolved file) -/
def dumpLine (w : World) (nn : Nat) (key : Nat → Nat) (err : Bool) : String :=
  let r := (List.range nn).map key
  "dump err=" ++ (if err then "1" else "0") ++
  " defs=" ++ ",".intercalate (r.map (fun n => match lookup w n with
      | none => "-" | some t => if t == tmplId then "tmpl" else "t" ++ toString t)) ++
  " hist=" ++ ";".intercalate (r.map (fun n => joinNat ((recent w.hist n 20).map (·.pay))))

def chars (s : String) : List Char := (natList s).map Char.ofNat

/-- lines: `case id <id> nn <n> valid <0/1,…>`, then optionally one `sp <code points>` per name index (the SPELLING
    of the name, in order; answered by `resolved <code points of the file name it denotes>`), then
    `create n` | `save n t` | `rename a b` | `delete n` | `list` | `run n t r8 req pay` over name indices; the model
    works on `keyOf spellings n` (names that denote the same file are one DAG). Without `sp` lines a name index is
    its own key (old replay files). -/
def run (lines : List String) : List String := Id.run do
  let mut out : List String := []
  let mut w : World := {}
  let mut nn := 0
  let mut valid : Array Nat := #[]
  let mut k := 0
  let mut sps : List (List Char) := []
  for line in lines do
    let key := keyOf sps
    let lit := fun (n : Nat) => match sps[n]? with | none => false | some s => !findsOwnFile s
    match words line with
    | "case" :: rest =>
      w := {}; nn := natD (kv rest "nn"); valid := (natList (kv rest "valid")).toArray; k := 0; sps := []
      out := out ++ ["case " ++ kv rest "id"]
    | ["sp", cps] =>
      let s := chars cps
      sps := sps ++ [s]
      out := out ++ ["resolved " ++ joinNat ((resolve s).map Char.toNat)]
    | ["sp"] => sps := sps ++ [[]]; out := out ++ ["resolved " ++ joinNat ((resolve []).map Char.toNat)]
    | ["create", n] =>
      let (w', r) := create w (key (natD n)) tmplId
      w := w'; out := out ++ [dumpLine w nn key (r == .err)]
    | ["save", n, t] =>
      let (w', r) := save (fun t => valid.getD t 0 == 1) w (key (natD n)) (natD t)
      w := w'; out := out ++ [dumpLine w nn key (r == .err)]
    | ["rename", a, b] =>
      let (w', r) := renameSp w (key (natD a)) (key (natD b)) (lit (natD a)) (lit (natD b))
      w := w'; out := out ++ [dumpLine w nn key (r == .err)]
    | ["delete", n] =>
      let (w', r) := delete w (key (natD n))
      w := w'; out := out ++ [dumpLine w nn key (r == .err)]
    | ["list"] => out := out ++ [dumpLine w nn key false]
    | ["run", n, t, r8, req, pay] =>
      let h := openRun w.hist k (key (natD n)) (natD t) (natD r8)
      let h := write h k ⟨natD req, natD pay⟩
      let h := close h k
      k := k + 1
      w := { w with hist := h }; out := out ++ [dumpLine w nn key false]
    | [] => pure ()
    | _ => out := out ++ ["bad-line"]
  return out

end Driver.Defs
