import BdModel.Hist.Stamp
import Driver.Glob
/- line oracle for the file-name / timestamp layer of the history store (the definitions of Hist/Stamp.lean that
   Props/C06Names.lean is about). Strings are hex of UTF-8 bytes, `-` = empty. -/
namespace Driver.Stamp
open BdModel.Hist.Stamp Driver Driver.Glob

def hx (cs : List Char) : String := if cs.isEmpty then "-" else tohex cs

def hxs (l : List (List Char)) : String := if l.isEmpty then "-" else " ".intercalate (l.map hx)

/-- the calendar date of an instant, or none when the model's inverse does not map back (never, by `ofUnix_spec`,
    between 2000 and 2999; outside that range the stamp is outside the regex's reach anyway) -/
def civil? (ms : Nat) : Option Civil :=
  let t := ofUnixMillis ms
  if unixMillis t = ms ∧ t.Real then some t else none

def runLine (line : String) : String :=
  match words line with
  | ["stamp", p] => hx (timestamp (unhex p))
  | ["free", p] => if StampFree (unhex p) then "1" else "0"
  | ["render", ms] =>
    match civil? (natD ms) with
    | some t => hx (render t)
    | none => "out-of-range"
  | ["name", _loc, _dag, pwd, ms, req, c] =>
    match civil? (natD ms) with
    | some t => hx (fileName (unhex pwd) t (unhex req) (boolOf c))
    | none => "out-of-range"
  | "latest" :: n :: names => hxs (filterLatest (names.map unhex) (n.toInt?.getD 0))
  | "today" :: _loc :: _dag :: pwd :: day :: names =>
    match civil? (natD day) with
    | some d => hxs (latestToday (unhex pwd) (date8 d) (names.map unhex))
    | none => "out-of-range"
  | _ => "bad-line"

end Driver.Stamp
