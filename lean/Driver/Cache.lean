import BdModel.Hist.Cache
import Driver.Util
/- driver mode `cache`: the read-cache model (Hist/Cache.lean) as a line oracle -/
namespace Driver.Cache
open BdModel.Hist.Cache Driver

/-- `g:dt:d;g:dt:d` or `-` -/
def writesOf (s : String) : List Write :=
  if s == "-" || s == "" then [] else
  (s.splitOn ";").filterMap (fun w =>
    match w.splitOn ":" with
    | [g, dt, d] => some ⟨natD g, natD dt, natD d⟩
    | _ => none)

def writeOf (g dt d : String) : Write := ⟨natD g, natD dt, natD d⟩

def showOut : Out → String
  | .ok => "ok"
  | .data d => "data " ++ toString d
  | .errStat => "err stat"
  | .errLoad => "err load"
  | .errEmpty => "err empty"
  | .panic => "panic"

/-- the op's answer, then the file as `stat` + `ParseFile` see it and the cache entry of that name -/
def showState (s : State) (f : Nat) : String :=
  let fl := match s.files f with
    | none => "-"
    | some fi => toString fi.size ++ "," ++ toString fi.mtime ++ "," ++ (if fi.size = 0 then "-" else toString fi.data)
  let en := match s.cache f with
    | none => "-"
    | some e => toString e.data ++ "," ++ toString e.size ++ "," ++ toString e.mtime
  " file=" ++ fl ++ " entry=" ++ en

def parseOp (ws : List String) : Option (Nat × Op) :=
  match ws with
  | ["create", f, g, dt, d] => some (natD f, .create (natD f) (writeOf g dt d))
  | ["append", f, g, dt, d] => some (natD f, .append (natD f) (writeOf g dt d))
  | ["remove", f] => some (natD f, .remove (natD f))
  | ["invalidate", f] => some (natD f, .invalidate (natD f))
  | ["evict", f] => some (natD f, .evict (natD f))
  | ["load", f, pre, post] => some (natD f, .load (natD f) (writesOf pre) (writesOf post))
  | ["loadrm", f, pre] => some (natD f, .loadRm (natD f) (writesOf pre))
  | _ => none

/-- lines: `case <id>` (fresh directory and cache) then one op per line:
    `create f grow dt data` | `append f grow dt data` | `remove f` | `invalidate f` | `evict f` |
    `load f <pre> <post>` | `loadrm f <pre>` | `race f <millis>` -/
def run (lines : List String) : List String := Id.run do
  let mut out : List String := []
  let mut s : State := init
  for line in lines do
    match words line with
    | [] => pure ()
    | ["case", id] => s := init; out := ("case " ++ id) :: out
    | ["race", f, _] =>
      -- the harness runs the real LoadLatest from 4 goroutines against concurrent Invalidate / evict on a cache of
      -- its own for some ms and counts panics and foreign answers. In the model the hit path of `loadV` is ONE atomic
      -- step (stat + the single map read), so there is nothing to interleave: the answer is this constant, the state
      -- is untouched; the op SAMPLES the real interleavings (C07_cache_never_panics is about the atomic model).
      out := ("race panics=0 wrong=0" ++ showState s (natD f)) :: out
    | ws =>
      match parseOp ws with
      | none => out := "bad-line" :: out
      | some (f, op) =>
        let r := step s op
        s := r.1
        out := (showOut r.2 ++ showState s f) :: out
  return out.reverse

end Driver.Cache
