-- root of the `BdModel` library: every module that `lake build` must check
import BdModel.Sched.Cycle
import BdModel.Props.C14
