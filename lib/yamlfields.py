"""What the LOADER makes of the settings the scheduler properties rest on. The scheduler harness builds its dag.Step values
in Go; this stream writes the same settings as YAML, loads them with dag.LoadYAML (harness mode `sched yaml`) and compares
the loaded values field by field. A field that does not arrive as written breaks the property that rests on it:
depends / continueOn / preconditions -> C01, C02; retryPolicy / repeatPolicy / command -> C03; handlerOn -> C04;
signalOnStop / maxCleanUpTimeSec / timeoutSec -> C05; maxActiveRuns -> C15."""
import json, subprocess
import common

FIELD_PROPS = {"depends": ("C01", "C02", "C10"), "cf": ("C01", "C02"), "cs": ("C01", "C02"), "pre": ("C02",), "dagpre": ("C02",),
               "limit": ("C03",), "hasRetry": ("C03",), "retryIntervalSec": ("C03",), "repeat": ("C03", "C05"), "repeatIntervalSec": ("C03",),
               "cmd": ("C03",), "args": ("C03",), "output": ("C03",), "handlers": ("C04",), "sig": ("C05",), "maxCleanUpSec": ("C05",),
               "timeoutSec": ("C05",), "maxActive": ("C15",), "delaySec": ("C15",), "names": ("C01", "C02", "C03")}
SIGS = ["SIGTERM", "SIGINT", "SIGUSR1", "SIGKILL", "SIGHUP", "SIGQUIT"]


def q(s):
    return '"' + s.replace("\\", "\\\\").replace('"', '\\"') + '"'


def gen(rng, k):
    n = rng.randint(1, 6)
    names = ["s%d" % i if rng.random() < 0.7 else rng.choice(["build it", "a-b", "x_%d" % i, "Step%d" % i, "t.%d" % i]) + str(i) for i in range(n)]
    order = list(range(n)); rng.shuffle(order)          # listing order is not dependency order
    pos = {v: i for i, v in enumerate(order)}
    spec = {"steps": [], "maxActive": rng.choice([0, 0, 1, 2, 5]), "timeoutSec": rng.choice([0, 0, 30, 3600]), "delaySec": rng.choice([0, 0, 1, 7]),
            "maxCleanUpSec": rng.choice([None, None, 0, 5, 120]), "handlers": {}, "dagpre": []}
    for h in ("success", "failure", "cancel", "exit"):
        if rng.random() < 0.4:
            spec["handlers"][h] = "h-%s-%d" % (h, k)
    if rng.random() < 0.2:
        spec["dagpre"] = [["`echo %d`" % rng.randint(0, 3), str(rng.randint(0, 3))]]
    for i in range(n):
        deps = [names[j] for j in range(n) if pos[j] < pos[i] and rng.random() < 0.4]
        rng.shuffle(deps)
        st = {"name": names[i], "depends": deps, "cf": rng.random() < 0.3, "cs": rng.random() < 0.3,
              "cmd": rng.choice(["true", "echo", "sh", "/bin/sleep"]), "args": rng.choice([[], ["1"], ["-c", "exit 3"], ["a b", "c"]]),
              "hasRetry": rng.random() < 0.4, "limit": rng.choice([0, 1, 2, 3, 10]), "retryIntervalSec": rng.choice([0, 1, 30]),
              "repeat": rng.random() < 0.15, "repeatIntervalSec": rng.choice([0, 2, 60]),
              "pre": [["`echo %d`" % rng.randint(0, 2), rng.choice(["0", "1", "re:[0-2]"])]] if rng.random() < 0.3 else [],
              "sig": rng.choice([""] * 3 + SIGS), "output": rng.choice(["", "", "OUT_%d" % i])}
        if not st["hasRetry"]:
            st["limit"] = 0; st["retryIntervalSec"] = 0
        if not st["repeat"]:
            st["repeatIntervalSec"] = 0
        spec["steps"].append(st)
    # base configuration: settings the DAG file does not mention are inherited from it
    base = None
    if rng.random() < 0.35:
        base = {"maxActive": rng.choice([1, 2, 3]), "delaySec": rng.choice([0, 3]), "maxCleanUpSec": rng.choice([None, 9]),
                "handlers": {h: "base-%s-%d" % (h, k) for h in ("success", "failure", "cancel", "exit") if rng.random() < 0.5}}
        B = ["maxActiveRuns: %d" % base["maxActive"]]
        if base["delaySec"]: B.append("delaySec: %d" % base["delaySec"])
        if base["maxCleanUpSec"] is not None: B.append("maxCleanUpTimeSec: %d" % base["maxCleanUpSec"])
        if base["handlers"]:
            B.append("handlerOn:")
            for h, cmd in base["handlers"].items():
                B += ["  %s:" % h, "    command: %s" % q(cmd)]
        spec["baseText"] = "\n".join(B) + "\n"
        # what the loaded DAG must say: the DAG file's own value where it gives one, else the base's
        spec["want"] = {"maxActive": spec["maxActive"] or base["maxActive"], "delaySec": spec["delaySec"] or base["delaySec"],
                        # under dag.Load a clean-up time of 0 / absent means "inherit, else the default of 60 s"
                        "maxCleanUpSec": spec["maxCleanUpSec"] or base["maxCleanUpSec"] or 60,
                        "handlers": dict(base["handlers"], **spec["handlers"])}
    # YAML text, steps in listing order `order`
    L = []
    if spec["maxActive"]: L.append("maxActiveRuns: %d" % spec["maxActive"])
    if spec["timeoutSec"]: L.append("timeoutSec: %d" % spec["timeoutSec"])
    if spec["delaySec"]: L.append("delaySec: %d" % spec["delaySec"])
    if spec["maxCleanUpSec"] is not None: L.append("maxCleanUpTimeSec: %d" % spec["maxCleanUpSec"])
    if spec["dagpre"]:
        L.append("preconditions:")
        for c, e in spec["dagpre"]:
            L += ["  - condition: %s" % q(c), "    expected: %s" % q(e)]
    if spec["handlers"]:
        L.append("handlerOn:")
        for h, cmd in spec["handlers"].items():
            L += ["  %s:" % h, "    command: %s" % q(cmd)]
    L.append("steps:")
    listed = [spec["steps"][i] for i in order]
    for st in listed:
        L.append("  - name: %s" % q(st["name"]))
        if (rng.random() < 0.5 and not any(" " in a for a in st["args"])) or not st["args"]:
            # string form only for arguments without blanks (how the string form is split is C03_argv's subject)
            L.append("    command: %s" % q(" ".join([st["cmd"]] + st["args"])))
        else:
            L.append("    command: [%s]" % ", ".join(q(x) for x in [st["cmd"]] + st["args"]))
        if st["depends"]:
            L.append("    depends:"); L += ["      - %s" % q(d) for d in st["depends"]]
        if st["cf"] or st["cs"]:
            L.append("    continueOn:")
            if st["cf"]: L.append("      failure: true")
            if st["cs"]: L.append("      skipped: true")
        if st["hasRetry"]:
            L += ["    retryPolicy:", "      limit: %d" % st["limit"], "      intervalSec: %d" % st["retryIntervalSec"]]
        if st["repeat"]:
            L += ["    repeatPolicy:", "      repeat: true", "      intervalSec: %d" % st["repeatIntervalSec"]]
        if st["pre"]:
            L.append("    preconditions:")
            for c, e in st["pre"]:
                L += ["      - condition: %s" % q(c), "        expected: %s" % q(e)]
        if st["sig"]: L.append("    signalOnStop: %s" % q(st["sig"]))
        if st["output"]: L.append("    output: %s" % st["output"])
    c = {"id": "y%d" % k, "yaml": "\n".join(L) + "\n", "spec": spec, "listed": [s["name"] for s in listed]}
    if base is not None:
        c["base"] = spec["baseText"]
    return c


def compare(c, r):
    """yields (field, detail)"""
    sp = dict(c["spec"])
    if "want" in sp:
        sp.update(sp["want"])
    if r.get("err"):
        yield ("names", "a well-formed definition is not loaded: %s" % r["err"]); return
    if r["maxActive"] != sp["maxActive"]: yield ("maxActive", "maxActiveRuns %r loaded as %r" % (sp["maxActive"], r["maxActive"]))
    if r["timeoutSec"] != sp["timeoutSec"]: yield ("timeoutSec", "timeoutSec %r loaded as %r" % (sp["timeoutSec"], r["timeoutSec"]))
    if r["delaySec"] != sp["delaySec"]: yield ("delaySec", "delaySec %r loaded as %r" % (sp["delaySec"], r["delaySec"]))
    want_cl = sp["maxCleanUpSec"]          # absent: the default is applied elsewhere (not judged here)
    if want_cl is not None and r["maxCleanUpSec"] != want_cl: yield ("maxCleanUpSec", "maxCleanUpTimeSec %r loaded as %r s" % (sp["maxCleanUpSec"], r["maxCleanUpSec"]))
    if (r.get("handlers") or {}) != sp["handlers"]: yield ("handlers", "handlerOn %r loaded as %r" % (sp["handlers"], r.get("handlers")))
    if [p.split("|", 1) for p in (r.get("pre") or [])] != sp["dagpre"]: yield ("dagpre", "DAG preconditions %r loaded as %r" % (sp["dagpre"], r.get("pre")))
    got = {s["name"]: s for s in (r.get("steps") or [])}
    if [s["name"] for s in (r.get("steps") or [])] != c["listed"]:
        yield ("names", "steps %r loaded as %r" % (c["listed"], [s["name"] for s in (r.get("steps") or [])])); return
    for st in sp["steps"]:
        g = got[st["name"]]
        for f in ("cf", "cs", "hasRetry", "limit", "retryIntervalSec", "repeat", "repeatIntervalSec", "sig", "output", "cmd"):
            if g[f] != st[f]:
                yield (f, "step %r: %s %r loaded as %r" % (st["name"], f, st[f], g[f]))
        if (g.get("depends") or []) != st["depends"]: yield ("depends", "step %r: depends %r loaded as %r" % (st["name"], st["depends"], g.get("depends")))
        if (g.get("args") or []) != st["args"]: yield ("args", "step %r: args %r loaded as %r" % (st["name"], st["args"], g.get("args")))
        if [p.split("|", 1) for p in (g.get("pre") or [])] != st["pre"]: yield ("pre", "step %r: preconditions %r loaded as %r" % (st["name"], st["pre"], g.get("pre")))


def run(chk, prop, binp, n):
    rng = chk.rng
    cases = [gen(rng, k) for k in range(n)]
    p = subprocess.run([binp, "yaml"], input="\n".join(json.dumps({"id": c["id"], "yaml": c["yaml"], "base": c.get("base", "")}) for c in cases) + "\n",
                       stdout=subprocess.PIPE, stderr=subprocess.PIPE, text=True, timeout=600)
    res = {}
    for l in p.stdout.strip().split("\n"):
        if l.strip():
            r = json.loads(l); res[r["id"]] = r
    m = 0
    for c in cases:
        r = res.get(c["id"])
        if r is None:
            chk.oblige("harness-run:yaml-fields:" + c["id"], False, p.stderr[-400:]); continue
        m += 1; chk.evaluations += 1
        for field, detail in compare(c, r):
            if prop in FIELD_PROPS.get(field, ()):
                chk.violation("%s:definition-setting-not-loaded-as-written:%s" % (prop, field), detail, {"yaml_case": {"id": c["id"], "yaml": c["yaml"], "base": c.get("base", "")}, "loaded": r})
    chk.stats = dict(getattr(chk, "stats", None) or {}, yaml_definitions=m)
