"""C09 — the daemon's start / stop guards answered by the REAL client (history store + flag store on disk, no agent socket).

The daemon streams of p_c09 script the status answers through a fake client; this leg lays down what runs leave behind
(history written through the real jsondb store by a separate store instance; running records of agents that died hard,
with a recorded pid that is dead / owned by a live unrelated process / 0; records beyond 64 KiB; suspension through the
real flag store), runs ONE real tick of the real scheduler at a minute every DAG's `start:` and `stop:` schedule matches,
with client.New over the real data stores, and judges the requests the jobs issued.

Monitor (independent of the Lean model and of what GetLatestStatus said): no socket answers for any DAG, so NO DAG IS
RUNNING whatever its last record says —
  start issued  iff  not suspended and the most recent run did not start in or after the minute;
  stop never issued.
"""
import json, os, subprocess, time

SIG_SKIP = "C09:real-client:scheduled-start-skipped:"
SIG_STOP = "C09:real-client:stop-issued-for-a-dag-that-is-not-running:"
SIG_EXTRA = "C09:real-client:start-not-due:"
BIG = 70000          # bytes of parameters: one record line > 64 KiB


def situations(rng):
    """[(name, suspended, runs oldest first)]; ago = seconds before the case's now, -1 = first second of the tick's minute"""
    since_midnight = int(time.time()) % 86400        # "earlier" stays within the (UTC) day whenever the day is old enough
    early = lambda: rng.choice([x for x in (61, 125, 1800, 3 * 3600) if x < since_midnight - 90] or [61])
    yday = lambda: rng.choice([86400 + 120, 26 * 3600, 47 * 3600])
    run = lambda ago, status, pid="zero", big=0: {"ago": ago, "status": status, "pid": pid, "big": big}
    s = [("never-run", False, [])]
    for lab in ("finished", "failed", "canceled"):
        s.append(("%s-earlier" % lab, False, [run(early(), lab, rng.choice(["dead", "zero"]))]))
        s.append(("%s-yesterday" % lab, False, [run(yday(), lab, "dead")]))
    for pid in ("dead", "self", "init", "zero"):
        nm = {"dead": "dead-pid", "self": "pid-of-a-live-unrelated-process", "init": "pid-of-a-live-unrelated-process(1)", "zero": "pid-0"}[pid]
        s.append(("crashed-run-recorded-running:%s" % nm, False, [run(early(), "running", pid)]))
    s.append(("crashed-run-recorded-running:pid-of-a-live-unrelated-process:after-earlier-finished-runs", False,
              [run(yday(), "finished", "dead"), run(4 * 3600, "finished", "dead"), run(early(), "running", "self")]))
    s.append(("crashed-run-recorded-running:pid-of-a-live-unrelated-process:yesterday", False, [run(yday(), "running", "self")]))
    s.append(("crashed-run-recorded-running:dead-pid:yesterday", False, [run(yday(), "running", "dead")]))
    s.append(("big-record:finished-earlier", False, [run(early(), "finished", "dead", BIG + rng.randint(0, 9000))]))
    s.append(("big-record:crashed-run-recorded-running:dead-pid", False, [run(early(), "running", "dead", BIG + rng.randint(0, 9000))]))
    s.append(("big-record:finished-earlier:after-a-small-older-run", False, [run(5 * 3600, "finished", "dead"), run(early(), "finished", "dead", BIG)]))
    # runs that started IN the minute: the minute has been served
    s.append(("finished-run-started-in-the-minute", False, [run(-1, "finished", "dead")]))
    s.append(("crashed-run-recorded-running:dead-pid:started-in-the-minute", False, [run(-1, "running", "dead")]))
    s.append(("suspended:never-run", True, []))
    s.append(("suspended:finished-earlier", True, [run(early(), "finished", "dead")]))
    rng.shuffle(s)
    return [{"name": n, "susp": su, "runs": r} for n, su, r in s]


def gen_cases(rng):
    return [{"k": "real", "id": "real-today-only" if lt else "real-latest-of-any-day", "real": {"ltoday": lt, "sits": situations(rng)}}
            for lt in (True, False)]


def run_cases(binp, cases):
    env = dict(os.environ, TZ="UTC")
    hin = "".join(json.dumps(c) + "\n" for c in cases)
    p = subprocess.run([binp], input=hin, stdout=subprocess.PIPE, stderr=subprocess.PIPE, text=True, timeout=120 + 70 * len(cases), env=env)
    res = {}
    for l in p.stdout.split("\n"):
        w = l.split(" ", 2)
        if len(w) == 3 and w[1] == "real":
            try: res[w[0]] = json.loads(w[2])
            except ValueError: res[w[0]] = {"error": w[2][:300]}
        elif len(w) >= 2 and w[1] == "harness-panic":
            res[w[0]] = {"error": l[:400]}
    return res, p.returncode, p.stderr


def expected(sit, ans, minute):
    """(start expected?, why) from the laid-down situation alone; ans gives the instants the harness used"""
    if sit["susp"]:
        return False, "suspended"
    starts = ans.get("runs") or []
    if starts and max(starts) // 60 * 60 >= minute:
        return False, "its most recent run started at %d, in or after the minute" % max(starts)
    return True, "never run" if not starts else "its most recent run started at %d, before the minute; no process, no socket" % max(starts)


def judge(chk, case, res, table=None):
    """-> number of (DAG, tick) judged"""
    r = res.get(case["id"])
    if r is None or r.get("error"):
        chk.violation("C09:real-client:daemon-tick-panics-or-gives-no-answer", "one tick of the real scheduler over the real client: %s" % ((r or {}).get("error", "no answer")),
                      {"real_case": case})
        return 0
    minute, n = r["minute"], 0
    if r.get("end", r["now"]) // 60 * 60 != minute:
        return -1           # the case ran across a minute boundary (the harness waits at :55 — a very slow machine): not judged
    for sit, a in zip(case["real"]["sits"], r["sits"]):
        if a.get("laid_err") or a.get("sock"):
            chk.oblige("real-client-leg:situation-laid-down:%s" % sit["name"], False, "laid_err=%s socket-exists=%s" % (a.get("laid_err"), a.get("sock")))
            continue
        n += 1
        nS, nT = a["calls"].count("S"), a["calls"].count("T")
        exp, why = expected(sit, a, minute)
        told = "the client told the guards: status=%s pid=%s started=%s%s" % (a["status"], a["pid"], a["started"], (" error=" + a["err"][:120]) if a["err"] else "") + \
            ((" (the agent's Close of the run's file had failed: %s)" % a["close_err"][:80]) if a.get("close_err") else "")
        one = {"real_case": dict(case, real=dict(case["real"], sits=[sit]))}
        what = "latest-status-today=%s, situation %s (runs oldest first: %s): " % (case["real"]["ltoday"], sit["name"], json.dumps(sit["runs"]))
        if table is not None:
            table.setdefault(sit["name"], {})[case["real"]["ltoday"]] = "%s%s | %s" % ("S" * nS or "-", "T" * nT, told[len("the client told the guards: "):])
        if exp:
            chk.nontrivial.add(("real", sit["name"], case["real"]["ltoday"]))
        if exp and nS == 0:
            chk.violation(SIG_SKIP + sit["name"], what + "the minute matches the DAG's start schedule, it is not suspended, nothing runs (%s) — no start was issued; %s" % (why, told), one)
        if nS and not exp:
            chk.violation(SIG_EXTRA + sit["name"], what + "a start was issued although %s; %s" % (why, told), one)
        if nS > 1:
            chk.violation("C09:real-client:double-start:" + sit["name"], what + "%d starts in one minute" % nS, one)
        if nS and a["argv"] != ["start -q d%d.yaml" % (case["real"]["sits"].index(sit) + 1)] * nS:
            chk.oblige("real-client-leg:start-request-reaches-the-executable:%s" % sit["name"], False, "argv seen by the stub executable: %s" % a["argv"])
        if nT:
            chk.violation(SIG_STOP + sit["name"], what + "a stop request was issued at the matching stop minute although the DAG is not running "
                          "(no agent process, no socket; %s); %s" % (why, told), one)
    return n


def leg(chk, binp, table=None):
    t0 = time.time()
    import random
    cases = gen_cases(random.Random("C09-real-client-%s" % getattr(chk, "seed", 0)))   # own stream from the check's seed: the daemon streams keep theirs
    res, rc, err = run_cases(binp, cases)
    if rc != 0 and not res:
        chk.oblige("harness-run:cron(real client)", False, "rc=%d %s" % (rc, err[-1500:])); return
    n = 0
    for c in cases:
        k = judge(chk, c, res, table)
        if k < 0:       # crossed a minute boundary: once more
            res2, _, _ = run_cases(binp, [c])
            k = max(0, judge(chk, c, res2, table))
        n += k
    chk.oblige("harness-run:cron(real client: %d situations judged)" % n, n > 0, "no situation could be judged")
    chk.evaluations += n
    chk.stats = dict(chk.stats or {}, real_client_guard_situations=n, real_client_leg_wall_s=round(time.time() - t0, 2))


def replay(chk, binp, case):
    for _ in range(2):
        res, rc, err = run_cases(binp, [case])
        if judge(chk, case, res) >= 0:
            return


if __name__ == "__main__":      # the behaviour table of the tree under VERIF_REPO (default /repo)
    import sys, random
    sys.path.insert(0, os.path.dirname(os.path.abspath(__file__)))
    import common

    class _Chk:
        def __init__(self):
            self.rng, self.nontrivial, self.evaluations, self.stats, self.v = random.Random(int(os.environ.get("VERIF_SEED", "1"))), set(), 0, {}, []
        def violation(self, s, w, r): self.v.append((s, w))
        def oblige(self, n, ok, d=""):
            if not ok: print("OBLIGATION BROKEN", n, d)
    binp, out = common.build_harness("cron")
    if not binp:
        print(out[-3000:]); sys.exit(2)
    c, tab = _Chk(), {}
    leg(c, binp, tab)
    for nm in sorted(tab):
        print("%-100s today-only: %-60s any-day: %s" % (nm, tab[nm].get(True), tab[nm].get(False)))
    for s, w in c.v:
        print("VIOLATION", s, "\n    ", w[:400])
    print(c.stats)
