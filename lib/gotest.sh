#!/bin/sh
# run (part of) blackdagger's own test-suite in a tree ($1, default /repo) with a throw-away HOME; usage: gotest.sh <tree> <pkgs…>
TREE=${1:-/repo}; shift
[ $# -eq 0 ] && set -- ./...
export GOFLAGS=-mod=mod GOPROXY=off GOSUMDB=off GOTOOLCHAIN=local GOPATH=/root/go GOMODCACHE=/root/go/pkg/mod GOCACHE=/root/.cache/go-build
H=$(mktemp -d /tmp/gotest-home.XXXXXX); export HOME=$H
cd "$TREE" && go test -vet=off -count=1 -timeout 25m "$@" 2>&1 | grep -v "^\s*$" | grep -E "^(ok|FAIL|---|panic|\?)" | grep -v "no test files"
rm -rf "$H" /tmp/blackdagger_test* /tmp/open_or_create* 2>/dev/null
