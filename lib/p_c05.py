"""C05 — scheduler family (shared stream in sched.py) + the agent-level stop / escalation stream"""
import json
import common, sched

PROP = "C05"
SIGNUM = {"": 15, "SIGINT": 2, "SIGUSR1": 10, "SIGQUIT": 3}


def gen_stop_case(rng, k):
    nroots = rng.randint(1, 3)
    nodes = []
    for i in range(nroots):
        nodes.append({"deps": [], "cf": False, "cs": False, "limit": 0, "pre": 0, "fails": 0,
                      "obeys": rng.random() < 0.5, "sig": rng.choice(["", "", "SIGINT", "SIGUSR1"])})
    for i in range(rng.randint(0, 2)):
        nodes.append({"deps": rng.sample(range(nroots), rng.randint(1, nroots)), "cf": False, "cs": False, "limit": 0, "pre": 0, "fails": 0,
                      "obeys": True, "sig": ""})
    return {"id": "s%d" % k, "nodes": nodes, "maxActive": 0, "handlers": [rng.choice([0, 1]), rng.choice([0, 1]), rng.choice([0, 1, 1]), rng.choice([0, 1, 1])],
            "seed": rng.randrange(1 << 30), "stopAfter": 0, "stopVia": rng.choice(["api", "api", "os"]), "cleanupMs": 2000}


def agent_stop_stream(chk):
    """stop requested through the agent's own entry points (API /stop, OS signal) while scripted processes that obey or ignore
    the stop signal are in flight; watches signal delivery, SIGKILL escalation after MaxCleanUpTime, end of the run and handlers"""
    import p_c08
    binp, out = common.build_harness("agentrun")
    if not binp:
        chk.oblige("harness-build:agentrun", False, out[-3000:]); return
    cases = [gen_stop_case(chk.rng, k) for k in range(16 if chk.tier == "quick" else 120)]
    res = p_c08.run_harness(binp, cases, workers=16)
    st = {"stop_cases": 0, "with_ignoring_process": 0, "via_api": 0, "escalations_seen": 0, "max_end_ms": 0}
    for c in cases:
        r = res.get(c["id"])
        if not r or not r.get("stop"):
            chk.oblige("harness-run:agent-stop:" + c["id"], False, json.dumps(r)[:500]); continue
        rep = r["stop"]
        chk.evaluations += 1; st["stop_cases"] += 1; st["via_api"] += c["stopVia"] == "api"
        chk.nontrivial.add("stop" + json.dumps(c["nodes"]) + c["stopVia"])
        infl = [i for i in rep.get("inflight") or [] if i < 1000]
        bad = None
        for i in infl:
            nd = c["nodes"][i]; sg = (rep.get("sigs") or {}).get(str(i)) or []
            want = SIGNUM[nd["sig"]] if (c["stopVia"] == "api" and nd["sig"]) else 15
            if not sg:
                bad = ("agent-stop:running-step-got-no-signal", "step %d in flight at the stop received no signal" % i)
            elif sg[0] != want:
                bad = ("agent-stop:wrong-stop-signal", "step %d (signalOnStop=%r, stop via %s) first received signal %d, expected %d" % (i, nd["sig"], c["stopVia"], sg[0], want))
            elif not nd["obeys"]:
                st["with_ignoring_process"] += 1
                if 9 not in sg:
                    bad = ("agent-stop:process-ignoring-the-stop-signal-not-force-killed", "step %d ignores signal %d; signals received within MaxCleanUpTime+4s: %r — no SIGKILL" % (i, sg[0], sg))
                else:
                    st["escalations_seen"] += 1
        if rep["endedMs"] < 0:
            bad = bad or ("agent-stop:run-does-not-end-within-cleanup-bound", "run still alive %d ms after the stop (MaxCleanUpTime %d ms)" % (c["cleanupMs"] + 4000, c["cleanupMs"]))
        else:
            st["max_end_ms"] = max(st["max_end_ms"], rep["endedMs"])
            if rep["endedMs"] > c["cleanupMs"] + 2500:
                bad = bad or ("agent-stop:run-ends-late", "ended %d ms after the stop, MaxCleanUpTime %d ms" % (rep["endedMs"], c["cleanupMs"]))
            if infl and rep.get("overall") != "canceled":
                bad = bad or ("agent-stop:stopped-run-not-recorded-canceled", "final record says %r" % rep.get("overall"))
            h = rep.get("handlers") or {}
            if infl and c["handlers"][2] and h.get("2", 0) != 1:
                bad = bad or ("agent-stop:cancel-handler-not-run-once", "onCancel started %d times" % h.get("2", 0))
            if infl and c["handlers"][3] and h.get("3", 0) != 1:
                bad = bad or ("agent-stop:exit-handler-not-run-once", "onExit started %d times" % h.get("3", 0))
            if infl and (h.get("0", 0) or h.get("1", 0)):
                bad = bad or ("agent-stop:wrong-outcome-handler-run", "handlers started: %r" % h)
        if bad:
            chk.violation("C05:" + bad[0], bad[1], {"agent_stop_case": c, "report": rep})
    chk.stats["agent_stop"] = st


REAL_CMDS = [
    ("cooperative", "sleep 30", ""),
    ("ignores-term", "trap '' TERM; sleep 30 & wait", ""),
    ("leader-exits-child-ignores-term", "(trap '' TERM; exec sleep 25) & wait", ""),
    ("ignores-its-signalOnStop", "trap '' INT; sleep 30 & wait", "SIGINT"),
    ("obeys-its-signalOnStop", "trap 'exit 0' USR1; sleep 30 & wait", "SIGUSR1"),
    ("grandchild-holds-pipe", "sh -c 'trap \"\" TERM; sleep 25' & wait", ""),
]


# the TIMEOUT leg: nobody asks for a stop, the DAG's own timeoutSec elapses while these steps run. (kind, sh command, signalOnStop)
# "single-process-…": the step is ONE process (the shell execs the program); "forked-child-…": the shell keeps running and has a
# child process in the step's process group.
TIMEOUT_CMDS = [
    ("single-process-cooperative", "exec sleep 30", ""),
    ("single-process-ignores-term", "trap '' TERM; exec sleep 30", ""),
    ("single-process-ignores-term-has-signalOnStop", "trap '' TERM; exec sleep 30", "SIGUSR1"),
    ("single-process-ignores-its-signalOnStop", "trap '' INT; exec sleep 30", "SIGINT"),
    ("single-process-ignores-term-and-its-signalOnStop", "trap '' TERM INT; exec sleep 30", "SIGINT"),
    ("forked-child-cooperative", "sleep 30", ""),
    ("forked-child-shell-and-child-ignore-term", "trap '' TERM; sleep 30 & wait", ""),
    ("forked-child-ignores-term-leader-cooperative", "(trap '' TERM; exec sleep 25) & wait", ""),
    ("forked-child-detached-from-the-step-pipes", "sleep 30 >/dev/null 2>&1 & wait", ""),
    ("forked-child-obeys-its-signalOnStop", "trap 'exit 0' USR1; sleep 30 & wait", "SIGUSR1"),
]
TIMEOUT_NOT_JUDGED = ("timeout leg: the final status of a run ended by its timeoutSec and the handlers it runs are NOT judged (the property text "
                      "says `canceled` with onCancel+onExit; what the code does is recorded in stats.timeout_leg.outcomes); nor is the way the "
                      "step is ended (stop signal first / SIGKILL at once). Judged: the run ends within maxCleanUpTime (+3 s) after the "
                      "timeout, no process of a step's process group is alive 300 ms after the run ended, no step process starts after the timeout")


def gen_timeout_cases(chk):
    cases, k = [], 0
    for name, cmd, sig in TIMEOUT_CMDS:
        combos = [(e, l) for e in (0, 1) for l in (0, 1)] if chk.tier == "thorough" else [(int(chk.rng.random() < 0.5), int(chk.rng.random() < 0.5))]
        for extra, late in combos:
            tsec = chk.rng.choice([1, 2]) if chk.tier == "thorough" else 1
            cases.append({"id": "to%d" % k, "cmds": [cmd] + (["exec sleep 20"] if extra else []), "sigs": [sig, ""], "stopVia": "timeout",
                          "timeoutMs": 1000 * tsec, "cleanupMs": chk.rng.choice([1000, 1500, 2000]), "waitMs": 4000, "kind": name,
                          # one more step that could only start after the timeout: `late` depends on step 0, `queued` waits for a free slot
                          "late": late, "queued": 1 - late, "maxActive": 0 if late else 1 + extra}); k += 1
    return cases


def judge_timeout(chk, c, r, st=None):
    """clauses of C05 that are unambiguous for a run ended by its own timeoutSec; returns (signature, what) or None"""
    if r.get("panic"):
        return ("timeout:agent-crashed:" + c["kind"], r["panic"][:200])
    bound = c["cleanupMs"] + 3000
    left = r.get("leftGroup") or []
    if r.get("endedMs", -1) < 0:
        return ("timeout:run-does-not-end-after-timeout:" + c["kind"],
                "timeoutSec %g, maxCleanUpTime %d ms: the run was still going on %d ms after the timeout had elapsed (recorded status %r, steps %r); "
                "live processes of the steps' process groups: %r" % (c["timeoutMs"] / 1000, c["cleanupMs"], c["cleanupMs"] + c["waitMs"], r.get("overall"), r.get("st"), left))
    if st is not None:
        st["max_end_ms"] = max(st["max_end_ms"], r["endedMs"])
        o = "%s; steps %s; handlers run: %s" % (r.get("overall"), ",".join(sorted(set(r.get("st") or []))), ",".join(r.get("handlers") or []) or "none")
        st["outcomes"][o] = st["outcomes"].get(o, 0) + 1
    if r["endedMs"] > bound:
        return ("timeout:run-ends-late:" + c["kind"], "ended %d ms after the timeout had elapsed, maxCleanUpTime %d ms" % (r["endedMs"], c["cleanupMs"]))
    if left:
        return ("timeout:step-process-left-running:" + c["kind"],
                "the run ended %d ms after its timeout, yet 300 ms later these processes of the steps' process groups are still alive: %r" % (r["endedMs"], left))
    for s in r.get("started") or []:
        name, _, ms = s.partition("@")
        if int(ms or 0) > c["timeoutMs"] + 300:
            return ("timeout:step-started-after-timeout:" + c["kind"], "step %s started its process %s ms after the start of the run, timeoutSec %g" % (name, ms, c["timeoutMs"] / 1000))
    # "…so the run ends — as canceled, with the cancel and exit handlers executed": the property names the timeout next to the stop request
    hs = [h.lower() for h in (r.get("handlers") or [])]
    if r.get("overall") != "canceled" or not any("cancel" in h for h in hs) or not any("exit" in h for h in hs):
        return ("timeout:run-not-ended-as-canceled-with-cancel-and-exit-handlers:observed-%s/%s" % (r.get("overall"), "+".join(sorted(hs)) or "none"),
                "timeoutSec %g elapsed while step kind %s was running: the run is recorded %r, steps %r, handlers executed: %r (runErr %r)" % (
                    c["timeoutMs"] / 1000, c["kind"], r.get("overall"), r.get("st"), r.get("handlers"), r.get("runErr")))
    return None


def _kill_session(sid):
    """SIGKILL whatever is left of the session `sid` (a harness process and every step process it started: steps get their own
    process GROUP, never their own session)"""
    import os, signal
    for d in os.listdir("/proc"):
        if d.isdigit():
            try:
                t = open("/proc/%s/stat" % d).read()
                f = t[t.rindex(")") + 2:].split()
                if int(f[3]) == sid and f[0] != "Z":
                    os.kill(int(d), signal.SIGKILL)
            except Exception:
                pass


def _run_real(binp, c):
    import subprocess
    p = subprocess.Popen([binp, "realstop"], stdin=subprocess.PIPE, stdout=subprocess.PIPE, stderr=subprocess.PIPE, text=True, start_new_session=True)
    try:
        o, e = p.communicate(json.dumps(c) + "\n", timeout=120)
        return json.loads(o.strip().split("\n")[-1])
    except Exception as ex:
        return {"id": c["id"], "panic": "no result: " + repr(ex)[:300]}
    finally:
        p.kill()
        _kill_session(p.pid)        # no step process (sh, sleep) survives the case, whatever happened to the harness
        try:
            p.communicate(timeout=5)
        except Exception:
            pass


def timeout_report(chk, tcases, tres, binp):
    st = {"cases": 0, "max_end_ms": 0, "kinds": {}, "outcomes": {}, "not_judged": TIMEOUT_NOT_JUDGED}
    for c, r in zip(tcases, tres):
        chk.evaluations += 1; st["cases"] += 1; st["kinds"][c["kind"]] = st["kinds"].get(c["kind"], 0) + 1
        chk.nontrivial.add("timeout:" + c["kind"] + str(len(c["cmds"])) + str(c["late"]))
        bad = judge_timeout(chk, c, r, st)
        if bad and bad[0].startswith("timeout:run-ends-late"):
            r = _run_real(binp, c)          # timing-sensitive: counts only when it happens again
            bad = judge_timeout(chk, c, r)
        if bad:
            chk.violation("C05:" + bad[0], bad[1], {"timeout_case": c, "result": r})
    chk.stats["timeout_leg"] = st
    if TIMEOUT_NOT_JUDGED not in chk.assumptions:
        chk.assumptions.append(TIMEOUT_NOT_JUDGED)


def timeout_replay(chk, c):
    binp, out = common.build_harness("agentrun")
    if not binp:
        chk.oblige("harness-build:agentrun", False, out[-3000:]); return
    timeout_report(chk, [c], [_run_real(binp, c)], binp)


def real_stop_stream(chk, prop="C05"):
    """real `sh` steps under the real agent and the real command executor (process groups, pipes): stop via API or OS signal;
    the run must end within MaxCleanUpTime (+ the 3 s polling granularity of Agent.signal), be recorded canceled, run
    onCancel then onExit, and leave no step process behind"""
    import p_c08, subprocess
    binp, out = common.build_harness("agentrun")
    if not binp:
        chk.oblige("harness-build:agentrun", False, out[-3000:]); return
    cases = []
    k = 0
    for name, cmd, sig in REAL_CMDS:
        for via in (("api", "os") if chk.tier == "thorough" else (chk.rng.choice(["api", "os"]),)):
            cases.append({"id": "rs%d" % k, "cmds": [cmd] + (["sleep 20"] if chk.rng.random() < 0.5 else []), "sigs": [sig, ""], "stopVia": via,
                          "cleanupMs": 1500, "delayMs": chk.rng.choice([300, 500, 800]), "kind": name}); k += 1
    # the step's signalOnStop as the LOADER reads it: spellings the loader accepts must be delivered at the stop
    for sp in ["SIGUSR1", "usr1", "USR1", "sigusr1", "Sigusr1", "10", "SIGUSR1 "]:
        cases.append({"id": "rs%d" % k, "cmds": ["trap 'exit 0' USR1; sleep 30 & wait"], "sigs": [""], "stopVia": "api", "cleanupMs": 4000,
                      "delayMs": 400, "kind": "yaml-signalOnStop", "yamlSig": sp}); k += 1
    # the timeout leg (C05 only) shares the pool: its cases go first, the ones that never end take the longest
    tcases = gen_timeout_cases(chk) if prop == "C05" else []
    import concurrent.futures as cf
    with cf.ThreadPoolExecutor(8 + len(tcases) if chk.tier == "quick" else 16) as ex:
        allres = list(ex.map(lambda c: _run_real(binp, c), tcases + cases))
    res = allres[len(tcases):]
    if tcases:
        timeout_report(chk, tcases, allres[:len(tcases)], binp)
    st = {"cases": 0, "max_end_ms": 0, "kinds": {}}
    for c, r in zip(cases, res):
        chk.evaluations += 1; st["cases"] += 1; st["kinds"][c["kind"]] = st["kinds"].get(c["kind"], 0) + 1
        chk.nontrivial.add("real-stop:" + c["kind"] + c["stopVia"])
        bad = None
        if r.get("rejected"):
            st["rejected_signal_spellings"] = st.get("rejected_signal_spellings", []) + [c.get("yamlSig")]
            continue
        if c.get("yamlSig") and 0 <= r.get("endedMs", -1) and r["endedMs"] > 1500 and prop == "C05":
            chk.violation("C05:real-stop:configured-stop-signal-not-delivered:spelling-accepted-by-the-loader",
                          "signalOnStop %r is accepted by the loader (stored as %r); the step exits at once on SIGUSR1, yet the run ended only %d ms after the stop" % (
                              c["yamlSig"], r.get("stored"), r["endedMs"]), {"real_stop_case": c, "result": r})
            continue
        if r.get("panic"):
            bad = ("real-stop:agent-crashed", r["panic"][:200])
        elif r.get("endedMs", -1) < 0:
            bad = ("real-stop:run-does-not-end-within-cleanup-bound:" + c["kind"], "run still alive %d ms after the stop (MaxCleanUpTime %d ms); step processes left: %s" % (c["cleanupMs"] + 8000, c["cleanupMs"], r.get("left")))
        else:
            st["max_end_ms"] = max(st["max_end_ms"], r["endedMs"])
            if r["endedMs"] > c["cleanupMs"] + 3000 + 2000:
                bad = ("real-stop:run-ends-late:" + c["kind"], "ended %d ms after the stop, MaxCleanUpTime %d ms" % (r["endedMs"], c["cleanupMs"]))
            elif r.get("overall") != "canceled":
                bad = ("real-stop:stopped-run-not-recorded-canceled:" + c["kind"], "final record says %r, steps %r" % (r.get("overall"), r.get("st")))
            elif (r.get("handlers") or []) != ["onCancel", "onExit"]:
                bad = ("real-stop:wrong-handlers-after-stop:" + c["kind"], "handlers run: %r" % r.get("handlers"))
            elif r.get("left", 0) != 0:
                bad = ("real-stop:step-process-survives-the-run:" + c["kind"], "%d processes of the step still alive 300 ms after the run ended" % r["left"])
        if bad and prop != "C05" and not (bad[0].startswith("real-stop:wrong-handlers-after-stop") or
                                          bad[0].startswith("real-stop:stopped-run-not-recorded-canceled")):
            bad = None          # C04 judges the outcome and the handlers of the stopped run only
        if bad:
            chk.violation(prop + ":" + bad[0], bad[1], {"real_stop_case": c, "result": r})
    chk.stats["real_stop"] = st


def run(chk, replay):
    if replay:
        rp = json.load(open(replay))
        if "timeout_case" in rp.get("case", {}):
            timeout_replay(chk, rp["case"]["timeout_case"]); return
        if "real_stop_case" in rp.get("case", {}):
            real_stop_stream(chk); return
        if "resignal_case" in rp.get("case", {}):
            import x_c05_resignal
            x_c05_resignal.replay(chk, rp["case"]["resignal_case"]); return
        if "agent_stop_case" in rp.get("case", {}):
            import p_c08
            chk.rng.seed(1)
            binp, out = common.build_harness("agentrun")
            c = rp["case"]["agent_stop_case"]
            r = p_c08.run_harness(binp, [c], workers=1).get(c["id"])
            chk.oblige("replay:agent-stop", bool(r and r.get("stop")), json.dumps(r)[:800])
            return
    import re, os
    def tie_names(area):
        p = os.path.join(common.LEAN, "BdModel", "Tie", area + ".lean")
        return re.findall(r"^theorem tie_(\w+) ", open(p).read(), re.M) if os.path.exists(p) else []
    chk.trusted = common.TRUSTED_COMMON + ["quiescence discipline of the scheduler harness (one completion released at a time)"]
    chk.assumptions = [sched.NOTES.get(PROP, "")]
    common.lean_obligations(chk, "BdModel/Props/%s.lean" % PROP, {"Sched": sched.SCHED_TIE, "Agent": tie_names("Agent"), "Exec": tie_names("Exec"),
                             # the stop signal of a step is the loader's reading of `signalOnStop` (parseMiscs validates the name)
                             "Load": sched.LOAD_TIES_FOR_SCHED}, extra_targets=["BdModel.Sched.Tables"])
    sched.run_stream(chk, PROP, replay)
    sched.yaml_stream(chk, PROP, replay)
    agent_stop_stream(chk)
    real_stop_stream(chk)
    import x_c05_resignal            # the REAL process signalled 1-3 times from outside (the only leg that goes through cmd/signal.go)
    x_c05_resignal.run_leg(chk)
