"""C05 — scheduler family (shared stream in sched.py) + the agent-level stop / escalation stream"""
import json
import common, sched

PROP = "C05"
SIGNUM = {"": 15, "SIGINT": 2, "SIGUSR1": 10, "SIGQUIT": 3}


def gen_stop_case(rng, k):
    nroots = rng.randint(1, 3)
    nodes = []
    for i in range(nroots):
        nodes.append({"deps": [], "cf": False, "cs": False, "limit": 0, "pre": 0, "fails": 0,
                      "obeys": rng.random() < 0.5, "sig": rng.choice(["", "", "SIGINT", "SIGUSR1"])})
    for i in range(rng.randint(0, 2)):
        nodes.append({"deps": rng.sample(range(nroots), rng.randint(1, nroots)), "cf": False, "cs": False, "limit": 0, "pre": 0, "fails": 0,
                      "obeys": True, "sig": ""})
    return {"id": "s%d" % k, "nodes": nodes, "maxActive": 0, "handlers": [rng.choice([0, 1]), rng.choice([0, 1]), rng.choice([0, 1, 1]), rng.choice([0, 1, 1])],
            "seed": rng.randrange(1 << 30), "stopAfter": 0, "stopVia": rng.choice(["api", "api", "os"]), "cleanupMs": 2000}


def agent_stop_stream(chk):
    """stop requested through the agent's own entry points (API /stop, OS signal) while scripted processes that obey or ignore
    the stop signal are in flight; watches signal delivery, SIGKILL escalation after MaxCleanUpTime, end of the run and handlers"""
    import p_c08
    binp, out = common.build_harness("agentrun")
    if not binp:
        chk.oblige("harness-build:agentrun", False, out[-3000:]); return
    cases = [gen_stop_case(chk.rng, k) for k in range(16 if chk.tier == "quick" else 120)]
    res = p_c08.run_harness(binp, cases, workers=16)
    st = {"stop_cases": 0, "with_ignoring_process": 0, "via_api": 0, "escalations_seen": 0, "max_end_ms": 0}
    for c in cases:
        r = res.get(c["id"])
        if not r or not r.get("stop"):
            chk.oblige("harness-run:agent-stop:" + c["id"], False, json.dumps(r)[:500]); continue
        rep = r["stop"]
        chk.evaluations += 1; st["stop_cases"] += 1; st["via_api"] += c["stopVia"] == "api"
        chk.nontrivial.add("stop" + json.dumps(c["nodes"]) + c["stopVia"])
        infl = [i for i in rep.get("inflight") or [] if i < 1000]
        bad = None
        for i in infl:
            nd = c["nodes"][i]; sg = (rep.get("sigs") or {}).get(str(i)) or []
            want = SIGNUM[nd["sig"]] if (c["stopVia"] == "api" and nd["sig"]) else 15
            if not sg:
                bad = ("agent-stop:running-step-got-no-signal", "step %d in flight at the stop received no signal" % i)
            elif sg[0] != want:
                bad = ("agent-stop:wrong-stop-signal", "step %d (signalOnStop=%r, stop via %s) first received signal %d, expected %d" % (i, nd["sig"], c["stopVia"], sg[0], want))
            elif not nd["obeys"]:
                st["with_ignoring_process"] += 1
                if 9 not in sg:
                    bad = ("agent-stop:process-ignoring-the-stop-signal-not-force-killed", "step %d ignores signal %d; signals received within MaxCleanUpTime+4s: %r — no SIGKILL" % (i, sg[0], sg))
                else:
                    st["escalations_seen"] += 1
        if rep["endedMs"] < 0:
            bad = bad or ("agent-stop:run-does-not-end-within-cleanup-bound", "run still alive %d ms after the stop (MaxCleanUpTime %d ms)" % (c["cleanupMs"] + 4000, c["cleanupMs"]))
        else:
            st["max_end_ms"] = max(st["max_end_ms"], rep["endedMs"])
            if rep["endedMs"] > c["cleanupMs"] + 2500:
                bad = bad or ("agent-stop:run-ends-late", "ended %d ms after the stop, MaxCleanUpTime %d ms" % (rep["endedMs"], c["cleanupMs"]))
            if infl and rep.get("overall") != "canceled":
                bad = bad or ("agent-stop:stopped-run-not-recorded-canceled", "final record says %r" % rep.get("overall"))
            h = rep.get("handlers") or {}
            if infl and c["handlers"][2] and h.get("2", 0) != 1:
                bad = bad or ("agent-stop:cancel-handler-not-run-once", "onCancel started %d times" % h.get("2", 0))
            if infl and c["handlers"][3] and h.get("3", 0) != 1:
                bad = bad or ("agent-stop:exit-handler-not-run-once", "onExit started %d times" % h.get("3", 0))
            if infl and (h.get("0", 0) or h.get("1", 0)):
                bad = bad or ("agent-stop:wrong-outcome-handler-run", "handlers started: %r" % h)
        if bad:
            chk.violation("C05:" + bad[0], bad[1], {"agent_stop_case": c, "report": rep})
    chk.stats["agent_stop"] = st


REAL_CMDS = [
    ("cooperative", "sleep 30", ""),
    ("ignores-term", "trap '' TERM; sleep 30 & wait", ""),
    ("leader-exits-child-ignores-term", "(trap '' TERM; exec sleep 25) & wait", ""),
    ("ignores-its-signalOnStop", "trap '' INT; sleep 30 & wait", "SIGINT"),
    ("obeys-its-signalOnStop", "trap 'exit 0' USR1; sleep 30 & wait", "SIGUSR1"),
    ("grandchild-holds-pipe", "sh -c 'trap \"\" TERM; sleep 25' & wait", ""),
]


def real_stop_stream(chk, prop="C05"):
    """real `sh` steps under the real agent and the real command executor (process groups, pipes): stop via API or OS signal;
    the run must end within MaxCleanUpTime (+ the 3 s polling granularity of Agent.signal), be recorded canceled, run
    onCancel then onExit, and leave no step process behind"""
    import p_c08, subprocess
    binp, out = common.build_harness("agentrun")
    if not binp:
        chk.oblige("harness-build:agentrun", False, out[-3000:]); return
    cases = []
    k = 0
    for name, cmd, sig in REAL_CMDS:
        for via in (("api", "os") if chk.tier == "thorough" else (chk.rng.choice(["api", "os"]),)):
            cases.append({"id": "rs%d" % k, "cmds": [cmd] + (["sleep 20"] if chk.rng.random() < 0.5 else []), "sigs": [sig, ""], "stopVia": via,
                          "cleanupMs": 1500, "delayMs": chk.rng.choice([300, 500, 800]), "kind": name}); k += 1
    # the step's signalOnStop as the LOADER reads it: spellings the loader accepts must be delivered at the stop
    for sp in ["SIGUSR1", "usr1", "USR1", "sigusr1", "Sigusr1", "10", "SIGUSR1 "]:
        cases.append({"id": "rs%d" % k, "cmds": ["trap 'exit 0' USR1; sleep 30 & wait"], "sigs": [""], "stopVia": "api", "cleanupMs": 4000,
                      "delayMs": 400, "kind": "yaml-signalOnStop", "yamlSig": sp}); k += 1
    def one(c):
        p = subprocess.run([binp, "realstop"], input=json.dumps(c) + "\n", stdout=subprocess.PIPE, stderr=subprocess.PIPE, text=True, timeout=120)
        try:
            return json.loads(p.stdout.strip().split("\n")[-1])
        except Exception:
            return {"id": c["id"], "panic": "no result: " + p.stderr[-300:]}
    import concurrent.futures as cf
    with cf.ThreadPoolExecutor(8) as ex:
        res = list(ex.map(one, cases))
    st = {"cases": 0, "max_end_ms": 0, "kinds": {}}
    for c, r in zip(cases, res):
        chk.evaluations += 1; st["cases"] += 1; st["kinds"][c["kind"]] = st["kinds"].get(c["kind"], 0) + 1
        chk.nontrivial.add("real-stop:" + c["kind"] + c["stopVia"])
        bad = None
        if r.get("rejected"):
            st["rejected_signal_spellings"] = st.get("rejected_signal_spellings", []) + [c.get("yamlSig")]
            continue
        if c.get("yamlSig") and 0 <= r.get("endedMs", -1) and r["endedMs"] > 1500 and prop == "C05":
            chk.violation("C05:real-stop:configured-stop-signal-not-delivered:spelling-accepted-by-the-loader",
                          "signalOnStop %r is accepted by the loader (stored as %r); the step exits at once on SIGUSR1, yet the run ended only %d ms after the stop" % (
                              c["yamlSig"], r.get("stored"), r["endedMs"]), {"real_stop_case": c, "result": r})
            continue
        if r.get("panic"):
            bad = ("real-stop:agent-crashed", r["panic"][:200])
        elif r.get("endedMs", -1) < 0:
            bad = ("real-stop:run-does-not-end-within-cleanup-bound:" + c["kind"], "run still alive %d ms after the stop (MaxCleanUpTime %d ms); step processes left: %s" % (c["cleanupMs"] + 8000, c["cleanupMs"], r.get("left")))
        else:
            st["max_end_ms"] = max(st["max_end_ms"], r["endedMs"])
            if r["endedMs"] > c["cleanupMs"] + 3000 + 2000:
                bad = ("real-stop:run-ends-late:" + c["kind"], "ended %d ms after the stop, MaxCleanUpTime %d ms" % (r["endedMs"], c["cleanupMs"]))
            elif r.get("overall") != "canceled":
                bad = ("real-stop:stopped-run-not-recorded-canceled:" + c["kind"], "final record says %r, steps %r" % (r.get("overall"), r.get("st")))
            elif (r.get("handlers") or []) != ["onCancel", "onExit"]:
                bad = ("real-stop:wrong-handlers-after-stop:" + c["kind"], "handlers run: %r" % r.get("handlers"))
            elif r.get("left", 0) != 0:
                bad = ("real-stop:step-process-survives-the-run:" + c["kind"], "%d processes of the step still alive 300 ms after the run ended" % r["left"])
        if bad and prop != "C05" and not (bad[0].startswith("real-stop:wrong-handlers-after-stop") or
                                          bad[0].startswith("real-stop:stopped-run-not-recorded-canceled")):
            bad = None          # C04 judges the outcome and the handlers of the stopped run only
        if bad:
            chk.violation(prop + ":" + bad[0], bad[1], {"real_stop_case": c, "result": r})
    chk.stats["real_stop"] = st


def run(chk, replay):
    if replay:
        rp = json.load(open(replay))
        if "real_stop_case" in rp.get("case", {}):
            real_stop_stream(chk); return
        if "agent_stop_case" in rp.get("case", {}):
            import p_c08
            chk.rng.seed(1)
            binp, out = common.build_harness("agentrun")
            c = rp["case"]["agent_stop_case"]
            r = p_c08.run_harness(binp, [c], workers=1).get(c["id"])
            chk.oblige("replay:agent-stop", bool(r and r.get("stop")), json.dumps(r)[:800])
            return
    import re, os
    def tie_names(area):
        p = os.path.join(common.LEAN, "BdModel", "Tie", area + ".lean")
        return re.findall(r"^theorem tie_(\w+) ", open(p).read(), re.M) if os.path.exists(p) else []
    chk.trusted = common.TRUSTED_COMMON + ["quiescence discipline of the scheduler harness (one completion released at a time)"]
    chk.assumptions = [sched.NOTES.get(PROP, "")]
    common.lean_obligations(chk, "BdModel/Props/%s.lean" % PROP, {"Sched": sched.SCHED_TIE, "Agent": tie_names("Agent"), "Exec": tie_names("Exec"),
                             # the stop signal of a step is the loader's reading of `signalOnStop` (parseMiscs validates the name)
                             "Load": sched.LOAD_TIES_FOR_SCHED}, extra_targets=["BdModel.Sched.Tables"])
    sched.run_stream(chk, PROP, replay)
    sched.yaml_stream(chk, PROP, replay)
    agent_stop_stream(chk)
    real_stop_stream(chk)
