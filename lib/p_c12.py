"""C12 — a finished step's log holds everything the step printed."""
import base64, hashlib, json, os, subprocess
import common, x_shared, x_c12_retention

TIE = {"Log": ["h_log_setup", "h_log_setupLog", "h_log_setupStdout", "h_log_setupStderr", "h_log_setupScript", "h_log_setupExec",
               "h_log_teardown", "h_log_Execute", "h_log_OpenOrCreateFile", "h_log_openFile", "h_log_cmdSetStdout", "h_log_cmdSetStderr",
               "h_log_cmdRun"],
       "Sched": ["h_sched_Schedule", "h_sched_setupNode", "h_sched_teardownNode", "h_sched_execNode"]}

CAP = 4096
LIMIT = 2
SIZES_Q = [0, 1, 4095, 4096, 4097, 65536]
OUT_MAX = 100000         # with `output:` the captured text becomes ONE environment string: it has to stay below 128 KiB (E2BIG)

def pat(att, strm, pos):
    return 1 + (pos * 131 + (pos >> 8) * 31 + att * 17 + strm * 101 + 7) % 250


_cache = {}


def gen(att, strm, frm, n):
    key = (att, strm)
    need = frm + n
    b = _cache.get(key, b"")
    if len(b) < need:
        b = bytes(pat(att, strm, i) for i in range(max(need, 2 * len(b), 70000)))
        _cache[key] = b
    return b[frm:need]


def split_both(rng, n):
    """n bytes as 2-5 alternating stdout / stderr segments"""
    if n == 0: return []
    k = min(n, rng.randint(2, 5))
    cuts = sorted(rng.sample(range(1, n), k - 1)) if n > 1 and k > 1 else []
    sizes = [b - a for a, b in zip([0] + cuts, cuts + [n])]
    first_err = rng.random() < 0.5
    return [{"e": (i % 2 == 0) == first_err, "n": s} for i, s in enumerate(sizes)]


def segs_for(rng, stream, n):
    if n == 0: return []
    if stream == "stdout": return [{"e": False, "n": n}]
    if stream == "stderr": return [{"e": True, "n": n}]
    return split_both(rng, n)


def expected(cfg, att_idx, segs):
    """what the property expects for one attempt: (log bytes, [stdout segments], stderr-file bytes, sink bytes)"""
    log, outsegs, err, sink = bytearray(), [], bytearray(), bytearray()
    po = pe = 0
    for s in segs:
        if s["e"]:
            b = gen(att_idx, 1, pe, s["n"]); pe += s["n"]
            if cfg["se"]: err += b
            else: log += b; sink += b
        else:
            b = gen(att_idx, 0, po, s["n"]); po += s["n"]
            log += b; sink += b; outsegs.append(b)
    return bytes(log), outsegs, bytes(err), bytes(sink)


def from_segs(s):
    """bytes from the model's run-length answer `att.stream.start.len,…`"""
    if s == "-": return b""
    out = bytearray()
    for t in s.split(","):
        a, st, frm, ln = (int(x) for x in t.split("."))
        out += gen(a, st, frm, ln)
    return bytes(out)


def sha(b):
    return hashlib.sha256(b).hexdigest()


def cfg_name(c):
    return "".join(k for k in ("so", "se", "ou", "sc") if c[k]) or "plain"


def run(chk, replay):
    chk.trusted = common.TRUSTED_COMMON + [
        "bufio.Writer (Write / ReadFrom / Flush), io.MultiWriter, io.Copy and os/exec's copying goroutines are modelled (BW.write / BW.direct), "
        "validated against real runs on every check"]
    chk.assumptions = [
        "log file names of two attempts differ (millisecond time stamp) or the later attempt appends to the same file — containment is unaffected",
        "how the child's output is cut into Write calls is not controlled: the theorems hold for every chunking; where the model predicts an unflushed "
        "residue the run is compared as 'prefix, fewer than 4096 bytes missing'",
        "the teardown/setup race of the agent path (old worker's deferred teardown vs the next attempt's setup) is below the model's granularity",
        "with `output:` the matrix cases stay at or below 100000 bytes (the captured text becomes one environment string; 128 KiB = E2BIG "
        "for every LATER exec); single-step `output:` cases of 150000 bytes .. 1 MiB run in a process of their own"]
    common.lean_obligations(chk, "BdModel/Props/C12.lean", TIE)
    binp, out = common.build_harness("log")
    if not binp:
        chk.oblige("harness-build:log", False, out[-3000:]); return
    chk.oblige("harness-build:log", True)
    rng = chk.rng
    quick = chk.tier == "quick"
    cases = []
    if replay and "shared" in json.load(open(replay))["case"]:
        # a shared-file case (several writers on one `stdout:` / `stderr:` file): x_shared.py
        chk.stats = {}; chk.rule = "replay of one shared-file case"
        x_shared.stream(chk, binp, json.load(open(replay))["case"]); return
    if replay and "retention" in json.load(open(replay))["case"]:
        # a run · retry · age · run sequence through the real agent and history store: x_c12_retention.py
        chk.stats = {}; chk.rule = "replay of one retry-then-retention case"
        x_c12_retention.stream(chk, binp, json.load(open(replay))["case"]); return
    if replay:
        cases = [json.load(open(replay))["case"]]
    else:
        k = 0
        # regression corpus: the former F16 witnesses (retry with a buffered wiring, small / boundary outputs) must pass now
        for cfg0 in ({"so": True, "se": False, "ou": False, "sc": False}, {"so": False, "se": False, "ou": True, "sc": False},
                     {"so": True, "se": True, "ou": True, "sc": True}):
            for last in ([{"e": False, "n": 7}], [{"e": False, "n": 4096}, {"e": True, "n": 3}, {"e": False, "n": 5}]):
                for fails in (1, 2):
                    cases.append(dict(cfg0, id="l%d" % k, limit=LIMIT, fails=fails, attempts=[[] for _ in range(fails)] + [last], done=False,
                                      stream="corpus", size=sum(x["n"] for x in last), timeout=120))
                    k += 1
        # slow status consumer (what the agent's consumer is): the failed attempt's worker is parked in `done <- node` while the
        # next attempt already runs; nothing it does afterwards may touch the new attempt's files
        slow_cfgs = [{"so": True, "se": False, "ou": False, "sc": False}, {"so": False, "se": False, "ou": True, "sc": True},
                     {"so": False, "se": False, "ou": False, "sc": False}, {"so": True, "se": True, "ou": False, "sc": True},
                     {"so": False, "se": True, "ou": False, "sc": False}]
        for cfg0 in slow_cfgs:
            for fails in (1, 2):
                for n in ([7, 5000] if quick else [1, 7, 3000, 4096, 4097, 5000, 40000]):
                    stream = rng.choice(["stdout", "both"]) if n > 1 else "stdout"
                    atts = [segs_for(rng, "stdout", rng.choice([0, 3, 100])) for _ in range(fails)] + [segs_for(rng, stream, n)]
                    cases.append(dict(cfg0, id="l%d" % k, limit=LIMIT, fails=fails, attempts=atts, done=True, slow_ms=150, last_sleep_ms=450,
                                      stream="slow:" + stream, size=n, timeout=120))
                    k += 1
        # `output:` with MORE than the matrix cap: a single step, nothing runs afterwards, so the size of the captured value (one
        # environment string, E2BIG from 128 KiB on) is irrelevant for THIS step's log.  Each of these cases runs in a harness
        # process of its own (Execute exports the value into the process environment, which would break every later exec there).
        for cfg0 in ({"so": False, "se": False, "ou": True, "sc": False}, {"so": True, "se": False, "ou": True, "sc": False},
                     {"so": False, "se": True, "ou": True, "sc": True}):
            for n in ([150000, 300000] if quick else [131071, 131072, 150000, 229376, 300000, 1 << 20]):
                stream = "stdout" if cfg0["se"] or n % 3 == 0 else rng.choice(["stdout", "both"])
                cases.append(dict(cfg0, id="l%d" % k, limit=0, fails=0, attempts=[segs_for(rng, stream, n)], done=False,
                                  stream="bigout:" + stream, size=n, timeout=120, alone=True))
                k += 1
        cfgs = [{"so": bool(a), "se": bool(b), "ou": bool(c), "sc": bool(d)} for a in (0, 1) for b in (0, 1) for c in (0, 1) for d in (0, 1)]
        sizes = list(SIZES_Q) + ([1 << 20] if not quick else [])
        for cfg in cfgs:
            for fails in (0, 1, 2, 3):
                for stream in ("stdout", "stderr", "both"):
                    szs = sizes + [rng.randint(2, 9000), rng.randint(9000, 200000 if not quick else 70000)]
                    if quick:
                        szs = [s for s in szs if rng.random() < 0.55 or (fails in (0, 1) and s in (1, 4096, 4097))]
                    for n in szs:
                        if cfg["ou"]: n = min(n, OUT_MAX)
                        runs = min(fails, LIMIT) + 1
                        atts = []
                        for a in range(runs):
                            na = n if a == runs - 1 else rng.choice([0, 1, n, 4097, rng.randint(0, 6000)])
                            if cfg["ou"]: na = min(na, OUT_MAX)
                            atts.append(segs_for(rng, stream if a == runs - 1 else rng.choice(["stdout", "both"]), na))
                        cases.append(dict(cfg, id="l%d" % k, limit=LIMIT, fails=fails, attempts=atts, done=rng.random() < 0.3, stream=stream, size=n,
                                          timeout=120))
                        k += 1
    hin = "\n".join(json.dumps(c) for c in cases if not c.get("alone")) + "\n"
    res = {}
    if hin.strip():
        p = subprocess.run([binp], input=hin, stdout=subprocess.PIPE, stderr=subprocess.PIPE, text=True, timeout=3000)
        if p.returncode != 0:
            chk.oblige("harness-run:log", False, p.stderr[-2000:]); return
        for l in p.stdout.strip().split("\n"):
            if l.strip():
                r = json.loads(l); res[r["id"]] = r
    for c in cases:
        if c.get("alone"):
            p1 = subprocess.run([binp], input=json.dumps(c) + "\n", stdout=subprocess.PIPE, stderr=subprocess.PIPE, text=True, timeout=600)
            if p1.returncode == 0 and p1.stdout.strip():
                r = json.loads(p1.stdout.strip().split("\n")[-1]); res[r["id"]] = r
    # Timing-sensitive: a run that did not make the attempts the case describes (before fix 80fb8fd the scheduling loop could
    # relaunch a retried node before the previous worker's teardown, which then closed the NEW attempt's files and removed its
    # script: a phantom failed attempt) is re-run alone before anything counts; the number of re-runs is in the statistics.
    reruns = 0
    for c in cases:
        r = res.get(c["id"])
        want_runs = min(c["fails"], c["limit"]) + 1
        for _ in range(3):
            if r is None or r.get("timeout") or r.get("panic") or r.get("attempts_run") == want_runs and r.get("log_files", 0) <= want_runs:
                break
            reruns += 1
            p2 = subprocess.run([binp], input=json.dumps(c) + "\n", stdout=subprocess.PIPE, stderr=subprocess.PIPE, text=True, timeout=600)
            if p2.returncode == 0 and p2.stdout.strip():
                r = json.loads(p2.stdout.strip().split("\n")[-1]); res[c["id"]] = r
    din = "\n".join("%s %d %d %d %d | %s" % (c["id"], c["so"], c["se"], c["ou"], c["sc"],
                                                " | ".join(" ".join(("e" if s["e"] else "o") + str(s["n"]) for s in a) for a in c["attempts"]))
                    for c in cases) + "\n"
    rc, dout, derr = common.run_driver("log", din, timeout=3000)
    if rc != 0:
        chk.oblige("driver-run:log", False, derr[-2000:]); return
    model = {}
    for l in dout.strip().split("\n"):
        f = l.split(" ")
        model[f[0]] = dict(x.split("=", 1) for x in f[1:])
    dis = 0
    stats = {"cfg": {}, "retries": {}, "stream": {}, "sizes": set(), "exact": 0, "prefix_rule": 0, "incomplete_logs": 0, "done_chan": 0,
             "relaunch_race_reruns": reruns}

    def disagree(cid, what, impl, mod, c):
        nonlocal dis
        dis += 1; chk.disagreements += 1
        if dis <= 3:
            chk.oblige("correspondence:log:%s:%s" % (cid, what), False, "impl=%s model=%s case=%s" % (impl, mod, json.dumps(c)[:700]))

    for c in cases:
        cid = c["id"]; r = res.get(cid); m = model.get(cid)
        chk.evaluations += 1
        if r is None or m is None:
            chk.oblige("answer:%s" % cid, False, "harness=%s model=%s" % (r is not None, m is not None)); continue
        if r.get("panic") or r.get("harness_err"):
            chk.violation("C12:panic", "panic / harness error %s" % (r.get("panic") or r.get("harness_err")), c); continue
        if r.get("timeout"):
            chk.violation("C12:step-never-ends:" + cfg_name(c), "Schedule did not return within %s s" % c.get("timeout"), c); continue
        runs = min(c["fails"], c["limit"]) + 1
        name = cfg_name(c)
        stats["cfg"][name] = stats["cfg"].get(name, 0) + 1
        stats["retries"][runs - 1] = stats["retries"].get(runs - 1, 0) + 1
        stats["stream"][c.get("stream", "?")] = stats["stream"].get(c.get("stream", "?"), 0) + 1
        stats["sizes"].add(c.get("size", -1)); stats["done_chan"] += 1 if c.get("done") else 0
        if runs > 1 or c["so"] or c["se"] or c["ou"] or c["sc"]:
            chk.nontrivial.add((name, runs, c.get("stream"), c.get("size")))
        want_status = "failed" if c["fails"] > c["limit"] else "finished"
        if r.get("attempts_run") != runs or r.get("status") != want_status:
            # the run did not go as the case describes (also after being re-run alone).  The harness's own monitor judged the LAST
            # attempt that really ran against the files: a final state with an incomplete log is a failing input of the property.
            for key, what in (("m_log_has_all", "log"), ("m_out_has_all", "stdout-file"), ("m_err_has_all", "stderr-file")):
                if r.get(key) is False:
                    chk.violation("C12:%s-incomplete:run-disturbed:%s" % (what, name),
                                  "step reported %s after %s attempt(s) (%s expected, error %r): its %s (%d bytes) does not hold what the last "
                                  "attempt that ran printed (cfg %s, stream %s)" % (r.get("status"), r.get("attempts_run"), runs, r.get("sched_err"),
                                                                                 what, r[{"log": "log", "stdout-file": "out", "stderr-file": "err"}[what]]["len"],
                                                                                 name, c.get("stream")), c)
            chk.oblige("harness-expectation:%s" % cid, False, "attempts_run=%s (want %d) status=%s (want %s) err=%s %s" %
                       (r.get("attempts_run"), runs, r.get("status"), want_status, r.get("sched_err"), json.dumps(c)[:300]))
            continue
        last = c["attempts"][runs - 1]
        want_log, out_segs, want_err, sink = expected(c, runs - 1, last)
        retried_buffered = runs >= 2 and (c["so"] or c["ou"])
        cls = "retried-step-with-stdout-file-or-output" if retried_buffered else "other:" + name
        # ---------------- monitor (the harness's verdicts on the real files; re-derived here from len/sha where possible)
        log_ok = bool(r.get("m_log_has_all"))
        if r["log"]["len"] == len(want_log) and r["log"]["sha"] == sha(want_log): log_ok = True
        if not log_ok:
            stats["incomplete_logs"] += 1
            chk.violation("C12:log-incomplete:" + cls,
                          "step %s after %d attempt(s): the log named in its state holds %d bytes, its last attempt printed %d bytes for the log "
                          "(cfg %s, stream %s)" % (r["status"], runs, r["log"]["len"], len(want_log), name, c.get("stream")), c)
        if c["so"] and not r.get("m_out_has_all"):
            chk.violation("C12:stdout-file-incomplete:" + cls,
                          "the `stdout:` file (%d bytes) does not hold all %d stdout bytes of the last attempt (cfg %s, %d attempts)" %
                          (r["out"]["len"], sum(len(s) for s in out_segs), name, runs), c)
        if c["se"] and not r.get("m_err_has_all"):
            chk.violation("C12:stderr-file-incomplete:" + cls,
                          "the `stderr:` file (%d bytes) does not hold all %d stderr bytes of the last attempt (cfg %s, %d attempts)" %
                          (r["err"]["len"], len(want_err), name, runs), c)
        # ---------------- correspondence with the model
        pred_log = from_segs(m["log"])
        if m["flushed"] == "1" or m["buffered"] == "0":
            # chunking cannot matter (theorems C12_partial / attempt_ok): exact comparison
            stats["exact"] += 1
            if (r["log"]["len"], r["log"]["sha"]) != (len(pred_log), sha(pred_log)): disagree(cid, "log", r["log"], "len %d" % len(pred_log), c)
        else:
            # unflushed in the model: what is on disk depends on how the output was cut into Write calls (theorem C12_loss_bound)
            stats["prefix_rule"] += 1
            L = r["log"]["len"]
            if not (L <= len(want_log) and len(want_log) - L <= CAP and sha(want_log[:L]) == r["log"]["sha"]):
                disagree(cid, "log-prefix-rule", r["log"], "prefix of %d bytes, at most %d missing" % (len(want_log), CAP), c)
        if c["se"]:
            pred_err = from_segs(m["err"])
            if (r["err"]["len"], r["err"]["sha"]) != (len(pred_err), sha(pred_err)): disagree(cid, "stderr-file", r["err"], "len %d" % len(pred_err), c)
        elif r["err"]["exists"]:
            disagree(cid, "stderr-file-exists", r["err"], "-", c)
        if c["so"]:
            pred_out = from_segs(m["out"])
            if runs == 1:
                if (r["out"]["len"], r["out"]["sha"]) != (len(pred_out), sha(pred_out)): disagree(cid, "stdout-file", r["out"], "len %d" % len(pred_out), c)
            else:
                total = sum(len(expected(c, a, c["attempts"][a])[3]) for a in range(runs))
                if not (total - CAP * (runs - 1) <= r["out"]["len"] <= total): disagree(cid, "stdout-file-bounds", r["out"], "total %d" % total, c)
        elif r["out"]["exists"]:
            disagree(cid, "stdout-file-exists", r["out"], "-", c)
        if r.get("scripts_left") != int(m["scripts"]): disagree(cid, "scripts-left", r.get("scripts_left"), m["scripts"], c)
        if r.get("log_files") not in (runs, runs - 1, 1) or r.get("log_files", 0) > runs: disagree(cid, "log-files", r.get("log_files"), runs, c)
    chk.disagreements_checked = chk.disagreements
    if dis == 0:
        chk.oblige("correspondence:log (log / stdout / stderr file contents by length + sha256, leftover script files: code = model; "
                   "prefix rule where the model holds an unflushed residue)", True)
    stats["sizes"] = sorted(stats["sizes"])[:60]
    stats["cases"] = len(cases)
    chk.stats = stats
    chk.rule = ("all 16 combinations of {stdout file, stderr file, output, script} x retries 0-2 (+ exhausted retries: final state failed) x "
                "stream {stdout, stderr, both interleaved} x sizes {0,1,4095,4096,4097,65536, 1 MiB (thorough), random}; real sh through the real "
                "scheduler; non-trivial = some redirection/output/script or at least one retry; distinct = (cfg, attempts, stream, size)")
    chk.samples = [{"case": {k: v for k, v in c.items() if k != "attempts"}, "attempts": c["attempts"][:3],
                    "answer": {k: v for k, v in (res.get(c["id"]) or {}).items() if k in ("status", "attempts_run", "log", "out", "err", "m_log_has_all")}}
                   for c in cases[:1] + cases[len(cases) // 2:len(cases) // 2 + 1] + cases[-1:]]
    if not replay:
        # several writers on ONE `stdout:` / `stderr:` file (concurrent steps, two runs): own generator + monitor, x_shared.py
        x_shared.stream(chk, binp)
        # the log NAMED by a retained history record over a sequence of runs (run, retry, retention clean-up): x_c12_retention.py
        x_c12_retention.stream(chk, binp)
