"""C01 — scheduler family; shared stream in sched.py"""
import common, sched

PROP = "C01"


def run(chk, replay):
    import json, x_retry_cmd
    if replay and "retry_cmd_case" in json.load(open(replay)).get("case", {}):
        x_retry_cmd.stream(chk, PROP, json.load(open(replay))["case"]["retry_cmd_case"]); return
    sched.run_property(chk, PROP, replay)
    if not replay:
        # the retry of a recorded run through the REAL `start` / `retry --req` commands (cmd/retry.go's glue: which steps the retry
        # pairs the recorded states with), file edited in between / paths with links (lib/x_retry_cmd.py; uses no PRNG)
        x_retry_cmd.stream(chk, PROP)
