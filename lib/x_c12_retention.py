"""C12, "retry, then retention" leg: the log NAMED by a retained history record, over a SEQUENCE of runs.

The other C12 legs judge one run right after it ended.  The property speaks of "the log file named in its status": that status is what
the history store keeps reporting for as long as the record is retained — and a `retry` run does not re-execute the steps that already
succeeded, it carries their state, State.Log included, over into ITS OWN record (model.Node.ToNode → scheduler.NewExecutionGraphForRetry).
So a retained record may name a log file that an OLDER run created.  What happens to that file when the older run's record passes
`histRetentionDays` (every start of the DAG calls HistoryStore.RemoveOld, Agent.setupDatabase) is what this leg looks at.

Cases (go/harness/log/retention.go; the REAL agent, the real jsondb store in a scratch directory, the DAG loaded by dag.Load with
histRetentionDays 1..3; DAG a → b [→ c], optional handlers):
  retry-then-retention         run 1 (a ok, b fails) · retry of run 1 (b ok) · run 1's history file aged beyond the retention · run 3
  retry-retention-not-reached  the same, aged by LESS than the retention (control: the record of run 1 stays)
  expired-run-no-retry         run 1 · aged beyond the retention · run 2 (the record of run 1 is gone: nothing of it is left to judge)
  retry-of-retry-then-retention  a → b → c: run 1 (b fails) · retry (b ok, c fails) · retry of the retry (c ok) · BOTH older records aged · run
  … each also with handlers (onExit / onFailure / onSuccess print too; a retry runs its handlers afresh)

Monitor (Python, independent of any model): the harness rewrites every step's script before every phase, so the attempt of a step in a
phase prints fixed-length lines of ITS OWN marker byte.  From the case alone (which step fails in which phase, `depends`, what a retry
re-executes) the monitor derives, for every record and step, the phase in which the step's LAST attempt ran; the harness's trace files
(which scripts really ran in which phase) must agree, else the case does not count (harness-expectation).  Clause, for every record the
history store still returns (ReadStatusRecent) and every step / handler it reports finished or failed: the log file named there exists
and holds every marker byte that attempt wrote to stdout and to stderr.

No Lean correspondence: BdModel/Log models one attempt's writers and one run's log file; it has no history store and no notion of time.
This leg is monitor-only (as the shared FILE of x_shared.py is).
"""
import json, subprocess, time

L = 32
MARKERS = "ABCDEFGHIJKLMNOPQRSTUVWXYZabcdefghijklmnopqrstuvwxyz0123456789"
HANDLER_KEY = {"onExit": "on_exit", "onSuccess": "on_success", "onFailure": "on_failure", "onCancel": "on_cancel"}
SIG = "C12:log-named-by-a-retained-record-missing-or-incomplete:"


def _emit(rng, pool, fail=False, big=False):
    no = rng.choice([150, 300]) if big else rng.choice([1, 3, 7])
    ne = rng.choice([0, 1, 2, 5])
    return {"no": no, "mo": pool.pop(), "ne": ne, "me": pool.pop() if ne else "", "fail": fail}


def _case(rng, cid, flavour, days, steps, handlers, plan):
    """plan: list of ("run"|"retry", of, {failing steps}) / ("age", of, by_days)"""
    pool = list(MARKERS); rng.shuffle(pool)
    phases = []
    for op, of, arg in plan:
        if op == "age":
            phases.append({"op": "age", "of": of, "by_days": arg}); continue
        em = {}
        for i, s in enumerate(steps):
            em[s["name"]] = _emit(rng, pool, fail=s["name"] in arg, big=(i == 0 and len(phases) == 0 and rng.random() < 0.5))
        for h in handlers:
            em["on_" + h] = _emit(rng, pool)
        phases.append({"op": op, "of": of, "emit": em})
    return {"id": cid, "timeout": 60,
            "retention": {"flavour": flavour + ("+handlers" if handlers else ""), "days": days, "line_len": L, "steps": steps,
                          "handlers": handlers, "phases": phases}}


def generate(rng, quick):
    cases = []
    ab = [{"name": "a", "deps": []}, {"name": "b", "deps": ["a"]}]
    abc = ab + [{"name": "c", "deps": ["b"]}]
    hs = ["exit", "failure", "success"]
    reps = 1 if quick else 4
    k = lambda: "t%d" % len(cases)
    for _ in range(reps):
        for handlers in ([], hs):
            for days in ([rng.choice([1, 2, 3])] if quick and handlers else [1, 2, 3]):
                cases.append(_case(rng, k(), "retry-then-retention", days, ab, handlers,
                                   [("run", 0, {"b"}), ("retry", 0, set()), ("age", 0, days + rng.choice([1, 2, 30])), ("run", 0, set())]))
            days = rng.choice([2, 3])
            cases.append(_case(rng, k(), "retry-retention-not-reached", days, ab, handlers,
                               [("run", 0, {"b"}), ("retry", 0, set()), ("age", 0, days - 1), ("run", 0, set())]))
            days = rng.choice([1, 2, 3])
            cases.append(_case(rng, k(), "expired-run-no-retry", days, ab, handlers,
                               [("run", 0, {"b"} if rng.random() < 0.5 else set()), ("age", 0, days + 1), ("run", 0, set())]))
            days = rng.choice([1, 2, 3])
            cases.append(_case(rng, k(), "retry-of-retry-then-retention", days, abc, handlers,
                               [("run", 0, {"b"}), ("retry", 0, {"c"}), ("retry", 1, set()), ("age", 0, days + 2), ("age", 1, days + 1),
                                ("run", 0, set())]))
    return cases


def simulate(rc):
    """From the case description alone: per run/retry phase, {step or handler key: (status, phase of its last attempt)} and who ran."""
    out = {}
    for pi, ph in enumerate(rc["phases"]):
        if ph["op"] == "age": continue
        prev = out[ph["of"]]["nodes"] if ph["op"] == "retry" else {}
        nodes, ran, failed = {}, [], False
        for s in rc["steps"]:                       # the steps are listed in dependency order
            n = s["name"]
            if prev.get(n, ("",))[0] == "finished":
                nodes[n] = prev[n]; continue        # a retry takes a finished step over as it is
            if any(nodes.get(d, ("",))[0] != "finished" for d in s["deps"]):
                nodes[n] = ("not-run", None); continue
            ran.append(n)
            if ph["emit"][n]["fail"]:
                nodes[n] = ("failed", pi); failed = True
            else:
                nodes[n] = ("finished", pi)
        for h in rc["handlers"]:
            if h == "exit" or (h == "failure") == failed:
                ran.append("on_" + h)
                nodes["on_" + h] = ("failed" if ph["emit"]["on_" + h]["fail"] else "finished", pi)
        out[pi] = {"nodes": nodes, "ran": ran, "status": "failed" if failed else "finished"}
    return out


def stream(chk, binp, replay_case=None):
    rng = chk.rng
    quick = chk.tier == "quick"
    t0 = time.time()
    cases = [replay_case] if replay_case else generate(rng, quick)
    hin = "\n".join(json.dumps(c) for c in cases) + "\n"
    p = subprocess.run([binp], input=hin, stdout=subprocess.PIPE, stderr=subprocess.PIPE, text=True, timeout=1200)
    if p.returncode != 0:
        chk.oblige("harness-run:log:retention", False, p.stderr[-2000:]); return
    res = {}
    for l in p.stdout.strip().split("\n"):
        if l.strip():
            r = json.loads(l); res[r["id"]] = r
    stats = {"cases": len(cases), "flavour": {}, "records_judged": 0, "node_verdicts": 0, "carried_over_verdicts": 0,
             "carried_over_from_a_removed_record": 0, "expired_records_removed": 0, "aged_records_kept": 0,
             "logs_of_removed_records_named": 0, "logs_of_removed_records_still_on_disk": 0, "bytes_max": 0}
    for c in cases:
        cid = c["id"]; rc = c["retention"]; r = res.get(cid); fl = rc["flavour"]
        chk.evaluations += 1
        if r is None:
            chk.oblige("answer:%s" % cid, False, "no harness answer"); continue
        if r.get("panic") or r.get("harness_err"):
            chk.violation("C12:panic:retention", "panic / harness error %s" % (r.get("panic") or r.get("harness_err")), c); continue
        if r.get("timeout"):
            chk.violation("C12:step-never-ends:retention:" + fl, "the run sequence did not end within %s s" % c.get("timeout"), c); continue
        stats["flavour"][fl] = stats["flavour"].get(fl, 0) + 1
        chk.nontrivial.add(("retention", fl, rc["days"], json.dumps(rc["phases"], sort_keys=True)))
        sim = simulate(rc)
        # ---------------- did the sequence go as the case describes?  (else nothing is judged from the description)
        ok, why = r.get("hist_retention_days") == rc["days"], "histRetentionDays=%s" % r.get("hist_retention_days")
        aged = {}
        for pi, ph in enumerate(rc["phases"]):
            hp = r["phases"][pi]
            if hp.get("err"): ok, why = False, "phase %d: %s" % (pi, hp["err"])
            if ph["op"] == "age":
                aged[ph["of"]] = aged.get(ph["of"], 0) + ph["by_days"]; continue
            if sorted(hp.get("ran") or []) != sorted(sim[pi]["ran"]) or hp.get("status") != sim[pi]["status"]:
                ok, why = False, "phase %d (%s): ran %s status %s, the case describes %s %s" % (pi, ph["op"], hp.get("ran"), hp.get("status"),
                                                                                                 sim[pi]["ran"], sim[pi]["status"])
        last_run = max(pi for pi, ph in enumerate(rc["phases"]) if ph["op"] != "age")
        req_phase = {r["phases"][pi]["req"]: pi for pi in sim}
        retained = {req_phase[rec["req"]] for rec in r.get("records") or [] if rec["req"] in req_phase}
        for pi in sim:
            # what RemoveOld is documented to do (`histRetentionDays`): a record older than the retention goes at the next start, a
            # younger one stays.  (Aged after the last start: nothing has cleaned up yet.)
            cleaned = any(q > max(i for i, ph in enumerate(rc["phases"]) if ph["op"] == "age" and ph["of"] == pi) for q in sim) if pi in aged else False
            want = not (pi in aged and aged[pi] > rc["days"] and cleaned)
            if (pi in retained) != want:
                ok, why = False, "record of phase %d: retained=%s, expected %s (aged %s days, retention %d)" % (pi, pi in retained, want,
                                                                                                            aged.get(pi, 0), rc["days"])
            if pi in aged:
                stats["aged_records_kept" if pi in retained else "expired_records_removed"] += 1
                if pi not in retained:
                    stats["logs_of_removed_records_named"] += r["phases"][pi].get("logs_named", 0)
                    stats["logs_of_removed_records_still_on_disk"] += r["phases"][pi].get("logs_on_disk", 0)
        if not ok:
            chk.oblige("harness-expectation:retention:%s" % cid, False, "%s case=%s" % (why, json.dumps(c)[:600])); continue
        # ---------------- monitor: every RETAINED record, every node it reports in a final state
        for rec in r.get("records") or []:
            pi = req_phase.get(rec["req"])
            if pi is None: continue
            stats["records_judged"] += 1
            for nd in rec["nodes"]:
                if nd["status"] not in ("finished", "failed"): continue
                key = HANDLER_KEY.get(nd["name"], nd["name"]) if nd["handler"] else nd["name"]
                st, q = sim[pi]["nodes"].get(key, ("not-run", None))
                if q is None or st != nd["status"]:
                    chk.oblige("harness-expectation:retention:%s:%s" % (cid, key), False, "record of phase %d reports %s %s, the case describes %s" %
                               (pi, key, nd["status"], st)); continue
                em = rc["phases"][q]["emit"][key]
                wo, we = em["no"] * (L - 1), em["ne"] * (L - 1)
                stats["node_verdicts"] += 1
                stats["bytes_max"] = max(stats["bytes_max"], em["no"] * L + em["ne"] * L)
                carried = q != pi
                if carried:
                    stats["carried_over_verdicts"] += 1
                    if q not in retained: stats["carried_over_from_a_removed_record"] += 1
                go_, ge = nd["counts"].get(em["mo"], 0), (nd["counts"].get(em["me"], 0) if em["ne"] else 0)
                if not nd["exists"] or go_ != wo or ge != we:
                    cls = ("retry-then-retention" if carried and q not in retained else
                           "step-carried-over-by-a-retry" if carried else "step-of-the-record's-own-run")
                    chk.violation(SIG + cls,
                                  "%s %s is reported %s by the RETAINED history record of %s %s (status %s); its last attempt ran in phase %d%s and wrote "
                                  "%d stdout + %d stderr marker bytes; the log file named in that record, %s, %s (histRetentionDays %d; sequence: %s)" %
                                  ("handler" if nd["handler"] else "step", nd["name"], nd["status"], rc["phases"][pi]["op"], rec["req"], rec["status"], q,
                                   (" (taken over by the retry; the record of that run has been removed by the retention clean-up, aged %d days)" %
                                    aged.get(q, 0)) if carried and q not in retained else " (taken over by the retry)" if carried else "",
                                   wo, we, nd["log"].split("/")[-1],
                                   "does not exist (%s)" % nd.get("read_err", "")[-40:] if not nd["exists"] else
                                   "holds %d / %d of them (%d bytes)" % (go_, ge, nd["len"]),
                                   rc["days"], " · ".join(ph["op"] + (" of %d" % ph["of"] if ph["op"] != "run" else "") +
                                                          (" by %d d" % ph["by_days"] if ph["op"] == "age" else "") for ph in rc["phases"])), c)
    stats["wall_s"] = round(time.time() - t0, 1)
    if not isinstance(chk.stats, dict): chk.stats = {}
    chk.stats["retry_then_retention"] = stats
    chk.rule = (chk.rule or "") + ("; retry-then-retention leg (real agent + jsondb store, run · retry · age · run): every step / handler a RETAINED "
                                   "record reports finished or failed names a log that exists and holds its last attempt's bytes; histRetentionDays 1-3 x "
                                   "{retention passed, not reached, no retry, retry of a retry} x {with, without handlers}")
