"""C14 at the level of the DEFINITION FILE. The graph stream of p_c14 builds dag.Step values in Go; a user writes YAML.
This stream writes definitions as YAML text (2-6 steps with distinct names), loads them with the real loader (dag.LoadYAML;
dag.Load from a file when the case is run), hands the loaded steps to scheduler.NewExecutionGraph as agent.setupGraph does
and, for a part of the cases, runs the real agent (agent.New(...).Run) over real data stores in a private directory
(harness mode `sched yamlaccept`, go/harness/sched/yamlaccept.go).

The monitor is the property read on the TEXT AS WRITTEN (parsed here with PyYAML, independently of the Go loader):
    accepted  <=>  every `depends` entry, as the string written, is EXACTLY the name of a step as written
                   and the dependency relation has no cycle (self-dependency included);
    a refused run executes no step and no handler (their marker files are absent, no step log) and records nothing
    (no file in the history directory).
No trimming, splitting or other normalisation is part of the oracle: an entry "" / " " / "," / " a " / "a, b" names a
step only if a step is written with exactly that name.

`depends` written as a scalar string is not a form of the definition language of the unchanged loader (decode error:
"source data must be an array or slice, got string"); such a definition is judged only when the loader loads it - then the
scalar is ONE entry."""
import json, subprocess
import yaml

MARK = "@M@"          # replaced by the harness with the marker directory


def q(s):
    return '"' + s.replace("\\", "\\\\").replace('"', '\\"').replace("\t", "\\t") + '"'


# ------------------------------------------------------------------ the oracle (from the text)

def entry_kind(e, names):
    """label of an entry that names no step (labels only; the verdict never depends on them)"""
    if e is None:
        return "null-entry"
    if not isinstance(e, str):
        return "non-string-entry"
    if e == "":
        return "empty-entry"
    if e.strip() == "":
        return "blank-entry"
    if e.strip(" \t,") == "":
        return "separators-only-entry"
    if e.strip() in names:
        return "padded-name-entry"
    if "," in e:
        pieces = [p.strip() for p in e.split(",")]
        if all(p in names for p in pieces):
            return "comma-joined-names-entry"
        if all(p in names or p == "" for p in pieces):
            return "name-with-stray-comma-entry"
    return "unknown-name-entry"


def oracle(text):
    """-> dict(well=bool, kind=label, scalar=bool, names=[...], entries=[[...]...])   from the YAML text alone"""
    doc = yaml.safe_load(text)
    steps = doc.get("steps") or []
    names = [s.get("name") for s in steps]
    assert all(isinstance(n, str) and n != "" for n in names) and len(set(names)) == len(names), "generator: names must be distinct non-empty strings"
    scalar = False
    entries = []
    for s in steps:
        d = s.get("depends")
        if d is None:
            entries.append([])
        elif isinstance(d, list):
            entries.append(list(d))
        else:
            scalar = True
            entries.append([d])            # the scalar as written is one entry
    bad = []
    for es in entries:
        for e in es:
            if not (isinstance(e, str) and e in names):
                k = entry_kind(e, names)
                if k not in bad:
                    bad.append(k)
    if bad:
        return {"well": False, "kind": "+".join(sorted(bad)), "scalar": scalar, "names": names, "entries": entries}
    idx = {n: i for i, n in enumerate(names)}
    adj = [[idx[e] for e in es] for es in entries]
    if any(i in adj[i] for i in range(len(names))):
        return {"well": False, "kind": "self-dependency", "scalar": scalar, "names": names, "entries": entries}
    col = [0] * len(names)

    def dfs(u):
        col[u] = 1
        for v in adj[u]:
            if col[v] == 1 or (col[v] == 0 and dfs(v)):
                return True
        col[u] = 2
        return False
    if any(col[i] == 0 and dfs(i) for i in range(len(names))):
        return {"well": False, "kind": "cycle", "scalar": scalar, "names": names, "entries": entries}
    used = {e for es in entries for e in es}
    if scalar: kind = "scalar-depends"
    elif any("," in n for n in used): kind = "comma-in-step-name"
    elif any(n.strip() == "" for n in used): kind = "blank-step-name"
    elif any(n != n.strip() for n in used): kind = "padded-step-name"
    elif any(len(es) != len(set(es)) for es in entries): kind = "duplicate-entry"
    else: kind = "plain"
    return {"well": True, "kind": kind, "scalar": scalar, "names": names, "entries": entries}


# ------------------------------------------------------------------ generator

HANDLERS = ("exit", "success", "failure")
KINDS = ["plain", "duplicate", "comma-name", "padded-name", "blank-name",                       # well-formed
         "unknown", "empty", "blank", "separators", "padded-entry", "joined", "stray-comma", "null", "self", "cycle",
         "scalar-ok", "scalar-joined", "scalar-empty", "scalar-unknown"]


def render(names, deps, handlers):
    """deps[i]: list of entries (str or None) or ('scalar', str)"""
    L = []
    if handlers:
        L.append("handlerOn:")
        for h in HANDLERS:
            L += ["  %s:" % h, "    command: touch %s/h-%s" % (MARK, h)]
    L.append("steps:")
    for i, n in enumerate(names):
        L += ["  - name: %s" % q(n), "    command: touch %s/%d" % (MARK, i)]
        d = deps[i]
        if isinstance(d, tuple):
            L.append("    depends: %s" % q(d[1]))
        elif d:
            L.append("    depends:")
            L += ["      - %s" % ("~" if e is None else q(e)) for e in d]
    return "\n".join(L) + "\n"


def gen(rng, k, kind=None, run=False):
    kind = kind or rng.choice(KINDS + ["plain"] * 3)
    n = rng.randint(2, 6)
    pool = ["a", "b", "c", "s1", "s2", "build it", "x_1", "Step3", "t.4", "load", "extract", "transform"]
    rng.shuffle(pool)
    names = pool[:n]
    order = list(range(n)); rng.shuffle(order)          # listing order is not dependency order
    pos = {v: i for i, v in enumerate(order)}
    first, last = order[0], order[-1]                    # `first` depends on nothing, `last` may depend on everything
    # unusual step names (the unchanged loader takes any non-empty string verbatim); for the three *-name kinds the
    # unusual name is given to `first` and `last` depends on it
    if kind == "comma-name" or rng.random() < 0.1:
        j = first if kind == "comma-name" else rng.randrange(n)
        names[j] = rng.choice([names[0] + "," + names[1], names[0] + ", " + names[1], "p,q", "7,"])
    if kind == "padded-name" or rng.random() < 0.1:
        j = first if kind == "padded-name" else rng.randrange(n)
        if "," not in names[j]:
            names[j] = rng.choice([" %s ", " %s", "%s ", "\t%s"]) % names[j]
    if kind == "blank-name":
        names[first] = rng.choice([" ", "  "])
    if len(set(names)) != n:
        return gen(rng, k, kind, run)
    # a well-formed base: acyclic over the random order
    deps = [[names[j] for j in range(n) if pos[j] < pos[i] and rng.random() < 0.4] for i in range(n)]
    for d in deps:
        rng.shuffle(d)
    others = [j for j in range(n) if j != last]
    a, b = rng.sample(others, 2) if len(others) >= 2 else (others[0], others[0])

    def put(i, e):
        deps[i].insert(rng.randint(0, len(deps[i])), e)
    if kind == "duplicate":
        put(last, names[a]); put(last, names[a])
    elif kind in ("comma-name", "padded-name", "blank-name"):
        if names[first] not in deps[last]:
            put(last, names[first])
    elif kind == "unknown":
        put(rng.randrange(n), rng.choice(["zz", names[a].upper() + "X", names[a] + "_", "step-none", names[a][:-1] or "q"]))
    elif kind == "empty":
        put(rng.randrange(n), "")
    elif kind == "blank":
        put(rng.randrange(n), rng.choice([" ", "  ", "\t", " \t "]))
    elif kind == "separators":
        put(rng.randrange(n), rng.choice([",", ", ", " ,", ",,", " , , "]))
    elif kind == "padded-entry":
        put(last, rng.choice([" %s ", " %s", "%s ", "%s\t"]) % names[a].strip())
    elif kind == "joined":
        put(last, rng.choice(["%s, %s", "%s,%s", "%s , %s"]) % (names[a].strip(), names[b].strip()))
    elif kind == "stray-comma":
        put(last, rng.choice(["%s,", ",%s", "%s, ", " ,%s"]) % names[a].strip())
    elif kind == "null":
        put(rng.randrange(n), None)
    elif kind == "self":
        i = rng.randrange(n); put(i, names[i])
    elif kind == "cycle":
        m = rng.randint(2, min(n, 4)); cyc = rng.sample(range(n), m)
        for t in range(m):
            put(cyc[t], names[cyc[(t + 1) % m]])
    elif kind.startswith("scalar"):
        v = {"scalar-ok": names[a], "scalar-joined": "%s, %s" % (names[a].strip(), names[b].strip()), "scalar-empty": rng.choice(["", " ", ","]),
             "scalar-unknown": "zz"}[kind]
        deps[last] = ("scalar", v)
    # names that would collide with an injected entry make the label differ, never the verdict (the oracle reads the text)
    return {"id": "ya%d" % k, "yaml": render(names, deps, rng.random() < 0.5), "run": run, "gen": kind}


# ------------------------------------------------------------------ judge

def judge(c, r):
    """yields (signature, what) for one harness answer"""
    o = oracle(c["yaml"])
    if r.get("load") != "ok":
        if o["scalar"] and r.get("load") == "err":
            return o, "form-not-loaded", []          # scalar `depends` is not a form this loader has
        accepted, where = False, "load: %s" % (r.get("loadErr") or r.get("load"))
    elif r.get("graph") != "ok":
        accepted, where = False, "NewExecutionGraph: %s" % (r.get("graphErr") or r.get("graph"))
    elif r.get("ran") and r.get("runErr"):
        accepted, where = False, "agent.Run: %s" % r["runErr"]
    else:
        accepted, where = True, ""
    if r.get("ran") and r.get("load") == "ok" and (r.get("graph") == "ok") != (not r.get("runErr")):
        where += " [NewExecutionGraph=%s but agent.Run error=%r]" % (r.get("graph"), r.get("runErr"))
    loaded = [(s["name"], s.get("depends") or []) for s in r.get("steps") or []]
    out = []
    if accepted and not o["well"]:
        out.append(("C14:yaml:accepted-ill-formed:%s" % o["kind"],
                    "definition accepted%s although %s (%s): written names %r, written depends %r, loaded as %r%s"
                    % (" and run" if r.get("ran") else "", "the dependency relation is cyclic" if o["kind"] in ("cycle", "self-dependency") else "a depends entry names no existing step", o["kind"], o["names"], o["entries"], loaded,
                       "; executed: %r, history files: %d" % (r.get("markers"), r.get("hist", 0)) if r.get("ran") else "")))
    if not accepted and o["well"]:
        out.append(("C14:yaml:refused-well-formed:%s" % o["kind"],
                    "well-formed definition refused (%s): written names %r, written depends %r, loaded as %r" % (where, o["names"], o["entries"], loaded)))
    if not accepted and r.get("ran"):
        if r.get("markers") or r.get("logs"):
            out.append(("C14:yaml:refused-but-executed:%s" % o["kind"], "run refused (%s) but steps/handlers executed: markers %r, %d step log files"
                        % (where, r.get("markers"), r.get("logs", 0))))
        if r.get("hist"):
            out.append(("C14:yaml:refused-but-recorded:%s" % o["kind"], "run refused (%s) but %d file(s) were written to the history" % (where, r["hist"])))
    return o, ("accepted" if accepted else "refused"), out


def call(binp, cases):
    p = subprocess.run([binp, "yamlaccept"], input="\n".join(json.dumps({"id": c["id"], "yaml": c["yaml"], "run": bool(c.get("run"))}) for c in cases) + "\n",
                       stdout=subprocess.PIPE, stderr=subprocess.PIPE, text=True, timeout=1200)
    res = {}
    for l in p.stdout.strip().split("\n"):
        if l.strip():
            r = json.loads(l); res[r["id"]] = r
    return res, p.stderr


def run(chk, binp, replay_case=None):
    rng = chk.rng
    if replay_case is not None:
        cases = [dict(replay_case, gen=replay_case.get("gen", "replay"))]
    else:
        cases, k = [], 0
        # every entry kind once through the REAL AGENT (twice in the thorough tier), then random kinds: load + NewExecutionGraph
        for rep in range(2 if chk.tier == "quick" else 8):
            for kind in KINDS:
                cases.append(gen(rng, k, kind, run=True)); k += 1
        for _ in range(600 if chk.tier == "quick" else 6000):
            cases.append(gen(rng, k)); k += 1
    res, err = call(binp, cases)
    dist, forms, ranok = {}, 0, 0
    pending = []
    for c in cases:
        r = res.get(c["id"])
        if r is None:
            chk.oblige("harness-run:yamlaccept:" + c["id"], False, err[-400:]); continue
        o, verdict, viol = judge(c, r)
        chk.evaluations += 1
        chk.nontrivial.add("yaml:" + c["yaml"])
        key = ("well:" if o["well"] else "ill:") + o["kind"]
        dist[key] = dist.get(key, 0) + 1
        if verdict == "form-not-loaded":
            forms += 1
        if viol:
            pending.append(c)
        elif verdict == "accepted" and r.get("ran"):
            # the marker mechanism is alive: an accepted definition executed every step (+ exit/success handlers)
            want = sorted([str(i) for i in range(len(o["names"]))] + (["h-exit", "h-success"] if "handlerOn:" in c["yaml"] else []))
            if sorted(r.get("markers") or []) != want or not r.get("hist"):
                chk.oblige("yaml-run:accepted-definition-ran:" + c["id"], False, "markers %r want %r hist %r\n%s" % (r.get("markers"), want, r.get("hist"), c["yaml"]))
            else:
                ranok += 1
    if pending:
        # once more, alone, before it counts (a real agent ran: sockets, child processes)
        res2, _ = call(binp, pending)
        for c in pending:
            r = res2.get(c["id"])
            if r is None:
                continue
            _, _, viol = judge(c, r)
            for sig, what in viol:
                chk.violation(sig, what + "\n" + c["yaml"], {"yaml_accept": {"id": c["id"], "yaml": c["yaml"], "run": bool(c.get("run")), "gen": c["gen"]}, "answer": r})
    if replay_case is None:
        chk.oblige("yaml-run: accepted definitions executed every step and were recorded (marker mechanism alive)", ranok > 0, "no accepted definition was run")
    chk.stats = dict(getattr(chk, "stats", None) or {}, yaml_accept={"definitions": len(cases), "run_with_real_agent": sum(1 for c in cases if c.get("run")),
                                                                     "scalar_depends_not_loaded": forms, "oracle": dist})
    return len(cases)
