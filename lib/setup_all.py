"""setup: build everything from files on disk (offline)"""
import os, sys
import common


def main():
    common.log("setup: extractor"); common.build_extractor(); common.run_extract()
    common.log("setup: lake build (models, proofs, driver)")
    targets = ["driver"]
    for sub in ("Props", "Tie"):
        d = os.path.join(common.LEAN, "BdModel", sub)
        targets += ["BdModel.%s.%s" % (sub, f[:-5]) for f in sorted(os.listdir(d)) if f.endswith(".lean")]
    rc, out = common.lake(targets)
    sys.stderr.write(out[-4000:])
    if rc != 0:
        return 1
    for area in sorted(os.listdir(os.path.join(common.ROOT, "go", "harness"))):
        common.log("setup: harness", area)
        b, o = common.build_harness(area)
        if not b:
            sys.stderr.write(o[-3000:])
            return 1
    return 0
