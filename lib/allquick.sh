#!/bin/sh
# run all twenty quick checks against /repo (4 at a time), print one line each; usage: lib/allquick.sh [seed]
cd /verif
export VERIF_SEED=${1:-1}
mkdir -p build/allquick
for p in C01 C02 C03 C04 C05 C06 C07 C08 C09 C10 C11 C12 C13 C14 C15 C16 C17 C18 C19 C20; do echo $p; done | \
  xargs -P 4 -I{} sh -c './check {} --tier quick > build/allquick/{}.out 2> build/allquick/{}.err; echo "{} rc=$? $(tail -1 build/allquick/{}.err | cut -c1-140)"'
grep -h "VIOLATION\|KNOWN-FINDING" build/allquick/*.out | cut -c1-200
