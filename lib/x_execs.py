"""C03, "other executors" stream: steps of the executors that can be exercised offline -- http (against a local listener inside
the harness that counts the requests per step), sub-workflow (sub.go starts os.Executable(): the harness itself plays the
child and counts its starts), jq (copies of the result in the O_APPEND `stdout:` file) and command steps as neighbours --
through the REAL scheduler.Schedule (go/harness/execs), with and without a retryPolicy.

The monitor below is the property itself, evaluated on what was measured OUTSIDE blackdagger (requests that reached the
listener / child processes started / results written) against what blackdagger RECORDED (status, retry count):

  executions of the step's action == 1 + recorded retries      (one attempt executes the action exactly once)
  recorded retries <= limit                                    (never more than `limit` extra attempts)
  nothing is executed after an attempt that succeeded          (a succeeding attempt ends the retries)
  a failing last attempt means the limit was used up           (re-executed until it succeeds or limit is reached)
  the final state is `finished` iff the last attempt succeeded
  a runnable step is executed at least once; a step that is not runnable (failed dependency) executes nothing

What counts as a failed attempt was established on the unchanged code (and is what the executor documents): for http a
transport error (connection closed / reset after the request was read, truncated answer), no answer within the step's
`timeout`, and any answer that is not 2xx after following redirects; 2xx (200/201/204) and a redirect that ends in 2xx succeed.
For sub-workflow / command: a non-zero exit status."""
import json, subprocess, time
import common

HOOKS = {"internal/dag/scheduler/zz_verif_hooks.go": "go/hooks/dagscheduler_hooks_verif.go"}

HTTP_OK = ("ok", "s201", "s204", "redirect", "r307")
HTTP_FAIL = ("late", "close", "reset", "partial", "s404", "s500", "s503")
COVERED = {"http": "internal/dag/executor/http.go", "sub": "internal/dag/executor/sub.go", "jq": "internal/dag/executor/jq.go",
           "cmd": "internal/dag/executor/command.go"}
NOT_COVERED = {"docker": "needs a docker daemon", "ssh": "needs an ssh server and keys", "mail": "needs an SMTP server"}


def _succeeds(exe, beh):
    if exe == "http":
        return beh in HTTP_OK
    return beh in ("ok", "0")


def _eff(s, beh):
    """the behaviour as the STEP sees it: with `json: true` the step's result is the answer rendered as JSON, and an answer
    without a JSON body (204 No Content) cannot be rendered -- the unchanged executor fails the attempt ('unexpected end of
    JSON input') although the server answered 2xx; it is a failed attempt of the step (and is retried as one)"""
    if s["exec"] == "http" and s.get("json") and beh == "s204":
        return "s204-with-json-output"
    return beh


def _plan(fail_beh, fails, ok_beh="ok"):
    """the first `fails` executions get the failing behaviour (-1: all of them), the following ones succeed"""
    if fails < 0:
        return [fail_beh]
    return [fail_beh] * fails + [ok_beh]


def _http(name, plan, limit, rng, depends=(), timeout=None, **kw):
    late = "late" in plan
    s = {"name": name, "exec": "http", "plan": plan, "limit": limit, "depends": list(depends),
         "method": rng.choice(["POST", "POST", "GET", "PUT", "DELETE", "PATCH"]),
         "timeout": 1 if late else (timeout if timeout is not None else rng.choice([0, 5, 20])),
         "script": rng.random() < 0.25, "json": rng.random() < 0.3, "silent": rng.random() < 0.5,
         "body": rng.choice(["", "x=1", '{"a": 1}']), "policy0": limit == 0 and rng.random() < 0.2, "cont": False}
    s.update(kw)
    return s


def _other(exe, name, rng, depends=(), limit=None, fails=None):
    limit = rng.choice([0, 0, 1, 2]) if limit is None else limit
    if exe == "jq":
        plan = [rng.choice(["ok", "ok", "ok", "badquery", "badinput"])] if fails is None else (["ok"] if fails == 0 else ["badquery"])
    else:
        fails = rng.choice([0, 0, 1, 2, -1]) if fails is None else fails
        plan = _plan(str(rng.choice([1, 2, 3])), fails)
    return {"name": name, "exec": exe, "plan": plan, "limit": limit, "depends": list(depends), "cont": False,
            "policy0": limit == 0 and rng.random() < 0.2}


def gen_cases(rng, tier):
    cases = []

    def add(steps, tag):
        cases.append({"id": "x%d%s" % (len(cases), tag), "steps": steps, "done": rng.random() < 0.5, "timeout": 40})

    # 1. every failing listener behaviour x (no retryPolicy | retried and then succeeding | retried, limit used up), with
    #    dependants of other executors behind the step (they run iff the step ended finished)
    for beh in HTTP_FAIL:
        shapes = [(0, -1), (1, 1), (1, -1)] if beh == "late" else [(0, -1), (1, 1), (2, 2), (2, 1), (1, -1), (2, -1)]
        if beh != "late":
            rng.shuffle(shapes); shapes = shapes[:4] if tier == "quick" else shapes
        for limit, fails in shapes:
            a = _http("a", _plan(beh, fails, rng.choice(["ok", "ok", "s201", "s204"])), limit, rng)
            deps = [_http("b", ["ok"], rng.choice([0, 1]), rng, depends=["a"], timeout=5),
                    _other(rng.choice(["jq", "sub", "cmd"]), "c", rng, depends=["a"])]
            if rng.random() < 0.3:
                a["cont"] = True
            add([a] + deps, "h")
    # 2. answers that succeed: executed once, whatever the limit
    for beh in HTTP_OK:
        add([_http("a", [beh], rng.choice([0, 1, 2]), rng, timeout=5),
             _http("b", [beh, "s500"], rng.choice([1, 2]), rng, depends=["a"], timeout=5)], "o")
    # 3. an http / sub / jq step behind a failing dependency of each executor: not runnable, nothing may be sent
    for dep_exec in ("cmd", "http", "sub", "jq"):
        lim = rng.choice([0, 1])
        d = (_http("d", [rng.choice([b for b in HTTP_FAIL if b != "late"])], lim, rng) if dep_exec == "http"
             else _other(dep_exec, "d", rng, limit=lim, fails=-1))
        cont = rng.random() < 0.25
        d["cont"] = cont
        add([d, _http("a", _plan("s503", 1), 1, rng, depends=["d"], timeout=5), _other("sub", "s", rng, depends=["d"], limit=1, fails=1),
             _other("jq", "j", rng, depends=["a"], limit=0, fails=0)], "n")
    # 4. sub-workflow and jq steps on their own, with and without retries
    for limit, fails in ((0, 0), (0, -1), (1, 1), (2, 2), (2, 1), (1, -1), (2, -1)):
        add([_other("sub", "s", rng, limit=limit, fails=fails), _other("jq", "j", rng, depends=["s"], limit=rng.choice([0, 1]), fails=0),
             _other("jq", "k", rng, limit=limit, fails=0 if fails == 0 else 1)], "s")
    # 5. random graphs over all four executors
    n = 16 if tier == "quick" else 240
    for _ in range(n):
        steps, names = [], []
        for i in range(rng.randint(2, 5)):
            nm = "n%d" % i
            deps = [x for x in names if rng.random() < 0.45][-2:]
            exe = rng.choice(["http", "http", "http", "sub", "jq", "cmd"])
            if exe == "http":
                limit = rng.choice([0, 0, 1, 2, 3])
                beh = rng.choice([b for b in HTTP_FAIL if b != "late"])
                if rng.random() < 0.08:
                    beh, limit = "late", min(limit, 1)
                fails = rng.choice([0, 0, 1, 1, 2, 3, -1])
                if beh == "late":
                    fails = rng.choice([0, 1, -1])
                st = _http(nm, _plan(beh, fails, rng.choice(HTTP_OK)), limit, rng, depends=deps)
            else:
                st = _other(exe, nm, rng, depends=deps)
            st["cont"] = rng.random() < 0.2
            steps.append(st); names.append(nm)
        add(steps, "r")
    return cases


def run_harness(binp, cases, timeout=300):
    p = subprocess.run([binp], input="\n".join(json.dumps(c) for c in cases) + "\n", stdout=subprocess.PIPE, stderr=subprocess.PIPE,
                       text=True, timeout=timeout)
    res = {}
    for l in p.stdout.split("\n"):
        if l.strip():
            try:
                r = json.loads(l); res[r["id"]] = r
            except Exception:
                pass
    return res, p.stderr


def monitor(c, r):
    """-> [(signature, what)] : the property, on one measured run"""
    out = []
    steps = r.get("steps") or {}
    by = {s["name"]: s for s in c["steps"]}
    for s in c["steps"]:
        m = steps.get(s["name"])
        if m is None:
            out.append(("C03:execs-step-missing-from-result", "step %s has no node in the result" % s["name"])); continue
        exe, L, rc, status = s["exec"], s["limit"], m["retry_count"], m["status"]
        where = "case %s step %s (%s%s, plan %s, retry limit %s)" % (c["id"], s["name"], exe, " " + s["method"] if exe == "http" else "",
                                                                    s["plan"], L if (L or s.get("policy0")) else "none")
        runnable = all(steps.get(d, {}).get("status") == "finished" or (steps.get(d, {}).get("status") == "failed" and by[d].get("cont"))
                       for d in s["depends"])
        if exe == "http":
            behs = [_eff(s, h["beh"]) for h in m["hits"]]
            n = len(behs)
        else:
            n = m.get("runs", 0)
            behs = [s["plan"][min(k, len(s["plan"]) - 1)] for k in range(n)]
        fail_beh = next((_eff(s, b) for b in s["plan"] if not _succeeds(exe, _eff(s, b))), "ok")
        if not runnable:
            if n > 0 or status in ("finished", "failed", "running"):
                out.append(("C03:%s-step-executed-although-not-runnable" % exe,
                            "%s: a dependency did not finish (%s) yet the step's action was executed %d times, state %s" % (
                                where, {d: steps.get(d, {}).get("status") for d in s["depends"]}, n, status)))
            continue
        if exe == "jq" and s["plan"][0] != "ok":
            # a query / input that cannot be parsed fails before anything is written: there is no action to count
            if rc > L:
                out.append(("C03:jq-step-retry-limit-exceeded", "%s: %d retries recorded" % (where, rc)))
            elif status != "failed" or rc != L:
                out.append(("C03:jq-step-not-retried-until-limit:" + s["plan"][0], "%s: state %s with %d retries recorded" % (where, status, rc)))
            elif n != 0:
                out.append(("C03:jq-step-action-executed-N-times-in-one-attempt:" + s["plan"][0], "%s: %d results written by failing attempts" % (where, n)))
            continue
        if n == 0:
            out.append(("C03:%s-runnable-step-not-executed" % exe, "%s: runnable, state %s, but its action was never executed" % (where, status)))
            continue
        if rc > L:
            out.append(("C03:%s-step-retry-limit-exceeded" % exe, "%s: %d retries recorded" % (where, rc)))
        if n > 1 + rc:
            out.append(("C03:%s-step-action-executed-N-times-in-one-attempt:%s" % (exe, fail_beh),
                        "%s: the step's action was executed %d times (%s) in %d attempt(s) (recorded retries %d, final state %s); "
                        "one attempt must execute it exactly once" % (
                            where, n, ("requests that reached the listener: " + ",".join(behs)) if exe == "http" else "processes started / results written",
                            1 + rc, rc, status)))
        elif n < 1 + rc:
            out.append(("C03:%s-step-recorded-retries-exceed-attempts-made" % exe,
                        "%s: %d retries recorded but the action was executed only %d times" % (where, rc, n)))
        first_ok = next((k for k, b in enumerate(behs) if _succeeds(exe, b)), None)
        if first_ok is not None and first_ok < n - 1:
            out.append(("C03:%s-step-re-executed-after-success" % exe,
                        "%s: execution %d succeeded (%s) and %d more followed" % (where, first_ok + 1, behs[first_ok], n - 1 - first_ok)))
        last_ok = _succeeds(exe, behs[-1])
        if not last_ok and rc < L and n < L + 1:
            out.append(("C03:%s-step-not-retried-until-limit:%s" % (exe, behs[-1]),
                        "%s: the last execution failed (%s) after %d of %d retries, state %s" % (where, behs[-1], rc, L, status)))
        want = "finished" if last_ok else "failed"
        if status != want:
            out.append(("C03:%s-step-wrong-final-state:%s" % (exe, behs[-1]),
                        "%s: last execution %s, final state %r, expected %r" % (where, behs[-1], status, want)))
        if exe == "http":
            wrong = [h["method"] for h in m["hits"] if h["method"] != s["method"]]
            if wrong:
                out.append(("C03:http-step-request-method-changed", "%s: requests arrived as %s" % (where, wrong)))
            nred = sum(1 for b in behs if b in ("redirect", "r307"))
            if len(m.get("moved") or []) != nred:
                out.append(("C03:http-step-redirect-followed-N-times",
                            "%s: %d redirect answers, %d requests at the new location" % (where, nred, len(m.get("moved") or []))))
    return out


def _evaluate(chk, binp, cases, confirm=True):
    res, err = run_harness(binp, cases)
    found = []       # (signature, what, case)
    for c in cases:
        r = res.get(c["id"])
        if r is None or r.get("panic") or r.get("harness_err") or r.get("timeout") or "steps" not in r:
            chk.oblige("harness-run:execs:" + c["id"], False, json.dumps(r)[:600] if r else err[-600:]); continue
        chk.evaluations += 1
        for sig, what in monitor(c, r):
            found.append((sig, what, c, r))
    if found and confirm:
        # anything that involves a clock is run a second time, alone, before it counts (one case per signature is enough)
        first = {}
        for sig, what, c, r in found:
            first.setdefault(sig, (what, c, r))
        again = {}
        for sig, (what, c, r) in first.items():
            again.setdefault(c["id"], c)
        res2, _ = run_harness(binp, list(again.values()))
        confirmed = []
        for sig, (what, c, r) in first.items():
            r2 = res2.get(c["id"])
            if r2 and "steps" in r2 and any(s2 == sig for s2, _ in monitor(c, r2)):
                confirmed.append((sig, what, c, r))
        chk.stats.setdefault("execs_stream", {})["unconfirmed_first_sightings"] = len(first) - len(confirmed)
        found = confirmed
    for sig, what, c, r in found:
        chk.violation(sig, what, {"execs_case": c, "measured": r.get("steps")})
    return res


def other_executors_stream(chk, only=None):
    t0 = time.time()
    binp, out = common.build_harness("execs", extra_overlay=HOOKS)
    if not binp:
        chk.oblige("harness-build:execs", False, out[-3000:]); return
    if only is not None:
        _evaluate(chk, binp, [only], confirm=False); return
    cases = gen_cases(chk.rng, chk.tier)
    res = _evaluate(chk, binp, cases)
    st = {"cases": len(cases), "steps": 0, "by_executor": {}, "http_behaviours": {}, "with_retry_policy": 0, "retried": 0,
          "not_runnable": 0, "executions_counted": 0, "covered": sorted(COVERED.values()), "not_covered": NOT_COVERED}
    for c in cases:
        r = res.get(c["id"]) or {}
        for s in c["steps"]:
            m = (r.get("steps") or {}).get(s["name"]) or {}
            st["steps"] += 1
            st["by_executor"][s["exec"]] = st["by_executor"].get(s["exec"], 0) + 1
            st["with_retry_policy"] += s["limit"] > 0
            st["retried"] += m.get("retry_count", 0) > 0
            st["not_runnable"] += m.get("status") in ("canceled", "not started")
            n = len(m["hits"]) if "hits" in m else m.get("runs", 0)
            st["executions_counted"] += n
            for h in m.get("hits") or []:
                st["http_behaviours"][h["beh"]] = st["http_behaviours"].get(h["beh"], 0) + 1
            chk.nontrivial.add("execs%s" % json.dumps([s["exec"], s["plan"], s["limit"], m.get("status"), n]))
    st["wall_s"] = round(time.time() - t0, 1)
    chk.stats.setdefault("execs_stream", {}).update(st)
    if len(chk.samples) < 8 and cases:
        c = cases[0]
        chk.samples.append({"execs_case": c["id"], "steps": [[s["name"], s["exec"], s["plan"], s["limit"]] for s in c["steps"]],
                            "measured": {k: [v["status"], v["retry_count"], len(v["hits"]) if "hits" in v else v.get("runs")]
                                         for k, v in ((res.get(c["id"]) or {}).get("steps") or {}).items()}})
    chk.trusted.append("execs harness: the local listener / child-process counters are the measure of 'the step's action was executed'")
