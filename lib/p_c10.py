"""C10 — retry re-executes exactly the unfinished part of a recorded run.
   Stream: (1) ordinary runs of generated DAGs through the real scheduler, cut at a PRNG quiescent
   point (= finished, stopped or killed run) give the recorded per-step state vectors; (2) the real
   NewExecutionGraphForRetry + Schedule retry them under fresh outcome scripts; the reset vector and
   every quiescent snapshot are compared with the Lean model (setupRetry + fine system), and the
   Go-side monitor reads the property itself off the events."""
import copy, json, os
import common, sched

TIE = {"Params": ["h_params_modelParams", "h_params_removeQuotes", "h_params_NewExecutionGraphForRetry", "h_params_parseParams"],   # + the rest-of-file ties of cmd/retry.go, start.go, restart.go: "the retry uses the parameter values of the recorded run"
       "Agent": sched._ties_of("Agent"), "Load": sched.LOAD_TIES_FOR_SCHED, "Sched": sched.SCHED_TIE,
       "Graph": ["h_graph_setupRetry", "h_graph_NewExecutionGraphForRetry", "h_graph_addEdge", "h_graph_setup", "setupRetryFacts"]}


def retry_case(rng, c, r, k):
    snaps = r.get("snaps") or []
    if not snaps:
        return None
    r0 = rng.random()
    idx = len(snaps) - 1 if r0 < 0.45 else rng.randrange(len(snaps))      # final record, or a run killed mid-way
    s = snaps[idx]
    if not s.get("st"):
        return None
    rc = copy.deepcopy(c)
    rc["id"] = "r%d" % k
    rc.pop("ops", None)
    for nd in rc["nodes"]:
        if nd["pre"] == 3:
            nd["pre"] = 1 if nd.get("prev", 1) == 1 else 2
        nd["rep"] = False
        r1 = rng.random()
        nd["fails"] = 0 if r1 < 0.7 else (rng.randint(0, nd["limit"] + 1) if r1 < 0.9 else -1)
    rc["init"], rc["irc"], rc["idc"] = s["st"], s["rc"], s["dc"]
    rc["stopAfter"] = -1 if rng.random() < 0.85 else rng.randint(0, len(rc["nodes"]))
    rc["handlers"] = [rng.choice([0, 1, 1, 2]) for _ in range(4)]
    rc["seed"] = rng.randrange(1 << 30)
    rc["dry"] = False
    rc["killed_at"] = idx if idx < len(snaps) - 1 else -1
    return rc


def run(chk, replay):
    chk.trusted = common.TRUSTED_COMMON + ["quiescence discipline of the scheduler harness (one completion released at a time)"]
    chk.assumptions = ["recorded vectors are quiescent snapshots of real runs (finished, stopped, or cut = killed); the JSON round trip "
                       "of the node table through the history store is covered by C06/C08, parameters of the retried run by C11",
                       "theorems about the retry RUN (order, limit, accounting of reset steps, deadlock freedom, termination) hold for "
                       "steps without repeatPolicy (NoRep) and under the model's environment assumption that a running command ends"]
    common.lean_obligations(chk, "BdModel/Props/C10.lean", dict(TIE, Hist=None), extra_targets=["BdModel.Sched.Tables"])
    import hist as _hist, x_retry_cmd
    if replay and "retry_cmd_case" in json.load(open(replay)).get("case", {}):
        x_retry_cmd.stream(chk, "C10", json.load(open(replay))["case"]["retry_cmd_case"]); return
    if replay and "hist_case" in json.load(open(replay)).get("case", {}):
        _hist.replay_big_record(chk, "C10", "a retry looks the recorded run up by request id and re-executes what that record says did not complete", json.load(open(replay))["case"]["hist_case"]); return
    if not replay:
        _hist.big_record_leg(chk, "C10", "a retry looks the recorded run up by request id and re-executes what that record says did not complete")
    binp, out = common.build_harness("sched")
    if not binp:
        chk.oblige("harness-build:sched", False, out[-3000:]); return
    chk.oblige("harness-build:sched", True)
    rng = chk.rng
    if replay:
        rp = json.load(open(replay))
        c = rp["case"]["case"] if "case" in rp.get("case", {}) else rp["case"]
        cases = [c]
    else:
        n1 = 300 if chk.tier == "quick" else 3000
        maxn = 8 if chk.tier == "quick" else 12
        first = []
        for k in range(n1):
            c = sched.gen_case(rng, k, maxn)
            c["dry"] = False
            first.append(c)
        res1 = sched.run_harness(binp, first)
        cases = []
        cdir = os.path.join(common.ROOT, "corpus", "retry")
        if os.path.isdir(cdir):
            for f in sorted(os.listdir(cdir)):
                c = json.load(open(os.path.join(cdir, f))); c["id"] = "corpus-" + f[:-5]; cases.append(c)
        for k, c in enumerate(first):
            r = res1.get(c["id"])
            if r and not r.get("crash"):
                rc = retry_case(rng, c, r, k)
                if rc:
                    cases.append(rc)
    results = sched.run_harness(binp, cases)
    stat = {"with_running": 0, "with_failed": 0, "with_canceled": 0, "with_not_started": 0, "all_finished": 0, "killed_midway": 0,
            "stopped_retry": 0, "reset_total": 0, "kept_total": 0, "nodes_total": 0, "hang": 0}
    for c in cases:
        r = results.get(c["id"])
        chk.evaluations += 1
        if r is None:
            chk.oblige("harness-run:no-result:" + c["id"], False, ""); continue
        if r.get("crash"):
            chk.violation("C10:harness-process-crashed", "the scheduler crashed the process: " + r["crash"][-300:], {"case": c}); continue
        ini = c["init"]
        if any(x != "finished" for x in ini) and any(n["deps"] for n in c["nodes"]):
            chk.nontrivial.add(json.dumps([c["nodes"], ini], sort_keys=True))
        stat["with_running"] += "running" in ini; stat["with_failed"] += "failed" in ini
        stat["with_canceled"] += "canceled" in ini; stat["with_not_started"] += "not started" in ini
        stat["all_finished"] += all(x in ("finished", "skipped") for x in ini)
        stat["killed_midway"] += c.get("killed_at", -1) >= 0
        stat["stopped_retry"] += "stop" in (r.get("ops") or [])
        st0 = r.get("st0") or []
        stat["reset_total"] += sum(1 for a, b in zip(ini, st0) if b == "not started" and a != "not started")
        stat["kept_total"] += sum(1 for a, b in zip(ini, st0) if a == b and a in ("finished", "skipped"))
        stat["nodes_total"] += len(ini); stat["hang"] += bool(r.get("hang"))
        for m in r.get("monitor") or []:
            if m.startswith("C10:"):
                sig = ":".join(m.split(":")[:3]) if m.split(":")[1] in ("order", "retry-does-not-terminate") else ":".join(m.split(":")[:2])
                sig = sig.split(":node=")[0]
                chk.violation(sig, m, {"case": dict(c, ops=r["ops"]), "verdict": m, "st0": st0, "snaps": (r["snaps"] or [])[-2:],
                                       "events": (r["events"] or [])[:200]})
    dis, rc_, derr = sched.batch_compare(cases, results)
    if rc_ != 0:
        chk.oblige("driver-run:sched", False, derr[-2000:])
    persistent = []
    chk.disagreements += max(0, len(dis) - 12)
    for c in dis[:12]:
        chk.disagreements += 1
        why = None
        for attempt in range(3):
            rr = sched.run_harness(binp, [c], workers=1, quiet_ms=12 + 10 * attempt)[c["id"]]
            if rr.get("crash"):
                why = "crash"; break
            why = sched.compare(c, rr)
            if why is None:
                break
        chk.disagreements_checked += 1
        if why is not None:
            persistent.append((c, why))
    for c, why in persistent[:3]:
        chk.oblige("correspondence:retry:%s" % c["id"], False, why + "\ncase=" + json.dumps(c))
    if not persistent:
        chk.oblige("correspondence:retry (reset vector and every quiescent snapshot of the retry run: model = implementation)", True)
    stat["persistent_disagreements"] = len(persistent)
    chk.stats = stat
    chk.samples = [{"init": c["init"], "st0": results[c["id"]].get("st0"), "final": (results[c["id"]]["snaps"] or [None])[-1]}
                   for c in cases[:3] if c["id"] in results]
    chk.rule = ("recorded vectors = PRNG quiescent snapshots (45%% final, else mid-run = killed) of real runs of random DAGs (1..%d steps; "
                "continueOn, retries, preconditions, limits, stop at a PRNG point); retried with fresh outcome scripts (70%% succeed), "
                "15%% with a stop during the retry; non-trivial = DAG has an edge and some step is not finished; distinct = distinct (DAG, vector)"
                % (8 if chk.tier == "quick" else 12))
    if not replay:
        # the same through the REAL `start` / `retry --req` commands (the look-up of the recorded run under the path of the command
        # line, the steps the retry uses after the file was edited), lib/x_retry_cmd.py; last and without PRNG
        x_retry_cmd.stream(chk, "C10")
