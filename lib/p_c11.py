"""C11 — parameters and step outputs reach the steps that use them, unchanged."""
import json, subprocess
import common

TIE = {"Params": ["h_params_parseParamValue", "h_params_stringifyParam", "h_params_parseParams", "h_params_buildParams",
                  "h_params_modelParams", "h_params_removeQuotes", "h_params_escapeArg", "h_params_clientStart",
                  "h_params_nodeExecute", "h_params_nodeSetupExec", "h_params_newCommand", "h_params_NewExecutionGraphForRetry"]}

RE_SPACE = " \t\n\f\r"
PIPE_CAP = 65536
SIZES = [0, 1, 4095, 4096, 4097, 65535, 65536, 65537, 100000]


def hx(s):
    return (s.encode() if isinstance(s, str) else s).hex()


def unhx(h):
    return bytes.fromhex(h)


# ------------------------------------------------------------------ the documented syntax, as Python reads it

def esc(v):
    return v.replace('"', '\\"')


def render_item(it):
    k = it[0]
    if k == "bare": return it[1]
    if k == "quoted": return '"' + esc(it[1]) + '"'
    if k == "named": return it[1] + "=" + it[2]
    return it[1] + '="' + esc(it[2]) + '"'


def render(items):
    return " ".join(render_item(i) for i in items)


def intended(items):
    """[(name or '', value)]"""
    out = []
    for it in items:
        if it[0] in ("bare", "quoted"): out.append(("", it[1]))
        else: out.append((it[1], it[2]))
    return out


def seen_positional(pairs):
    """$1..$n : the value of a positional parameter; NAME=value for a named one (documented)"""
    return [(v if n == "" else n + "=" + v) for n, v in pairs]


def eq_before_space(v):
    for ch in v:
        if ch == "=": return True
        if ch in RE_SPACE: return False
    return False


def py_remove_quotes(s):
    return s[1:-1] if len(s) > 1 and s[0] == '"' and s[-1] == '"' else s


def parse_class(items, cli_start=False):
    """class of the failing input for a mis-parsed parameter string (independent of the Lean model)"""
    p = render(items)
    if cli_start and py_remove_quotes(p) != p:
        return "start-string-begins-and-ends-with-quote"
    for it in items:
        if it[0] == "quoted" and eq_before_space(it[1]):
            return "unnamed-quoted-value-with-eq-before-space"
    for it in items:
        if it[0] in ("quoted", "namedQ") and it[-1].endswith('"'):
            return "quoted-value-ending-in-quote"       # F14a, repaired by e247fb2: must not come back
    return "other"


def retry_class(pairs, recorded=None):
    # the recorded text of an unnamed value `word=…` is indistinguishable from NAME=… (F14c; same shape as F14b)
    for n, v in pairs:
        if n == "" and eq_before_space(v): return "unnamed-value-with-eq-before-space"
    # what the retry / restart COMMAND does with the recorded string on its way to the loader is part of the comparison:
    # a recorded string that begins and ends with a double quote is the shape removeQuotes (meant for `start -p`) would touch
    if recorded is not None and py_remove_quotes(recorded) != recorded: return "recorded-string-begins-and-ends-with-quote"
    for n, v in pairs:
        if any(c in RE_SPACE for c in v): return "value-with-white-space"
    for n, v in pairs:
        if '"' in v: return "value-with-quote"
    for n, v in pairs:
        if v == "": return "empty-value"
    return "other"


WORD_CH = "abcxyzABZ019_-./:,@%+~#'\\é日\v"
NAMES = ["K", "K2", "NAME", "my_var", "Xy9", "P_1", "Va", "Vb7", "V_c"]
VAL_PIECES = ["a", "b c", " ", "  ", "\t", "\n", '"', '""', "=", "x=y", "k=v w", "\\", "\\\\", "'", "é", "日本", "🙂", "-", "a/b", ":", ",",
              "1", "--flag", "{}", "[1]", "*", "?", "!", "#", "%", "&", "|", ";", "<", ">", "(", ")", "~", "\\n", "\\\""]


def gen_word(rng, allow_eq):
    n = rng.randint(1, 6)
    alphabet = WORD_CH + ("=" if allow_eq else "")
    w = "".join(rng.choice(alphabet) for _ in range(n))
    if w[0] == "`": w = "w" + w
    return w


def gen_value(rng, risky):
    """any characters; cannot end with a backslash (not expressible in the syntax); no '`' / '$' (substitution syntax)"""
    k = rng.choice([0, 1, 1, 2, 3, 5])
    v = "".join(rng.choice(VAL_PIECES) for _ in range(k))
    if not risky:
        # stay inside the region where the code is known to be right, most of the time (F14b)
        if eq_before_space(v): v = " " + v
    while v.endswith("\\"): v = v[:-1]
    return v


def gen_items(rng, risky_p=0.35, maxn=5):
    items = []
    used = set()
    for _ in range(rng.randint(1, maxn)):
        k = rng.choice(["bare", "quoted", "named", "namedQ"])
        risky = rng.random() < risky_p
        if k == "bare": items.append(("bare", gen_word(rng, False)))
        elif k == "quoted": items.append(("quoted", gen_value(rng, risky)))
        else:
            free = [n for n in NAMES if n not in used]
            if not free: continue
            n = rng.choice(free); used.add(n)
            items.append(("named", n, gen_word(rng, True)) if k == "named" else ("namedQ", n, gen_value(rng, risky)))
    return items or [("bare", "w")]


RAW_ALPHA = ['"', '"', "\\", "=", " ", " ", "\t", "\n", "`", "a", "b", "K", "1", "é", "'", "\\\"", "\"\"", "=\"", " \"", "\" "]


def gen_raw(rng):
    return "".join(rng.choice(RAW_ALPHA) for _ in range(rng.randint(0, 14)))


# ------------------------------------------------------------------ captured outputs

OUT_PIECES = [b"word", b"two words", b" ", b"  ", b"\n", b"\n\n", b"\t", b"\r\n", b'"', b"'", b"=", b"a=b", b"==", b"$", b"$HOME", b"${X}", b"$(id)",
              b"\\", b"\\\\", b"\\n", b"\\\"", "é".encode(), "日本語".encode(), "🙂".encode(), b"`", b"`x`", b"%s", b"{}", b"*", b";", b"|", b"&", b"<>",
              b"\x01", b"\x7f", "\u00a0".encode(), b"0", b"-n", b"--"]
EDGE_WS = [b"", b"", b" ", b"\n", b"\n\n", b" \t\r\n", b"\x0b\x0c"]


def gen_out(rng, size, kind):
    """`size` bytes from the byte grammar (no NUL); kind 'utf8' or 'bytes' (adds invalid UTF-8)"""
    if size == 0: return b""
    lead, trail = rng.choice(EDGE_WS), rng.choice(EDGE_WS)
    if len(lead) + len(trail) >= size: lead, trail = b"", b""
    n = size - len(lead) - len(trail)
    body = bytearray()
    pieces = OUT_PIECES + ([b"\xff", b"\xc3", b"\xe6\x97", b"\xfe\xff"] if kind == "bytes" else [])
    while len(body) < n:
        body += rng.choice(pieces)
        if size > 5000 and rng.random() < 0.3:
            body += b"L%07d:" % len(body) + b"x" * rng.randint(0, 200)   # position marks keep big outputs distinguishable
    core = bytes(body)[:n]
    if kind == "utf8":
        core = core.decode("utf-8", errors="ignore").encode()           # a character cut in the middle is dropped
    core = core + b"x" * (n - len(core))
    # no non-ASCII white space at the very edges of the printed text (what "white space" means there is left open)
    nb = "\u00a0".encode()
    b = bytearray(lead + core + trail)
    ws = b" \t\n\r\x0b\x0c"
    while True:
        i = 0
        while i < len(b) and b[i] in ws: i += 1
        j = len(b)
        while j > i and b[j - 1] in ws: j -= 1
        if b[i:i + 2] == nb: b[i:i + 2] = b"xx"
        elif j - 2 >= i and b[j - 2:j] == nb: b[j - 2:j] = b"xx"
        else: break
    return bytes(b)


def out_class(out, err, timed_out):
    # the capture pipe holds 16 page buffers: 65536 bytes at best, a little less when the bytes arrive in unaligned writes
    if timed_out: return "output-fills-the-capture-pipe" if len(out) + len(err) > PIPE_CAP - 4096 else "other"
    if err: return "producer-also-writes-stderr"
    try:
        out.decode()
    except UnicodeDecodeError:
        return "invalid-utf8"
    return "other"


# ------------------------------------------------------------------ driver

def driver_params(strings):
    """strings: list of str (valid UTF-8) -> list of dicts from the Lean model"""
    din = "\n".join("q%d %s" % (i, hx(s) or "-") for i, s in enumerate(strings)) + "\n"
    rc, dout, derr = common.run_driver("params", din, timeout=600)
    if rc != 0:
        return None, derr
    res = []
    for l in dout.strip().split("\n"):
        f = l.split(" ")
        if len(f) != 8:
            res.append(None); continue

        def dec(h): return "" if h == "-" else unhx(h).decode()

        def decp(s):
            if s == "-": return []
            return [tuple(dec(x) for x in p.split(":")) for p in s.split(";")]
        res.append({"pairs": decp(f[1]), "joined": dec(f[2]), "repairs": decp(f[3]), "rq": dec(f[4]), "ea": dec(f[5]), "via": dec(f[6]),
                    "cap": dec(f[7])})
    return res, ""


def run_harness(binp, cases, timeout=3000):
    hin = "\n".join(json.dumps(c) for c in cases) + "\n"
    p = subprocess.run([binp], input=hin, stdout=subprocess.PIPE, stderr=subprocess.PIPE, text=True, timeout=timeout)
    if p.returncode != 0:
        return None, p.stderr[-2000:]
    out = {}
    for l in p.stdout.strip().split("\n"):
        if l.strip():
            r = json.loads(l); out[r.get("id")] = r
    return out, p.stderr[-2000:]


def hpairs(l):
    return [(unhx(a).decode(errors="replace"), unhx(b).decode(errors="replace")) for a, b in l]


# ------------------------------------------------------------------ the check

AFTER_PRODUCER_1 = ["run1.adjacent", "run1.distant", "run1.onfailure", "run1.onexit"]
RETRY_POS = ["run2.afterfail", "run2.onsuccess", "run2.onexit"]
ALL_POS_1 = ["run1.before"] + AFTER_PRODUCER_1
AFTER_PRODUCER_3 = ["run3.adjacent", "run3.distant", "run3.afterfail", "run3.onsuccess", "run3.onexit"]   # `restart`: a complete new run


KILLED_RETRY_POS = [("run2.afterblock", "environment-consumer"), ("run2.distant", "environment-consumer"), ("run2.onsuccess", "handler"),
                    ("run2.onexit", "handler")]
KILLED_RETRY_ARG = [("run2.afterblockarg", "command-line-consumer")]


def judge_killed(chk, c, r, rc, stats, model_cap, disagree):
    """the run was ended from outside (SIGKILL: no final record; SIGTERM: orderly stop) after the producer had been RECORDED finished,
       then retried with the real command: the producer is not run again, and every consumer / handler the retry runs sees the trimmed
       captured value.  Independent of the Lean model."""
    cid = c["id"]
    how = "killed" if c["kill"] == "KILL" else "stopped"
    outb = unhx(c["out"])
    exp_out = outb.strip()
    chk.nontrivial.add(("kill", c["kill"], c.get("killearly"), c["out"][:64], len(outb)))
    stats["dyn_%s_then_retried" % how] = stats.get("dyn_%s_then_retried" % how, 0) + 1
    if r.get("timeout"):
        chk.violation("C11:retry-of-a-%s-run-did-not-finish:%s" % (how, r.get("phase")),
                      "run %s after the producer was recorded finished, then `retry --req`: phase %s did not end within %d ms" %
                      (how, r.get("phase"), c["timeout"]), rc)
        return
    if r.get("find_err") or r.get("load2_err"):
        chk.violation("C11:run-not-possible", "%s run / its retry left no record: %s" % (how, r.get("find_err") or r.get("load2_err")), rc); return
    if r.get("record_carries_output"): stats["dyn_retried_record_carries_output"] = stats.get("dyn_retried_record_carries_output", 0) + 1
    if how == "killed" and r.get("run1_status") != "running":
        chk.oblige("harness-expectation:%s" % cid, False, "the killed run's last record says %r (a final record was written?)" % r.get("run1_status"))
    if r.get("producer_runs") != 1:
        # then nothing is restored from the record: the leg would not test what it is meant to
        chk.oblige("harness-expectation:%s" % cid, False, "producer executed %s times over run + retry (1 expected: it was recorded finished), statuses %s / %s" %
                   (r.get("producer_runs"), r.get("run1_nodes"), r.get("run2_nodes")))
    probes, argp = r.get("probes", {}), r.get("argprobes", {})
    key = hx(c.get("outname", "OUT"))
    # the first run, as far as it got (consumers before the blocker; the handlers of an orderly stop)
    run1 = ([("run1.first", True)] if not c.get("killearly") else []) + ([("run1.oncancel", False), ("run1.onexit", False)] if how == "stopped" else [])
    for pos, must in run1:
        pr = probes.get(pos)
        if pr is None:
            if must: chk.violation("C11:consumer-did-not-run:" + pos.split(".")[1], "no probe at %s (statuses %s)" % (pos, r.get("run1_nodes")), rc)
            continue
        got = None if pr.get(key) is None else unhx(pr[key])
        if got != exp_out:
            chk.violation("C11:output-wrong-in-run:other", "$OUT at %s is %r, the producer's trimmed stdout is %r" % (pos, got, exp_out[:80]), rc)
    if not c.get("killearly"):
        a = argp.get("run1.firstarg")
        if a is None or [unhx(x) for x in a] != [exp_out]:
            chk.violation("C11:output-wrong-in-run:other", "`command: … $OUT` at run1.firstarg received %r, the producer's trimmed stdout is %r" %
                          (a and [unhx(x)[:60] for x in a], exp_out[:80]), rc)
    # the retry
    what = "run %s (last record: %s, nodes %s; that record %s the variable) and retried" % (
        how, r.get("run1_status"), r.get("run1_nodes"), "carries" if r.get("record_carries_output") else "DOES NOT carry")
    for pos, kind in KILLED_RETRY_POS:
        pr = probes.get(pos)
        if pr is None:
            chk.violation("C11:consumer-did-not-run:" + pos.split(".")[1], "no probe at %s in the retry of a %s run (statuses %s / %s)" %
                          (pos, how, r.get("run1_nodes"), r.get("run2_nodes")), rc)
            continue
        got = None if pr.get(key) is None else unhx(pr[key])
        if got != exp_out:
            chk.violation("C11:output-lost-in-retry-of-a-%s-run:%s" % (how, kind),
                          "%s: $OUT at %s is %r (None = unset), the producer's trimmed stdout is %r; the producer ran %s time(s)" %
                          (what, pos, None if got is None else got[:80], exp_out[:80], r.get("producer_runs")), rc)
        elif model_cap is not None and got != model_cap.encode():
            disagree(cid, "restored-after-%s:%s" % (how, pos), got[:40], model_cap[:40], c)
    for pos, kind in KILLED_RETRY_ARG:
        a = argp.get(pos)
        if a is None:
            chk.violation("C11:consumer-did-not-run:" + pos.split(".")[1], "no probe at %s in the retry of a %s run (statuses %s / %s)" %
                          (pos, how, r.get("run1_nodes"), r.get("run2_nodes")), rc)
            continue
        got = [unhx(x) for x in a]
        if got != [exp_out]:
            chk.violation("C11:output-lost-in-retry-of-a-%s-run:%s" % (how, kind),
                          "%s: `command: … $OUT` at %s received %r, the producer's trimmed stdout is %r; the producer ran %s time(s)" %
                          (what, pos, [g[:80] for g in got], exp_out[:80], r.get("producer_runs")), rc)
    # parameters of the retried run (same recorded string as an ordinary retry)
    for pos in ("run2.afterblock", "run2.onexit"):
        pr = probes.get(pos)
        if pr is None: continue
        g1 = None if pr.get(hx("1")) is None else unhx(pr[hx("1")])
        gk = None if pr.get(hx("K")) is None else unhx(pr[hx("K")])
        if (g1, gk) != (b"p1", b"v"):
            chk.violation("C11:params-changed-on-retry:other", "retry of a %s run started with the defaults `p1 K=v`: at %s $1 = %r, $K = %r" % (how, pos, g1, gk), rc)


def run(chk, replay):
    if replay and "hist_case" in json.load(open(replay)).get("case", {}):
        import hist as _h
        _h.replay_big_record(chk, "C11", "retry and restart read the parameters and the captured outputs back from the recorded run", json.load(open(replay))["case"]["hist_case"]); return
    chk.trusted = common.TRUSTED_COMMON + [
        "Go's regexp engine: the parameter regex is replaced by a hand-written recogniser (Params.matchAt), validated differentially "
        "against regexp on every run (malformed strings included)",
        "strings.Trim / ReplaceAll / Join / TrimSpace re-implemented in Lean (validated differentially)"]
    chk.assumptions = [
        "parameter values hold no '`' and no '$' (command substitution / variable expansion syntax of the evaluating load path, not literal values)",
        "a quoted value cannot end with a backslash (not expressible: the syntax has no escape for '\\')",
        "captured outputs stay below 128 KiB (a single environment string of 131072 bytes makes every later exec fail with E2BIG)",
        "the capture pipe, os/exec and the kernel are not modelled: the pipe enters the model only through `stepEnds` (drained concurrently since 5e4d4e2)",
        "CR / LF inside start parameters are outside the documented syntax (F25, observation only)"]
    common.lean_obligations(chk, "BdModel/Props/C11.lean", TIE)
    import hist as _hist
    if not replay:
        _hist.big_record_leg(chk, "C11", "retry and restart read the parameters and the captured outputs back from the recorded run")
    binp, out = common.build_harness("params")
    if not binp:
        chk.oblige("harness-build:params", False, out[-3000:]); return
    chk.oblige("harness-build:params", True)
    rng = chk.rng
    quick = chk.tier == "quick"
    cases = []
    meta = {}
    if replay:
        c = json.load(open(replay))["case"]
        cases = [c["case"]]; meta[c["case"]["id"]] = c["meta"]
    else:
        k = 0
        # ---- static stream
        corpus = [[("quoted", "a b")], [("quoted", 'x"')], [("quoted", '"x"')], [("quoted", "a=b")], [("namedQ", "A", "a=b")], [("quoted", "")],
                  [("namedQ", "N", "")], [("bare", "x"), ("quoted", "y z"), ("named", "K", "v"), ("namedQ", "K2", "v w")],
                  [("quoted", 'say "hi" now')], [("named", "K", "b=c")], [("quoted", "x y=z")], [("quoted", "a\\b"), ("quoted", "c")], [("quoted", "|=")], [("quoted", "a b"), ("namedQ", "K", ""), ("quoted", 'q"q')]]
        n_items = 500 if quick else 5000
        for its in corpus + [gen_items(rng) for _ in range(n_items)]:
            p = render(its)
            cid = "s%d" % k; k += 1
            cases.append({"id": cid, "mode": "static", "p": hx(p), "evalok": True})
            meta[cid] = {"kind": "items", "items": its, "p": p}
        for _ in range(400 if quick else 6000):
            p = gen_raw(rng)
            cid = "s%d" % k; k += 1
            cases.append({"id": cid, "mode": "static", "p": hx(p), "evalok": False})
            meta[cid] = {"kind": "raw", "p": p}
        # ---- dynamic stream
        dyn = []
        base_items = [("bare", "x"), ("quoted", "y z"), ("named", "K", "v=1"), ("namedQ", "K2", 'v "w" =')]
        for i, size in enumerate(SIZES):
            dyn.append((base_items if i % 2 == 0 else [("bare", "p1"), ("named", "K", "v")], i % 3 == 1, gen_out(rng, size, "utf8"), b""))
        dyn.append(([("bare", "p1")], False, b"value", b"NOISE on stderr\n"))
        dyn.append(([("bare", "p1")], False, b" a=b=c \n", b""))
        # values with '=' (key=value text, base64 padding, leading '='): kept across a retry by a producer that is not re-run
        dyn.append(([("bare", "p1")], False, b"id=42;sig=c2ln==\n", b""))
        dyn.append(([("bare", "p1")], False, b"=lead==\n", b""))
        dyn.append(([("named", "K", "v")], True, b"k=v k2=\"v 2\" ==\n", b""))
        dyn.append(([("bare", "p1")], False, gen_out(rng, 300, "bytes"), b""))
        dyn.append(([("quoted", 'x"')], True, b"v", b""))
        dyn.append(([("quoted", "a=b")], False, b"v", b""))
        # recorded strings that begin and end with a double quote (first and last parameter quoted): whatever the retry / restart
        # command does to the recorded string before it reaches the loader is part of what is compared
        dyn.append(([("quoted", "hello world")], False, b"v", b"", {"restart": True}))
        dyn.append(([("quoted", "a b"), ("bare", "mid"), ("quoted", "c d")], False, b"v", b"", {"restart": True}))
        dyn.append(([("quoted", "")], False, b"v", b"", {}))
        dyn.append(([("quoted", "x y"), ("namedQ", "K", "v w")], True, b"v", b"", {"via": True, "restart": True}))
        # the producer's output NAME collides with (a) a named parameter, (b) a DAG-level env entry, (c) an earlier output of
        # another step: the captured value is what every later consumer sees (environment and command line), also in the retry
        dyn.append(([("bare", "p1"), ("named", "K", "paramvalue")], False, b"captured over a parameter\n", b"", {"outname": "K"}))
        dyn.append(([("namedQ", "K2", "param value")], True, b"captured = over a start parameter", b"", {"outname": "K2", "restart": True}))
        dyn.append(([("bare", "p1")], False, b"captured over a DAG env entry\n", b"", {"outname": "ENVX", "envs": [["ENVX", "dag level value"]]}))
        dyn.append(([("bare", "p1")], False, b" second capture under the name \n", b"", {"preout": True}))
        dyn.append(([("named", "K", "pv")], False, b"all three", b"", {"outname": "K", "envs": [["K", "dagenv"]], "preout": True, "pfails": 1}))
        n_dyn = 14 if quick else 160
        for _ in range(n_dyn):
            size = rng.choice([rng.randint(0, 40), rng.randint(0, 40), rng.randint(41, 3000), rng.randint(3000, 20000), rng.choice(SIZES[:7])])
            kind = "bytes" if rng.random() < 0.12 else "utf8"
            err = rng.choice([b"", b"", b"", b"", b"", b"warn\n"])
            dyn.append((gen_items(rng, risky_p=0.2, maxn=4), rng.random() < 0.5, gen_out(rng, size, kind), err))
        # producers that are executed more than once in the run: the first attempts print something else and fail; the value
        # is the trimmed stdout of the LAST attempt only
        multi = {}
        for j in (1, 2, len(SIZES) + 1, len(SIZES) + 4):
            if j < len(dyn): multi[j] = 1 + (j % 2)
        for j in range(len(dyn)):
            if j >= len(SIZES) + 8 and rng.random() < 0.25: multi[j] = rng.choice([1, 1, 2])
        for j, dj in enumerate(dyn):
            its, at_start, outb, errb = dj[:4]
            extra = dict(dj[4]) if len(dj) > 4 else {}
            if not extra and j >= len(SIZES) + 8:
                # random collisions / restart legs
                u = rng.random()
                named_here = [it[1] for it in its if it[0] in ("named", "namedQ")]
                if u < 0.12 and named_here: extra["outname"] = rng.choice(named_here)
                elif u < 0.22: extra.update(outname="ENVX", envs=[["ENVX", "dag level value"]])
                elif u < 0.30: extra["preout"] = True
                if rng.random() < 0.3: extra["restart"] = True
            p = render(its)
            cid = "d%d" % k; k += 1
            names = sorted({it[1] for it in its if it[0] in ("named", "namedQ")})
            outname = extra.get("outname", "OUT")
            want = [outname] + [str(i + 1) for i in range(len(its) + 1)] + [n for n in names if n != outname]
            c = {"id": cid, "mode": "dyn", "params": hx("dflt" if at_start else p), "start": hx(p) if at_start else "",
                 # through the API client only without CR / LF (F25: line breaks are outside the documented syntax there)
                 "via": bool(at_start and (extra.get("via") or rng.random() < 0.5) and "\n" not in p and "\r" not in p), "out": outb.hex(), "errout": errb.hex(),
                 "pfails": extra.get("pfails", multi.get(j, 0)), "want": [hx(w) for w in want], "outname": outname, "envs": extra.get("envs", []),
                 "preout": bool(extra.get("preout")), "restart": bool(extra.get("restart")), "timeout": 60000}
            cases.append(c)
            meta[cid] = {"kind": "dyn", "items": its, "p": p, "at_start": at_start}
        # ---- "killed run, then retry": producer -> [consumers] -> blocker -> consumers; the real `start` process is SIGKILLed from
        #      outside once the history RECORDS the producer as finished (no final record is ever written), its step processes too;
        #      then the real `retry --req`.  The retry reads the LAST WRITTEN record, whichever it is.  Control: the same with SIGTERM
        #      (an orderly stop; the final record is written).
        killed = [("KILL", False, b"  two words \"quoted\" 'single'  \n"),
                  ("KILL", True, b"id=42;sig=c2ln==\n"),
                  ("KILL", False, b"\n line one\n  line two = \"2\" \n\n"),
                  ("KILL", True, b" \n"),
                  ("TERM", False, b" a=b c \n")]
        for _ in range(0 if quick else 24):
            killed.append((rng.choice(["KILL", "KILL", "KILL", "TERM"]), rng.random() < 0.5, gen_out(rng, rng.choice([rng.randint(0, 40), rng.randint(41, 3000)]), "utf8")))
        for how, early, outb in killed:
            cid = "k%d" % k; k += 1
            cases.append({"id": cid, "mode": "dyn", "kill": how, "killearly": early, "params": hx("p1 K=v"), "start": "", "via": False, "out": outb.hex(),
                          "errout": "", "want": [hx("OUT"), hx("1"), hx("K")], "outname": "OUT", "timeout": 30000})
            meta[cid] = {"kind": "dynkill", "items": [("bare", "p1"), ("named", "K", "v")], "p": "p1 K=v", "at_start": False}
    res, err = run_harness(binp, cases)
    if res is None:
        chk.oblige("harness-run:params", False, err); return
    # timing-sensitive: a timeout of a small case is re-run alone before it counts
    for c in cases:
        r = res.get(c["id"])
        if c["mode"] == "dyn" and r is not None and r.get("timeout") and len(c["out"]) // 2 + len(c["errout"]) // 2 <= PIPE_CAP:
            r2, _ = run_harness(binp, [c])
            if r2 and c["id"] in r2: res[c["id"]] = r2[c["id"]]
    # ---- model answers
    strings = []
    sidx = {}
    for c in cases:
        m = meta[c["id"]]
        eff = m["p"]
        if c["mode"] == "dyn" and m.get("at_start") and not c.get("via"):
            eff = py_remove_quotes(eff)          # the -p argument typed on the command line goes through removeQuotes
            if eff == "": eff = "dflt"           # no start parameters: the DAG's defaults
        sidx[c["id"]] = len(strings); strings.append(eff)
        if c["mode"] == "dyn":
            try:
                merged = (unhx(c["out"]) + unhx(c["errout"])).decode()
            except UnicodeDecodeError:
                merged = None
            sidx[c["id"] + "/out"] = len(strings) if merged is not None else None
            if merged is not None: strings.append(merged)
    dres, derr = driver_params(strings)
    if dres is None:
        chk.oblige("driver-run:params", False, derr[-2000:]); return
    dis = 0
    stats = {"static_items": 0, "static_raw": 0, "dyn": 0, "dyn_timeouts": 0, "items_unsafe": 0, "yaml_skipped": 0, "out_sizes": [],
             "misparsed": 0, "changed_on_retry": 0}

    def disagree(cid, what, impl, model, c):
        nonlocal dis
        dis += 1; chk.disagreements += 1
        if dis <= 3:
            chk.oblige("correspondence:params:%s:%s" % (cid, what), False, "impl=%r model=%r case=%s" % (impl, model, json.dumps(c)[:600]))

    for c in cases:
        cid = c["id"]; m = meta[cid]; r = res.get(cid)
        chk.evaluations += 1
        rc = {"case": c, "meta": m}
        if r is None:
            chk.oblige("harness-answer:%s" % cid, False, "no answer"); continue
        if r.get("panic") or r.get("harness_err"):
            chk.violation("C11:panic", "panic / harness error: %s" % (r.get("panic") or r.get("harness_err")), rc); continue
        d = dres[sidx[cid]]
        if c["mode"] == "static":
            stats["static_" + m["kind"]] += 1
            impl_pairs = hpairs(r["pairs"])
            # ---------------- correspondence: model = code on every string
            if d is None: disagree(cid, "driver", None, None, c); continue
            if impl_pairs != d["pairs"]: disagree(cid, "pairs", impl_pairs, d["pairs"], c)
            if unhx(r["joined"]).decode() != d["joined"]: disagree(cid, "joined", r["joined"], d["joined"], c)
            if hpairs(r["repairs"]) != d["repairs"]: disagree(cid, "reparsed", hpairs(r["repairs"]), d["repairs"], c)
            for f in ("rq", "ea", "via"):
                if unhx(r[f]).decode() != d[f]: disagree(cid, f, r[f], d[f], c)
            if "yaml_params" in r:
                if [unhx(x).decode() for x in r["yaml_params"]] != seen_positional(d["pairs"]): disagree(cid, "yaml_params", r["yaml_params"], d["pairs"], c)
                if unhx(r["yaml_default"]).decode() != m["p"]: disagree(cid, "yaml_default", r["yaml_default"], m["p"], c)
            else:
                stats["yaml_skipped"] += 1
            if c["evalok"] and "load_params" in r:
                if [unhx(x).decode() for x in r["load_params"]] != seen_positional(d["pairs"]): disagree(cid, "load_params", r["load_params"], d["pairs"], c)
            if m["kind"] != "items": continue
            # ---------------- monitor: the property itself on the implementation's answers
            its = [tuple(i) for i in m["items"]]
            want = intended(its)
            chk.nontrivial.add(m["p"])
            if parse_class(its, True) != "other": stats["items_unsafe"] += 1
            ok_parse = impl_pairs == want
            if not ok_parse:
                stats["misparsed"] += 1
                chk.violation("C11:param-misparsed:" + parse_class(its),
                              "parameter string %r is read as %r instead of %r" % (m["p"], impl_pairs, want), rc)
            if c["evalok"] and "load_pos" in r and ok_parse:
                pos = [unhx(x).decode() for x in r["load_pos"]]
                if pos != seen_positional(want):
                    chk.violation("C11:positional-env-wrong", "$1..$n = %r for %r" % (pos, m["p"]), rc)
                for n, v in want:
                    if n and unhx(r["load_named"].get(hx(n), "")).decode() != v:
                        chk.violation("C11:named-env-wrong", "$%s = %r for %r" % (n, r["load_named"].get(hx(n)), m["p"]), rc)
            if ok_parse and hpairs(r["repairs"]) != impl_pairs:
                stats["changed_on_retry"] += 1
                chk.violation("C11:params-changed-on-retry:" + retry_class(want),
                              "run started with %r; restart/retry re-parse the recorded %r to %r" % (m["p"], unhx(r["joined"]).decode(), hpairs(r["repairs"])), rc)
            if ok_parse and hpairs(r["rq_pairs"]) != want:
                chk.violation("C11:param-misparsed:" + parse_class(its, True),
                              "`start -p` with the argument %r: removeQuotes hands %r to the loader, read as %r instead of %r" %
                              (m["p"], unhx(r["rq"]).decode(), hpairs(r["rq_pairs"]), want), rc)
            if "\r" not in m["p"] and "\n" not in m["p"] and unhx(r["via"]).decode() != m["p"]:
                chk.violation("C11:client-start-changes-params", "client wrapping + removeQuotes turn %r into %r" % (m["p"], r["via"]), rc)
            continue
        # ------------------------------------------------ dynamic case
        stats["dyn"] += 1
        if c.get("kill"):
            oi = sidx.get(cid + "/out")
            judge_killed(chk, c, r, rc, stats, dres[oi]["cap"] if oi is not None and dres[oi] is not None else None, disagree)
            continue
        if c.get("pfails"):
            stats["dyn_multi_attempt_producers"] = stats.get("dyn_multi_attempt_producers", 0) + 1
            if str(r.get("producer_attempts")) != str(c["pfails"] + 1) and not r.get("timeout"):
                chk.oblige("harness-expectation:%s" % cid, False, "producer ran %s times, %d expected" % (r.get("producer_attempts"), c["pfails"] + 1))
        outb, errb = unhx(c["out"]), unhx(c["errout"])
        stats["out_sizes"].append(len(outb))
        its = [tuple(i) for i in m["items"]]
        want = intended(its)
        chk.nontrivial.add((m["p"], c["out"][:64], len(outb), c["errout"]))
        ocl = out_class(outb, errb, bool(r.get("timeout")))
        if r.get("timeout"):
            stats["dyn_timeouts"] += 1
            chk.violation("C11:step-never-ends:" + ocl,
                          "producer printing %d+%d bytes with `output:` never finished (run killed after %d ms, phase %s)" %
                          (len(outb), len(errb), c["timeout"], r.get("phase")), rc)
            continue
        if r.get("load_err") or r.get("find_err") or r.get("load2_err") or r.get("load3_err"):
            chk.violation("C11:run-not-possible", "start/retry/restart left no record: %s" %
                          (r.get("load_err") or r.get("find_err") or r.get("load2_err") or r.get("load3_err")), rc); continue
        probes = r.get("probes", {})
        outname = c.get("outname", "OUT")
        legs = ["run1", "run2"] + (["run3"] if c.get("restart") else [])
        if c.get("outname", "OUT") != "OUT" or c.get("preout"): stats["dyn_name_collisions"] = stats.get("dyn_name_collisions", 0) + 1
        if c.get("restart"): stats["dyn_restart_legs"] = stats.get("dyn_restart_legs", 0) + 1
        rec1 = unhx(r.get("recorded_params", "")).decode(errors="replace")
        # correspondence on the recorded strings (run, retry, restart)
        if d is not None:
            if rec1 != d["joined"]: disagree(cid, "recorded", r.get("recorded_params"), d["joined"], c)
            if d["repairs"] == d["pairs"] and d["joined"] != "":
                # the model's round trip holds for this string: retry and restart record the same string again
                for key in ("recorded_params2",) + (("recorded_params3",) if c.get("restart") else ()):
                    if unhx(r.get(key, "")).decode(errors="replace") != d["joined"]: disagree(cid, key, r.get(key), d["joined"], c)
        oi = sidx.get(cid + "/out")
        if oi is not None and dres[oi] is not None:
            v = (probes.get("run1.adjacent") or {}).get(hx(outname))
            if v is None or unhx(v).decode(errors="replace") != dres[oi]["cap"]:
                disagree(cid, "captured", v and v[:80], dres[oi]["cap"][:40], c)
        # ---- monitor: captured output at every position after the producer, in the retry and in the restart — whatever else
        #      (parameter, DAG env entry, earlier output) carries the same name
        exp_out = outb.strip()

        def where_of(pos):
            # a restart is a complete new run as far as outputs go; as far as parameters go it re-uses recorded ones like a retry
            return {"run1": "run", "run2": "retry", "run3": "run"}[pos.split(".")[0]]
        for pos in AFTER_PRODUCER_1 + RETRY_POS + (AFTER_PRODUCER_3 if c.get("restart") else []):
            pr = probes.get(pos)
            if pr is None:
                chk.violation("C11:consumer-did-not-run:" + pos.split(".")[1], "no probe at %s (statuses %s / %s / %s)" %
                              (pos, r.get("run1_nodes"), r.get("run2_nodes"), r.get("run3_nodes")), rc)
                continue
            v = pr.get(hx(outname))
            got = None if v is None else unhx(v)
            if got != exp_out:
                chk.violation("C11:output-wrong-in-%s:%s" % (where_of(pos), ocl),
                              "$%s at %s is %r (%s bytes), the producer's trimmed stdout is %r (%d bytes)%s" %
                              (outname, pos, None if got is None else got[:60], "-" if got is None else len(got), exp_out[:60], len(exp_out),
                               "" if outname == "OUT" and not c.get("preout") else " [the name is also carried by: %s]" %
                               ", ".join(x for x, on in (("a named parameter", outname in [n for n, _ in want]), ("a DAG env entry", outname in [e[0] for e in c.get("envs", [])]),
                                                          ("an earlier step's output", bool(c.get("preout")))) if on)), rc)
        # ---- monitor: consumers whose `command:` names $OUT — blackdagger expands it itself from its process environment
        #      (run: set by Execute; retry: restored from the record by NewExecutionGraphForRetry)
        argp = r.get("argprobes", {})
        for pos in ["run1.adjacentarg", "run2.afterfailarg"] + (["run3.adjacentarg", "run3.afterfailarg"] if c.get("restart") else []):
            a = argp.get(pos)
            if a is None:
                chk.violation("C11:consumer-did-not-run:" + pos.split(".")[1], "no probe at %s (statuses %s / %s / %s)" %
                              (pos, r.get("run1_nodes"), r.get("run2_nodes"), r.get("run3_nodes")), rc)
                continue
            got = [unhx(x) for x in a]
            if got != [exp_out]:
                chk.violation("C11:output-wrong-in-%s:%s" % (where_of(pos), ocl),
                              "`command: … $%s` at %s received %r, the producer's trimmed stdout is %r (%d bytes)" %
                              (outname, pos, [g[:60] for g in got], exp_out[:60], len(exp_out)), rc)
            if oi is not None and dres[oi] is not None and got != [dres[oi]["cap"].encode()]:
                disagree(cid, "restored-arg:" + pos, [g[:40] for g in got], dres[oi]["cap"][:40], c)
        # ---- monitor: parameters at every position of the run, of the retry (real `retry` command) and of the restart
        posn = seen_positional(want)
        run1_ok = True
        for pos in ALL_POS_1 + RETRY_POS + (["run3.before"] + AFTER_PRODUCER_3 if c.get("restart") else []):
            pr = probes.get(pos)
            if pr is None: continue
            got_pos = [None if pr.get(hx(str(i + 1))) is None else unhx(pr[hx(str(i + 1))]).decode(errors="replace") for i in range(len(want))]
            # a named parameter whose name the producer's output takes over is judged before the producer only
            cmp_named = [(n, v) for n, v in want if n and (n != outname or pos.endswith(".before"))]
            got_named = {n: (None if pr.get(hx(n)) is None else unhx(pr[hx(n)]).decode(errors="replace")) for n, _ in cmp_named}
            bad = got_pos != posn or any(got_named[n] != v for n, v in cmp_named)
            if not bad: continue
            if pos.startswith("run1"):
                run1_ok = False
                chk.violation("C11:param-misparsed:" + parse_class(its, bool(m.get("at_start")) and not c.get("via")),
                              "run started with %r: at %s $1..$n = %r, named = %r" % (m["p"], pos, got_pos, got_named), rc)
            elif run1_ok:
                leg = "restart" if pos.startswith("run3") else "retry"
                chk.violation("C11:params-changed-on-retry:%s" % retry_class(want, rec1),
                              "%s of a run started with %r (recorded %r): at %s $1..$n = %r, named = %r" % (leg, m["p"], rec1, pos, got_pos, got_named), rc)
    chk.disagreements_checked = chk.disagreements
    if dis == 0:
        chk.oblige("correspondence:params (parseParamValue, Params join, re-parse, removeQuotes, escapeArg, DAG.Params by LoadYAML/Load, "
                   "recorded string, captured value: code = model on every case)", True)
    stats["out_sizes"] = sorted(set(stats["out_sizes"]))
    stats["cases"] = len(cases)
    chk.stats = stats
    chk.rule = ("static: item lists of the documented syntax (bare / \"quoted\" / NAME=value / NAME=\"quoted\"; values with spaces, tabs, newlines, "
                "quotes, '=', backslashes, UTF-8) + corpus of witnesses + random raw strings over {\" \\ = space tab newline ` letters} (malformed "
                "included); dynamic: the REAL commands `start`, `retry --req`, `restart` (package cmd, one process each) with real sh steps, 8 environment consumers + 2 command-line ($OUT expanded by blackdagger) consumers per run, output names colliding with a named parameter / a DAG env entry / an earlier output, producers retried inside the run, outputs from a byte grammar at sizes "
                "0,1,4095,4096,4097,65535,65536,65537,100000 + random; runs ended from outside once the producer is recorded finished (real `start` process SIGKILLed with its steps: no final "
                "record; SIGTERM as control), then the real `retry --req` — producer not re-run, re-run consumers (environment, command line, handlers) see the value; non-trivial = item-based string or dynamic case; distinct = distinct input")
    ss = [c for c in cases if c["mode"] == "static"][:2] + [c for c in cases if c["mode"] == "dyn"][:1]
    chk.samples = [{"case": {k: (v if len(str(v)) < 200 else str(v)[:200] + "…") for k, v in c.items()},
                    "answer": {k: v for k, v in (res.get(c["id"]) or {}).items() if k in ("pairs", "joined", "run1_status", "run2_status", "timeout")}}
                   for c in ss]
