"""C16 — at most one run of a DAG file is active at a time.

Real `blackdagger start` / `retry` processes under strace (socket system calls only); the recorded
interleaving of the two start-ups is replayed through the Lean model (`driver lock`) and the model's
verdict per agent is compared with what really happened; an independent monitor checks the property
clauses on the raw observations."""
import json, os, subprocess
import common

TIE = {"Lock": ["h_lock_agent_Run", "h_lock_agent_setup", "h_lock_agent_checkPreconditions",
                "h_lock_agent_checkIsAlreadyRunning", "h_lock_agent_setupDatabase", "h_lock_agent_setupSocketServer",
                "h_lock_agent_HandleHTTP", "h_lock_sock_NewServer", "h_lock_sock_Serve", "h_lock_sock_Shutdown",
                "h_lock_sock_Request", "h_lock_client_GetCurrentStatus", "h_lock_dag_SockAddr"]}

AG = {"A": 0, "B": 1, "C": 2}
# what a definition saved over the active run's file differs in, and the `name:` key of the definition the run started from
RESAVE_EDITS = [("name-added", ""), ("other-name", "nightly"), ("name-removed", "nightly"), ("other-description", "nightly"),
                ("step-added", ""), ("other-params", ""), ("other-logdir", "nightly")]
SIG_BOTH = "C16:simultaneous-starts-both-run"
SIG_LOSER = "C16:simultaneous-starts-refused-start-recorded-a-run"
SIG_LATE = "C16:endpoint-removed-by-finishing-run-next-start-not-refused"


def agents_of(r):
    return [a for a in ("A", "B", "C") if a in r["exit"]]


def run_driver_retry(mode, text, timeout=600):
    """the driver binary is re-linked by concurrent builds of other checks: wait for it instead of failing"""
    import time
    last = None
    for _ in range(60):
        try:
            return common.run_driver(mode, text, timeout=timeout)
        except OSError as e:      # missing / text file busy while `lake build driver` runs elsewhere
            last = e
            time.sleep(1)
    raise last


def gen_cases(chk, binp):
    rng, quick = chk.rng, chk.tier == "quick"
    cases = []

    def add(**kw):
        c = dict(id="l%d" % len(cases), bin=binp, kind="start", phase="steps", atStep=1, delayUs=0, nsteps=3,
                 stepMs=120, handMs=150, injectA="", injectB="", bStepMs=0, thirdAfterMs=0, retention=-1, backdateH=0, bVia="", resave="", freezeMs=0,
                 resaveEdit="", nameBefore="")
        c.update(kw)
        cases.append(c)

    # the interleaving that made both run before fix 5f302ab (both probes before either bind; A binds first, B unlinks
    # A's socket and binds), forced with the same strace delays: now the lock refuses the later one
    add(phase="together", nsteps=2, injectA="connect:delay_exit=150000:when=1", injectB="connect:delay_exit=450000:when=1", tag="witness")
    # an active run whose current step has been quiet for longer than the DAG's history retention (its history file's
    # mtime is backdated, together with everything else in the DAG's data directory), then a second start / retry:
    # the refused command must not trim the history. histRetentionDays 0 = the loader's default (30 days).
    for kind, combos in (("start", [(1, 25), (0, 31 * 24), (0, 25), (1, 49), (2, 25)]), ("retry", [(1, 25), (0, 31 * 24)])):
        for ret, hours in combos * (1 if quick else 3):
            add(kind=kind, phase="steps", nsteps=2, atStep=2, stepMs=400, handMs=30, delayUs=rng.randint(20000, 90000),
                retention=ret, backdateH=hours, tag="quiet-longer-than-retention")
    # the SAME file under another spelling of its path (another socket name, another history directory; same inode):
    # second start / retry through a symlinked DAGs directory, a symlink to the file, a hard link to the file
    for via in ("dirlink", "filelink", "hardlink"):
        for kind in ("start", "retry"):
            for _ in range(1 if quick else 3):
                ns = 2
                add(kind=kind, phase="steps", nsteps=ns, atStep=rng.randint(1, ns), stepMs=200, handMs=60, delayUs=rng.randint(0, 120000),
                    bVia=via, tag="other-spelling")
        add(kind="start", phase="handler", nsteps=2, stepMs=40, handMs=200, delayUs=rng.randint(0, 100000), bVia=via, tag="other-spelling")
    # ... after the first run has released the lock and is closing its listener: through another spelling the second
    # start's probe looks at ANOTHER socket and passes; the first run executes nothing any more (C16_lock_exclusive)
    add(kind="start", phase="shutdown", nsteps=2, stepMs=30, handMs=40, delayUs=rng.randint(0, 60000),
        injectA="unlinkat:delay_enter=300000", bVia="dirlink", tag="other-spelling-closing")
    # the DAG file is saved again while the first run is active (a new file renamed over the old one: plain rename, or the
    # real dag store's UpdateSpec): the path names a NEW inode, the first run's flock no longer collides with later starts,
    # only the socket probe is left. First run (i) responsive, (ii) stopped with SIGSTOP for the second command's whole
    # life (the probe connects and gets no answer within its 3 s deadline: that must refuse as well)
    for resave, kind in (("rename", "start"), ("updatespec", "retry"), ("updatespec", "start"), ("rename", "retry")) * (1 if quick else 3):
        ns = 2
        add(kind=kind, phase="steps", nsteps=ns, atStep=rng.randint(1, ns), stepMs=250, handMs=60, delayUs=rng.randint(0, 120000),
            resave=resave, tag="resaved")
    for resave, kind in (("rename", "start"), ("updatespec", "retry")) + ((("updatespec", "start"), ("rename", "retry")) if not quick else ()):
        add(kind=kind, phase="steps", nsteps=2, atStep=rng.randint(1, 2), stepMs=250, handMs=60, delayUs=rng.randint(0, 120000),
            resave=resave, freezeMs=15000, tag="resaved-frozen")
    # the lock holder held between taking the lock and its probe
    for _ in range(2):
        add(phase="prelisten", nsteps=2, delayUs=rng.randint(20000, 120000), injectA="flock:delay_exit=%d:when=1" % rng.randint(150000, 300000), tag="lock-window")
    mult = 1 if quick else 8
    for kind, n_steps, n_hand, n_pre in (("start", 7, 7, 8), ("retry", 4, 4, 4)):
        for _ in range(n_steps * mult):
            ns = rng.randint(2, 3)
            add(kind=kind, phase="steps", nsteps=ns, atStep=rng.randint(1, ns), delayUs=rng.randint(0, 110000))
        for _ in range(n_hand * mult):
            # instants from the handler's start to past the shutdown of the first run
            hm = rng.choice([60, 120, 200])
            add(kind=kind, phase="handler", nsteps=2, stepMs=40, handMs=hm, delayUs=rng.randint(0, hm * 1000 + 60000))
        for _ in range(n_pre * mult):
            add(kind=kind, phase="prelisten", nsteps=2, delayUs=rng.randint(0, 70000))
        add(kind=kind, phase="after", nsteps=2, stepMs=30, handMs=30)
    # the first run held inside listener.Close (its endpoint still answers): second start during shutdown
    for _ in range(3 * mult):
        # (every unlinkat of the first process is delayed: strace counts `when=` per thread, which Go does not fix)
        add(kind=rng.choice(["start", "retry"]), phase="shutdown", nsteps=2, stepMs=30, handMs=40, delayUs=rng.randint(0, 120000),
            injectA="unlinkat:delay_enter=300000", tag="shutdown")
    # the first run held between bind and listen: a probe in that window is refused by the kernel, not by the agent
    for _ in range(1 * mult):
        add(phase="prelisten", nsteps=2, delayUs=rng.randint(90000, 130000), injectA="bind:delay_exit=350000:when=1", tag="bind-listen-window")
    # the scenario of F20c (before fix 8270caf the finishing run's deferred os.Remove, held back, deleted the NEXT run's
    # socket and a third start ran too): finishing run with all unlinkats delayed, next run, third start
    for _ in range(2 * mult):
        add(phase="closed", nsteps=2, stepMs=30, handMs=30, delayUs=rng.randint(0, 20000), injectA="unlinkat:delay_enter=400000",
            bStepMs=rng.choice([500, 600]), thirdAfterMs=rng.randint(650, 800), tag="late-remove")
    # two starts at the same instant, nothing injected
    for _ in range(10 * mult):
        add(phase="together", nsteps=2, stepMs=100, handMs=50, tag="natural")
    if not quick:
        for _ in range(6):
            # first process held between its unlink and its bind: the second binds in between => bind fails after history
            add(phase="together", nsteps=2, injectA="unlinkat:delay_exit=300000:when=1", tag="bind-race")
            add(phase="together", nsteps=2, injectA="bind:delay_enter=300000:when=1", tag="bind-delay")
            add(phase="together", nsteps=2, injectA="connect:delay_exit=%d:when=1" % rng.randint(50000, 250000),
                injectB="connect:delay_exit=%d:when=1" % rng.randint(50000, 450000), tag="window")
    # the file saved again while the first run is active (as `resaved` above; generated last, so that the cases above keep
    # their ids and instants), with a definition that DIFFERS from the one the run was started from: in its `name:`
    # key (had none -> gets one; had one -> another; had one -> none), or in keys that have nothing to do with which file
    # it is (description, one more step, params, logDir). The file is the same file at the same location: the second
    # start / retry must be refused all the same, and `status <file>` / the API's status query of the re-saved file must
    # still reach the first run. (The second command's own steps are short - bStepMs -: were it NOT refused, it would be
    # over while the first run is still in its first step, so "a run was active during its whole life" stays decidable.)
    four = (("start", "updatespec"), ("retry", "rename"), ("start", "rename"), ("retry", "updatespec"))
    for i, (edit, before) in enumerate(RESAVE_EDITS):
        if not quick:
            combos = four * 2
        elif "name" in edit:
            combos = four[:3] if edit == "other-name" else four[:2]
        else:
            combos = (four[i % 4],)
        for kind, resave in combos:
            add(kind=kind, phase="steps", nsteps=2, atStep=1, stepMs=450, handMs=60, delayUs=rng.randint(0, 100000), bStepMs=20,
                resave=resave, resaveEdit=edit, nameBefore=before, tag="resaved-edited")
    # ... and with a BIG DAG (>= 250 steps: the status document the first run's endpoint answers the probe with is well over
    # 64 KiB, in the second case over 256 KiB): the size of the definition has nothing to do with whether the file is running.
    # The filler steps (`true`, no markers) depend on the last marked step. Generated last (ids / instants of the cases above).
    for kind, extra, pad in (("start", rng.randint(250, 300), 0), ("retry", rng.randint(250, 280), 300)) * (1 if quick else 3):
        add(kind=kind, phase="steps", nsteps=2, atStep=1, stepMs=450, handMs=60, delayUs=rng.randint(0, 100000), bStepMs=20,
            resave="rename", bigExtra=extra, bigPad=pad, tag="resaved-big-dag")
    return cases


def markers_of(r):
    out = []
    for m in r["markers"]:
        f = m.split()
        if len(f) >= 4:
            out.append({"step": f[0], "what": f[1], "ag": f[2], "t": float(f[3]), "req": f[4] if len(f) > 4 else ""})
    return out


def attribute_hist(c, r):
    """history records per agent: via the request id the steps saw; left-overs go to the agent that ran no step"""
    ms = markers_of(r)
    req2ag = {m["req"]: m["ag"] for m in ms if m["req"]}
    per = {"A": [], "B": [], "C": [], "R": [], "?": []}
    for h in r["hist"]:
        if h["req"] == r.get("r0") and r.get("r0"):
            per["R"].append(h)
        elif h["req"] in req2ag:
            per[req2ag[h["req"]]].append(h)
        else:
            per["?"].append(h)
    silent = [a for a in agents_of(r) if not any(m["ag"] == a for m in ms)]
    if per["?"] and len(silent) == 1:
        per[silent[0]] += per["?"]; per["?"] = []
    return per


def eff_t(c, e):
    """time at which a recorded call took effect: a call held back on ENTRY by strace acts at its exit time"""
    inj = c.get("inject" + e["ag"], "")
    if "delay_enter" in inj and inj.split(":")[0] == e["ev"] and e.get("te"):
        return e["te"]
    return e["t"]


def timed_out(r, ag):
    """the probe connected, got no answer, and the process gave up (non-zero exit, socket path never touched)"""
    evs = [e for e in r["events"] if e["ag"] == ag]
    return (any(e["ev"] == "connect" and e["res"] == "0" for e in evs) and not any(e["ev"] == "response" for e in evs)
            and not any(e["ev"] in ("unlinkat", "bind") for e in evs) and r["exit"].get(ag, 0) != 0)


def abstract_trace(c, r):
    """(agent, action, time) list derived from the recorded system calls and step markers"""
    acts = []
    for ag in agents_of(r):
        evs = [e for e in r["events"] if e["ag"] == ag]
        unl = 0
        listened = False
        started = False        # setup / precond / lock already placed
        lockfail = any(e["ev"] == "flock" and e["res"] != "0" for e in evs)
        # (a probe that times out against a listening endpoint refuses like an answered one)
        answered = any(e["ev"] == "response" for e in evs) or timed_out(r, ag)
        bindfail = any(e["ev"] == "bind" and e["res"] != "0" for e in evs)
        unlocked = False
        for i, e in enumerate(evs):
            t = eff_t(c, e)
            if e["ev"] == "response":
                continue
            if e["ev"] == "histunlink":
                # a history file removed by a process that ends up refused: a history operation the model does not allow there
                if unl == 0 and (lockfail or answered) and e["res"] == "0":
                    acts.append((t, ag, "removeOld"))
                continue
            if e["ev"] == "flock":
                acts += [(t, ag, "setup1"), (t, ag, "precond1"), (t, ag, "lock")]
                started = True
            elif e["ev"] == "connect":
                # the probe's verdict is fixed when it completes: at the answer, at the failing connect, or - connected
                # but never answered (the listener was closing) - when the connection was dropped
                nxt = evs[i + 1] if i + 1 < len(evs) else None
                if e["res"] == "0" and nxt is not None:
                    t = eff_t(c, nxt) if nxt["ev"] == "response" else eff_t(c, nxt) - 1e-6
                if not started:      # the DAG file could not be opened: no flock call
                    acts += [(t, ag, "setup1"), (t, ag, "precond1"), (t, ag, "lock")]
                    started = True
                acts.append((t, ag, "probe"))
            elif e["ev"] == "unlock":
                # (a refused process closes the descriptor on its way out: part of the refusal in the model)
                if lockfail or answered:
                    continue
                unlocked = True
                if bindfail:
                    acts += [(t, ag, "unlock"), (t + 1e-7, ag, "histClose")]
                else:
                    acts += [(t, ag, "finalWrite"), (t, ag, "unlock")]
            elif e["ev"] == "unlinkat":
                unl += 1
                if unl == 1:
                    acts += [(t, ag, x) for x in ("removeOld", "histOpen", "histWrite", "unlink")]
                elif unl == 2:
                    if not unlocked:
                        acts += [(t, ag, "finalWrite"), (t, ag, "unlock")]
                    acts.append((t, ag, "shutClose"))
                else:
                    acts.append((t, ag, "unexpected-unlink"))      # fix 8270caf: there is no further removal
            elif e["ev"] == "bind":
                acts.append((t, ag, "bind"))
                if e["res"] != "0" and not any(x["ev"] == "unlock" for x in evs):
                    acts += [(t + 1e-7, ag, "unlock"), (t + 2e-7, ag, "histClose")]
            elif e["ev"] == "listen":
                listened = True
                acts.append((t, ag, "listen"))
        for m in markers_of(r):
            if m["ag"] == ag and m["what"] == "start":
                acts.append((m["t"], ag, "handler" if m["step"] == "hx" else "execStep"))
        if listened and unl >= 2:
            acts.append((float("inf"), ag, "histClose"))
    acts.sort(key=lambda x: x[0])
    return acts


def can_open(r, ag):
    """did the process take (or try to take) the lock, i.e. could it open the DAG file?"""
    evs = [e for e in r["events"] if e["ag"] == ag]
    return 1 if (not evs or any(e["ev"] == "flock" for e in evs)) else 0


def driver_line(c, r):
    acts = abstract_trace(c, r)
    bsteps = 1 if c["kind"] == "retry" else c["nsteps"]
    # lock key (file identity): 0, but 1 for a second command that opens the path after it was saved again (new inode);
    # socket name: 0 for the plain path, 1 for the other spelling
    cfg = "0,0,%d,1,%d,0;%d,0,%d,1,%d,%d" % (c["nsteps"], can_open(r, "A"), 1 if (c.get("resave") and r.get("inodeChanged")) else 0,
                                           bsteps, can_open(r, "B"), 1 if c.get("bVia") else 0)
    if "C" in r["exit"]:
        cfg += ";0,0,%d,1,%d,0" % (c["nsteps"], can_open(r, "C"))
    return "%s agents %s tr %s" % (c["id"], cfg, " ".join("%d:%s" % (AG[a], x) for _, a, x in acts)), acts


def parse_driver(line):
    parts = [p.strip() for p in line.split("|")]
    head = parts[0].split()
    res = {"id": head[0], "st": head[1], "ag": {}, "ns": parts[-1]}
    for p in parts[1:-1]:
        f = p.split()
        res["ag"][f[0]] = dict(kv.split("=") for kv in f[1:])
    return res


def observed_verdict(c, r, ag):
    ms = [m for m in markers_of(r) if m["ag"] == ag and m["what"] == "start"]
    per = attribute_hist(c, r)
    evs = [e for e in r["events"] if e["ag"] == ag]
    answered = any(e["ev"] == "response" for e in evs)
    lockfail = any(e["ev"] == "flock" and e["res"] != "0" for e in evs)
    bindfail = any(e["ev"] == "bind" and e["res"] != "0" for e in evs)
    if answered or lockfail or timed_out(r, ag):
        cls = "refused"
    elif bindfail:
        cls = "bindFailed"
    elif r["exit"][ag] == 0:
        cls = "done"
    else:
        cls = "exit%d" % r["exit"][ag]
    return {"cls": cls, "ex": sum(1 for m in ms if m["step"] != "hx"), "hx": sum(1 for m in ms if m["step"] == "hx"),
            "recorded": len(per[ag]) > 0}


def interval(r, ag):
    ms = [m for m in markers_of(r) if m["ag"] == ag]
    return (min(m["t"] for m in ms), max(m["t"] for m in ms)) if ms else None


def monitor(chk, c, r):
    """the property clauses on the raw observations (no model involved); returns list of (signature, what)"""
    out = []
    per = attribute_hist(c, r)
    kind = c["kind"]
    for x, o in (("B", "A"), ("A", "B")) + ((("C", "B"),) if "C" in r["exit"] else ()):
        evs = [e for e in r["events"] if e["ag"] == x]
        # the probe received the endpoint's answer, or the lock on the DAG file was held by another process
        answered = any(e["ev"] == "response" for e in evs) or any(e["ev"] == "flock" and e["res"] != "0" for e in evs)
        # the first run's endpoint answered the harness both before the second command was launched and after
        # it had exited: a run was active during the second command's whole life
        oclose0 = [eff_t(c, e) for e in r["events"] if e["ag"] == o and e["ev"] == "unlinkat"][1:2]
        active_throughout = x == "B" and c["phase"] in ("steps", "handler", "shutdown") and r["ansBeforeB"] and (
            r["ansAfterB"] or (bool(oclose0) and r.get("bExitT", 0) > 0 and oclose0[0] > r["bExitT"] + 0.01))
        if not (answered or active_throughout):
            continue
        k = kind if x == "B" else "start"
        xm = [m for m in markers_of(r) if m["ag"] == x]
        if r["exit"][x] == 0:
            out.append(("C16:active-run-second-%s-not-refused" % k, "a %s issued while a run was active exited 0" % k))
        if xm:
            out.append(("C16:active-run-second-%s-executed" % k, "a refused %s executed %s" % (k, sorted({m['step'] for m in xm}))))
        if per[x] or per["?"]:
            out.append(("C16:active-run-second-%s-recorded-a-run" % k, "a refused %s left a history record" % k))
        if any(e["ev"] in ("unlinkat", "bind") for e in evs):
            out.append(("C16:active-run-second-%s-touched-socket" % k, "a refused %s unlinked / bound the socket path" % k))
        if x == "B":
            # the history store is as it was: no file of the active (or an earlier) run removed, every run still found by the real store
            norm = lambda f: f.replace("_c.dat", ".dat")
            gone = sorted({norm(f) for f in r.get("histBeforeB") or []} - {norm(f) for f in r.get("histAfterB") or []})
            lost = sorted(q for q, ok in (r.get("storeByReq") or {}).items() if not ok)
            passed = any(e["ev"] == "bind" for e in evs)    # (a command that wrongly ran compacts its OWN file at the end)
            if gone or lost or (not passed and any(e["ev"] == "histunlink" and e["res"] == "0" for e in evs)):
                out.append(("C16:active-run-second-%s-removed-history" % k,
                            "a refused %s removed history files %s (retention %s, files last written %sh ago); runs no longer found by the store: %s" % (
                                k, gone, c.get("retention"), c.get("backdateH"), lost)))
        # the active run is left undisturbed
        oh = per[o]
        # (only judged when the first run's endpoint was certainly still open when the harness probed it)
        oclose = [e for e in r["events"] if e["ag"] == o and e["ev"] == "unlinkat"][1:2]
        olisten = [eff_t(c, e) for e in r["events"] if e["ag"] == o and e["ev"] == "listen"]
        still_open = bool(oclose) and bool(olisten) and olisten[0] + 0.01 < r.get("ansT", 0) < oclose[0]["t"] - 0.01
        if x == "B" and r["aAliveAfter"] and still_open:
            if not r["ansAfterB"]:
                out.append(("C16:active-run-endpoint-lost", "the first run's status endpoint stopped answering after a refused %s" % k))
            elif oh and r["ansPidAfter"] != oh[0]["pid"]:
                out.append(("C16:active-run-endpoint-lost", "the status endpoint answers for another process after a refused %s" % k))
            # (the later queries - `status` command, file address, API - count only if the endpoint was certainly still open
            #  when the last of them had returned)
            later_ok = not r.get("queriesT") or r["queriesT"] < oclose[0]["t"] - 0.01
            if r.get("statusCmd") not in ("", "running") and later_ok:
                out.append(("C16:active-run-endpoint-lost", "`blackdagger status` says %s while the first run is alive" % r["statusCmd"]))
            if c.get("resave") and "apiStatus" in r and r["ansAfterB"] and later_ok:
                # ... FOR THAT FILE: the endpoint at the address derived from the definition as it is saved now, and the API's
                # status query of the freshly loaded definition, still reach the first run
                if not r["ansFileAfter"] or (oh and r["ansFilePid"] != oh[0]["pid"]):
                    out.append(("C16:active-run-endpoint-lost", "the first run (listening on %s, answering there) is not reached at the status "
                                "endpoint of its file as saved now (%s) after a refused %s" % (r["sock"], r["sockFile"], k)))
                if r["apiStatus"] != "running" or (oh and r["apiPid"] != oh[0]["pid"]):
                    out.append(("C16:active-run-endpoint-lost", "client.GetCurrentStatus of the re-saved file says %s (pid %s) while the first run "
                                "(pid %s) is alive and answering" % (r["apiStatus"], r["apiPid"], oh[0]["pid"] if oh else "?")))
        om = [(m["step"], m["what"]) for m in markers_of(r) if m["ag"] == o]
        osteps = ["s%d" % c["nsteps"]] if (o == "B" and kind == "retry") else ["s%d" % i for i in range(1, c["nsteps"] + 1)]
        want = [(s, w) for s in osteps + ["hx"] for w in ("start", "end")]
        if r["exit"][o] != 0 or om != want:
            out.append(("C16:active-run-disturbed", "the first run did not execute each step and handler exactly once (exit %d, %s)" % (r["exit"][o], om)))
        # (the overall label of the last record is C08's subject: a stale status written by the agent's own node-done
        #  goroutine after the final one reads "running" although every node finished - seen ~1 in 200 runs under load,
        #  with or without a second start; counted in the evidence as stale_final_status, not judged here)
        if len(oh) != 1 or oh[0]["status"] not in (4, 1) or any(n != 4 for n in oh[0]["nodes"]) or len(oh[0]["nodes"]) != c["nsteps"] + c.get("bigExtra", 0) or oh[0]["onExit"] != 4:
            out.append(("C16:active-run-history-damaged", "the first run's final history is not one record with all steps and the handler succeeded: %s" % oh))
    # never two runs of the file executing steps at the same time
    ags = agents_of(r)
    for i, x in enumerate(ags):
        for y in ags[i + 1:]:
            ix, iy = interval(r, x), interval(r, y)
            if not (ix and iy and ix[0] < iy[1] and iy[0] < ix[1]):
                continue
            first, second = (x, y) if ix[0] <= iy[0] else (y, x)
            fl = [eff_t(c, e) for e in r["events"] if e["ag"] == first and e["ev"] == "listen"]
            sp = [e["t"] for e in r["events"] if e["ag"] == second and e["ev"] == "connect"]
            # was the first one's socket file, already listening, deleted by a THIRD process before the second probed?
            thief = [e for e in r["events"] if e["ev"] == "unlinkat" and e["ag"] not in (first, second) and e["res"] == "0"
                     and fl and sp and fl[0] < eff_t(c, e) < sp[0]]
            what = "%s and %s executed steps at the same time (%s %.3f..%.3f, %s %.3f..%.3f)" % ((x, y, x) + ix + (y,) + iy)
            if thief:
                out.append((SIG_LATE, what + "; %s's listening socket was unlinked by the finishing run %s, so %s's probe found nothing" % (
                    first, thief[0]["ag"], second)))
            else:
                out.append((SIG_BOTH, what))
    for x in ags:
        if r["exit"][x] != 0 and not any(m["ag"] == x for m in markers_of(r)) and per[x]:
            out.append((SIG_LOSER, "%s was refused (exit %d, executed nothing) but left a history record %s" % (x, r["exit"][x], per[x])))
    return out


def probe_position(c, r, x="B", o="A"):
    """where x's first move (taking the lock, else its probe) fell in o's life, and how x was stopped"""
    xe = [e for e in r["events"] if e["ag"] == x]
    fl = [e for e in xe if e["ev"] == "flock"]
    pc = [e for e in xe if e["ev"] == "connect"]
    if not fl and not pc:
        return "no-move"
    t = (fl or pc)[0]["t"]
    if fl and fl[0]["res"] != "0":
        how = "refused-by-lock"
    elif any(e["ev"] == "response" for e in xe):
        how = "refused-by-probe"
    elif timed_out(r, x):
        how = "refused-by-probe-timeout"
    elif any(e["ev"] == "connect" and e["res"] == "0" for e in xe):
        how = "connected-never-answered(listener closing)"
    else:
        how = "passed"
    oe = [e for e in r["events"] if e["ag"] == o]
    def first(ev, n=1):
        l = [eff_t(c, e) for e in oe if e["ev"] == ev]
        return l[n - 1] if len(l) >= n else None
    of, oc, ob, ol, ou, osd = first("flock"), first("connect"), first("bind"), first("listen"), first("unlock"), first("unlinkat", 2)
    o0 = of if of is not None else oc
    if o0 is None or t < o0: where = "before-first-lock"
    elif oc is None or t < oc: where = "window:lock..probe"
    elif ob is None or t < ob: where = "window:probe..bind"
    elif ol is None or t < ol: where = "window:bind..listen"
    elif ou is None or t < ou:
        ms = [m for m in markers_of(r) if m["ag"] == o]
        hs = [m["t"] for m in ms if m["step"] == "hx" and m["what"] == "start"]
        he = [m["t"] for m in ms if m["step"] == "hx" and m["what"] == "end"]
        ss = [m["t"] for m in ms if m["step"] != "hx" and m["what"] == "start"]
        if he and t > he[0]: where = "listening:after-handlers(final write)"
        elif hs and t > hs[0]: where = "listening:handler"
        elif ss and t > ss[0]: where = "listening:steps"
        else: where = "listening:before-first-step"
    elif osd is None or t < osd: where = "unlocked,endpoint-still-up"
    else: where = "after-endpoint-closed"
    return where + " -> " + how


def _norm(r):
    """lists that the harness leaves null when empty"""
    for k in ("events", "markers", "hist", "histBeforeB", "histAfterB", "storeReqs"):
        if r.get(k) is None:
            r[k] = []
    return r


def run_harness(binh, cases, par=None):
    env = dict(os.environ)
    if par:
        env["VERIF_LOCK_PAR"] = str(par)
    p = subprocess.run([binh], input="\n".join(json.dumps(c) for c in cases) + "\n", stdout=subprocess.PIPE,
                       stderr=subprocess.PIPE, text=True, timeout=3000, env=env)
    if p.returncode != 0:
        raise RuntimeError("lock harness failed: " + p.stderr[-2000:])
    return [_norm(json.loads(l)) for l in p.stdout.strip().split("\n")]


def correspond(c, r):
    """model verdict for the recorded interleaving vs what happened; returns (ok, detail)"""
    line, acts = driver_line(c, r)
    rc, dout, derr = run_driver_retry("lock", line + "\n")
    if rc != 0:
        return False, "driver failed: " + derr[-500:], None
    d = parse_driver(dout.strip())
    bad = []
    if d["st"] != "ok":
        k = int(d["st"].split("@")[1])
        bad.append("the model does not allow recorded action #%d %s:%s" % (k, acts[k][1], acts[k][2]))
    for ag in agents_of(r):
        o = observed_verdict(c, r, ag)
        m = d["ag"]["a%d" % AG[ag]]
        mcls = m["pc"] if m["pc"] in ("refused", "bindFailed", "done") else "pc:" + m["pc"]
        if (o["cls"], o["ex"], o["hx"], o["recorded"]) != (mcls, int(m["ex"]), int(m["hx"]), int(m["recs"]) > 0):
            bad.append("%s: observed %s, model pc=%s ex=%s hx=%s recs=%s" % (ag, o, m["pc"], m["ex"], m["hx"], m["recs"]))
    return not bad, "; ".join(bad) + " | trace: " + " ".join("%s:%s" % (a, x) for _, a, x in acts), d


def run(chk, replay):
    chk.trusted = common.TRUSTED_COMMON + [
        "strace's record of flock/close/connect/unlinkat/bind/listen (entry time stamps order the processes' calls)",
        "kernel unix-socket name space modelled as absent / stale / bound(owner, listening); flock(LOCK_EX|LOCK_NB) as one holder per file, released by close of the descriptor or death"]
    chk.assumptions = ["one action of the model = one system call (or a run of calls that touch nothing shared)",
                       "a listening agent answers the probe within the client's 3 s timeout (a timeout also refuses)",
                       "history files of different runs are distinct files (C06)",
                       "C16_full is for DAG files every agent can open (os.Open of the file the command has just loaded); an agent that cannot open it skips the lock (best effort) and the pinned probe/bind race remains for it (theorem C16_unlocked_still_races)"]
    common.lean_obligations(chk, "BdModel/Props/C16.lean", TIE)
    binp, out = common.build_real_binary()
    if not binp:
        chk.oblige("real-binary-build", False, out[-3000:]); return
    binh, out = common.build_harness("lock")
    if not binh:
        chk.oblige("harness-build:lock", False, out[-3000:]); return
    chk.oblige("harness-build:lock", True)
    if replay:
        cases = [json.load(open(replay))["case"]]
        cases[0]["bin"] = binp
    else:
        cases = gen_cases(chk, binp)
    try:
        results = run_harness(binh, cases)
    except Exception as e:
        chk.oblige("harness-run:lock", False, str(e)); return
    dis, pos, outcome, errs, stale = 0, {}, {}, 0, 0
    witness_both = witness_late = False
    for c, r in zip(cases, results):
        tries = 0
        while r.get("err") and tries < 2:     # a harness-side timeout: run the case again alone
            tries += 1
            r = run_harness(binh, [c], par=1)[0]
        if r.get("err"):
            errs += 1
            chk.oblige("harness-case:%s" % c["id"], False, r["err"] + " " + json.dumps(c))
            continue
        chk.evaluations += 1
        ok, detail, d = correspond(c, r)
        tries = 0
        while not ok and tries < 2:           # time stamps of two processes can tie: re-run before it counts
            tries += 1
            r2 = run_harness(binh, [c], par=1)[0]
            if r2.get("err"):
                continue
            ok, detail, d = correspond(c, r2)
            if ok:
                r = r2
        if not ok:
            dis += 1; chk.disagreements += 1
            if dis <= 3:
                chk.oblige("correspondence:lock:%s" % c["id"], False, detail + " case=" + json.dumps(c))
        stale += sum(1 for h in r["hist"] if h["status"] == 1 and h["nodes"] and all(n == 4 for n in h["nodes"]))
        vs = monitor(chk, c, r)
        if vs and (c.get("resaveEdit") or c.get("bigExtra")):
            # the scenario families added last (a re-save with another definition, DAGs of hundreds of steps) put two real
            # processes on the machine's clock: a verdict counts only if the case, run again ALONE, gives it again (a
            # seeded defect does; vp check 11 saw one unreproducible alarm on a loaded fresh machine)
            try:
                r2 = run_harness(binh, [c], par=1)[0]
                again = {s_ for s_, _ in monitor(chk, c, r2)} if not r2.get("err") else set()
            except Exception:
                again = set()
            vs = [(s_, w_) for s_, w_ in vs if s_ in again]
            chk.stats = dict(chk.stats or {}, confirmed_alone=(chk.stats or {}).get("confirmed_alone", 0) + 1)
        sfx = (":resaved-with-" + c["resaveEdit"]) if c.get("resaveEdit") else ""
        big = ":big-dag" if c.get("bigExtra") else ""
        for sig, what in vs:
            chk.violation(sig + sfx + big, what + (big and " (DAG of %d steps, file saved again by %s while the first run was active)" % (
                c["nsteps"] + c["bigExtra"], c["resave"])) + " [%s second %s, phase %s%s]" % (c["id"], c["kind"], c["phase"], sfx and (
                "; while the first run was active the file was saved again (%s) with %s, first run's definition had name: %r" % (
                    c["resave"], c["resaveEdit"], c.get("nameBefore", "")))), c)
        pp = probe_position(c, r)
        pos[pp] = pos.get(pp, 0) + 1
        oc = "/".join(observed_verdict(c, r, a)["cls"] for a in agents_of(r))
        if any(s == SIG_LATE for s, _ in vs):
            oc += "+overlap(endpoint removed by finishing run)"
            if c.get("tag") == "late-remove":
                witness_late = True
        if any(s == SIG_BOTH for s, _ in vs):
            oc += "+overlap"
            if c.get("tag") == "witness":
                witness_both = True
        outcome[oc] = outcome.get(oc, 0) + 1
        if c["phase"] != "after":
            chk.nontrivial.add((c["kind"], c["phase"], c.get("bVia", ""), c.get("resave", ""), c.get("resaveEdit", ""), bool(c.get("freezeMs")), pp, oc, c["delayUs"] // 10000))
        if len(chk.samples) < 6 and (len(chk.samples) < 3 or vs):
            chk.samples.append({"case": {k: v for k, v in c.items() if k != "bin"}, "probe_position": pp, "outcome": oc,
                                "model": d and {k: v["pc"] for k, v in d["ag"].items()}, "monitor": [s for s, _ in vs]})
    chk.disagreements_checked = chk.disagreements
    if dis == 0 and errs == 0:
        chk.oblige("correspondence:lock (model verdict for the recorded interleaving = real outcome, every case)", True)
    chk.stats = {"cases": len(cases), "second_move_position": pos, "outcomes(A/B[/C])": outcome,
                 "stale_final_status(last record says running, every node finished; C08's subject)": stale}
    chk.rule = ("second start / retry launched at PRNG instants of the first run's life (before its socket listens, during each step, "
                "during the exit handler, through shutdown, after the end) + simultaneous starts (natural, and with strace delays that "
                "force the model's witness interleavings, incl. a three-process one: finishing run / next run / third start); second start / retry after the file "
                "was saved again while the first run is active (rename-over / the real UpdateSpec; new inode), with the same definition and with one that "
                "differs in its name: key (added / another / removed), description, steps, params, logDir - then also `status <file>` and "
                "client.GetCurrentStatus of the re-saved file must reach the first run; all processes under strace; non-trivial = second command issued while the "
                "first process is alive; distinct = (kind, phase, probe position, outcome, 10 ms bucket of the instant)")
