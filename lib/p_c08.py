"""C08 — reported status is truthful: live while running, final afterwards, never stuck.
   The REAL agent (agent.New(...).Run) runs generated DAGs with scripted executors over real stores;
   at every quiescent point the live answer (status socket via client.GetLatestStatus) and the answer
   the same client path gives from what is persisted at that instant once the process is gone
   (ReadStatusToday + CorrectRunningStatus) are recorded. A second stream SIGKILLs real
   `blackdagger start` processes and asks `blackdagger status` / starts the DAG again."""
import json, os, re, shutil, signal, subprocess, tempfile, time, concurrent.futures as cf
import common, sched
from p_c06 import tie_names

TIE_SCHED = sched.SCHED_TIE


def gen_case(rng, k, maxn):
    c = sched.gen_case(rng, k, maxn)
    for nd in c["nodes"]:
        if nd["pre"] == 3: nd["pre"] = 1
        nd["rep"] = False; nd["obeys"] = True; nd["sig"] = ""
        nd["limit"] = min(nd["limit"], 1)           # retry interval is 0, each retry costs a 100 ms scan
        if nd["fails"] > 1: nd["fails"] = 1
    c["stopAfter"] = -1; c["dry"] = False
    return c


def big_cases(rng, prefix):
    """big DAGs: one scripted first step (held by the harness, so the run is live when it is asked) + 250-400 filler steps that
    depend on it and succeed at once; the status document behind the socket is well over 64 KiB, the last one over 256 KiB.
    Same case format as gen_case plus extra / pad (go/harness/agentrun acase.Extra / Pad)."""
    out = []
    for k, (extra, pad, fails) in enumerate([(rng.randint(250, 300), rng.choice([60, 100]), 0),
                                             (rng.randint(300, 360), 0, rng.choice([0, -1])),
                                             (rng.randint(380, 400), rng.choice([400, 500]), -1)]):
        nd = {"deps": [], "cf": False, "cs": False, "limit": 0, "pre": 0, "prev": 0, "fails": fails, "obeys": True, "sig": "", "rep": False}
        out.append({"id": "%s%d" % (prefix, k), "nodes": [nd], "maxActive": 0, "handlers": [rng.choice([0, 1, 2]) for _ in range(4)],
                    "stopAfter": -1, "seed": rng.randrange(1 << 30), "dry": False, "extra": extra, "pad": pad})
    return out


def big_docs(cases, results):
    """sizes of the status documents behind the first live point of the big cases (vacuity: they must exceed 64 / 256 KiB)"""
    return [((results.get(c["id"]) or {}).get("points") or [{}])[0].get("doc", 0) for c in cases if c.get("extra")]


def run_harness(binp, cases, workers=12):
    shards = [cases[i::workers] for i in range(workers)]
    def one(sh):
        if not sh: return []
        p = subprocess.run([binp], input="\n".join(json.dumps(c) for c in sh) + "\n", stdout=subprocess.PIPE, stderr=subprocess.PIPE, text=True, timeout=3000)
        return [json.loads(l) for l in p.stdout.strip().split("\n") if l.strip()]
    out = {}
    with cf.ThreadPoolExecutor(workers) as ex:
        for rs in ex.map(one, shards):
            for r in rs: out[r["id"]] = r
    return out


def live_snaps(r):
    pts = (r.get("points") or []) + ([r["final"]] if r.get("final") else [])
    out = []
    for p in pts:
        v = p["live"]
        out.append("snap st=%s rc=%s dc=%s fl=%s ov=%s pp=" % ("|".join(v.get("st") or []), ",".join(map(str, v.get("rc") or [])),
                                                           ",".join(map(str, v.get("dc") or [])), ",".join(map(str, p.get("fl") or [])), v.get("ov", "")))
    return out


def model_snaps(cases, results):
    text, ids = [], []
    for c in cases:
        r = results.get(c["id"])
        if not r or r.get("panic") or r.get("hang"): continue
        text += sched.driver_text(c, r.get("ops") or [])
    rc, dout, derr = common.run_driver("sched", "\n".join(text) + "\n", timeout=1200)
    pred, cur = {}, None
    for l in dout.split("\n"):
        if l.startswith("case "):
            cur = l.split(" ")[1]; pred[cur] = []
        elif cur is not None and l.startswith("snap "):
            ws = l.split(" ")
            ag = [w for w in ws if w.startswith("ag=")][0][3:]
            ws = [("ov=" + ag) if w.startswith("ov=") else w for w in ws if not (w.startswith("ex=") or w.startswith("hl=") or w.startswith("ag="))]
            pred[cur].append(" ".join(ws))
    # the status socket (Agent.HandleHTTP) forces the overall status to `running` as long as it answers:
    # every point but the last (taken after Run returned, answered from the persisted record)
    for k, v in pred.items():
        pred[k] = [re.sub(r" ov=[a-z ]+ pp=", " ov=running pp=", l) for l in v[:-1]] + v[-1:]
    return pred, rc, derr


def monitor(c, r):
    """the property read off the observations, independent of the model"""
    out = []
    n = len(c["nodes"])
    pts = r.get("points") or []
    for k, p in enumerate(pts):
        lv, dv = p["live"], p["dead"]
        if lv.get("err"): out.append(("live-status-unavailable-while-running", "point %d: %s" % (k, lv["err"][:100])))
        if lv.get("ov") != "running": out.append(("live-not-running-while-run-in-progress", "point %d: live overall=%r with executors %r in flight" % (k, lv.get("ov"), p["fl"])))
        for i in p.get("fl") or []:
            if i < n and (lv.get("st") or [""] * n)[i] != "running":
                out.append(("live-step-state-wrong", "point %d: step %d is executing but reported %r" % (k, i, lv["st"][i])))
        for i_s, okv in (p.get("ended") or {}).items():
            i = int(i_s)
            if i < n and i not in (p.get("fl") or []) and okv == 1 and (lv.get("st") or [""] * n)[i] not in ("finished",):
                out.append(("live-step-state-wrong", "point %d: step %d ended successfully but is reported %r" % (k, i, lv["st"][i])))
        # the process dies now: what is reported afterwards
        if dv.get("err"):
            out.append(("status-unreadable-after-death", "point %d: %s" % (k, dv["err"][:100])))
        elif dv.get("ov") in ("running", "finished"):
            out.append(("run-cut-short-reported-%s" % ("succeeded" if dv["ov"] == "finished" else "running"),
                        "point %d (after ops %s): a kill now leaves overall=%r, steps %r" % (k, (r.get("ops") or [])[:k], dv["ov"], dv.get("st"))))
        # (start <= finish is demanded of the FINAL record only: while a retried step is in its next attempt its record
        #  shows the new start and still the previous attempt's finish time)
    f = r.get("final")
    if f and not r.get("hang"):
        lv, dv = f["live"], f["dead"]
        if lv.get("ov") != dv.get("ov") or lv.get("st") != dv.get("st") or lv.get("rc") != dv.get("rc"):
            out.append(("final-persisted-differs-from-reported", "reported %r %r, persisted %r %r" % (lv.get("ov"), lv.get("st"), dv.get("ov"), dv.get("st"))))
        if lv.get("ov") in ("running", "not started"):
            out.append(("finished-run-reported-%s" % lv["ov"].replace(" ", "-"), "after the agent returned"))
        for i in range(n):
            st = (lv.get("st") or [""] * n)[i]
            starts = (f.get("starts") or {}).get(str(i), 0)
            ended = (f.get("ended") or {}).get(str(i), 0)
            if starts and ended == 1 and st != "finished":
                out.append(("final-step-state-wrong", "step %d ended ok, reported %r" % (i, st)))
            if starts and ended == 2 and st != "failed":
                out.append(("final-step-state-wrong", "step %d ended failing, reported %r" % (i, st)))
            if not starts and st in ("finished", "failed", "running"):
                out.append(("final-step-state-wrong", "step %d never ran, reported %r" % (i, st)))
            if starts and (lv.get("rc") or [0] * n)[i] != starts - 1:
                out.append(("final-attempt-count-wrong", "step %d: %d attempts, retry count %r" % (i, starts, lv["rc"][i])))
        for b in (lv.get("bad") or []):
            out.append(("start-after-finish", b))
    return out


# ------------------------------------------------------------------ real processes

DAGTXT = """steps:
  - name: s1
    command: sleep 0.3
  - name: s2
    command: sleep 0.3
    depends: [s1]
  - name: s3
    command: sleep 0.3
    depends: [s2]
"""


def agent_level(chk, prop, ncases, only=None):
    """the REAL agent (Agent.Run -> newScheduler -> Schedule) on generated DAGs with scripted executors: the clauses of
    C04 (handlers = the plan of the outcome) and C15 (maxActiveRuns) judged at the agent level, where the DAG's settings
    reach the scheduler through Agent.newScheduler"""
    binp, out = common.build_harness("agentrun")
    if not binp:
        chk.oblige("harness-build:agentrun", False, out[-3000:]); return
    rng = chk.rng
    cases = []
    for k in range(ncases):
        c = gen_case(rng, 300000 + k, 5)
        c["id"] = "g%d" % k
        if prop == "C15":
            c["maxActive"] = rng.choice([1, 1, 2])
        cases.append(c)
    if only is not None:
        cases = [only]          # replay (the recorded op order is in the case)
    results = run_harness(binp, cases)
    n = 0
    for c in cases:
        r = results.get(c["id"])
        if not r or r.get("panic") or r.get("hang") or not r.get("final"):
            continue
        n += 1; chk.evaluations += 1
        if prop == "C15" and c["maxActive"] > 0:
            for p in r.get("points") or []:
                steps = [x for x in (p.get("fl") or []) if x < 1000]
                if len(steps) > c["maxActive"]:
                    chk.violation("C15:agent-run:limit-exceeded", "maxActiveRuns %d in the DAG, %d step commands executing at once under the real agent: %r" % (
                        c["maxActive"], len(steps), steps), {"agent_case": dict(c, ops=r.get("ops"))})
                    break
        if prop == "C04":
            ran = [int(o.split()[1]) - 1000 for o in (r.get("ops") or []) if o.startswith("rel ") and int(o.split()[1]) >= 1000]
            ov = (r["final"].get("live") or {}).get("ov")
            idx = {"finished": 0, "failed": 1, "canceled": 2}.get(ov)
            # "succeeded iff every step finished successfully or was skipped" on the agent's own final answer (these runs
            # are never stopped): a run reported finished has no step labelled failed / canceled / left unfinished
            bad = [(i, s) for i, s in enumerate((r["final"].get("live") or {}).get("st") or []) if s not in ("finished", "skipped")]
            if ov == "finished" and bad:
                chk.violation("C04:agent-run:reported-succeeded-although-a-step-did-not-succeed",
                              "run reported finished under the real agent (handlers run %r) although steps %r are not finished/skipped" % (ran, bad),
                              {"agent_case": dict(c, ops=r.get("ops"))})
            if idx is not None:
                plan = [h for h in (idx, 3) if c["handlers"][h] != 0]
                if ran != plan:
                    chk.violation("C04:agent-run:wrong-handlers-run", "run ended %s under the real agent with handlers configured %r: handlers run %r, expected %r" % (
                        ov, c["handlers"], ran, plan), {"agent_case": dict(c, ops=r.get("ops"))})
    chk.stats["agent_level_runs"] = n


def liveness_stream(chk, prop, ncases, only=None):
    """what the API's guards (start / stop / edit) rely on: while the run's process is alive - steps executing OR handlers
    still running after a failed / canceled outcome - its status socket says `running`. The real agent with scripted
    executors; judged at every quiescent point. Reported under `prop` (C20: the API treats such a run as not running)."""
    binp, out = common.build_harness("agentrun")
    if not binp:
        chk.oblige("harness-build:agentrun", False, out[-3000:]); return
    rng = chk.rng
    cases = []
    for k in range(ncases):
        c = gen_case(rng, 400000 + k, 4); c["id"] = "lv%d" % k
        c["handlers"] = [rng.choice([1, 1, 2]) for _ in range(4)]       # handlers keep the process alive after the outcome is decided
        cases.append(c)
    if ncases > 0:
        cases += big_cases(rng, "lvbig")     # the guards ask the same socket whatever the size of the DAG (status document >> 64 KiB)
    if only is not None:
        cases = [only]
    results = run_harness(binp, cases)
    n = 0
    for c in cases:
        r = results.get(c["id"])
        if not r or r.get("panic") or r.get("hang"):
            if c.get("extra") and only is None:
                chk.oblige("harness-run:big-dag:" + c["id"], False, json.dumps(r)[:400])
            continue
        n += 1; chk.evaluations += 1
        for sig, detail in monitor(c, r):
            if sig == "live-not-running-while-run-in-progress":
                chk.violation(prop + ":live-run-not-reported-running-to-the-api-guards", "the run's process is alive (%s%s) but its status socket does not say running: start would be accepted, stop refused, an edit accepted" % (
                    detail, "; DAG of %d steps" % (1 + c["extra"]) if c.get("extra") else ""), {"agent_case": dict(c, ops=r.get("ops"))})
                break
    docs = big_docs(cases, results)
    if only is None and ncases > 0:
        chk.oblige("vacuity:%s:big-dag-live-status-documents-exceed-64KiB-and-one-256KiB" % prop, len(docs) == 3 and min(docs) > 65536 and max(docs) > 262144, "document sizes %r" % docs)
    chk.stats = dict(getattr(chk, "stats", None) or {}, liveness_runs=n, liveness_big_dag_docs=docs)


def real_kills(chk, nkills):
    hbin, out = common.build_harness("agentrun")
    if not hbin:
        chk.oblige("harness-build", False, out[-2000:]); return {}
    binp, out = common.build_real_binary()
    if not binp:
        chk.oblige("real-binary-build", False, out[-2000:]); return {}
    chk.oblige("real-binary-build", True)
    stat = {"kills": 0, "status_after": {}, "restart_ok": 0}
    home = tempfile.mkdtemp(prefix="verif-c08-")
    try:
        env = dict(os.environ, HOME=home, BLACKDAGGER_HOME=os.path.join(home, "bd"))
        os.makedirs(os.path.join(home, "bd", "dags"), exist_ok=True)
        for k in range(nkills):
            name = "kill%d" % k
            f = os.path.join(home, "bd", "dags", name + ".yaml")
            open(f, "w").write(DAGTXT)
            delay = chk.rng.choice([0.02, 0.05, 0.12, 0.2, 0.35, 0.5, 0.7, 0.95])
            p = subprocess.Popen([binp, "start", f], env=env, stdout=subprocess.DEVNULL, stderr=subprocess.DEVNULL, start_new_session=True)
            time.sleep(delay)
            try:
                os.killpg(p.pid, signal.SIGKILL)
            except ProcessLookupError:
                pass
            p.wait()
            stat["kills"] += 1
            chk.evaluations += 1; chk.nontrivial.add("kill@%s#%d" % (delay, k))
            def latest():
                q = subprocess.run([hbin, "latest", os.path.join(home, "bd", "dags"), os.path.join(home, "bd", "data"), f], env=env,
                                   stdout=subprocess.PIPE, stderr=subprocess.PIPE, text=True, timeout=30)
                try:
                    return json.loads(q.stdout.strip().split("\n")[-1])
                except Exception:
                    return {"err": "unparsable: " + q.stdout[-200:] + q.stderr[-200:]}
            v = latest()
            st = v.get("ov") or ("error:" + str(v.get("err"))[:40])
            stat["status_after"][st] = stat["status_after"].get(st, 0) + 1
            if v.get("err") and not v.get("ov"):
                chk.violation("C08:status-unreadable-after-kill:real-process", "blackdagger start SIGKILLed after %.2fs; latest status: %s" % (delay, v.get("err")), {"real_kill": {"delay": delay}})
            elif st in ("running", "finished"):
                chk.violation("C08:killed-run-reported-%s:real-process" % ("succeeded" if st == "finished" else "running"),
                              "blackdagger start SIGKILLed after %.2fs; client.GetLatestStatus says %s, steps %r" % (delay, st, v.get("st")), {"real_kill": {"delay": delay}})
            # can be started again
            r2 = subprocess.run([binp, "start", f], env=env, stdout=subprocess.PIPE, stderr=subprocess.STDOUT, text=True, timeout=60)
            v2 = latest()
            if r2.returncode == 0 and v2.get("ov") == "finished":
                stat["restart_ok"] += 1
            else:
                chk.violation("C08:cannot-be-started-again-after-kill", "second start rc=%d, latest status: %r" % (r2.returncode, v2), {"real_kill": {"delay": delay}})
    finally:
        shutil.rmtree(home, ignore_errors=True)
    return stat


def run(chk, replay):
    chk.trusted = common.TRUSTED_COMMON + ["quiescence discipline of the agent harness (one completion released at a time; 280 ms without an executor event)",
                                           "the after-death view is computed by the harness as ReadStatusToday + CorrectRunningStatus, the socket-less branch of client.GetLatestStatus (tied by skeleton)"]
    chk.assumptions = ["kill instants: every quiescent point of the in-process agent (the persisted file is whatever the agent wrote last), plus real SIGKILLs of "
                       "`blackdagger start` at PRNG delays; system-call-boundary kills of start-up/shutdown are covered for the history file by C07",
                       "step-level labels of a killed run (a step left 'running' in the record) are not constrained by the property; only the DAG-level report is"]
    common.lean_obligations(chk, "BdModel/Props/C08.lean", {"Sched": TIE_SCHED, "Agent": tie_names("Agent"), "Hist": None}, extra_targets=["BdModel.Sched.Tables"])
    import hist as _hist
    if replay and "hist_case" in json.load(open(replay)).get("case", {}):
        _hist.replay_big_record(chk, "C08", "once the run's process has ended the reported status is the final state it persisted: the status reports read it back from the store", json.load(open(replay))["case"]["hist_case"]); return
    if not replay:
        _hist.big_record_leg(chk, "C08", "once the run's process has ended the reported status is the final state it persisted: the status reports read it back from the store")
    binp, out = common.build_harness("agentrun")
    if not binp:
        chk.oblige("harness-build:agentrun", False, out[-3000:]); return
    chk.oblige("harness-build:agentrun", True)
    rng = chk.rng
    if replay:
        rp = json.load(open(replay)); cc = rp["case"]
        if "real_kill" in cc:
            real_kills(chk, 4); return
        cases = [cc["case"] if "case" in cc else cc]
    else:
        cases = [gen_case(rng, k, 5) for k in range(60 if chk.tier == "quick" else 600)]
        cases += big_cases(rng, "big")       # live status of DAGs whose status document is >> 64 KiB (and one > 256 KiB)
    results = run_harness(binp, cases)
    pred, rc, derr = model_snaps(cases, results)
    if rc != 0:
        chk.oblige("driver-run:sched", False, derr[-2000:])
    dis, stat = 0, {"points": 0, "hang": 0, "with_failure": 0, "with_retry": 0, "dead_views": {}}
    for c in cases:
        r = results.get(c["id"])
        if r is None:
            chk.oblige("harness-run:no-result:" + c["id"], False, ""); continue
        if r.get("panic"):
            chk.violation("C08:panic", r["panic"][:300], {"case": c}); continue
        if r.get("hang"):
            stat["hang"] += 1
            chk.oblige("harness-run:hang:" + c["id"], False, json.dumps(c)); continue
        stat["with_failure"] += any(n["fails"] != 0 for n in c["nodes"]); stat["with_retry"] += any(n["limit"] > 0 and n["fails"] > 0 for n in c["nodes"])
        for p in r.get("points") or []:
            chk.evaluations += 1; stat["points"] += 1
            ov = p["dead"].get("ov", "?"); stat["dead_views"][ov] = stat["dead_views"].get(ov, 0) + 1
        if len(c["nodes"]) > 1: chk.nontrivial.add(json.dumps(c["nodes"], sort_keys=True))
        for sig, detail in monitor(c, r)[:2]:
            chk.violation("C08:" + sig, detail, {"case": dict(c, ops=r.get("ops"))})
        m, il = pred.get(c["id"]), live_snaps(r)
        if m is not None and m != il:
            # timing: retry with the recorded op order
            r2 = run_harness(binp, [dict(c, ops=r.get("ops"))], workers=1).get(c["id"])
            il2 = live_snaps(r2) if r2 else None
            chk.disagreements += 1; chk.disagreements_checked += 1
            if il2 != m:
                dis += 1
                k = next((i for i in range(min(len(m), len(il))) if m[i] != il[i]), min(len(m), len(il)))
                if dis <= 3:
                    chk.oblige("correspondence:agent-live:%s" % c["id"], False, "first difference at point %d: model=%r impl=%r\ncase=%s ops=%s" % (
                        k, m[k] if k < len(m) else None, il[k] if k < len(il) else None, json.dumps(c), r.get("ops")))
    if not replay:
        docs = big_docs(cases, results); stat["big_dag_docs"] = docs
        chk.oblige("vacuity:big-dag-live-status-documents-exceed-64KiB-and-one-256KiB", len(docs) == 3 and min(docs) > 65536 and max(docs) > 262144, "document sizes %r" % docs)
    if dis == 0:
        chk.oblige("correspondence:agent-live (status-socket answer at every quiescent point and after the run = model's agentStatus + node table)", True)
    # free-running stress of the FINAL record: nobody holds the executors, the last done-event's status write races with the
    # final write (write-ordering defect fixed by df2f386): the persisted final status must be the truth
    if not replay:
        autos = []
        for k in range(120 if chk.tier == "quick" else 1200):
            c = gen_case(rng, 100000 + k, 3); c["auto"] = True; c["id"] = "a%d" % k
            autos.append(c)
        ares = run_harness(binp, autos, workers=16)
        stat["auto_runs"] = 0; stat["auto_final"] = {}
        for c in autos:
            r = ares.get(c["id"])
            if not r or r.get("hang") or r.get("panic"):
                chk.oblige("harness-run:auto:" + c["id"], False, json.dumps(r)[:400]); continue
            chk.evaluations += 1; stat["auto_runs"] += 1
            f = r["final"]; dv = f["dead"]
            stat["auto_final"][dv.get("ov", "?")] = stat["auto_final"].get(dv.get("ov", "?"), 0) + 1
            n = len(c["nodes"])
            anyfail = any((f.get("ended") or {}).get(str(i)) == 2 for i in range(n)) or any(
                (f.get("ended") or {}).get(str(1000 + h)) == 2 for h in range(4))
            want = None
            if all((dv.get("st") or [""] * n)[i] in ("finished", "skipped") for i in range(n)) and not anyfail:
                want = "finished"
            if dv.get("ov") in ("running", "not started") or (want and dv.get("ov") != want):
                chk.violation("C08:finished-run-recorded-%s" % str(dv.get("ov")).replace(" ", "-"),
                              "free-running run finished (steps %r) but its final record says %r" % (dv.get("st"), dv.get("ov")), {"case": c})
    stat["real"] = real_kills(chk, 6 if chk.tier == "quick" else 40) if not replay else {}
    chk.stats = stat
    chk.samples = [{"nodes": c["nodes"], "ops": results[c["id"]].get("ops")} for c in cases[:2] if c["id"] in results]
    chk.rule = ("random DAGs (1-5 steps; continueOn, one retry, preconditions, maxActiveRuns, handlers) run by the real agent with scripted executors; "
                "at every quiescent point: live answer vs truth and vs model, and the after-death answer from the file persisted at that instant; "
                "final record vs truth (states, attempt counts, start<=finish); plus real `blackdagger start` processes SIGKILLed at PRNG "
                "delays then `status` and a second `start`; evaluations = quiescent points + real kills; non-trivial = multi-step DAGs and real kills")
