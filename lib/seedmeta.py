#!/usr/bin/env python3
"""seedmeta.py <seed-dir-name> <prop> <result text>: append the verification record to seeded/<dir>/meta.json"""
import json, sys, subprocess
d, prop, res = sys.argv[1], sys.argv[2], sys.argv[3]
p = '/verif/seeded/%s/meta.json' % d
m = json.load(open(p))
head = subprocess.run(['git', '-C', '/repo', 'rev-parse', '--short', 'HEAD'], stdout=subprocess.PIPE, text=True).stdout.strip()
m['verified_by_me'] = {"demo": "fails with the patch, passes without (run in the scratch worktree); go build ./... ok with and without; suite checked by the seeding agent (only the baseline failures)",
                       "check_result": res, "ran": "./check %s --tier quick with VERIF_REPO=<fresh worktree of /repo HEAD + patch.diff>: rc=1" % prop,
                       "repo_head_when_checked": head}
json.dump(m, open(p, 'w'), indent=1)
print("recorded", d)
