"""C19 — listing, viewing and validating a DAG has no side effects."""
import json, os, re, subprocess, tempfile
from concurrent.futures import ThreadPoolExecutor
import common

TIE = {"Load": ["effectSites", "callEdges", "builderFields", "entryOpts", "defStructs",
                "displayFuncs", "displaySites", "displayEdges", "displayLoaderCalls",
                "h_load_build", "h_load_buildEnvs", "h_load_buildLogDir", "h_load_buildParams", "h_load_buildSMTPConfig",
                "h_load_loadVariables", "h_load_parseParams", "h_load_parseParamValue", "h_load_substituteCommands",
                "h_load_buildStep", "h_load_buildSteps", "h_load_buildHandlers",
                "h_load_Load", "h_load_LoadWithoutEval", "h_load_LoadMetadata", "h_load_LoadYAML", "h_load_loadYAML", "h_load_loadDAG",
                "h_load_storeUpdateSpec", "h_load_storeGetDetails", "h_load_storeGetMetadata", "h_load_storeList"]}

# entry point exercised -> loader entry point it goes through (tied by the dag_store skeleton hashes)
ENTRY_MAP = {"LoadYAML": "LoadYAML", "LoadMetadata": "LoadMetadata", "LoadWithoutEval": "LoadWithoutEval",
             "UpdateSpec": "LoadYAML", "GetDetails": "LoadWithoutEval", "List": "LoadMetadata", "Load": "Load"}
NON_EVAL = ["LoadYAML", "LoadMetadata", "LoadWithoutEval", "UpdateSpec", "GetDetails", "List"]
REQUIRED_PATHS = ["env", "params", "logDir", "steps[].dir", "steps[].command", "steps[].script", "steps[].stdout", "steps[].stderr",
                  "steps[].output", "preconditions[].condition", "preconditions[].expected", "steps[].preconditions[].condition",
                  "handlerOn.exit.command", "handlerOn.failure.script", "smtp.host", "smtp.password", "errorMail.to", "infoMail.from",
                  "steps[].executor", "functions[].command", "functions[].params", "functions[].name", "steps[].call.args", "steps[].call.function",
                  "handlerOn.exit.call.args", "handlerOn.exit.call.function", "handlerOn.failure.call.args", "steps[].env", "steps[].run", "steps[].params"]
# paths through which a function call is assembled (parseFuncCall: function template + argument values -> Step.CmdWithArgs);
# nothing evaluates them at load time, so their controls are: the text arrives in the loaded DAG, and STARTING the DAG
# (evaluating load + the command split of scheduler.Node.setupExec) does run it
CALL_PATHS = ["functions[].command", "steps[].call.args", "handlerOn.exit.call.args", "handlerOn.success.call.args",
              "handlerOn.failure.call.args", "handlerOn.cancel.call.args"]
RUNTIME_PATHS = CALL_PATHS + ["steps[].command", "handlerOn.exit.command"]
NO_VAR_SHAPES = ["dq-only", "two-commands"]        # shapes without a `$…` word: a function template stays well-formed


REQUIRED_SHAPES = ["bare", "named-bare", "dq-start", "dq-mid", "dq-end", "named-dq", "multi", "multi-dq-last", "embedded", "sq", "indented", "dollar-paren",
                   "dq-arg-then-bare", "sq-arg-then-bare"]
BACKTICK_SHAPES = ["bare", "named-bare", "dq-start", "dq-mid", "dq-end", "dq-only", "named-dq", "named-dq-escaped", "multi", "multi-dq-last",
                   "embedded", "sq", "indented", "two-commands", "dq-arg-then-bare", "sq-arg-then-bare"]
# a command line with a quoted argument AND a substitution outside the quotes (echo "report for" `touch F` / echo 'all done' `touch F`)
QUOTED_ARG_SHAPES = ["dq-arg-then-bare", "sq-arg-then-bare"]
# shapes that the evaluating entry point must execute, per field (the rest of the shapes is not command syntax there)
LIVE_UNDER_LOAD = {"params": ["bare", "named-bare", "dq-start", "dq-mid", "dq-end", "dq-only", "named-dq", "named-dq-escaped", "multi-dq-last",
                              "dq-arg-then-bare", "sq-arg-then-bare"],
                   "env": BACKTICK_SHAPES, "logDir": BACKTICK_SHAPES}


def run_harness(binp, cases, chk, what):
    p = subprocess.run([binp], input="\n".join(json.dumps(c) for c in cases) + "\n", stdout=subprocess.PIPE,
                       stderr=subprocess.PIPE, text=True, timeout=3000)
    if p.returncode != 0:
        chk.oblige("harness-run:" + what, False, p.stderr[-2000:])
        return None
    return [json.loads(l) for l in p.stdout.splitlines()]


# ------------------------------------------------------------------ display stream
# The same canary documents, but the stream does not stop at the loader's return value: every document is saved, listed,
# displayed (every tab), searched, and acted upon (the POST actions that are not a start) through the REAL long-lived
# assembly behind the web UI (go/harness/load/display.go), for a DAG with no recorded status and no live agent (the
# placeholder status model.NewStatusDefault is shown), for one with a status of today, and for one whose last run was yesterday.
DISPLAY_STATES = ["fresh", "recorded", "old"]
QUICK_SHAPES = ["bare", "dq-mid", "named-dq"] + QUOTED_ARG_SHAPES
DISPLAY_WORKERS = int(os.environ.get("VERIF_C19_WORKERS", "6") or 6)
# API calls every case must have made (a call that is missing from the answer was not checked)
DISPLAY_CALLS = ["POST save", "GET /dags", "GET /dags?page&limit", "GET /dags?searchName", "GET /dags?searchTag", "GET /dags/{id}",
                 "GET /dags/{id}?tab=status", "GET /dags/{id}?tab=spec", "GET /dags/{id}?tab=history", "GET /dags/{id}?tab=log",
                 "GET /dags/{id}?tab=log(handler)", "GET /dags/{id}?tab=scheduler-log", "GET /search", "GET /search(text)", "GET /tags",
                 "client.GetStatus", "client.GetAllStatus", "client.GetDAGSpec", "client.GetLatestStatus", "client.GetCurrentStatus",
                 "client.GetRecentHistory", "POST suspend", "POST suspend(off)", "POST stop(not running)", "POST mark-success",
                 "POST mark-failed", "POST save(again)", "POST rename", "GET /dags/{id}(renamed)", "POST rename(back)",
                 "GET /dags/{id}(again)", "DELETE /dags/{id}"]
DISPLAY_CALLS_WITH_RUN = ["GET /dags/{id}?tab=log&file", "GET /dags/{id}?tab=scheduler-log&file"]
MAX_DISPLAY_VIOLATIONS = 12


def call_entries(call):
    """API call of the display stream -> the entries of the model's display table it goes through"""
    if call.startswith("client."):
        return [call]
    if call.startswith("POST save"):
        return ["client.UpdateDAG"]
    if call.startswith("GET /dags/{id}"):
        return ["fdag.getDetail"]
    if call.startswith("GET /dags"):
        return ["fdag.getList"]
    if call.startswith("GET /search"):
        return ["fdag.searchDAGs"]
    if call.startswith("GET /tags"):
        return ["fdag.getTagList"]
    if call.startswith("DELETE"):
        return ["fdag.deleteDAG"]
    if call.startswith("POST suspend"):
        return ["client.GetStatus", "client.ToggleSuspend"]
    if call.startswith("POST stop"):
        return ["client.GetStatus"]          # the DAG is not running: the handler answers after reading the status
    if call.startswith("POST mark-"):
        return ["client.GetStatus", "fdag.processUpdateStatus"]
    if call.startswith("POST rename"):
        return ["client.GetStatus", "client.Rename"]
    return []


def display_model(chk, loader_model):
    """entry -> set of effect kinds the model's display table + loader table give it"""
    rc, dout, derr = common.run_driver("load", "display\n")
    if rc != 0 or not dout.startswith("display|"):
        chk.oblige("driver-run:load-display", False, (derr or dout)[-2000:])
        return None
    m = {}
    for cell in dout.strip().split("|")[1:]:
        e, rest = cell.split("=", 1)
        effs, loaders = rest.split(";", 1)
        kinds = set()
        for x in [x for x in effs.split(",") if x]:
            kinds.add("setenv" if "Setenv" in x or "Clearenv" in x or "Unsetenv" in x else "exec")
        for l in [l for l in loaders.split(",") if l]:
            if l not in NON_EVAL:
                kinds.add("evaluating-loader:" + l)
            for (le, f), k in loader_model.items():
                if le == l:
                    kinds |= k
        m[e] = kinds
    return m
RULE_DISPLAY = ("Display stream: the same documents (positions x shapes, incl. a command line with a quoted argument and a substitution outside "
                "the quotes) x DAG state (fresh = no recorded status, no live agent: placeholder status; recorded today; last run yesterday) "
                "through the real long-lived client + API handlers (save, list with filters, DAG page with every tab, search, tags, the "
                "client's status calls, suspend / stop / mark / rename / delete); marker file and os.Environ() checked after every call; "
                "quick tier: every shape in the command positions and in params / env / logDir, four shapes elsewhere")


def is_cmd_pos(p):
    """positions from which a step's / handler's command line (Step.CmdWithArgs) is assembled: `command` given as a string or a
    list, the arguments of a function call and the function's template, the name and the parameters of a sub-workflow"""
    path = p["path"]
    if path == "functions[].command":
        return True
    if p.get("root") not in ("Steps", "HandlerOn"):
        return False
    last = path.rsplit(".", 1)[-1]
    return (last == "command" and p["variant"] in ("str", "list")) or path.endswith("call.args") or last in ("run", "params")


def display_cases(chk, plants, shapes):
    cases = []
    for p in plants:
        cmd, top3 = is_cmd_pos(p), p.get("root") in ("Params", "Env", "LogDir")
        for sh in shapes:
            for st in DISPLAY_STATES:
                if chk.tier == "quick":
                    # every shape x {fresh, recorded} in the command positions (+ `old` for a command string), every shape for the
                    # three evaluated fields, four representative shapes elsewhere
                    if cmd:
                        ok = st != "old" or (p["variant"] == "str" and p["path"].endswith(".command"))
                    elif top3:
                        ok = st == "fresh" or (st == "recorded" and sh in QUICK_SHAPES)
                    else:
                        ok = (st == "fresh" and sh in ("bare", "dq-mid", "dq-arg-then-bare", "sq-arg-then-bare")) or (st == "recorded" and sh == "dq-arg-then-bare")
                    if not ok:
                        continue
                cases.append({"id": "display|%s|%s|%s|%s|%s" % (st, p["path"], p["variant"], sh, p.get("root", "")), "mode": "display",
                              "path": p["path"], "variant": p["variant"], "root": p.get("root", ""), "shape": sh, "state": st})
    return cases


def display_start(chk, binp, cases):
    """launch the display workers (each its own harness process = its own long-lived assembly and its own environment); they run
    while the loader stream does"""
    chk.rng.shuffle(cases)
    n = max(1, min(DISPLAY_WORKERS, len(cases)))
    chunks = [cases[i::n] for i in range(n)]
    pool = ThreadPoolExecutor(max_workers=n)

    def work(chunk):
        p = subprocess.run([binp], input="\n".join(json.dumps(c) for c in chunk) + "\n", stdout=subprocess.PIPE,
                           stderr=subprocess.PIPE, text=True, timeout=3000)
        return p.returncode, p.stdout, p.stderr
    return pool, [pool.submit(work, ch) for ch in chunks], cases


def display_finish(chk, handle, replay, dmodel=None):
    pool, futs, cases = handle
    outs = []
    import time
    t_wait = time.time()
    for f in futs:
        rc, so, se = f.result()
        if rc != 0:
            chk.oblige("harness-run:display", False, se[-2000:])
        for l in so.splitlines():
            try:
                outs.append(json.loads(l))
            except ValueError:
                chk.oblige("harness-run:display (answer is JSON)", False, l[:500])
    pool.shutdown()
    t_wait = time.time() - t_wait
    byid = {c["id"]: c for c in cases}
    chk.oblige("harness-run:display (every case answered)", len(outs) == len(cases) and all(o.get("id") in byid for o in outs),
               "%d/%d" % (len(outs), len(cases)))
    fired = {}          # (call, path) -> replay case
    envch = {}
    panics, errors, missing = [], [], []
    started, shown_page, shown_spec, rec_ok = {}, {}, [], {"fresh": [0, 0], "recorded": [0, 0], "old": [0, 0]}
    calls_seen = {}
    for o in outs:
        c = byid.get(o.get("id"))
        if c is None:
            continue
        chk.evaluations += 1
        chk.nontrivial.add(("display", c["state"], c["path"], c["variant"], c["shape"]))
        if o.get("error"):
            errors.append("%s: %s" % (c["id"], o["error"]))
            continue
        calls = {x["call"]: x for x in o.get("calls") or []}
        want = DISPLAY_CALLS + (DISPLAY_CALLS_WITH_RUN if c["state"] != "fresh" else [])
        miss = [k for k in want if k not in calls]
        if miss:
            missing.append("%s: %s" % (c["id"], miss[:4]))
        for x in o.get("calls") or []:
            calls_seen[x["call"]] = calls_seen.get(x["call"], 0) + 1
            rc = dict(c, call=x["call"])
            # ---- the property itself: no display / list / search / save / non-start action executes the command or touches the environment
            if x.get("fired"):
                fired.setdefault((x["call"], c["path"]), (rc, o.get("text", "")))
            if x.get("envdiff"):
                envch.setdefault((x["call"], c["path"]), (rc, x["envdiff"]))
            if x.get("panic"):
                panics.append("%s: %s: %s" % (c["id"], x["call"], x["panic"]))
        # ---- controls
        if o.get("started_fired"):
            started.setdefault((c["path"], c["variant"]), set()).add(c["shape"])
        if not calls.get("GET /dags/{id}?tab=spec", {}).get("shown"):
            shown_spec.append(c["id"])
        if o.get("saved") and calls.get("GET /dags/{id}", {}).get("shown"):
            shown_page.setdefault((c["path"], c["variant"]), set()).add(c["shape"])
        if o.get("saved") and calls.get("client.GetStatus", {}).get("code") == 0:
            page, hist = calls.get("GET /dags/{id}", {}), calls.get("GET /dags/{id}?tab=history", {})
            good = {"fresh": page.get("code") == 200 and not page.get("rec") and not hist.get("rec"),
                    "recorded": page.get("code") == 200 and bool(page.get("rec")) and bool(hist.get("rec")),
                    "old": page.get("code") == 200 and not page.get("rec") and bool(hist.get("rec"))}[c["state"]]
            rec_ok[c["state"]][0 if good else 1] += 1
    # ---- verdicts (one per api call x position; at most MAX_DISPLAY_VIOLATIONS of them are listed, the whole matrix is in the stats)
    order = {k: i for i, k in enumerate(DISPLAY_CALLS + DISPLAY_CALLS_WITH_RUN)}

    def pick(d):
        keys = sorted(d, key=lambda k: (k[1], order.get(k[0], 99)))
        chosen, seen_p, seen_c = [], set(), set()
        for k in keys:                      # the first call that fires, for the first positions
            if k[1] not in seen_p and len(chosen) < MAX_DISPLAY_VIOLATIONS // 2:
                seen_p.add(k[1]); seen_c.add(k[0]); chosen.append(k)
        for k in keys:                      # then calls not named yet
            if k[0] not in seen_c and len(chosen) < MAX_DISPLAY_VIOLATIONS:
                seen_c.add(k[0]); chosen.append(k)
        return chosen
    for k in pick(fired):
        rc, text = fired[k]
        chk.violation("C19:command-executed-by-display-path:%s:%s" % k,
                      "the command planted in `%s` (shape %s: %s) was executed in the server process by `%s` for a DAG in state `%s` "
                      "(fresh = no recorded status and no live agent: the placeholder status is shown; %d (api call, position) pairs fire "
                      "in this run)" % (rc["path"], rc["shape"], text[:90], k[0], rc["state"], len(fired)), rc)
    for k in pick(envch):
        rc, diff = envch[k]
        chk.violation("C19:environment-changed-by-display-path:%s:%s" % k,
                      "`%s` changed the environment of the server process %s (canary in `%s`, shape %s, state %s)" % (
                          k[0], diff[:4], rc["path"], rc["shape"], rc["state"]), rc)
    # ---- correspondence: per API call, the effects observed over all its cases = what the model's tables give the entries it goes through
    if dmodel is not None:
        dis = []
        for call in sorted(calls_seen):
            obs = set()
            if any(k[0] == call for k in fired):
                obs.add("exec")
            if any(k[0] == call for k in envch):
                obs.add("setenv")
            ents = call_entries(call)
            want = set()
            for e in ents:
                want |= dmodel.get(e, {"entry-not-in-model:" + e})
            if not ents:
                want = {"call-not-mapped"}
            if obs != want:
                dis.append("%s: observed=%s model(%s)=%s" % (call, sorted(obs), ",".join(ents), sorted(want)))
        chk.disagreements += len(dis)
        chk.oblige("correspondence:display-effects (per API call: effects observed over all documents and states = the model's display "
                   "table + loader table for the entries the call goes through, %d calls)" % len(calls_seen), not dis, "; ".join(dis[:6]))
        if not replay:
            starts = {e: k for e, k in dmodel.items() if e in ("client.Start", "client.StartAsync", "client.Restart", "client.Retry")}
            chk.oblige("positive-control: the model's display table gives the start entries the client's exec site",
                       len(starts) == 4 and all("exec" in k for k in starts.values()), str(starts))
    chk.oblige("harness-run:display (no case failed to set its world up)", not errors, "; ".join(errors[:5]))
    chk.oblige("harness-run:display (no API / client call panicked)", not panics, "; ".join(panics[:5]))
    chk.oblige("display stream: every case made every API call of the list (%d calls + 2 with a run on file)" % len(DISPLAY_CALLS),
               not missing, "; ".join(missing[:5]))
    if not replay:
        chk.oblige("positive-control: display stream: the definition tab shows the canary text in every case (the document is where the API reads it)",
                   not shown_spec, "not shown: %s" % shown_spec[:5])
        # the states are what they are meant to be: placeholder status / the recorded run / only the history shows yesterday's run
        for st in DISPLAY_STATES:
            chk.oblige("positive-control: display stream: state `%s` is what the DAG page shows (%s)" % (
                st, {"fresh": "placeholder status, no run", "recorded": "the recorded run", "old": "placeholder status, the run only under history"}[st]),
                rec_ok[st][0] > 0 and rec_ok[st][1] == 0, "as meant / not: %s" % rec_ok[st])
        # the canary is live: STARTING the same document (evaluating load + the command split of node.setupExec) runs it
        paths = sorted({(c["path"], c["variant"]) for c in cases if is_cmd_pos(c) and c["variant"] != "list"})
        for (path, variant) in paths:
            need = {"sq-arg-then-bare"} if path == "functions[].command" else set(QUOTED_ARG_SHAPES)
            miss = sorted(need - started.get((path, variant), set()))
            chk.oblige("positive-control: display stream: starting the document runs the quoted-argument canary planted in `%s`" % path,
                       not miss, "shapes not firing when started: %s" % miss)
            if path != "functions[].command":
                miss = sorted(need - shown_page.get((path, variant), set()))
                chk.oblige("positive-control: display stream: the DAG page shows the command line planted in `%s`" % path,
                           not miss, "shapes not in the answer of GET /dags/{id}: %s" % miss)
        for path in ("env", "params", "logDir"):
            got = set()
            for (p, v), shs in started.items():
                if p == path:
                    got |= shs
            chk.oblige("positive-control: display stream: starting the document evaluates `%s`" % path, len(got) >= 10, str(sorted(got)))
    return {"cases": len(cases), "answered": len(outs), "calls": calls_seen, "waited_for_workers_s": round(t_wait, 2),
            "states": {st: sum(1 for c in cases if c["state"] == st) for st in DISPLAY_STATES},
            "fired_matrix": sorted("%s <- %s" % k for k in fired), "env_matrix": sorted("%s <- %s" % k for k in envch),
            "not_loadable_docs": sum(1 for o in outs if not o.get("saved"))}


def run(chk, replay):
    chk.trusted = common.TRUSTED_COMMON + [
        "effects other than process execution and os.Setenv (e.g. file writes by a loader) are outside the table; the canaries observe "
        "exactly: a file created by the planted command, and the diff of os.Environ()",
        "go/parser reading internal/dag/definition.go in the harness to enumerate the plantable fields",
        "util.SplitCommandWithParse (go-shellwords with ParseBacktick) is listed as an exec site by the extractor; a `call:` step's command "
        "line is assembled by parseFuncCall (function template + argument values) — its canaries sit in functions[].command after the first "
        "word and in call.args of steps and handlers",
        "display table: functions are keyed package.name (methods by name alone) and a method call on a value is resolved by name to every "
        "function of that name in the display files (over-approximation); calls that leave the display files other than into "
        "internal/dag's loader (jsondb history store, sock client, scheduler.NewExecutionGraph, go-swagger) are not followed — those "
        "files are tied by their skeletons (areas Hist / Glue / ApiGen) and exercised by the display stream's canaries"]
    chk.assumptions = ["the table covers builder.go, parser.go, loader.go (the files the loader's build path lives in); condition.go's "
                       "substituteCommands call is run-time only (EvalConditions) and is exercised by the canaries in preconditions",
                       "DAGStore.UpdateSpec/GetDetails/List reach the loader only through LoadYAML/LoadWithoutEval/LoadMetadata (skeleton tie)",
                       "display stream: the agent is not live (no socket answers); a live agent's status is the agent's own answer, built by "
                       "the STARTED run (model.NewStatus in the agent process), which is allowed to evaluate"]
    import time
    t_0 = time.time()
    common.lean_obligations(chk, "BdModel/Props/C19.lean", TIE)
    t_lean = time.time() - t_0
    binp, out = common.build_harness("load")
    t_build = time.time() - t_0 - t_lean
    if not binp:
        chk.oblige("harness-build:load", False, out[-3000:]); return
    chk.oblige("harness-build:load", True)
    chk.rule = RULE_DISPLAY
    if replay and json.load(open(replay))["case"].get("mode") == "display":
        # a display-stream case re-run alone (one harness process, the same calls in the same order)
        c = json.load(open(replay))["case"]
        case = {"id": c.get("id", "replay"), "mode": "display", "path": c["path"], "variant": c["variant"], "root": c.get("root", ""),
                "shape": c.get("shape", "bare"), "state": c.get("state", "fresh")}
        chk.stats = {"display": display_finish(chk, display_start(chk, binp, [case]), True)}
        return
    # ---- model matrix
    rc, dout, derr = common.run_driver("load", "effects\n")
    if rc != 0 or not dout.startswith("effects|"):
        chk.oblige("driver-run:load-effects", False, (derr or dout)[-2000:]); return
    model = {}
    for cell in dout.strip().split("|")[1:]:
        key, effs = cell.split("=", 1)
        e, f = key.split(":", 1)
        kinds = set()
        for x in [x for x in effs.split(",") if x]:
            kinds.add("exec" if "exec." in x else "setenv")
        model[(e, f)] = kinds
    # ---- plantable fields from definition.go
    if replay:
        c = json.load(open(replay))["case"]
        plants = [{"path": c["path"], "variant": c["variant"], "root": c.get("root", "")}]
        entries = [c["entry"]]
        shapes = [c.get("shape", "bare")]
    else:
        r = run_harness(binp, [{"id": "shapes", "mode": "shapes"}], chk, "shapes")
        if r is None:
            return
        shapes = r[0].get("shapes") or []
        chk.oblige("canary shapes cover the parameter syntax (bare, named, double-quoted start/middle/end, named quoted, several items) "
                   "and embedded / quoted / indented / $(…) text", set(REQUIRED_SHAPES) <= set(shapes), str(shapes))
        r = run_harness(binp, [{"id": "fields", "mode": "fields", "repo": common.REPO}], chk, "fields")
        if r is None:
            return
        plants = r[0].get("fields") or []
        chk.oblige("fields enumerated from definition.go", len(plants) > 50 and not r[0].get("error"), json.dumps(r[0])[:500])
        have = {p["path"] for p in plants}
        missing = [p for p in REQUIRED_PATHS if p not in have]
        chk.oblige("field enumeration covers env, params, logDir, dir, command, script, stdout, stderr, output, preconditions, handlers, "
                   "mail/smtp, executor config, functions", not missing, "missing: %s" % missing)
        entries = list(ENTRY_MAP) + ["StartSplit"]
    # ---- display stream: started now, runs in its own harness processes while the loader stream does
    t_disp = time.time()
    dh = None if replay else display_start(chk, binp, display_cases(chk, plants, shapes))
    cases = []
    for e in entries:
        for p in plants:
            for sh in shapes:
                # quick tier: the DAGStore methods go through the same three loaders (skeleton tie) and Load is the positive control; they get every shape
                # in params / env / logDir and three representative shapes elsewhere
                if (chk.tier == "quick" and not replay and e in ("UpdateSpec", "GetDetails", "List", "Load")
                        and p.get("root") not in ("Params", "Env", "LogDir") and p["path"] not in CALL_PATHS
                        and sh not in ("bare", "dq-mid", "named-dq")):
                    continue
                if e == "StartSplit" and not replay and p["path"] not in RUNTIME_PATHS:
                    continue        # run-time positive control only where a command line is assembled
                cases.append({"id": "%s|%s|%s|%s" % (e, p["path"], p["variant"], sh), "mode": "canary", "entry": e, "path": p["path"],
                              "variant": p["variant"], "root": p.get("root", ""), "shape": sh})
    # every random choice from the seeded PRNG: the order of the cases (effects must not depend on it)
    chk.rng.shuffle(cases)
    outs = run_harness(binp, cases, chk, "canary")
    if outs is None:
        return
    chk.oblige("harness-run:canary (every case answered)", len(outs) == len(cases), "%d/%d" % (len(outs), len(cases)))
    observed, outcomes, live, reached, started = {}, {}, {}, {}, {}
    byid = {c["id"]: c for c in cases}
    for o in outs:
        c = byid[o["id"]]
        chk.evaluations += 1
        kinds = set()
        if o.get("fired"):
            kinds.add("exec")
        if o.get("envdiff"):
            kinds.add("setenv")
        if c["entry"] == "StartSplit":
            # positive control outside the loader (scheduler.Node.setupExec): not part of the effect matrix
            if o.get("fired"):
                started.setdefault(c["path"], set()).add(c.get("shape"))
            continue
        if o.get("reached") and c["entry"] in ("LoadYAML", "LoadWithoutEval", "GetDetails"):
            reached.setdefault((c["entry"], c["path"]), set()).add(c.get("shape"))
        observed.setdefault((c["entry"], c["path"], c["root"]), set()).update(kinds)
        outcomes[o.get("outcome", "?").split(":")[0]] = outcomes.get(o.get("outcome", "?").split(":")[0], 0) + 1
        chk.nontrivial.add((c["entry"], c["path"], c["variant"], c.get("shape")))
        if c["entry"] == "Load" and o.get("fired"):
            live.setdefault(c["path"], set()).add(c.get("shape"))
        # ---- the property itself on the implementation
        if c["entry"] in NON_EVAL:
            if o.get("fired"):
                chk.violation("C19:command-executed-without-eval:" + c["path"],
                              "a command planted in `%s` (shape %s: %s) was executed by %s (non-evaluating)" % (c["path"], c.get("shape"), o.get("text", "")[:80], c["entry"]), c)
            if o.get("envdiff"):
                chk.violation("C19:environment-changed-without-eval:" + c["path"],
                              "loading through %s (non-evaluating) changed the process environment %s (canary in `%s`)" % (c["entry"], o["envdiff"][:4], c["path"]), c)
    # ---- positive control: the canary mechanism works
    if not replay:
        for path in ["env", "params", "logDir"]:
            k = set()
            for (e, p, root), v in observed.items():
                if e == "Load" and p == path:
                    k |= v
            chk.oblige("positive-control: dag.Load evaluates `%s` (command runs%s)" % (path, "" if path == "logDir" else ", variables exported"),
                       k == ({"exec"} if path == "logDir" else {"exec", "setenv"}), str(k))
        # every shape is live: under the evaluating entry point it does fire where the syntax of the field evaluates it
        for path, need in LIVE_UNDER_LOAD.items():
            miss = sorted(set(need) - live.get(path, set()))
            chk.oblige("positive-control: under dag.Load the canary shapes %s fire in `%s`" % (",".join(need), path), not miss, "not firing: %s" % miss)
        # function calls: the plant is live (the text arrives in the accepted DAG through the non-evaluating loaders) …
        for path in CALL_PATHS:
            need = set(NO_VAR_SHAPES) if path == "functions[].command" else set(BACKTICK_SHAPES) | {"dollar-paren"}
            for e in ("LoadYAML", "LoadWithoutEval", "GetDetails"):
                miss = sorted(need - reached.get((e, path), set()))
                if miss:
                    chk.oblige("positive-control: canary in `%s` arrives in the DAG loaded by %s" % (path, e), False, "shapes not arriving: %s" % miss)
        chk.oblige("positive-control: canaries in function templates and call arguments (steps and the four handlers) arrive in the "
                   "step's command line of the DAG loaded by LoadYAML / LoadWithoutEval / GetDetails",
                   all(reached.get((e, path)) for path in CALL_PATHS for e in ("LoadYAML", "LoadWithoutEval", "GetDetails")),
                   str({"%s:%s" % k: len(v) for k, v in sorted(reached.items()) if k[1] in CALL_PATHS}))
        # … and starting the DAG (evaluating load + node.setupExec's command split) does run it
        for path in RUNTIME_PATHS:
            # the shapes go-shellwords' back-tick / $(…) parsing runs in that position (observed behaviour of the run-time split:
            # a substitution inside double quotes is not run for an argument; the first word of a command line is the program)
            need = ({"two-commands", "indented", "sq-arg-then-bare"} if path == "functions[].command" else
                    {"bare", "named-bare", "multi", "embedded", "indented", "two-commands", "dollar-paren"} | set(QUOTED_ARG_SHAPES) if path.endswith("call.args") else
                    {"dq-mid", "dq-end", "named-dq", "multi", "two-commands"} | set(QUOTED_ARG_SHAPES))
            miss = sorted(need - started.get(path, set()))
            chk.oblige("positive-control: starting the DAG runs the command planted in `%s`" % path, not miss, "shapes not firing: %s" % miss)
    t_loader = time.time() - t_disp
    dstats = display_finish(chk, dh, False, display_model(chk, model)) if dh else {}
    if dh:
        dstats["loader_stream_s"], dstats["display_total_s"] = round(t_loader, 2), round(time.time() - t_disp, 2)
        dstats["lean_phase_s"], dstats["harness_build_s"] = round(t_lean, 2), round(t_build, 2)
    # ---- correspondence: observed (entry, field) matrix = model reach
    dis = 0
    for (e, p, root), kinds in sorted(observed.items()):
        top = "." not in p and "[]" not in p
        want = model.get((ENTRY_MAP[e], root), set()) if top else set()
        # a canary below the top level of a field reaches what the field reaches (nothing, for every field with structure)
        if not top:
            want = model.get((ENTRY_MAP[e], root), set())
        if kinds != want:
            dis += 1; chk.disagreements += 1
            if dis <= 4:
                chk.oblige("correspondence:effects:%s:%s" % (e, p), False, "observed=%s model reach(%s,%s)=%s" % (sorted(kinds), ENTRY_MAP[e], root, sorted(want)))
    chk.disagreements_checked = chk.disagreements
    if dis == 0:
        chk.oblige("correspondence:effects (observed (entry, field) effect matrix = model reach, %d cells)" % len(observed), True)
    chk.stats = {"plants": len(plants), "shapes": shapes, "live_under_load": {k: sorted(v) for k, v in sorted(live.items())},
                 "entries": entries, "cases": len(cases), "load_outcomes": outcomes, "display": dstats,
                 "cells_with_effect": sorted("%s:%s=%s" % (e, p, ",".join(sorted(k))) for (e, p, _), k in observed.items() if k)}
    chk.rule = ("every string-valued / any-typed field of definition.go (enumerated by parsing the file, so a new field is planted "
                "automatically; any-typed fields as string, list, map, list-of-maps, executor as {type, config}) x %d lexical shapes of the "
                "canary text (bare back-tick `touch <canary>`, name=value, double-quoted with the command at start / middle / end, named quoted, "
                "escaped quotes, several items, embedded in text, single-quoted, indented, $(…), two commands; each with ${VERIF_CANARY_VAR}) "
                "x entry points LoadYAML, LoadMetadata, LoadWithoutEval, DAGStore.UpdateSpec/GetDetails/List, and "
                "Load as positive control; non-trivial = distinct (entry, path, variant, shape). " % len(shapes)) + RULE_DISPLAY
    chk.samples = [o for o in outs if o.get("fired") or o.get("envdiff")][:4] + outs[:2]
