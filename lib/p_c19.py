"""C19 — listing, viewing and validating a DAG has no side effects."""
import json, subprocess
import common

TIE = {"Load": ["effectSites", "callEdges", "builderFields", "entryOpts", "defStructs",
                "h_load_build", "h_load_buildEnvs", "h_load_buildLogDir", "h_load_buildParams", "h_load_buildSMTPConfig",
                "h_load_loadVariables", "h_load_parseParams", "h_load_parseParamValue", "h_load_substituteCommands",
                "h_load_buildStep", "h_load_buildSteps", "h_load_buildHandlers",
                "h_load_Load", "h_load_LoadWithoutEval", "h_load_LoadMetadata", "h_load_LoadYAML", "h_load_loadYAML", "h_load_loadDAG",
                "h_load_storeUpdateSpec", "h_load_storeGetDetails", "h_load_storeGetMetadata", "h_load_storeList"]}

# entry point exercised -> loader entry point it goes through (tied by the dag_store skeleton hashes)
ENTRY_MAP = {"LoadYAML": "LoadYAML", "LoadMetadata": "LoadMetadata", "LoadWithoutEval": "LoadWithoutEval",
             "UpdateSpec": "LoadYAML", "GetDetails": "LoadWithoutEval", "List": "LoadMetadata", "Load": "Load"}
NON_EVAL = ["LoadYAML", "LoadMetadata", "LoadWithoutEval", "UpdateSpec", "GetDetails", "List"]
REQUIRED_PATHS = ["env", "params", "logDir", "steps[].dir", "steps[].command", "steps[].script", "steps[].stdout", "steps[].stderr",
                  "steps[].output", "preconditions[].condition", "preconditions[].expected", "steps[].preconditions[].condition",
                  "handlerOn.exit.command", "handlerOn.failure.script", "smtp.host", "smtp.password", "errorMail.to", "infoMail.from",
                  "steps[].executor", "functions[].command", "functions[].params", "functions[].name", "steps[].call.args", "steps[].call.function",
                  "handlerOn.exit.call.args", "handlerOn.exit.call.function", "handlerOn.failure.call.args", "steps[].env", "steps[].run", "steps[].params"]
# paths through which a function call is assembled (parseFuncCall: function template + argument values -> Step.CmdWithArgs);
# nothing evaluates them at load time, so their controls are: the text arrives in the loaded DAG, and STARTING the DAG
# (evaluating load + the command split of scheduler.Node.setupExec) does run it
CALL_PATHS = ["functions[].command", "steps[].call.args", "handlerOn.exit.call.args", "handlerOn.success.call.args",
              "handlerOn.failure.call.args", "handlerOn.cancel.call.args"]
RUNTIME_PATHS = CALL_PATHS + ["steps[].command", "handlerOn.exit.command"]
NO_VAR_SHAPES = ["dq-only", "two-commands"]        # shapes without a `$…` word: a function template stays well-formed


REQUIRED_SHAPES = ["bare", "named-bare", "dq-start", "dq-mid", "dq-end", "named-dq", "multi", "multi-dq-last", "embedded", "sq", "indented", "dollar-paren"]
BACKTICK_SHAPES = ["bare", "named-bare", "dq-start", "dq-mid", "dq-end", "dq-only", "named-dq", "named-dq-escaped", "multi", "multi-dq-last",
                   "embedded", "sq", "indented", "two-commands"]
# shapes that the evaluating entry point must execute, per field (the rest of the shapes is not command syntax there)
LIVE_UNDER_LOAD = {"params": ["bare", "named-bare", "dq-start", "dq-mid", "dq-end", "dq-only", "named-dq", "named-dq-escaped", "multi-dq-last"],
                   "env": BACKTICK_SHAPES, "logDir": BACKTICK_SHAPES}


def run_harness(binp, cases, chk, what):
    p = subprocess.run([binp], input="\n".join(json.dumps(c) for c in cases) + "\n", stdout=subprocess.PIPE,
                       stderr=subprocess.PIPE, text=True, timeout=3000)
    if p.returncode != 0:
        chk.oblige("harness-run:" + what, False, p.stderr[-2000:])
        return None
    return [json.loads(l) for l in p.stdout.splitlines()]


def run(chk, replay):
    chk.trusted = common.TRUSTED_COMMON + [
        "effects other than process execution and os.Setenv (e.g. file writes by a loader) are outside the table; the canaries observe "
        "exactly: a file created by the planted command, and the diff of os.Environ()",
        "go/parser reading internal/dag/definition.go in the harness to enumerate the plantable fields",
        "util.SplitCommandWithParse (go-shellwords with ParseBacktick) is listed as an exec site by the extractor; a `call:` step's command "
        "line is assembled by parseFuncCall (function template + argument values) — its canaries sit in functions[].command after the first "
        "word and in call.args of steps and handlers"]
    chk.assumptions = ["the table covers builder.go, parser.go, loader.go (the files the loader's build path lives in); condition.go's "
                       "substituteCommands call is run-time only (EvalConditions) and is exercised by the canaries in preconditions",
                       "DAGStore.UpdateSpec/GetDetails/List reach the loader only through LoadYAML/LoadWithoutEval/LoadMetadata (skeleton tie)"]
    common.lean_obligations(chk, "BdModel/Props/C19.lean", TIE)
    binp, out = common.build_harness("load")
    if not binp:
        chk.oblige("harness-build:load", False, out[-3000:]); return
    chk.oblige("harness-build:load", True)
    # ---- model matrix
    rc, dout, derr = common.run_driver("load", "effects\n")
    if rc != 0 or not dout.startswith("effects|"):
        chk.oblige("driver-run:load-effects", False, (derr or dout)[-2000:]); return
    model = {}
    for cell in dout.strip().split("|")[1:]:
        key, effs = cell.split("=", 1)
        e, f = key.split(":", 1)
        kinds = set()
        for x in [x for x in effs.split(",") if x]:
            kinds.add("exec" if "exec." in x else "setenv")
        model[(e, f)] = kinds
    # ---- plantable fields from definition.go
    if replay:
        c = json.load(open(replay))["case"]
        plants = [{"path": c["path"], "variant": c["variant"], "root": c.get("root", "")}]
        entries = [c["entry"]]
        shapes = [c.get("shape", "bare")]
    else:
        r = run_harness(binp, [{"id": "shapes", "mode": "shapes"}], chk, "shapes")
        if r is None:
            return
        shapes = r[0].get("shapes") or []
        chk.oblige("canary shapes cover the parameter syntax (bare, named, double-quoted start/middle/end, named quoted, several items) "
                   "and embedded / quoted / indented / $(…) text", set(REQUIRED_SHAPES) <= set(shapes), str(shapes))
        r = run_harness(binp, [{"id": "fields", "mode": "fields", "repo": common.REPO}], chk, "fields")
        if r is None:
            return
        plants = r[0].get("fields") or []
        chk.oblige("fields enumerated from definition.go", len(plants) > 50 and not r[0].get("error"), json.dumps(r[0])[:500])
        have = {p["path"] for p in plants}
        missing = [p for p in REQUIRED_PATHS if p not in have]
        chk.oblige("field enumeration covers env, params, logDir, dir, command, script, stdout, stderr, output, preconditions, handlers, "
                   "mail/smtp, executor config, functions", not missing, "missing: %s" % missing)
        entries = list(ENTRY_MAP) + ["StartSplit"]
    cases = []
    for e in entries:
        for p in plants:
            for sh in shapes:
                # quick tier: the DAGStore methods go through the same three loaders (skeleton tie) and Load is the positive control; they get every shape
                # in params / env / logDir and three representative shapes elsewhere
                if (chk.tier == "quick" and not replay and e in ("UpdateSpec", "GetDetails", "List", "Load")
                        and p.get("root") not in ("Params", "Env", "LogDir") and p["path"] not in CALL_PATHS
                        and sh not in ("bare", "dq-mid", "named-dq")):
                    continue
                if e == "StartSplit" and not replay and p["path"] not in RUNTIME_PATHS:
                    continue        # run-time positive control only where a command line is assembled
                cases.append({"id": "%s|%s|%s|%s" % (e, p["path"], p["variant"], sh), "mode": "canary", "entry": e, "path": p["path"],
                              "variant": p["variant"], "root": p.get("root", ""), "shape": sh})
    # every random choice from the seeded PRNG: the order of the cases (effects must not depend on it)
    chk.rng.shuffle(cases)
    outs = run_harness(binp, cases, chk, "canary")
    if outs is None:
        return
    chk.oblige("harness-run:canary (every case answered)", len(outs) == len(cases), "%d/%d" % (len(outs), len(cases)))
    observed, outcomes, live, reached, started = {}, {}, {}, {}, {}
    byid = {c["id"]: c for c in cases}
    for o in outs:
        c = byid[o["id"]]
        chk.evaluations += 1
        kinds = set()
        if o.get("fired"):
            kinds.add("exec")
        if o.get("envdiff"):
            kinds.add("setenv")
        if c["entry"] == "StartSplit":
            # positive control outside the loader (scheduler.Node.setupExec): not part of the effect matrix
            if o.get("fired"):
                started.setdefault(c["path"], set()).add(c.get("shape"))
            continue
        if o.get("reached") and c["entry"] in ("LoadYAML", "LoadWithoutEval", "GetDetails"):
            reached.setdefault((c["entry"], c["path"]), set()).add(c.get("shape"))
        observed.setdefault((c["entry"], c["path"], c["root"]), set()).update(kinds)
        outcomes[o.get("outcome", "?").split(":")[0]] = outcomes.get(o.get("outcome", "?").split(":")[0], 0) + 1
        chk.nontrivial.add((c["entry"], c["path"], c["variant"], c.get("shape")))
        if c["entry"] == "Load" and o.get("fired"):
            live.setdefault(c["path"], set()).add(c.get("shape"))
        # ---- the property itself on the implementation
        if c["entry"] in NON_EVAL:
            if o.get("fired"):
                chk.violation("C19:command-executed-without-eval:" + c["path"],
                              "a command planted in `%s` (shape %s: %s) was executed by %s (non-evaluating)" % (c["path"], c.get("shape"), o.get("text", "")[:80], c["entry"]), c)
            if o.get("envdiff"):
                chk.violation("C19:environment-changed-without-eval:" + c["path"],
                              "loading through %s (non-evaluating) changed the process environment %s (canary in `%s`)" % (c["entry"], o["envdiff"][:4], c["path"]), c)
    # ---- positive control: the canary mechanism works
    if not replay:
        for path in ["env", "params", "logDir"]:
            k = set()
            for (e, p, root), v in observed.items():
                if e == "Load" and p == path:
                    k |= v
            chk.oblige("positive-control: dag.Load evaluates `%s` (command runs%s)" % (path, "" if path == "logDir" else ", variables exported"),
                       k == ({"exec"} if path == "logDir" else {"exec", "setenv"}), str(k))
        # every shape is live: under the evaluating entry point it does fire where the syntax of the field evaluates it
        for path, need in LIVE_UNDER_LOAD.items():
            miss = sorted(set(need) - live.get(path, set()))
            chk.oblige("positive-control: under dag.Load the canary shapes %s fire in `%s`" % (",".join(need), path), not miss, "not firing: %s" % miss)
        # function calls: the plant is live (the text arrives in the accepted DAG through the non-evaluating loaders) …
        for path in CALL_PATHS:
            need = set(NO_VAR_SHAPES) if path == "functions[].command" else set(BACKTICK_SHAPES) | {"dollar-paren"}
            for e in ("LoadYAML", "LoadWithoutEval", "GetDetails"):
                miss = sorted(need - reached.get((e, path), set()))
                if miss:
                    chk.oblige("positive-control: canary in `%s` arrives in the DAG loaded by %s" % (path, e), False, "shapes not arriving: %s" % miss)
        chk.oblige("positive-control: canaries in function templates and call arguments (steps and the four handlers) arrive in the "
                   "step's command line of the DAG loaded by LoadYAML / LoadWithoutEval / GetDetails",
                   all(reached.get((e, path)) for path in CALL_PATHS for e in ("LoadYAML", "LoadWithoutEval", "GetDetails")),
                   str({"%s:%s" % k: len(v) for k, v in sorted(reached.items()) if k[1] in CALL_PATHS}))
        # … and starting the DAG (evaluating load + node.setupExec's command split) does run it
        for path in RUNTIME_PATHS:
            # the shapes go-shellwords' back-tick / $(…) parsing runs in that position (observed behaviour of the run-time split:
            # a substitution inside double quotes is not run for an argument; the first word of a command line is the program)
            need = ({"two-commands", "indented"} if path == "functions[].command" else
                    {"bare", "named-bare", "multi", "embedded", "indented", "two-commands", "dollar-paren"} if path.endswith("call.args") else
                    {"dq-mid", "dq-end", "named-dq", "multi", "two-commands"})
            miss = sorted(need - started.get(path, set()))
            chk.oblige("positive-control: starting the DAG runs the command planted in `%s`" % path, not miss, "shapes not firing: %s" % miss)
    # ---- correspondence: observed (entry, field) matrix = model reach
    dis = 0
    for (e, p, root), kinds in sorted(observed.items()):
        top = "." not in p and "[]" not in p
        want = model.get((ENTRY_MAP[e], root), set()) if top else set()
        # a canary below the top level of a field reaches what the field reaches (nothing, for every field with structure)
        if not top:
            want = model.get((ENTRY_MAP[e], root), set())
        if kinds != want:
            dis += 1; chk.disagreements += 1
            if dis <= 4:
                chk.oblige("correspondence:effects:%s:%s" % (e, p), False, "observed=%s model reach(%s,%s)=%s" % (sorted(kinds), ENTRY_MAP[e], root, sorted(want)))
    chk.disagreements_checked = chk.disagreements
    if dis == 0:
        chk.oblige("correspondence:effects (observed (entry, field) effect matrix = model reach, %d cells)" % len(observed), True)
    chk.stats = {"plants": len(plants), "shapes": shapes, "live_under_load": {k: sorted(v) for k, v in sorted(live.items())},
                 "entries": entries, "cases": len(cases), "load_outcomes": outcomes,
                 "cells_with_effect": sorted("%s:%s=%s" % (e, p, ",".join(sorted(k))) for (e, p, _), k in observed.items() if k)}
    chk.rule = ("every string-valued / any-typed field of definition.go (enumerated by parsing the file, so a new field is planted "
                "automatically; any-typed fields as string, list, map, list-of-maps, executor as {type, config}) x %d lexical shapes of the "
                "canary text (bare back-tick `touch <canary>`, name=value, double-quoted with the command at start / middle / end, named quoted, "
                "escaped quotes, several items, embedded in text, single-quoted, indented, $(…), two commands; each with ${VERIF_CANARY_VAR}) "
                "x entry points LoadYAML, LoadMetadata, LoadWithoutEval, DAGStore.UpdateSpec/GetDetails/List, and "
                "Load as positive control; non-trivial = distinct (entry, path, variant, shape)" % len(shapes))
    chk.samples = [o for o in outs if o.get("fired") or o.get("envdiff")][:4] + outs[:2]
