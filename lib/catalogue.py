#!/usr/bin/env python3
"""Mutation catalogue (DESIGN Appendix D): single realistic edits that compile; each is applied to a fresh
scratch worktree of /repo HEAD, the property's quick check is run against it (VERIF_REPO), and the result
(violation with replay / broken obligation only / missed / does not build) is recorded in catalogue_results.json.
Usage: lib/catalogue.py [ids…]    (run by hand; takes ~30 s per entry)"""
import json, os, subprocess, sys, shutil

ROOT = os.path.dirname(os.path.dirname(os.path.abspath(__file__)))
SCHED = "internal/dag/scheduler/scheduler.go"
GRAPH = "internal/dag/scheduler/graph.go"
NODE = "internal/dag/scheduler/node.go"
JDB = "internal/persistence/jsondb/jsondb.go"
DAEMON = "internal/scheduler/scheduler.go"
JOB = "internal/scheduler/job.go"
BAUTH = "internal/frontend/middleware/basic_auth.go"
TAUTH = "internal/frontend/middleware/token_auth.go"
STORE = "internal/persistence/local/dag_store.go"
BUILDER = "internal/dag/builder.go"
PARSER = "internal/dag/parser.go"
AGENT = "internal/agent/agent.go"

# (id, property, file, old, new, description)
CAT = [
 ("m01", "C01", SCHED, "\t\tcase NodeStatusNone, NodeStatusRunning:\n\t\t\tready = false", "\t\tcase NodeStatusNone:\n\t\t\tready = false\n\t\tcase NodeStatusRunning:\n\t\t\tcontinue", "isReady: a running dependency no longer blocks"),
 ("m02", "C02", SCHED, "\t\tcase NodeStatusCancel:\n\t\t\tready = false\n\t\t\tnode.setStatus(NodeStatusCancel)", "\t\tcase NodeStatusCancel:\n\t\t\tready = false", "isReady: a step downstream of a canceled one is no longer labelled"),
 ("m03", "C02", SCHED, "\t\t\t\t\tnode.setStatus(NodeStatusSkipped)\n", "\t\t\t\t\tnode.setStatus(NodeStatusCancel)\n", "unmet precondition labels the step canceled instead of skipped"),
 ("m04", "C03", SCHED, "node.data.Step.RetryPolicy.Limit > node.getRetryCount()", "node.data.Step.RetryPolicy.Limit >= node.getRetryCount()", "retry limit comparison > becomes >="),
 ("m05", "C15", SCHED, "sc.runningCount(g) >= sc.maxActiveRuns", "sc.runningCount(g) > sc.maxActiveRuns", "maxActiveRuns comparison >= becomes >"),
 ("m06", "C04", SCHED, "\tcase StatusError:\n\t\thandlers = append(handlers, dag.HandlerOnFailure)\n\tcase StatusCancel:\n\t\thandlers = append(handlers, dag.HandlerOnCancel)", "\tcase StatusError:\n\t\thandlers = append(handlers, dag.HandlerOnCancel)\n\tcase StatusCancel:\n\t\thandlers = append(handlers, dag.HandlerOnFailure)", "onFailure / onCancel swapped in the handler selection"),
 ("m07", "C04", SCHED, "\thandlers = append(handlers, dag.HandlerOnExit)\n", "\thandlers = append([]dag.HandlerType{dag.HandlerOnExit}, handlers...)\n", "onExit runs first instead of last"),
 ("m08", "C05", NODE, "\t\tif allowOverride && n.data.Step.SignalOnStop != \"\" {", "\t\tif allowOverride || n.data.Step.SignalOnStop != \"\" {", "signalOnStop override: && becomes ||"),
 ("m09", "C06", JDB, "\t\t\treturn ti > tj\n", "\t\t\treturn ti < tj\n", "history files sorted oldest first"),
 ("m10", "C06", JDB, "\t\tif info.ModTime().Before(ot) {", "\t\tif !info.ModTime().After(ot.Add(24 * time.Hour)) {", "retention removes files one day too early"),
 ("m11", "C07", JDB, "\tif err := w.write(status); err != nil {\n\t\tif removeErr := os.Remove(f); removeErr != nil {\n\t\t\tlog.Printf(\"failed to remove %s : %s\", f, removeErr)\n\t\t}\n\t\treturn err\n\t}\n\n\treturn os.Remove(original)", "\tif err := os.Remove(original); err != nil {\n\t\treturn err\n\t}\n\treturn w.write(status)", "Compact removes the original BEFORE writing the twin"),
 ("m12", "C09", DAEMON, "\t\tif t.After(now) {\n\t\t\tbreak\n\t\t}", "\t\tif !t.Before(now) {\n\t\t\tbreak\n\t\t}", "daemon skips the matching minute (After -> !Before)"),
 ("m13", "C09", JOB, "lastExecTime.After(j.Next) || j.Next.Equal(lastExecTime)", "lastExecTime.After(j.Next)", "start guard: the same-minute test dropped"),
 ("m14", "C10", GRAPH, "\t\t\t\tdict[u] == NodeStatusCancel ||\n", "", "setupRetry: canceled steps are no longer reset"),
 ("m15", "C14", GRAPH, "\t\tif degree > 0 {", "\t\tif degree > 1 {", "hasCycle final test degree > 0 becomes > 1"),
 ("m16", "C14", GRAPH, "\t\tif inDegrees[node.id] != 0 {", "\t\tif inDegrees[node.id] > 1 {", "hasCycle seeds steps with in-degree 1 as well"),
 ("m17", "C17", BAUTH, "\t\tlen(authHeader) >= 2 &&\n", "\t\tlen(authHeader) >= 1 &&\n", "skipBasicAuth accepts a header that is just 'Bearer'"),
 ("m18", "C17", TAUTH, "subtle.ConstantTimeCompare([]byte(bearer), []byte(token)) != 1", "subtle.ConstantTimeCompare([]byte(bearer), []byte(token)) == 0 && len(bearer) == len(token)", "token check only rejects equal-length mismatches"),
 ("m19", "C18", STORE, "\tif exists(loc) {\n\t\treturn \"\", fmt.Errorf(\"%w: %s\", errDAGFileAlreadyExists, loc)\n\t}\n", "", "Create no longer refuses an existing DAG"),
 ("m20", "C19", BUILDER, "\tif b.opts.noEval {\n\t\tb.dag.LogDir = b.def.LogDir\n\t\treturn nil\n\t}\n", "", "buildLogDir evaluates under noEval again"),
 ("m21", "C11", NODE, "\t\tret := strings.TrimSpace(n.outputBuf.String())", "\t\tret := strings.Trim(n.outputBuf.String(), \" \")", "captured output trimmed of blanks only"),
 ("m22", "C08", AGENT, "\t\tschedulerStatus = scheduler.StatusRunning\n\t}\n\tif schedulerStatus == scheduler.StatusSuccess &&", "\t\tschedulerStatus = scheduler.StatusRunning\n\t}\n\tif false && schedulerStatus == scheduler.StatusSuccess &&", "agent no longer maps mid-run success to running"),
 ("m23", "C13", PARSER, "\t\tdefault:\n\t\t\treturn fmt.Errorf(\"%w: %s\", errInvalidScheduleKey, key)\n", "\t\tdefault:\n\t\t\tcontinue\n", "unknown schedule-map key silently ignored (still no crash)"),
 ("m24", "C12", NODE, "\tn.done = false\n", "", "setup no longer resets the done flag (F16 returns)"),
 ("m25", "C16", AGENT, "\tif err := a.checkIsAlreadyRunning(); err != nil {\n\t\treturn err\n\t}\n", "\t_ = a.checkIsAlreadyRunning\n", "already-running probe removed (the file lock remains)"),
 ("m26", "C20", "internal/frontend/dag/handler.go", None, None, "see seeded/C20"),
]


def sh(cmd, cwd=None, env=None, timeout=3000):
    p = subprocess.run(cmd, cwd=cwd, env=env, stdout=subprocess.PIPE, stderr=subprocess.STDOUT, text=True, timeout=timeout, shell=isinstance(cmd, str))
    return p.returncode, p.stdout


def main():
    want = set(sys.argv[1:])
    outp = os.path.join(ROOT, "catalogue_results.json")
    res = json.load(open(outp)) if os.path.exists(outp) else {}
    env = dict(os.environ, GOFLAGS="-mod=mod", GOPROXY="off", GOSUMDB="off", GOTOOLCHAIN="local")
    for (mid, prop, f, old, new, desc) in CAT:
        if old is None or (want and mid not in want):
            continue
        wt = "/tmp/cat-" + mid
        mine = []
        sh(["git", "-C", "/repo", "worktree", "remove", "--force", wt])
        sh(["git", "-C", "/repo", "worktree", "add", "-q", wt, "HEAD"])
        try:
            p = os.path.join(wt, f)
            s = open(p).read()
            if old not in s:
                res[mid] = {"property": prop, "edit": desc, "result": "snippet-not-found"}; print(mid, "snippet not found"); continue
            open(p, "w").write(s.replace(old, new, 1))
            rc, o = sh(["go", "build", "./..."], cwd=wt, env=env)
            if rc != 0:
                res[mid] = {"property": prop, "edit": desc, "result": "does-not-build", "detail": o[-300:]}; print(mid, "does not build"); continue
            rc, o = sh([os.path.join(ROOT, "check"), prop, "--tier", "quick"], cwd=ROOT, env=dict(env, VERIF_REPO=wt))
            viol = [l for l in o.split("\n") if l.startswith("VIOLATION")]
            mine = [v.split("replay=")[1].split()[0] for v in viol]
            broken = [l.split("OBLIGATION BROKEN: ")[1][:90] for l in o.split("\n") if "OBLIGATION BROKEN" in l]
            if any("no-failing-input-found" not in v for v in viol):
                sigs = []
                for v in viol:
                    rp = v.split("replay=")[1].split()[0]
                    try: sigs.append(json.load(open(rp)).get("signature", "?"))
                    except Exception: pass
                r = "VIOLATION with replay"
            elif viol:
                sigs, r = [], "broken obligation only (no failing input found)"
            else:
                sigs, r = [], "MISSED"
            res[mid] = {"property": prop, "file": f, "edit": desc, "result": r, "signatures": sorted(set(sigs))[:4], "broken": broken[:4], "rc": rc}
            print(mid, prop, r, sorted(set(sigs))[:3])
        finally:
            sh(["git", "-C", "/repo", "worktree", "remove", "--force", wt])
            for rp in mine:
                try: os.remove(rp)
                except OSError: pass
        json.dump(res, open(outp, "w"), indent=1, sort_keys=True)


if __name__ == "__main__":
    main()
