"""C04 — scheduler family; shared stream in sched.py"""
import common, sched

PROP = "C04"


def run(chk, replay):
    sched.run_property(chk, PROP, replay)
