"""C04 — scheduler family; shared stream in sched.py; plus the outcome / handler clauses of forcibly stopped REAL runs
   (real agent, real command executor: shared with C05's real-process stop stream)"""
import json, os, re
import common, sched

PROP = "C04"


def tie_names(area):
    p = os.path.join(common.LEAN, "BdModel", "Tie", area + ".lean")
    return re.findall(r"^theorem tie_(\w+) ", open(p).read(), re.M) if os.path.exists(p) else []


def run(chk, replay):
    import p_c05
    if replay and "real_stop_case" in json.load(open(replay)).get("case", {}):
        p_c05.real_stop_stream(chk, PROP); return
    if replay and "agent_case" in json.load(open(replay)).get("case", {}):
        import p_c08
        p_c08.agent_level(chk, PROP, 0, only=json.load(open(replay))["case"]["agent_case"]); return
    if replay and "hist_case" in json.load(open(replay)).get("case", {}):
        import hist as _hist
        _hist.replay_big_record(chk, PROP, "the outcome a run is REPORTED with is read back from the history store", json.load(open(replay))["case"]["hist_case"]); return
    chk.trusted = common.TRUSTED_COMMON + ["quiescence discipline of the scheduler harness (one completion released at a time)"]
    chk.assumptions = [sched.NOTES.get(PROP, "")]
    # the handlers run on the context the agent hands to Schedule: Agent.Run / Agent.signal are part of what C04 rests on
    common.lean_obligations(chk, "BdModel/Props/%s.lean" % PROP,
                            {"Sched": sched.SCHED_TIE, "Graph": sched._ties_of("Graph"), "Agent": tie_names("Agent"), "Load": sched.LOAD_TIES_FOR_SCHED},
                            extra_targets=["BdModel.Sched.Tables"])
    sched.run_stream(chk, PROP, replay)
    sched.yaml_stream(chk, PROP, replay)
    if not replay:
        p_c05.real_stop_stream(chk, PROP)
        import p_c08
        p_c08.agent_level(chk, PROP, 40 if chk.tier == "quick" else 400)
        import hist as _hist
        _hist.big_record_leg(chk, PROP, "the outcome a run is REPORTED with is read back from the history store (compaction at the end of the run included)")
