"""Shared correspondence + monitor stream of the scheduler properties (C01–C05, C15)."""
import json, os, subprocess, concurrent.futures as cf
import common

SCHED_TIE = ["h_sched_Schedule", "h_sched_isReady", "h_sched_Status", "h_sched_Signal", "h_sched_isFinished",
             "h_sched_isSucceed", "h_sched_runningCount", "h_sched_isCanceled", "h_sched_setCanceled",
             "h_node_signal", "h_node_setErr", "h_node_setStatus", "h_graph_IsRunning",
             "isReadyTable", "statusCascade", "handlerSwitch", "errSwitch", "scheduleIfConds", "exitAppend",
             "pred_isFinished", "pred_isSucceed", "pred_runningCount", "nodeSignalSkeleton", "signalSkeleton"]


def _ties_of(area):
    import re
    p = os.path.join(common.LEAN, "BdModel", "Tie", area + ".lean")
    return re.findall(r"^theorem tie_(\w+) ", open(p).read(), re.M) if os.path.exists(p) else []


def _all_sched_ties():
    import re
    p = os.path.join(common.LEAN, "BdModel", "Tie", "Sched.lean")
    return re.findall(r"^theorem tie_(\w+) ", open(p).read(), re.M) if os.path.exists(p) else SCHED_TIE


SCHED_TIE = _all_sched_ties()


def gen_big_case(rng, k):
    """a larger, plain DAG (12-30 steps, sparse, forward AND backward references in listing order): run first in each
    harness process, where node ids start at 1 (id-dependent bookkeeping such as edge keys is exercised across digit lengths)"""
    n = rng.randint(12, 30)
    order = list(range(n)); rng.shuffle(order)
    pos = {v: i for i, v in enumerate(order)}
    nodes = []
    for i in range(n):
        deps = [j for j in range(n) if pos[j] < pos[i] and rng.random() < 2.5 / n]
        nodes.append({"deps": deps, "cf": False, "cs": False, "limit": 0, "pre": 0, "prev": 0, "fails": 0, "obeys": True, "sig": "", "rep": False})
    # edge pairs whose decimal ids concatenate to the same digits (id = listing index + 1 in a fresh process):
    # a -> (10b+c) and (10a+b) -> c, e.g. 1 -> 12 and 11 -> 2
    triples = [(a, b, c) for a in range(1, 10) for b in range(0, 10) for c in range(1, 10)]
    rng.shuffle(triples)
    for a, b, c in triples:
        u1, v1, u2, v2 = a, 10 * b + c, 10 * a + b, c
        if max(u1, v1, u2, v2) > n or v1 < 10 or len({u1, v1, u2, v2}) < 4:
            continue
        if pos[u1 - 1] < pos[v1 - 1] and pos[u2 - 1] < pos[v2 - 1]:
            for (u, v) in ((u1, v1), (u2, v2)):
                if u - 1 not in nodes[v - 1]["deps"]:
                    nodes[v - 1]["deps"].append(u - 1)
    return {"id": "c%d" % k, "nodes": nodes, "maxActive": 0, "handlers": [0, 0, 0, 0], "stopAfter": -1, "seed": rng.randrange(1 << 30), "dry": False}


# C03 "… executed exactly once if the step is runnable and NEVER OTHERWISE": a command started for a step whose
# dependencies do not let it proceed is C01's / C02's verdict and C03's as well; C02 "… has not been executed at all"
ALSO = {"C03": (("C01:start-with-unlicensed-dependency", "C03:executed-although-not-runnable"),
                ("C01:start-after-dependency-whose-last-execution-failed", "C03:executed-although-not-runnable"),
                ("C02:executed-or-mislabelled-downstream-of-blocker", "C03:executed-although-not-runnable")),
        "C02": (("C01:start-with-unlicensed-dependency", "C02:executed-although-a-dependency-does-not-let-it-proceed"),
                ("C01:start-after-dependency-whose-last-execution-failed", "C02:executed-although-a-dependency-does-not-let-it-proceed"))}


TIMING_WORDS = ("does-not-complete", "does-not-end", "non-terminal-final-state", "left-unfinished", "replay-op-not-applicable",
                "precondition-not-evaluated")


def is_timing_verdict(m):
    return any(w in m for w in TIMING_WORDS)


LOAD_TIES_FOR_SCHED = [t for t in _ties_of("Load") if t.startswith("h_load_build") or t in ("h_load_parseMiscs", "h_load_parseFuncCalls")]


def yaml_stream(chk, prop, replay=None):
    """definitions written in YAML arrive at the scheduler as written (lib/yamlfields.py)"""
    import yamlfields
    if replay:
        rp = json.load(open(replay))
        if "yaml_case" not in rp.get("case", {}):
            return
    binp, out = common.build_harness("sched")
    if binp:
        yamlfields.run(chk, prop, binp, 150 if chk.tier == "quick" else 1500)


def gen_fanin_case(rng, k, maxn):
    """wide fan-ins: 3..maxn-1 independent sources and 1-2 joins naming 3 or more of them in random order, so that
    a straggler (still running / failing) sits between dependencies that are already finished when the loop polls"""
    w = rng.randint(3, max(3, maxn - 2))
    nj = rng.choice([1, 1, 2])
    n = w + nj
    ids = list(range(n)); rng.shuffle(ids)
    src, joins = ids[:w], ids[w:]
    nodes = [None] * n
    for i in src:
        r = rng.random()
        limit = rng.choice([0, 0, 1])
        nodes[i] = {"deps": [], "cf": rng.random() < 0.3, "cs": rng.random() < 0.3, "limit": limit,
                    "pre": pre_flavour(rng, rng.choice([0, 0, 0, 0, 2])), "prev": 0, "fails": 0 if r < 0.7 else (limit + 1 if r < 0.85 else -1),
                    "obeys": True, "sig": "", "rep": False}
    for j in joins:
        deps = rng.sample(src, rng.randint(3, w)); rng.shuffle(deps)
        nodes[j] = {"deps": deps, "cf": False, "cs": False, "limit": 0, "pre": 0, "prev": 0, "fails": 0, "obeys": True, "sig": "", "rep": False}
    return {"id": "c%d" % k, "nodes": nodes, "maxActive": rng.choice([0, 0, 0, w]), "handlers": [rng.choice([0, 1]) for _ in range(4)],
            "stopAfter": -1, "seed": rng.randrange(1 << 30), "dry": False}


def gen_pressure_case(rng, k, maxn):
    """limit pressure: more independent ready steps than slots, several of them failing with a retry budget, so that
    a step is handed back for a retry while other ready steps (earlier and later in the list) wait for a slot"""
    n = rng.randint(4, max(4, min(maxn, 7)))
    nodes = []
    for i in range(n):
        limit = rng.choice([0, 1, 1, 2])
        r = rng.random()
        fails = 0 if (limit == 0 or r < 0.35) else (rng.randint(1, limit) if r < 0.8 else limit + 1)
        deps = [rng.randrange(i)] if i > 1 and rng.random() < 0.2 else []
        nodes.append({"deps": deps, "cf": rng.random() < 0.3, "cs": False, "limit": limit, "pre": 0, "prev": 0, "fails": fails,
                      "obeys": True, "sig": "", "rep": False})
    kk = rng.choice([1, 2, 2, 3])
    if rng.random() < 0.5:
        # several early-listed steps waiting on one late-listed step, a retried step in between: when the late step
        # finishes, one waiter takes the slot and the others are ready but held back by the limit while the retried
        # step is still being attempted
        nw = rng.randint(2, 3)
        mk = lambda deps, limit, fails: {"deps": deps, "cf": False, "cs": False, "limit": limit, "pre": 0, "prev": 0, "fails": fails,
                                         "obeys": True, "sig": "", "rep": False}
        lim = rng.choice([1, 2, 3])
        nx = rng.randint(1, 2)
        d = nw + 1 + nx
        nodes = [mk([d], 0, 0) for _ in range(nw)] + [mk([], lim, rng.choice([lim, lim + 1, -1]))] + \
                [mk([], 0, 0) for _ in range(nx)] + [mk([], 0, 0)]
        kk = 1 + nx
    c = {"id": "c%d" % k, "nodes": nodes, "maxActive": kk, "handlers": [rng.choice([0, 1]) for _ in range(4)],
         "stopAfter": -1, "seed": rng.randrange(1 << 30), "dry": False}
    if rng.random() < 0.3:
        c["slowDone"] = 25
    return c


# flavours of a step's precondition (nodeCase.Pre in go/harness/sched/main.go; Driver.Sched.preOk):
#   1 met, 2 unmet, 3 answered by the harness while the run goes on (prev);
#   4 / 5 CANNOT BE EVALUATED (the command substitution of the condition exits non-zero / cannot be started),
#   6 / 7 `expected: re:<regexp>` that matches / does not match, 8 `re:` with an invalid regexp (matches nothing)
PRE_UNMET = (2, 4, 5, 7, 8)
PRE_EVAL_ERROR = (4, 5)


def pre_unmet(nd):
    return nd["pre"] in PRE_UNMET or (nd["pre"] == 3 and nd.get("prev") in (2, 4))


def pre_eval_error(nd):
    return nd["pre"] in PRE_EVAL_ERROR or (nd["pre"] == 3 and nd.get("prev") in (4, 5))


def pre_flavour(rng, p):
    """how a met (1) / unmet (2) precondition is written"""
    if p == 1:
        return rng.choice([1, 1, 1, 6])
    if p == 2:
        return rng.choice([2, 2, 2, 4, 4, 4, 5, 7, 8])
    return p


def gen_case(rng, k, maxn):
    r0 = rng.random()
    if maxn >= 5 and r0 < 0.12:
        return gen_fanin_case(rng, k, maxn)
    if maxn >= 5 and r0 < 0.22:
        return gen_pressure_case(rng, k, maxn)
    n = rng.randint(1, maxn)
    order = list(range(n)); rng.shuffle(order)
    pos = {v: i for i, v in enumerate(order)}
    dens = rng.choice([0.15, 0.3, 0.5, 0.8])
    nodes = []
    for i in range(n):
        deps = [j for j in range(n) if pos[j] < pos[i] and rng.random() < dens]
        rng.shuffle(deps)
        limit = rng.choice([0, 0, 0, 1, 2, 3])
        r = rng.random()
        if r < 0.55: fails = 0
        elif r < 0.7: fails = rng.randint(0, limit)
        elif r < 0.82: fails = limit + 1
        else: fails = -1
        nodes.append({"deps": deps, "cf": rng.random() < 0.3, "cs": rng.random() < 0.3, "limit": limit,
                      "pre": pre_flavour(rng, rng.choice([0, 0, 0, 0, 1, 2])), "prev": 0, "fails": fails,
                      "obeys": rng.random() < 0.8,
                      "sig": rng.choice(["", "", "", "", "SIGINT"]), "rep": False})
    stop = -1 if rng.random() < 0.6 else rng.randint(0, 2 * n)
    dry = rng.random() < 0.05
    rep_int = 0
    if not dry and rng.random() < 0.25:
        # harness-controlled preconditions: the stop / other completions can land while the loop is
        # between its launch decision and the launch itself
        for nd in rng.sample(nodes, min(len(nodes), rng.randint(1, 2))):
            nd["pre"] = 3; nd["prev"] = rng.choice([1, 1, 1, 2, 2, 4])     # 4: the evaluation fails when it is answered
            if nd["limit"] > 0 and nd["fails"] != 0 and rng.random() < 0.6:
                # met at the first evaluation; unmet (3) / not evaluable (5) when the retried step is re-checked
                nd["prev"] = rng.choice([3, 3, 5])
    if stop >= 0 and not dry and rng.random() < 0.3:
        nd = rng.choice(nodes)        # a repeating step (only in stopped runs: otherwise it repeats for ever)
        nd["rep"] = True; nd["limit"] = 0; nd["fails"] = rng.choice([0, 0, 1, 2]); nd["cf"] = rng.random() < 0.5
        rep_int = rng.choice([0, 0, 120])     # with an interval the stop can be placed inside the sleep between two iterations
    for nd in nodes:
        if rng.random() < 0.25:
            nd["out"] = True       # the step declares `output:` (capture path of Node.Execute)
    c = {"id": "c%d" % k, "nodes": nodes,
         "maxActive": rng.choice([0, 0, 1, 1, 2, 3, n + 1]),
         "handlers": [rng.choice([0, 1, 1, 2]) for _ in range(4)],
         "stopAfter": stop, "seed": rng.randrange(1 << 30), "dry": dry}
    if rep_int:
        c["repInt"] = rep_int
    if n <= 8 and rng.random() < 0.2:
        c["slowDone"] = rng.choice([25, 60])   # the done-channel listener is busy: every worker's report blocks that long
    return c


def nontrivial(c):
    edges = any(n["deps"] for n in c["nodes"])
    spice = any(n["fails"] != 0 or pre_unmet(n) or n["limit"] > 0 for n in c["nodes"]) or c["stopAfter"] >= 0 or \
        (0 < c["maxActive"] < len(c["nodes"]))
    return edges and spice


def driver_text(c, ops):
    n = len(c["nodes"])
    sn = {"": "", "SIGINT": "2", "SIGTERM": "15", "SIGKILL": "9", "SIGQUIT": "3", "SIGUSR1": "10", "SIGUSR2": "12"}
    L = ["case id %s n %d max %d dry %d h %s" % (c["id"], n, c["maxActive"], 1 if c.get("dry") else 0,
                                                  ",".join(str(h) for h in c["handlers"]))]
    if c.get("init") is not None:
        L[0] += " init %s irc %s idc %s" % (",".join(str(ST_CODE[x]) for x in c["init"]),
                                            ",".join(map(str, c.get("irc") or [0] * n)),
                                            ",".join(map(str, c.get("idc") or [0] * n)))
    for nd in c["nodes"]:
        L.append("node deps %s cf %d cs %d limit %d pre %d rep %d obeys %d sig %s" % (
            ",".join(map(str, nd["deps"])) or "-", nd["cf"], nd["cs"], nd["limit"], nd["pre"], nd.get("rep", False), nd["obeys"],
            sn.get(nd.get("sig", ""), "") or "-"))
    L.append("run")
    for op in ops:
        L.append("op " + op)
    return L


ST_CODE = {"not started": 0, "running": 1, "failed": 2, "canceled": 3, "finished": 4, "skipped": 5}


def impl_snaps(r):
    out = []
    if r.get("st0"):
        out.append("init st=%s rc=%s" % ("|".join(r["st0"]), ",".join(map(str, r.get("rc0") or []))))
    for s in r["snaps"]:
        out.append("snap st=%s rc=%s dc=%s fl=%s ov=%s pp=%s" % ("|".join(s["st"] or []), ",".join(map(str, s["rc"] or [])),
                                                            ",".join(map(str, s["dc"] or [])),
                                                            ",".join(map(str, s["fl"] or [])), s["ov"],
                                                            ",".join(map(str, s.get("pp") or []))))
    return out


def strip_ghost(line):
    return " ".join(w for w in line.split(" ") if not (w.startswith("ex=") or w.startswith("hl=") or w.startswith("ag=")))


def run_harness(binp, cases, workers=8, quiet_ms=None):
    shards = [cases[i::workers] for i in range(workers)]
    env = dict(os.environ)
    if quiet_ms:
        env["VERIF_QUIET_MS"] = str(quiet_ms)

    def one(sh):
        if not sh:
            return []
        p = subprocess.run([binp, "sched"], input="\n".join(json.dumps(c) for c in sh) + "\n", env=env,
                           stdout=subprocess.PIPE, stderr=subprocess.PIPE, text=True, timeout=3000)
        res = [json.loads(l) for l in p.stdout.strip().split("\n") if l.strip()]
        if p.returncode != 0 or len(res) != len(sh):
            # a crash (panic kills the process): report the first case without a result
            done = {r["id"] for r in res}
            for c in sh:
                if c["id"] not in done:
                    res.append({"id": c["id"], "crash": p.stderr[-1500:], "ops": [], "snaps": [], "events": [], "monitor": [],
                                "finished": False, "hang": False})
                    break
        return res
    out = {}
    with cf.ThreadPoolExecutor(workers) as ex:
        for rs in ex.map(one, shards):
            for r in rs:
                for k in ("ops", "snaps", "events", "monitor"):
                    r[k] = r.get(k) or []
                out[r["id"]] = r
    return out


def compare(c, r):
    """model prediction vs observed quiescent snapshots; returns None or a description"""
    text = "\n".join(driver_text(c, r["ops"])) + "\n"
    rc, dout, derr = common.run_driver("sched", text)
    if rc != 0:
        return "driver failed: " + derr[-500:]
    dl = [strip_ghost(l) for l in dout.strip().split("\n")[1:]]
    il = impl_snaps(r)
    if dl != il:
        k = next((i for i in range(min(len(dl), len(il))) if dl[i] != il[i]), min(len(dl), len(il)))
        return "first difference at snapshot %d (after ops %s): model=%r impl=%r" % (
            k, r["ops"][:k], dl[k] if k < len(dl) else None, il[k] if k < len(il) else None)
    return None


def batch_compare(cases, results):
    """one driver process for all cases"""
    text, idx = [], []
    for c in cases:
        r = results.get(c["id"])
        if not r or r.get("crash"):
            continue
        text += driver_text(c, r["ops"])
        idx.append(c["id"])
    rc, dout, derr = common.run_driver("sched", "\n".join(text) + "\n", timeout=1200)
    pred, cur = {}, None
    for l in dout.split("\n"):
        if l.startswith("case "):
            cur = l.split(" ")[1]; pred[cur] = []
        elif cur is not None and l:
            pred[cur].append(strip_ghost(l))
    dis = []
    for c in cases:
        r = results.get(c["id"])
        if not r or r.get("crash"):
            continue
        if pred.get(c["id"]) != impl_snaps(r):
            dis.append(c)
    return dis, rc, derr


def run_stream(chk, prop, replay=None):
    """build harness, run corpus + generated cases, route monitor verdicts of `prop`, compare with the model"""
    binp, out = common.build_harness("sched")
    if not binp:
        chk.oblige("harness-build:sched", False, out[-3000:])
        return
    chk.oblige("harness-build:sched", True)
    cases = []
    cdir = os.path.join(common.ROOT, "corpus", "sched")
    if replay:
        rp = json.load(open(replay))
        c = rp["case"]["case"] if "case" in rp.get("case", {}) else rp["case"]
        cases = [c]
    else:
        if os.path.isdir(cdir):
            for f in sorted(os.listdir(cdir)):
                c = json.load(open(os.path.join(cdir, f)))
                c["id"] = "corpus-" + f[:-5]
                cases.append(c)
        ncases = 400 if chk.tier == "quick" else 4000
        maxn = 8 if chk.tier == "quick" else 12
        big = [gen_big_case(chk.rng, 900000 + k) for k in range(8)]
        for k in range(ncases):
            cases.append(gen_case(chk.rng, k, maxn))
        # run_harness deals cases[i::8] to 8 processes: put one big case at the head of each
        cases = big + cases
    results = run_harness(binp, cases)
    if replay and len(cases) == 1 and cases[0].get("ops") is not None and \
            any("replay-op-not-applicable" in m for m in (results.get(cases[0]["id"]) or {}).get("monitor") or []):
        # the recorded op order belongs to the behaviour of the tree it was recorded on (other steps run there): on a
        # tree that behaves differently (e.g. the corrected one) the same case is driven by its PRNG choices instead
        cases = [{k: v for k, v in cases[0].items() if k != "ops"}]
        results = run_harness(binp, cases)
    stat = {"stopped": 0, "dry": 0, "with_retry": 0, "with_failure": 0, "with_skip": 0, "limited": 0, "ops_total": 0,
            "nodes_total": 0, "finished": 0, "hang": 0}
    for c in cases:
        r = results.get(c["id"])
        chk.evaluations += 1
        if r is None:
            chk.oblige("harness-run:no-result:" + c["id"], False, ""); continue
        if r.get("crash"):
            chk.violation("%s:harness-process-crashed" % prop, "the scheduler crashed the process: " + r["crash"][-300:], {"case": c})
            continue
        if nontrivial(c):
            chk.nontrivial.add(json.dumps(c["nodes"], sort_keys=True) + str(c["maxActive"]) + str(c["stopAfter"]) + str(c["handlers"]))
        r["ops"] = r.get("ops") or []; r["snaps"] = r.get("snaps") or []; r["events"] = r.get("events") or []
        stat["stopped"] += c["stopAfter"] >= 0 and "stop" in r["ops"]
        stat["dry"] += bool(c.get("dry"))
        stat["with_retry"] += any(n["limit"] > 0 and n["fails"] != 0 for n in c["nodes"])
        stat["with_failure"] += any(n["fails"] != 0 for n in c["nodes"])
        stat["with_skip"] += any(pre_unmet(n) for n in c["nodes"])
        stat["with_unevaluable_precondition"] = stat.get("with_unevaluable_precondition", 0) + any(pre_eval_error(n) for n in c["nodes"])
        stat["limited"] += 0 < c["maxActive"] < len(c["nodes"])
        stat["ops_total"] += len(r["ops"]); stat["nodes_total"] += len(c["nodes"])
        stat["finished"] += bool(r.get("finished")); stat["hang"] += bool(r.get("hang"))
        mon = r.get("monitor") or []
        if any(is_timing_verdict(m) for m in mon):
            # "the run does not end" is judged against wall-clock patience: confirm on the case alone before it counts
            again = run_harness(binp, [c], workers=1, quiet_ms=25).get(c["id"]) or {}
            mon2 = again.get("monitor") or []
            keep = {":".join(m.split(":")[:2]) for m in mon2}
            dropped = [m for m in mon if is_timing_verdict(m) and ":".join(m.split(":")[:2]) not in keep]
            if dropped:
                stat["timing_verdicts_not_reproduced"] = stat.get("timing_verdicts_not_reproduced", 0) + len(dropped)
            mon = [m for m in mon if m not in dropped]
        for m in mon:
            if m.startswith(prop + ":"):
                sig = ":".join(m.split(":")[:2])
                chk.violation(sig, m, {"case": dict(c, ops=r["ops"]), "verdict": m, "snaps": r["snaps"][-2:],
                                       "events": r["events"][:200]})
            else:
                # verdicts of a sibling property that are ALSO a clause of this one
                for (pfx, as_sig) in ALSO.get(prop, ()):
                    if m.startswith(pfx):
                        chk.violation(as_sig, "%s (monitor verdict %s)" % (as_sig, m),
                                      {"case": dict(c, ops=r["ops"]), "verdict": m, "snaps": r["snaps"][-2:], "events": r["events"][:200]})
    # correspondence
    dis, rc, derr = batch_compare(cases, results)
    if rc != 0:
        chk.oblige("driver-run:sched", False, derr[-2000:])
    persistent = []
    chk.disagreements += max(0, len(dis) - 20)
    for c in dis[:20]:
        chk.disagreements += 1
        why = None
        for attempt in range(3):           # timing: a scan racing with a completion can reorder launches under a limit
            rr = run_harness(binp, [c], workers=1, quiet_ms=12 + 10 * attempt)[c["id"]]
            if rr.get("crash"):
                why = "crash"; break
            why = compare(c, rr)
            if why is None:
                break
        chk.disagreements_checked += 1
        if why is not None:
            persistent.append((c, why))
    for c, why in persistent[:3]:
        chk.oblige("correspondence:sched:%s" % c["id"], False, why + "\ncase=" + json.dumps(c))
    if not persistent:
        chk.oblige("correspondence:sched (model = implementation on every quiescent snapshot of every case)", True)
    chk.stats = stat
    chk.stats["persistent_disagreements"] = len(persistent)
    chk.samples = [{"case": c, "ops": results[c["id"]]["ops"], "final": (results[c["id"]]["snaps"] or [None])[-1]}
                   for c in cases[:2] if c["id"] in results]
    chk.rule = ("corpus + random DAGs (1..%d steps, random topological order, continueOn, retry limits 0-3, scripts "
                "'fail first k'/'always', preconditions met/unmet/not evaluable (failing command substitution)/re: patterns, maxActiveRuns 0..n+1, handlers absent/ok/failing, "
                "stop after a PRNG number of completions, PRNG completion order, 5%% dry); non-trivial = has an edge and "
                "at least one of failure/skip/retry/limit<n/stop; distinct = distinct configuration" % (8 if chk.tier == "quick" else 12))
    return persistent


NOTES = {
    "C01": "fine-grained transition system of Schedule/worker/isReady/Signal; goroutine pre-emption below one mutex-protected access is argued (DESIGN 3.3), not observed; repeatPolicy on dependencies and teardown I/O faults are hypotheses (NoRep, tdFaults=false)",
    "C02": "as C01; stated as local consistency of labels; stop/timeout excluded by hypothesis (C05)",
    "C03": "as C01; argv stability (F12) is checked by the real-process stream, not by the fine system",
    "C04": "as C01; handler phase modelled as a sequential plan executed after wg.Wait()",
    "C05": "as C01 plus the signal thread; process groups, pipes held by grandchildren and wall-clock bounds are runtime behaviour the model does not exhibit",
    "C15": "as C01; 'executing' = worker between launch and its last attempt incl. retry sleep",
}


def run_property(chk, prop, replay=None):
    chk.trusted = common.TRUSTED_COMMON + ["quiescence discipline of the scheduler harness (one completion released at a time)"]
    chk.assumptions = [NOTES.get(prop, "")]
    # Agent: the scheduler is configured and driven by Agent.Run / newScheduler / signal (settings, context, done channel)
    ties = {"Sched": SCHED_TIE, "Graph": _ties_of("Graph"), "Agent": _ties_of("Agent")}
    if prop == "C03":
        # "no history is written in dry-run mode" is a theorem about the agent's call order (Lock area model of Agent.Run)
        ties["Lock"] = [t for t in _ties_of("Lock") if t.startswith("h_lock_agent_")]
    # Load: the settings the scheduler works with are what the loader makes of the definition (buildStep & co.)
    ties["Load"] = LOAD_TIES_FOR_SCHED
    common.lean_obligations(chk, "BdModel/Props/%s.lean" % prop, ties, extra_targets=["BdModel.Sched.Tables"])
    run_stream(chk, prop, replay)
    yaml_stream(chk, prop, replay)
