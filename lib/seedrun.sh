#!/bin/sh
# seedrun.sh <id> <prop> <prefix> <suffix> : seedtest + compact summary (signatures only)
ID=$1; PROP=$2; PFX=$3; SUF=$4
cd /verif; rm -rf replays
timeout 2400 lib/seedtest.sh $ID $PROP $PFX $SUF 2>&1 | grep -v conda | grep "rc=\|^VIOLATION\|BROKEN\|^--- FAIL\|^ok\|PATCH DOES" | cut -c1-200 | head -8
python3 - <<PY
import json,glob
sigs=set()
for f in glob.glob('/verif/replays/$PROP-viol-*.json'):
    try: sigs.add(json.load(open(f)).get('signature'))
    except Exception: pass
print('  SIGS', sorted(sigs)[:6])
PY
rm -rf replays
