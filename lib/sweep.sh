#!/bin/sh
# sweep.sh "<seeds>" "<props>" : run the quick checks for several seeds (4 at a time), log one line per run to build/sweep.log
cd /verif; mkdir -p build/sweep
for s in $1; do
  for p in $2; do echo "$s $p"; done | xargs -P 4 -L 1 sh -c 'VERIF_SEED=$0 ./check $1 --tier quick > build/sweep/$1.$0.out 2> build/sweep/$1.$0.err; echo "seed=$0 $1 rc=$? $(grep -c "^VIOLATION" build/sweep/$1.$0.out) $(tail -1 build/sweep/$1.$0.err | cut -c1-120)" >> build/sweep.log'
done
