"""regenerate MANIFEST.json from the table below (run by hand: python3 lib/manifest_gen.py)"""
import json, os
ROOT = os.path.dirname(os.path.dirname(os.path.abspath(__file__)))
SCHED_NOTE = ("Trusted: Lean kernel; axioms propext/Classical.choice/Quot.sound only; go/ast extractor + canonical tables; "
              "correspondence harness and its quiescence discipline. Modelled, not verified: goroutine pre-emption below one "
              "mutex-protected access (argued in DESIGN 3.3), os/exec, process groups, pipes.")
CLAIMED = {
 "C01": ("Theorems C01, C01_last_attempt, C01_worker over the fine-grained transition system (all DAGs, outcome scripts, interleavings); readiness table tied to isReady by extraction; model = implementation on every quiescent snapshot of generated runs; Go-side monitor on start/end events.", SCHED_NOTE + " Hypotheses: no repeatPolicy on the steps (outside the quantifier), no teardown I/O fault.", "5/C01"),
 "C02": ("Theorems C02_total, C02_labels, C02_containment (local consistency of every step's final label with its dependencies, all unstopped runs).", SCHED_NOTE, "5/C02"),
 "C03": ("Theorems C03_execs, C03_bounded, C03_final, C03_dry (attempt bookkeeping invariant, bounded retries, final accounting, dry-run starts nothing) over all interleavings; executions counted by the scripted executor and compared.", SCHED_NOTE + " argv stability across retries and 'no history in dry-run' are checked by real-process / agent streams, not by a theorem (partial).", "5/C03"),
 "C04": ("Theorems C04_outcome, C04_canceled, C04_handlers, C04_plan_shape, C04_after_steps; status cascade and handler switch tied to scheduler.go by extracted tables.", SCHED_NOTE, "5/C04"),
 "C05": ("Theorems C05_no_new_start, C05_delivery, C05_kill, C05_repeat_*, C05_nothing_left_running, C05_finished_means_executed on the model of the FIXED code (three fix: commits); harness injects stop and escalation at PRNG points incl. the launch-decision window.", SCHED_NOTE + " Partial: the wall-clock bound (MaxCleanUpTime), process-group delivery and pipes held by grandchildren are runtime behaviour the model cannot exhibit.", "5/C05"),
 "C10": ("Theorems C10_reset (a step is reset iff recorded failed/canceled/running or downstream of one; the walk's fuel is proved sufficient for every acyclic graph), C10_start (the vector the retry run starts from), C10_no_orphan, C10_kept (in EVERY interleaving of the retry run a kept step is never executed and keeps its record); setupRetry tied by extracted facts + skeleton; reset vector and every quiescent snapshot of real retries (NewExecutionGraphForRetry + Schedule) = model; Go-side monitor of the property on the events (termination, kept steps untouched, unfinished steps re-executed, dependency order).", SCHED_NOTE + " Partial: termination and dependency order of the retry run from an arbitrary recorded vector rest on the correspondence + monitor (the fine-system theorems C01/C02 are proved from the fresh initial state); parameter re-use is C11's clause; the JSON round trip of the node table is covered by C08.", "5/C10"),
 "C14": ("Theorem C14: acceptance by ExecutionGraph.setup <-> all names resolve and the dependency relation is acyclic (Kahn's algorithm as written, FIFO queue, multiplicities; fuel proved sufficient). Exhaustive differential run on all digraphs <=4 nodes against the real NewExecutionGraph and an independent DFS.", "Trusted: Lean kernel, Relation.TransGen as the notion of cycle, extractor, harness. Hypothesis: distinct step names (as in the property).", "5/C14"),
 "C17": ("Theorems C17_sound, C17_401, C17_complete_basic, C17_complete_token, C17_noauth, C17_base64 over EVERY header byte string, path and configuration (model of the middleware chain: prefix check -> basic with bearer skip -> token with authenticated skip; base64 decode/encode re-implemented and decode(encode)=id proved); every middleware function tied by extracted skeleton + wrap order; impl = model on ~5k generated requests per run through the real middleware.Setup/SetupGlobalMiddleware; Go-side property monitor with an independent reading of 'presents a secret'.", "Trusted: Lean kernel; axioms propext/Classical.choice/Quot.sound only; extractor + canonical tables; harness. Modelled, not verified: net/http's own header handling upstream of the chain, Go's encoding/base64 (re-implemented in Lean, validated differentially), crypto/subtle.ConstantTimeCompare (= byte equality). Completeness for user names without ':' and non-empty tokens without ' '.", "5/C17"),
 "C15": ("Theorems C15_running, C15, C15_workers: invariant over all reachable states of all interleavings; comparator tied by extraction (scheduleIfConds).", SCHED_NOTE, "5/C15"),
}
TECH = "Lean 4 theorem over an executable model + extracted-table tie (decide) + differential correspondence with Go-side property monitor"
ids = [json.loads(l)["id"] for l in open(os.path.join(ROOT, "properties.jsonl"))]
m = json.load(open(os.path.join(ROOT, "MANIFEST.json")))
m["checks"] = []
for i in ids:
    if i in CLAIMED:
        text, note, ref = CLAIMED[i]
        m["checks"].append({"property_id": i, "quick_cmd": "./check %s --tier quick" % i,
                            "thorough_cmd": "./check %s --tier thorough" % i,
                            "evidence_file": "/verif/evidence/%s.json" % i,
                            "replay_cmd_template": "./check %s --replay {path}" % i, "engine": "lean-model",
                            "level_claimed": {"category": "proof", "text": text, "design_ref": "DESIGN.md section " + ref},
                            "level_note": note, "technique": TECH})
m["not_applicable"] = [{"property_id": i, "reason": "check not built yet (work in progress; see DESIGN.md section 10)"} for i in ids if i not in CLAIMED]
m["engines"][0]["serves_properties"] = sorted(CLAIMED)
json.dump(m, open(os.path.join(ROOT, "MANIFEST.json"), "w"), indent=1)
print("claimed", sorted(CLAIMED))
