"""C05, "repeated stop signal to the real process" leg.

The REAL `blackdagger start <dag>` process (cmd/start.go -> cmd/signal.go listenSignals -> Agent.Signal) runs a DAG whose only step
ignores the stop signal; the process is sent SIGTERM/SIGINT once (control), twice or three times (Ctrl-C twice, a service manager
repeating SIGTERM, a parent agent's 5-second resend to a `run: child` step).  Judged from OUTSIDE with the clauses of C05:
the agent process is not ended by a signal before the run has ended; within maxCleanUpTime (+ the 3 s polling granularity of
Agent.signal + slack) the process has exited and no process of its session (steps get their own process GROUP, never their own
session) is alive; the status read back with the real history store is `canceled`; the cancel and the exit handler ran (marker files).
The in-process harness streams of C05 never go through cmd/signal.go - this leg is the only one that does."""
import json, os, shutil, signal, subprocess, sys, tempfile, time
import common

KINDS = {
    # one process: the ignored disposition survives the exec
    "single-process": "trap '' TERM INT\necho $$ > \"$1\"\nexec sleep 30\n",
    # sh stays, the work is a forked child (it inherits the ignored disposition)
    "forked-child": "trap '' TERM INT\nsleep 30 &\necho $$ > \"$1\"\nwait\n",
}
SLACK_MS = 3000 + 2500      # Agent.signal looks at its clean-up timer every 3 s; handlers, process start-up, a loaded machine

NOTE = ("resignal leg: the real `blackdagger start` process is signalled from outside (SIGTERM/SIGINT, 1-3 times, 0.5-1.5 s apart) while its "
        "only step ignores the signal; judged: the process is not ended by a signal, it exits within maxCleanUpTime + %d ms with no process "
        "of its session left, the stored status reads `canceled`, the cancel and exit handlers left their markers" % SLACK_MS)


def gen_cases(chk):
    cases, k = [], 0
    for kind in KINDS:
        sigs = ("TERM", "INT") if chk.tier == "thorough" else (chk.rng.choice(["TERM", "TERM", "INT"]),)
        for sg in sigs:
            for n in (1, 2, 3):
                reps = 2 if (chk.tier == "thorough" and n > 1) else 1
                for _ in range(reps):
                    cases.append({"id": "rsg%d" % k, "kind": kind, "sig": sg, "cleanupSec": chk.rng.choice([2, 3]),
                                  "delayMs": chk.rng.choice([200, 400, 700]),
                                  "gapsMs": [chk.rng.choice([500, 700, 1000, 1500]) for _ in range(n - 1)]}); k += 1
    return cases


def _session(sid, but=()):
    """live (non-zombie) processes of session `sid`: [(pid, pgid, comm)]"""
    out = []
    for d in os.listdir("/proc"):
        if d.isdigit() and int(d) not in but:
            try:
                t = open("/proc/%s/stat" % d).read()
                f = t[t.rindex(")") + 2:].split()
                if int(f[3]) == sid and f[0] != "Z":
                    out.append((int(d), int(f[2]), t[t.index("(") + 1:t.rindex(")")]))
            except Exception:
                pass
    return out


def run_case(binp, hbin, c):
    import p_c05
    home = tempfile.mkdtemp(prefix="verif-c05rs-")
    r = {"id": c["id"], "sent": [], "exitMs": -1, "rc": None}
    p = None
    try:
        bd = os.path.join(home, "bd"); dags = os.path.join(bd, "dags"); os.makedirs(dags)
        env = dict(os.environ, HOME=home, BLACKDAGGER_HOME=bd)
        script, started = os.path.join(home, "step.sh"), os.path.join(home, "started")
        mk = {h: os.path.join(home, h + ".marker") for h in ("cancel", "exit")}
        open(script, "w").write(KINDS[c["kind"]])
        f = os.path.join(dags, c["id"] + ".yaml")
        open(f, "w").write("maxCleanUpTimeSec: %d\nhandlerOn:\n  cancel:\n    command: touch %s\n  exit:\n    command: touch %s\n"
                           "steps:\n  - name: s0\n    command: sh %s %s\n" % (c["cleanupSec"], mk["cancel"], mk["exit"], script, started))
        logf = open(os.path.join(home, "out.log"), "w")
        # a check started as a background job of a non-interactive shell inherits SIGINT as IGNORED, and an ignored signal stays
        # ignored across exec (Go's signal.Stop then restores "ignored", not "default"): start the agent with default dispositions
        p = subprocess.Popen([sys.executable, "-c", "import os,signal,sys\nfor s in (signal.SIGINT, signal.SIGTERM): signal.signal(s, signal.SIG_DFL)\n"
                              "os.execv(sys.argv[1], sys.argv[1:])", binp, "start", f], env=env, stdout=logf, stderr=subprocess.STDOUT, start_new_session=True)
        t = time.time()
        while not os.path.exists(started) and p.poll() is None and time.time() - t < 15:
            time.sleep(0.02)
        if not os.path.exists(started):
            r["panic"] = "the step never started (rc %r): %s" % (p.poll(), open(os.path.join(home, "out.log")).read()[-300:]); return r
        time.sleep(c["delayMs"] / 1000)
        sig = getattr(signal, "SIG" + c["sig"])
        t0 = time.time()
        at = [0]
        for g in c["gapsMs"]:
            at.append(at[-1] + g)
        deadline = t0 + (c["cleanupSec"] * 1000 + SLACK_MS) / 1000
        while time.time() < deadline and p.poll() is None:
            ms = (time.time() - t0) * 1000
            if len(r["sent"]) < len(at) and ms >= at[len(r["sent"])]:
                os.kill(p.pid, sig); r["sent"].append(int(ms))
                continue
            time.sleep(0.01)
        if p.poll() is not None:
            r["exitMs"], r["rc"] = int((time.time() - t0) * 1000), p.returncode
        if r["rc"] is not None and r["rc"] < 0:
            time.sleep(max(0, deadline - time.time()))      # ended by a signal: whoever is to force-kill the steps gets the whole bound
        time.sleep(0.3)
        r["left"] = ["%d:%s(pgid %d)" % (x[0], x[2], x[1]) for x in _session(p.pid, but=(p.pid,) if p.poll() is None else ())]
        r["agentAlive"] = p.poll() is None
        try:
            q = subprocess.run([hbin, "latest", dags, os.path.join(bd, "data"), f], env=env, stdout=subprocess.PIPE, stderr=subprocess.PIPE, text=True, timeout=30)
            v = json.loads(q.stdout.strip().split("\n")[-1])
        except Exception as ex:
            v = {"err": "unreadable: " + repr(ex)[:200]}
        r["latest"], r["st"], r["latestErr"] = v.get("ov"), v.get("st"), v.get("err")
        # the last line the run itself persisted (the `latest` view turns a `running` record of a dead process into an error status)
        try:
            for root, _, fs in os.walk(os.path.join(bd, "data")):
                for n in fs:
                    if n.endswith(".dat"):
                        ls = [l for l in open(os.path.join(root, n)).read().split("\n") if l.strip()]
                        j = json.loads(ls[-1])
                        r["stored"] = j.get("StatusText") or j.get("Status")
        except Exception:
            pass
        r["handlers"] = [h for h in ("cancel", "exit") if os.path.exists(mk[h])]
        logf.flush()
        r["log"] = open(os.path.join(home, "out.log")).read()[-600:]
        return r
    except Exception as ex:
        r["panic"] = "leg failed: " + repr(ex)[:300]
        return r
    finally:
        if p is not None:
            try:
                p.kill()
            except Exception:
                pass
            p_c05._kill_session(p.pid)
            try:
                p.wait(timeout=5)
            except Exception:
                pass
        shutil.rmtree(home, ignore_errors=True)


def judge(c, r):
    """-> [(signature, what)]"""
    if r.get("panic"):
        return [("resignal:case-not-run:" + c["kind"], r["panic"])]
    bad = []
    ctx = "step kind %s (ignores the signal), maxCleanUpTimeSec %d; SIG%s sent to the `blackdagger start` process at %r ms (planned %d signal(s))" % (
        c["kind"], c["cleanupSec"], c["sig"], r["sent"], 1 + len(c["gapsMs"]))
    obs = "process exit %s; processes of its session alive 300 ms later (ended by a signal: 300 ms after the bound): %r; status read back: %r (last stored record %r, steps %r); handlers that ran: %r" % (
        ("rc %r at %d ms after the first signal" % (r["rc"], r["exitMs"])) if r["exitMs"] >= 0 else "none within %d ms" % (c["cleanupSec"] * 1000 + SLACK_MS),
        r.get("left"), r.get("latest") or r.get("latestErr"), r.get("stored"), r.get("st"), r.get("handlers"))
    if r["rc"] is not None and r["rc"] < 0:
        bad.append(("resignal:agent-killed-by-repeated-stop-signal:" + c["kind"],
                    "%s: the agent process was ended by signal %d while it was cleaning up. %s" % (ctx, -r["rc"], obs)))
    elif r["exitMs"] < 0:
        bad.append(("resignal:run-does-not-end-within-cleanup-bound:" + c["kind"], "%s. %s" % (ctx, obs)))
    if r.get("left"):
        bad.append(("resignal:step-process-left-running:" + c["kind"], "%s. %s" % (ctx, obs)))
    if r.get("latest") != "canceled" or r.get("handlers") != ["cancel", "exit"]:
        bad.append(("resignal:run-not-ended-as-canceled-with-handlers:" + c["kind"], "%s. %s" % (ctx, obs)))
    return bad


def _run_all(binp, hbin, cases):
    import concurrent.futures as cf
    with cf.ThreadPoolExecutor(max(1, min(len(cases), 12))) as ex:
        return list(ex.map(lambda c: run_case(binp, hbin, c), cases))


def run_leg(chk, cases=None):
    t0 = time.time()
    hbin, out = common.build_harness("agentrun")
    if not hbin:
        chk.oblige("harness-build:agentrun", False, out[-3000:]); return
    binp, out = common.build_real_binary()
    if not binp:
        chk.oblige("real-binary-build", False, out[-2000:]); return
    chk.oblige("real-binary-build", True)
    cases = cases if cases is not None else gen_cases(chk)
    res = _run_all(binp, hbin, cases)
    st = {"cases": 0, "kinds": {}, "signals": {}, "max_exit_ms": 0, "outcomes": {}, "retried": 0}
    again = [i for i, (c, r) in enumerate(zip(cases, res)) if judge(c, r)]
    if again:       # a loaded machine: a failing case counts only when it fails the same way twice
        st["retried"] = len(again)
        r2 = _run_all(binp, hbin, [cases[i] for i in again])
        for i, r in zip(again, r2):
            s1 = sorted(s for s, _ in judge(cases[i], res[i]))
            res[i] = r if judge(cases[i], r) else dict(r, flaky=s1)      # failed twice: the second result is reported
    for c, r in zip(cases, res):
        n = 1 + len(c["gapsMs"])
        chk.evaluations += 1; st["cases"] += 1
        st["kinds"][c["kind"]] = st["kinds"].get(c["kind"], 0) + 1
        st["signals"]["%s x%d" % (c["sig"], n)] = st["signals"].get("%s x%d" % (c["sig"], n), 0) + 1
        chk.nontrivial.add("resignal:%s:%s:%d" % (c["kind"], c["sig"], n))
        st["max_exit_ms"] = max(st["max_exit_ms"], r.get("exitMs", -1))
        o = "x%d: rc %r, %s, handlers %s, left %d" % (n, r.get("rc"), r.get("latest"), "+".join(r.get("handlers") or []) or "none", len(r.get("left") or []))
        st["outcomes"][o] = st["outcomes"].get(o, 0) + 1
        if r.get("flaky"):
            st["flaky"] = st.get("flaky", []) + r["flaky"]
        for sig_, what in judge(c, r):
            chk.violation("C05:" + sig_, what, {"resignal_case": c, "result": {k: v for k, v in r.items() if k != "log"}, "agent_log_tail": r.get("log")})
    st["wall_s"] = round(time.time() - t0, 1)
    chk.stats["resignal_leg"] = st
    if NOTE not in chk.assumptions:
        chk.assumptions.append(NOTE)


def replay(chk, c):
    run_leg(chk, [c])
