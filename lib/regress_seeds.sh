#!/bin/sh
# regress_seeds.sh [pattern]: run every kept seeded change (seeded/<prop>[-k]/patch.diff) against its property's quick check
# (HEAD of /repo + patch, VERIF_REPO), 4 at a time; one line per seed in build/regress.log
cd /verif; mkdir -p build/regress; : > build/regress.log
ls seeded | grep -E "${1:-.}" | while read d; do p=$(echo $d | cut -c1-3); echo "$d $p"; done | \
xargs -P 4 -L 1 sh -c '
SD=$0; PROP=$1; SR=/tmp/regress-$SD
git -C /repo worktree remove --force $SR 2>/dev/null; git -C /repo worktree add -q $SR HEAD 2>/dev/null
if git -C $SR apply /verif/seeded/$SD/patch.diff 2>/dev/null; then
  VERIF_REPO=$SR ./check $PROP --tier quick > build/regress/$SD.out 2> build/regress/$SD.err; rc=$?
  nv=$(grep -c "^VIOLATION" build/regress/$SD.out); nf=$(grep -c "no-failing-input-found" build/regress/$SD.out)
  echo "$SD rc=$rc violations=$nv tie_only=$nf" >> build/regress.log
else echo "$SD PATCH-DOES-NOT-APPLY" >> build/regress.log; fi
git -C /repo worktree remove --force $SR 2>/dev/null'
