"""C15 (and every other setting): the CONFIGURATION RESOLVER inside the model — which directory is the configuration directory of
a command and which file the base configuration of every DAG it loads (internal/config: Load, setupViper, newResolver, bindEnvs).

  * correspondence `correspondence:resolver (real config.Load = Lean Config.Resolver)`: for every generated environment the REAL
    `config.Load()` (go/harness/resolver: one CHILD process per case with a private HOME, exactly the case's variables, the case's
    directories and config.yaml files really created) and the Lean definitions `baseConfigFile` / `dagsDir` of
    lean/BdModel/Config/Resolver.lean (driver mode `resolver`; the definitions Props/C15Config.lean proves the rules about) give
    the same `cfg.BaseConfig` and the same `cfg.DAGs` (paths written relative to the private home `H`).
  * monitor, independent of the Lean model (`<prop>:resolver:legacy-directory-not-used`): `~/.blackdagger` exists and
    BLACKDAGGER_HOME is not set (or empty) and BLACKDAGGER_BASE_CONFIG is not set (or empty)  =>  the base configuration is
    `~/.blackdagger/base.yaml`, or what the `baseConfig:` key of `~/.blackdagger/config.yaml` says when there is one; and the DAGs
    directory is `~/.blackdagger/dags` — whether or not an XDG directory exists.

Environments (no PRNG): BLACKDAGGER_HOME {unset, H/bdhome, empty} x XDG_CONFIG_HOME {unset, H/cfgroot} x legacy dir {no, yes} x
XDG dir {no, yes} x explicit {none, key, env, key+env} (+ `--config FILE` with / without a key in 24 of them), where `key` puts a config.yaml with a DIFFERENT `baseConfig:` into every
candidate directory that exists (only the resolved directory's may be read); plus path shapes (deep / dotted paths, a legacy FILE,
a BLACKDAGGER_HOME that does not exist, empty-string variables).

`stream(chk, prop, replay_case=None)`; replay case {"resolver_case": <case>}; self-test: `python3 lib/x_resolver.py` (VERIF_REPO selects the tree).
"""
import json, os, subprocess, sys, time

sys.path.insert(0, os.path.dirname(os.path.abspath(__file__)))
import common

LEGACY = "H/.blackdagger"


def mk_case(bd, xc, legacy, xdg, explicit, legacy_file=False, bd_exists=True, eb="H/envbase/base.yaml", flag=None):
    """bd / xc: None (unset) | "" (set to the empty string) | path"""
    xroot = xc if xc else "H/.config"
    xdir = xroot + "/blackdagger"
    dirs, files, env = [], {}, {"HOME": "H"}
    if bd is not None: env["BLACKDAGGER_HOME"] = bd
    if xc is not None: env["XDG_CONFIG_HOME"] = xc
    if bd and bd_exists: dirs.append(bd)
    if legacy and not legacy_file: dirs.append(LEGACY)
    if legacy and legacy_file: files[LEGACY] = "not a directory\n"
    if xdg: dirs.append(xdir)
    keys = {}
    if explicit in ("key", "key+env"):
        for tag, d in (("bdhome", bd if bd and bd_exists else None), ("legacy", LEGACY if legacy and not legacy_file else None),
                       ("xdg", xdir if xdg else None)):
            if d and d not in keys:
                keys[d] = "H/custom-%s/base.yaml" % tag
                files[d + "/config.yaml"] = "baseConfig: %s\n" % keys[d].replace("H/", "%H%/", 1)
    flagkey, cfgf = "-", None
    if flag:                                              # `--config FILE`: flag = "key" | "nokey"
        cfgf = "H/flagdir/admin.yaml"
        flagkey = "H/custom-flag/base.yaml" if flag == "key" else "!"
        files[cfgf] = "baseConfig: %H%/custom-flag/base.yaml\n" if flag == "key" else "port: 8090\n"
    envbase = None
    if explicit in ("env", "key+env"):
        envbase = eb; env["BLACKDAGGER_BASE_CONFIG"] = eb
    return {"env": env, "dirs": dirs, "files": files, "config_file": cfgf or "",
            "abstract": {"flag": flagkey, "bd": bd, "xc": xc, "legacy": bool(legacy), "xdg": bool(xdg), "explicit": explicit, "eb": envbase, "keys": keys,
                         "legacy_file": legacy_file, "bd_exists": bd_exists}}


def gen_cases(tier):
    cs = []
    for bd in (None, "H/bdhome", ""):
        for xc in (None, "H/cfgroot"):
            for legacy in (False, True):
                for xdg in (False, True):
                    for ex in ("none", "key", "env", "key+env"):
                        cs.append(mk_case(bd, xc, legacy, xdg, ex))
    # path shapes
    cs += [mk_case("H/opt/black.dagger/home-1", None, True, True, "key"),
           mk_case("H/opt/black.dagger/home-1", "H/x.d/cfg_root/deep", False, False, "none"),
           mk_case(None, "H/x.d/cfg_root/deep", False, True, "key"),
           mk_case(None, "H/x.d/cfg_root/deep", True, True, "none"),
           mk_case(None, "", False, True, "key"),                           # XDG_CONFIG_HOME set to the empty string
           mk_case(None, "", True, True, "none"),
           mk_case(None, None, True, True, "none", legacy_file=True),       # ~/.blackdagger is a FILE: util.FileExists says yes
           mk_case(None, None, True, False, "env", legacy_file=True),
           mk_case("H/nowhere", None, True, True, "none", bd_exists=False),  # BLACKDAGGER_HOME need not exist
           mk_case("H/nowhere", None, False, False, "key", bd_exists=False),
           mk_case(None, None, True, True, "key+env", eb=""),               # BLACKDAGGER_BASE_CONFIG set to the empty string
           mk_case("H/bdhome", None, True, True, "env", eb=""),
           mk_case(None, "H/cfgroot", False, True, "env", eb="H/.blackdagger/base.yaml")]
    # `--config FILE` (config.ConfigFile): FILE is read instead of config.yaml of the resolved directory
    for bd, legacy, xdg in ((None, True, True), (None, True, False), (None, False, True), ("H/bdhome", True, True)):
        for ex in ("none", "key", "key+env"):
            for flag in ("key", "nokey"):
                cs.append(mk_case(bd, None, legacy, xdg, ex, flag=flag))
    for i, c in enumerate(cs):
        c["id"] = i
    return cs


def tok(p):
    return "-" if p is None else ("=" if p == "" else p)


def lean_line(c):
    a = c["abstract"]
    w = [tok(a["bd"]), tok(a["xc"]), "H", "1" if a["legacy"] else "0", "1" if a["xdg"] else "0", tok(a["eb"]), a.get("flag", "-")]
    for d, k in sorted(a["keys"].items()):
        w += [d, k]
    return " ".join(w)


def expected_by_rule(c):
    """the monitor's own reading of the rule (not Lean): -> (base, dags) or None when the rule does not speak"""
    a = c["abstract"]
    if not a["legacy"] or a["bd"] or a["eb"]:
        return None
    if a.get("flag", "-") != "-":                          # an explicit file: only the DAGs directory is the legacy one's for sure
        return None, LEGACY + "/dags"
    return a["keys"].get(LEGACY, LEGACY + "/base.yaml"), LEGACY + "/dags"


def run_go(binp, cases):
    inp = "".join(json.dumps({k: c.get(k, "") for k in ("id", "env", "dirs", "files", "config_file")}) + "\n" for c in cases)
    p = subprocess.run([binp], input=inp, stdout=subprocess.PIPE, stderr=subprocess.PIPE, text=True, timeout=600)
    out = {}
    for l in p.stdout.splitlines():
        f = l.split(" ", 1)
        if len(f) == 2 and f[0].lstrip("-").isdigit():
            out[int(f[0])] = f[1]
    return out, p.stderr[-800:]


def stream(chk, prop, replay_case=None):
    t0 = time.time()
    binp, out = common.build_harness("resolver")
    if binp is None:
        chk.oblige("correspondence:resolver-harness-builds", False, out[-1500:])
        return {}
    cases = [replay_case["resolver_case"]] if replay_case and "resolver_case" in replay_case else gen_cases(chk.tier)
    tb = time.time()
    g, gerr = run_go(binp, cases)
    rc, mout, merr = common.run_driver("resolver", "".join(lean_line(c) + "\n" for c in cases))
    m = mout.splitlines()
    bad, kinds, errs = [], {}, []
    if rc != 0 or len(m) != len(cases):
        bad.append("driver rc=%s, %d answers for %d cases: %s" % (rc, len(m), len(cases), merr[-300:]))
        m = m + ["?"] * len(cases)
    for c, ml in zip(cases, m):
        chk.evaluations += 1
        a = c["abstract"]
        ga = g.get(c["id"], "ERR no answer " + gerr[-200:])
        mf = ml.split()
        if ga.startswith("ERR"):
            errs.append("%s: %s" % (lean_line(c), ga[:200]))
            continue
        if len(mf) != 4 or ga.split() != mf[:2]:
            bad.append("env [%s]: config.Load BaseConfig,DAGs = %s ; Lean = %s" % (lean_line(c), ga, " ".join(mf[:2]) or ml))
        if len(mf) == 4:
            kinds[mf[3]] = kinds.get(mf[3], 0) + 1
            chk.nontrivial.add("resolver:%s:%s%s" % (mf[3], a["explicit"], ":xdg-dir-exists" if a["xdg"] else ""))
        # ---- the monitor (rule read from the property, judged on the implementation's answer alone)
        want = expected_by_rule(c)
        if want is not None:
            chk.nontrivial.add("resolver:monitor:legacy%s%s" % (":with-xdg-dir" if a["xdg"] else "", ":key" if a["keys"] else ""))
            got = tuple(ga.split())
            if want[0] is None and len(got) == 2:
                want = (got[0], want[1])
            if got != want:
                chk.violation("%s:resolver:legacy-directory-not-used" % prop,
                              "HOME with ~/.blackdagger%s, BLACKDAGGER_HOME %s, XDG_CONFIG_HOME %s, BLACKDAGGER_BASE_CONFIG %s%s: the real "
                              "config.Load() answers BaseConfig=%s DAGs=%s; the legacy directory's are %s %s (a `maxActiveRuns` in the "
                              "installation's base.yaml would not reach the run)"
                              % (" and %s/blackdagger" % (a["xc"] or "~/.config") if a["xdg"] else " only", tok(a["bd"]), tok(a["xc"]), tok(a["eb"]),
                                 ", config.yaml with baseConfig keys in %s" % sorted(a["keys"]) if a["keys"] else "",
                                 got[0] if got else "?", got[1] if len(got) > 1 else "?", want[0], want[1]),
                              {"resolver_case": c})
    chk.oblige("correspondence:resolver (real config.Load = Lean Config.Resolver)", not bad,
               "%d of %d environments differ; first: %s" % (len(bad), len(cases), " || ".join(bad[:4])))
    chk.oblige("resolver: every config.Load() answered", not errs, "; ".join(errs[:4]))
    st = {"resolver_cases": len(cases), "resolver_by_case": kinds, "resolver_wall": round(time.time() - t0, 2),
          "resolver_t_build": round(tb - t0, 2)}
    chk.stats = dict(getattr(chk, "stats", None) or {}, **st)
    if cases:
        c = cases[min(len(cases) - 1, 21)]
        chk.samples.append({"resolver": lean_line(c), "config.Load": g.get(c["id"]), "lean": m[cases.index(c)]})
    return st


if __name__ == "__main__":
    chk = common.Check("C15", "quick", int(sys.argv[1]) if len(sys.argv) > 1 else 1)
    rep = None
    if len(sys.argv) > 2:
        rep = json.load(open(sys.argv[2]))["case"]
    st = stream(chk, "C15", rep)
    print(json.dumps(st))
    for n, ok, d in chk.obligations:
        print("OK " if ok else "BROKEN", n, "" if ok else d[:1200])
    for v in chk.violations:
        print("VIOLATION", v["signature"], v["what"][:600])
    print("evaluations", chk.evaluations, "nontrivial", len(chk.nontrivial), sorted(chk.nontrivial)[:50])
    print(chk.samples)
