"""C12, shared-file stream: several writers on ONE `stdout:` / `stderr:` file.

Cases: two or three steps of one run that execute concurrently (no dependency, maxActiveRuns 0) and name the same `stdout:` file
and/or the same `stderr:` file (also: one step's `stdout:` and another step's `stderr:`; one step whose `stdout:` and `stderr:` are
the same file); one of the steps retried; output volumes small / > 4 KiB (bufio spills) / > 64 KiB (pipe capacity); with and without
`output:` and `script:`; the file exists beforehand with content, exists empty, or does not exist; the same step's file written by
two RUNS one after the other, and by two runs at the same time.

Monitor (independent of the Lean model): every attempt of every step prints fixed-length lines made of ITS OWN marker byte, so what
an attempt contributed to a file is the number of its marker bytes in that file — however the writers' chunks interleave (the code
writes through a 4096-byte bufio.Writer, or straight from os/exec's copy loop, so lines of different steps may be cut at chunk
boundaries; bytes may not disappear).  Clause, per step reported in a final state and per file its settings name: the file holds
EVERY marker byte of the step's last attempt (`stdout:` file: the stdout marker; `stderr:` file: the stderr marker); the step's own
log is judged by the same count.  Content that was in the file before (header, earlier attempts, earlier runs) may stay in front;
whether it does is recorded in the statistics only (the unchanged code appends: O_APPEND on an existing file).

What makes the clause true in the unchanged code is O_APPEND (util.openFile): every write(2) of every handle goes to the current end
of the file.  A file that does NOT exist when the run starts is opened by os.Create instead (O_TRUNC, no O_APPEND, private offset):
with a second writer on it bytes ARE lost — finding `…:file-created-by-the-run`.

Correspondence with the Lean model: BdModel/Log/Writers.lean has ONE writer per file (no notion of two handles on one file), so the
shared file's content is judged by the monitor only — no model answer is made up for it.  What the model does answer is each step's
OWN log file (a new file per attempt, one writer): its length is compared with the model's `log` answer for that step's wiring and
the attempts of that run.
"""
import json, subprocess, time
import common

L = 32                      # bytes per line, '\n' included
MARKERS = "abcdefghijklmnopqrstuvwxyzABCDEFGHIJKLMNOPQRSTUVWXYZ0123456789"
CAP = 4096
SMALL = (1, 5, 40)                  # lines: < 4 KiB
MID = (150, 200, 700)               # > 4 KiB: the bufio.Writer spills
BIG = (2200, 2500, 3000)            # > 64 KiB: more than a pipe holds


def _file_state(pre):
    return "file-created-by-the-run" if pre < 0 else "existing-file"


class _Gen:
    def __init__(self, rng):
        self.rng = rng
        self.cases = []

    def lines(self, cls):
        return self.rng.choice({"s": SMALL, "m": MID, "b": BIG}[cls])

    def case(self, flavour, pre, groups, parallel=False):
        # markers: one per (step, attempt, stream), unique in the case
        pool = list(MARKERS)
        self.rng.shuffle(pool)
        seen = {}
        for g in groups:
            for s in g:
                if id(s) in seen: continue
                seen[id(s)] = True
                for a in s["attempts"]:
                    a["mo"] = pool.pop() if a["no"] else ""
                    a["me"] = pool.pop() if a["ne"] else ""
        cid = "x%d" % len(self.cases)
        self.cases.append({"id": cid, "timeout": 90,
                           "shared": {"flavour": flavour, "line_len": L, "pre": pre, "groups": groups, "parallel": parallel, "max_active": 0}})

    def step(self, name, out="", err="", no=(), ne=(), fail_at=(), limit=0, ou=False, sc=False, parts=None):
        """no / ne: stdout / stderr lines per attempt"""
        n = max(len(no), len(ne))
        no = list(no) + [0] * (n - len(no)); ne = list(ne) + [0] * (n - len(ne))
        return {"name": name, "out": out, "err": err, "ou": ou, "sc": sc, "limit": limit, "fail_at": list(fail_at),
                "attempts": [{"no": no[a], "ne": ne[a], "mo": "", "me": ""} for a in range(n)],
                "sleep_ms": 150, "parts": parts or self.rng.choice([1, 2, 3, 4]), "gap_ms": self.rng.choice([0, 10, 25])}


def generate(rng, quick):
    g = _Gen(rng)
    reps = 1 if quick else 4
    pres = [3, 0, -1]                     # header of 3 lines / empty file / no file
    vols = [("s", "s"), ("m", "s"), ("m", "m"), ("b", "s"), ("b", "b"), ("s", "b")]
    for _ in range(reps):
        # two concurrent steps, same `stdout:` file; every volume pair with an existing file, some with an empty / absent one
        for i, (va, vb) in enumerate(vols):
            for pre in ([3] + [rng.choice([0, -1])] if quick else pres):
                ou = va != "b" and rng.random() < 0.3
                g.case("two-concurrent-steps-stdout", {"F": pre},
                       [[g.step("a", out="F", no=[g.lines(va)], ou=ou, sc=rng.random() < 0.3),
                         g.step("b", out="F", no=[g.lines(vb)], ne=[rng.choice([0, 2])], sc=rng.random() < 0.3)]])
        # three concurrent steps
        for pre in ([3, -1] if quick else pres):
            g.case("three-concurrent-steps-stdout", {"F": pre},
                   [[g.step("a", out="F", no=[g.lines("m")]), g.step("b", out="F", no=[g.lines("s")]),
                     g.step("c", out="F", no=[g.lines(rng.choice("mb"))])]])
        # same `stderr:` file (stderr is copied straight into the file: no bufio buffering, no flush at teardown)
        for va, vb in ([("s", "m"), ("b", "m")] if quick else vols):
            for pre in ([rng.choice([3, 0])] if quick else pres):
                g.case("two-concurrent-steps-stderr", {"F": pre},
                       [[g.step("a", err="F", ne=[g.lines(va)], no=[rng.choice([0, 3])]),
                         g.step("b", err="F", ne=[g.lines(vb)], no=[rng.choice([0, 3])])]])
        # both files shared at once
        for pre in ([3] if quick else pres):
            g.case("two-concurrent-steps-stdout-and-stderr", {"F": pre, "G": rng.choice([2, 0]) if pre >= 0 else -1},
                   [[g.step("a", out="F", err="G", no=[g.lines("m")], ne=[g.lines("s")]),
                     g.step("b", out="F", err="G", no=[g.lines("s")], ne=[g.lines("m")])]])
        # one step's `stdout:` is the other step's `stderr:`
        for pre in ([rng.choice([3, 0])] if quick else pres):
            g.case("stdout-of-one-step-is-stderr-of-another", {"F": pre},
                   [[g.step("a", out="F", no=[g.lines("m")]), g.step("b", err="F", ne=[g.lines(rng.choice("sm"))], no=[2])]])
        # ONE step whose `stdout:` and `stderr:` are the same file (two handles of one node)
        for pre in ([3, -1] if quick else pres):
            g.case("one-step-stdout-and-stderr-same-file", {"F": pre},
                   [[g.step("a", out="F", err="F", no=[g.lines(rng.choice("sm"))], ne=[g.lines(rng.choice("sm"))], parts=3)]])
        # one of the concurrent steps is retried (its first attempt fails after printing)
        for va, vb in ([("m", "m"), ("s", "b")] if quick else vols):
            for pre in ([3] if quick else pres):
                g.case("two-concurrent-steps-stdout-one-retried", {"F": pre},
                       [[g.step("a", out="F", no=[g.lines(va), g.lines(va)], fail_at=[0], limit=1, ou=rng.random() < 0.3),
                         g.step("b", out="F", no=[g.lines(vb)])]])
        # retries exhausted: final state failed
        g.case("two-concurrent-steps-stdout-one-failed", {"F": 3},
               [[g.step("a", out="F", no=[g.lines("s"), g.lines("m")], fail_at=[0, 1], limit=1), g.step("b", out="F", no=[g.lines("m")])]])
        # the same step's file written by two RUNS one after the other (a single writer at any time)
        for pre in ([3, -1] if quick else pres):
            s = g.step("a", out="F", err=rng.choice(["", "G"]), no=[g.lines("m"), g.lines(rng.choice("sm")), g.lines("s")], ne=[2, 2, 2])
            pre_d = {"F": pre}
            if s["err"]: pre_d["G"] = pre
            g.case("one-step-two-runs-in-sequence", pre_d, [[s], [s]])
        s = g.step("a", out="F", no=[g.lines("s"), g.lines("m"), g.lines("m")], fail_at=[0], limit=1)
        g.case("one-retried-step-two-runs-in-sequence", {"F": -1}, [[s], [s]])
        # two runs at the same time, one step each, same file
        for pre in ([3, 0] if quick else pres):
            g.case("two-concurrent-runs-stdout", {"F": pre},
                   [[g.step("a", out="F", no=[g.lines(rng.choice("mb"))])], [g.step("b", out="F", no=[g.lines("m")])]], parallel=True)
    return g.cases


def _driver_lines(cases, res):
    """one model line per (case, snapshot, step): the step's wiring and the attempts it made in THAT run"""
    lines, keys = [], {}
    for c in cases:
        r = res.get(c["id"])
        if not r or "snaps" not in r: continue
        sh = c["shared"]
        prev_ran = {}
        for si, snap in enumerate(r["snaps"]):
            groups = sh["groups"] if sh["parallel"] else [sh["groups"][si]]
            for grp in groups:
                for s in grp:
                    st = snap["steps"].get(s["name"])
                    if not st: continue
                    lo, hi = prev_ran.get(s["name"], 0), st["attempts_run"]
                    prev_ran[s["name"]] = hi
                    if not (0 <= lo < hi <= len(s["attempts"])): continue
                    atts = []
                    for a in s["attempts"][lo:hi]:
                        toks, p = [], max(1, s["parts"])
                        for k in range(p):
                            for t, n in (("o", a["no"]), ("e", a["ne"])):
                                m = n * (k + 1) // p - n * k // p
                                if m > 0: toks.append("%s%d" % (t, m * L))
                        atts.append(" ".join(toks))
                    did = "%s.%d.%s" % (c["id"], si, s["name"])
                    keys[did] = (c, si, s)
                    lines.append("%s %d %d %d %d | %s" % (did, bool(s["out"]), bool(s["err"]), s["ou"], s["sc"], " | ".join(atts)))
    return lines, keys


def stream(chk, binp, replay_case=None):
    rng = chk.rng
    quick = chk.tier == "quick"
    t0 = time.time()
    cases = [replay_case] if replay_case else generate(rng, quick)
    hin = "\n".join(json.dumps(c) for c in cases) + "\n"
    p = subprocess.run([binp], input=hin, stdout=subprocess.PIPE, stderr=subprocess.PIPE, text=True, timeout=3000)
    if p.returncode != 0:
        chk.oblige("harness-run:log:shared", False, p.stderr[-2000:]); return
    res = {}
    for l in p.stdout.strip().split("\n"):
        if l.strip():
            r = json.loads(l); res[r["id"]] = r
    stats = {"cases": len(cases), "flavour": {}, "file_state": {}, "step_verdicts": 0, "torn_lines_files": 0, "header_kept": 0, "header_lost": 0,
             "earlier_run_kept": 0, "earlier_run_lost": 0, "bytes_max": 0, "model_log_compared": 0}
    for c in cases:
        cid = c["id"]; r = res.get(cid); sh = c["shared"]
        chk.evaluations += 1
        if r is None:
            chk.oblige("answer:%s" % cid, False, "no harness answer"); continue
        if r.get("panic") or r.get("harness_err"):
            chk.violation("C12:panic:shared-file", "panic / harness error %s" % (r.get("panic") or r.get("harness_err")), c); continue
        if r.get("timeout"):
            chk.violation("C12:step-never-ends:shared-file:" + sh["flavour"], "Schedule did not return within %s s" % c.get("timeout"), c); continue
        fl = sh["flavour"]
        stats["flavour"][fl] = stats["flavour"].get(fl, 0) + 1
        for k, pre in sh["pre"].items():
            stats["file_state"][_file_state(pre)] = stats["file_state"].get(_file_state(pre), 0) + 1
        chk.nontrivial.add(("shared", fl, json.dumps(sh["pre"], sort_keys=True),
                            tuple(tuple((a["no"], a["ne"]) for a in s["attempts"]) for g in sh["groups"] for s in g)))
        prev_last = {}
        for si, snap in enumerate(r["snaps"]):
            groups = sh["groups"] if sh["parallel"] else [sh["groups"][si]]
            for key, f in snap["files"].items():
                if f.get("torn"): stats["torn_lines_files"] += 1
                if sh["pre"].get(key, -1) > 0:
                    stats["header_kept" if f.get("hdr_ok") else "header_lost"] += 1
            for grp in groups:
                for s in grp:
                    st = snap["steps"].get(s["name"])
                    if st is None:
                        chk.oblige("answer:%s:%s" % (cid, s["name"]), False, "step missing in the harness answer"); continue
                    ran = st["attempts_run"]
                    final = st["status"] in ("finished", "failed", "canceled", "skipped")
                    # what the case describes for this run
                    first = prev_last.get(s["name"], -1) + 1
                    a, want_status = first, "finished"
                    for _ in range(s["limit"] + 1):
                        if a not in s["fail_at"]: break
                        a += 1
                    else:
                        a -= 1; want_status = "failed"
                    if ran - 1 != a or st["status"] != want_status:
                        chk.oblige("harness-expectation:%s:%s" % (cid, s["name"]), False, "attempts_run=%s (last attempt %d expected) status=%s (want %s) %s" %
                                   (ran, a, st["status"], want_status, json.dumps(c)[:400]))
                    if not final or not (1 <= ran <= len(s["attempts"])):
                        continue
                    # ---------------- monitor: judged on the attempt that REALLY ran last
                    last = s["attempts"][ran - 1]
                    stats["step_verdicts"] += 1
                    wo, we = last["no"] * (L - 1), last["ne"] * (L - 1)
                    stats["bytes_max"] = max(stats["bytes_max"], last["no"] * L, last["ne"] * L)
                    for kind, key, mark, want in (("stdout", s["out"], last["mo"], wo), ("stderr", s["err"], last["me"], we)):
                        if not key or not want: continue
                        f = snap["files"][key]
                        got = f["counts"].get(mark, 0)
                        if got != want:
                            chk.violation("C12:shared-%s-file-incomplete:%s:%s" % (kind, fl, _file_state(sh["pre"].get(key, -1))),
                                          "step %s is reported %s, its last attempt wrote %d bytes of '%s' (+ newlines) to %s; the `%s:` file it shares with "
                                          "%s (%s, %d bytes now) holds %d of them (its own log holds %d)" %
                                          (s["name"], st["status"], want, mark, kind, kind,
                                           "its earlier run" if fl in ("one-step-two-runs-in-sequence", "one-retried-step-two-runs-in-sequence") else
                                           "its own other stream" if fl == "one-step-stdout-and-stderr-same-file" else "other concurrent writers",
                                           "absent before the run" if sh["pre"].get(key, -1) < 0 else "%d header lines before the run" % sh["pre"][key],
                                           f["len"], got, st["log"]["counts"].get(mark, 0)), c)
                    lg = st["log"]["counts"]
                    if lg.get(last["mo"], 0) != wo and wo or (not s["err"] and we and lg.get(last["me"], 0) != we):
                        chk.violation("C12:log-incomplete:shared-file:" + fl,
                                      "step %s (%s): its own log (%d bytes) does not hold everything its last attempt printed (%d stdout, %d stderr bytes + newlines)" %
                                      (s["name"], st["status"], st["log"]["len"], wo, we), c)
                    # statistics: is what an EARLIER run of this step appended still there?  (append semantics; not a clause)
                    if s["name"] in prev_last and s["out"]:
                        e = s["attempts"][prev_last[s["name"]]]
                        kept = snap["files"][s["out"]]["counts"].get(e["mo"], 0) == e["no"] * (L - 1)
                        stats["earlier_run_kept" if kept else "earlier_run_lost"] += 1
            for grp in groups:
                for s in grp:
                    st = snap["steps"].get(s["name"])
                    if st: prev_last[s["name"]] = st["attempts_run"] - 1
    # ---------------- correspondence: each step's OWN log against the model (the shared file has no model answer, see the module text)
    dl, keys = _driver_lines(cases, res)
    if dl:
        rc, dout, derr = common.run_driver("log", "\n".join(dl) + "\n", timeout=3000)
        if rc != 0:
            chk.oblige("driver-run:log:shared", False, derr[-2000:]); return
        bad = 0
        for l in dout.strip().split("\n"):
            f = l.split(" ")
            m = dict(x.split("=", 1) for x in f[1:])
            c, si, s = keys[f[0]]
            st = res[c["id"]]["snaps"][si]["steps"][s["name"]]
            mlen = 0 if m["log"] == "-" else sum(int(t.split(".")[3]) for t in m["log"].split(","))
            stats["model_log_compared"] += 1
            exact = m["flushed"] == "1" or m["buffered"] == "0"
            ok = st["log"]["len"] == mlen if exact else mlen <= st["log"]["len"] <= mlen + CAP
            if not ok:
                bad += 1; chk.disagreements += 1
                if bad <= 3:
                    chk.oblige("correspondence:log:shared:%s" % f[0], False, "step log len impl=%d model=%d (%s) case=%s" %
                               (st["log"]["len"], mlen, "exact" if exact else "prefix rule", json.dumps(c)[:500]))
        if bad == 0:
            chk.oblige("correspondence:log:shared-file cases (each step's own log file, by length: code = model; the shared file itself is judged by the "
                       "monitor only — the model has one writer per file)", True)
    stats["wall_s"] = round(time.time() - t0, 1)
    chk.stats["shared_file"] = stats
    chk.rule += ("; shared-file stream: 2-3 concurrent steps / 2 runs (in sequence, at the same time) naming one `stdout:` / `stderr:` file x "
                 "{existing with header, existing empty, absent} x volumes {<4 KiB, >4 KiB, >64 KiB} x {retry, exhausted retry, output, script}")
