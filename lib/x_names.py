"""C06, file-name / timestamp layer of the history store (jsondb.go: newFile, Compact's `_c` name, the timestamp regex,
filterLatest, latestToday's day pattern) - stream for lib/p_c06.py.

  * correspondence: the REAL functions (go/harness/stamp, through go/hooks/jsondb_stamp_hooks_verif.go) and the Lean
    definitions of lean/BdModel/Hist/Stamp.lean (driver mode `stamp`) answer the same request lines identically;
  * monitors of the property clause itself, independent of the Lean model (Python's own calendar / regex / sort):
      - the rendered stamps of two instants compare (bytewise) as the instants do,
      - filterLatest on the files of one DAG whose path holds no timestamp look-alike returns the runs by start time,
        newest first, cut to n,
      - latestToday returns exactly this DAG's runs of the day asked for (no other day, no other DAG), newest first.

`stream(chk, prop, replay_case)`; self-test: `python3 lib/x_names.py [seed]` (VERIF_REPO selects the tree).
"""
import calendar, datetime, hashlib, json, os, re, subprocess, sys, time

sys.path.insert(0, os.path.dirname(os.path.abspath(__file__)))
import common

LO, HI = 946684800000, 32503679999999          # 2000-01-01T00:00:00.000Z .. 2999-12-31T23:59:59.999Z
RX_CORE = re.compile(r"2[0-9]{7}.[0-9]{2}:[0-9]{2}:[0-9]{2}")   # the monitor's own reading of "contains a look-alike"

hx = lambda t: t.encode().hex() or "-"


def unhx(h):
    return "" if h == "-" else bytes.fromhex(h).decode("utf-8", "surrogateescape")


def ms_of(y, mo, d, h=0, mi=0, s=0, ms=0):
    return calendar.timegm((y, mo, d, h, mi, s)) * 1000 + ms


def py_render(ms):
    """the monitor's own rendering (datetime, not Go, not Lean)"""
    t = datetime.datetime(1970, 1, 1) + datetime.timedelta(milliseconds=ms)
    return "%04d%02d%02d.%02d:%02d:%02d.%03d" % (t.year, t.month, t.day, t.hour, t.minute, t.second, t.microsecond // 1000)


def py_day(ms):
    return py_render(ms)[:8]


# ------------------------------------------------------------------ generators

NAMES_PLAIN = ["my dag", "etl_job", "a.b", "x-1", "report", "a", "nightly.load", "wf_c", "r_c.x"]
NAMES_DIGIT = ["job2024", "20240101", "2", "22222222", "v2.20240101", "2024010", "a20240101"]
NAMES_LOOK = ["x20240101a00:00:00", "20240101.00:00:00", "p20240101.12:34:56.789", "a:b", "20240101x12:34", "20240101.12:34:5",
              "t2024010112:00:00", "20240101 12:00:00 x", "2222222222222:22:22:22", "29991231z23:59:59"]
NAMES_UTF8 = ["é", "日本", "ü2", "día 1", "x€20240101"]
NAMES_META = ["j[1]", "a*b", "q?", "b\\c", "[2]0240101"]
LOCS = ["/data", "/var/lib/b d", "/dé/h", "/d.1/2024", "/d/20240101.00:00:00", "/srv/data:1"]
REQS = ["0123456789abcdef", "a", "ab", "abcdefgh", "abcdefghi", "f47ac10b-58cc-4372", "r.1", "x_c", "", "AAAAAAAAZ", "zz zz", "_"]


def gen_ms(rng, near=None):
    """instants clustered around calendar and field boundaries"""
    if near is not None and rng.random() < 0.7:
        k = rng.random()
        if k < 0.25: return near                                         # the same millisecond
        if k < 0.6: return min(HI, max(LO, near - near % 1000 + rng.randrange(1000)))   # same second, other millis
        if k < 0.8: return min(HI, max(LO, near + rng.choice([-1, 1, -1000, 1000, -999, 60000, -3600000])))
        return min(HI, max(LO, near + rng.choice([-86400000, 86400000, -86399999])))
    k = rng.random()
    if k < 0.1: return rng.choice([LO, LO + 1, HI, HI - 1, LO + 999, HI - 999])
    y = rng.choice([2000, 2001, 2023, 2024, 2025, 2099, 2100, 2400, 2999, rng.randint(2000, 2999)])
    if k < 0.4:                                                          # year / month / day boundary, either side
        mo = rng.choice([1, 2, 3, 12, rng.randint(1, 12)])
        b = ms_of(y, mo, 1)
        return min(HI, max(LO, b + rng.choice([0, -1, 1, -1000, 999, -86400000])))
    if k < 0.55:                                                         # around the leap day
        b = ms_of(y, 3, 1)
        return min(HI, max(LO, b + rng.choice([0, -1, -86400000, -86400001, -2 * 86400000])))
    mo = rng.randint(1, 12)
    d = rng.randint(1, calendar.monthrange(y, mo)[1])
    return ms_of(y, mo, d, rng.randint(0, 23), rng.randint(0, 59), rng.randint(0, 59), rng.choice([0, 5, 50, 500, 999, rng.randrange(1000)]))


def gen_name(rng):
    k = rng.random()
    pool = NAMES_PLAIN if k < 0.4 else NAMES_DIGIT if k < 0.55 else NAMES_LOOK if k < 0.75 else NAMES_UTF8 if k < 0.87 else NAMES_META
    return rng.choice(pool), {id(NAMES_PLAIN): "ordinary", id(NAMES_DIGIT): "digits", id(NAMES_LOOK): "look-alike",
                              id(NAMES_UTF8): "utf8", id(NAMES_META): "glob-meta"}[id(pool)]


def pwd_of(loc, name):
    """what the check believes prefixWithDirectory to be: <loc>/<name>-<md5(dagFile)>/<name>; the harness verifies it"""
    dag = "/dags/" + name + ".yaml"
    return dag, "%s/%s-%s/%s" % (loc, name, hashlib.md5(dag.encode()).hexdigest(), name)


def gen_dag_case(rng, i):
    name, cls = gen_name(rng)
    loc = rng.choice(LOCS) if rng.random() < 0.5 else "/data"
    dag, pwd = pwd_of(loc, name)
    k = rng.randint(2, 8)
    runs, seen, base = [], set(), None
    for _ in range(k):
        ms = gen_ms(rng, base)
        if base is None or rng.random() < 0.3: base = ms
        req = rng.choice(REQS) if rng.random() < 0.7 else "%08x-%04x" % (rng.getrandbits(32), rng.getrandbits(16))
        if "/" in req: continue
        comp = rng.random() < 0.3
        for c in ([comp, not comp] if rng.random() < 0.25 else [comp]):   # sometimes both the twin and its original
            key = (ms, req[:8] + ("_c" if c else ""))
            if key in seen: continue
            seen.add(key); runs.append([ms, req, int(c)])
    order = list(range(len(runs))); rng.shuffle(order)
    ns = sorted(set([-1, 0, 1, len(runs), len(runs) + 3, rng.randint(-2, len(runs) + 1)]))
    return {"kind": "dag", "id": "dag%d" % i, "loc": loc, "name": name, "cls": cls, "dag": dag, "pwd": pwd, "runs": runs,
            "order": order, "ns": ns}


def gen_today_case(rng, i):
    name, cls = gen_name(rng)
    loc = rng.choice(LOCS) if rng.random() < 0.4 else "/data"
    dag, pwd = pwd_of(loc, name)
    day = gen_ms(rng)
    day0 = day - day % 86400000
    runs, seen = [], set()
    for _ in range(rng.randint(0, 7)):
        ms = rng.choice([day0, day0 - 1, day0 + 86399999, day0 + 86400000, day0 + rng.randrange(86400000),
                         day0 - rng.randrange(1, 3 * 86400000), day0 + 86400000 + rng.randrange(2 * 86400000), gen_ms(rng, day)])
        ms = min(HI, max(LO, ms))
        req = rng.choice([r for r in REQS if r]) if rng.random() < 0.6 else "%08x" % rng.getrandbits(32)
        c = int(rng.random() < 0.5)
        if (ms, req[:8], c) in seen: continue
        seen.add((ms, req[:8], c)); runs.append([ms, req, c])
    # other DAGs whose names extend this one (each in its own md5 directory), and files of this DAG's directory that
    # the store did not write (junk: judged by the correspondence only)
    others, junk = [], []
    d8 = py_day(day)
    for oname in [name + "." + d8 + "x", name + "." + d8, name + "_c", name + "." + d8 + ".00:00:00.000.r"]:
        if rng.random() < 0.5:
            odag, opwd = pwd_of(loc, oname)
            others.append(opwd + "." + py_render(min(HI, max(LO, day0 + rng.randrange(86400000)))) + "." + rng.choice(["r1", "abcdefgh"]) +
                          rng.choice(["", "_c"]) + ".dat")
    if rng.random() < 0.25:
        junk.append(pwd + "." + d8 + rng.choice(["0.x.dat", ".dat", ".a.da", "..dat", ".x.dat.bak", "x.y.dat"]))
    return {"kind": "today", "id": "today%d" % i, "loc": loc, "name": name, "cls": cls, "dag": dag, "pwd": pwd, "day": day,
            "runs": runs, "others": others, "junk": junk, "seed_order": rng.randrange(1 << 30)}


def gen_path(rng):
    alpha = list("2222000011359:::...") + list("ax_/ -") + ["\n", "é", "日"]
    k = rng.random()
    if k < 0.35:
        return "".join(rng.choice(alpha) for _ in range(rng.randint(0, 40)))
    # a genuine or nearly genuine stamp embedded in noise, possibly several
    parts = []
    for _ in range(rng.randint(1, 3)):
        s = py_render(gen_ms(rng))
        m = rng.random()
        if m < 0.2: s = s[:17]
        elif m < 0.3: s = s[:rng.randint(1, 20)]
        elif m < 0.45: j = rng.randrange(len(s)); s = s[:j] + rng.choice(alpha) + s[j + 1:]
        elif m < 0.5: s = s[:8] + rng.choice(["\n", "x", ":", "2"]) + s[9:]
        parts.append("".join(rng.choice(alpha) for _ in range(rng.randint(0, 9))) + s)
    return "".join(parts) + "".join(rng.choice(alpha) for _ in range(rng.randint(0, 6)))


def gen_mixed_latest(rng):
    """filterLatest on arbitrary names (different prefixes, stamps at different offsets, no stamp at all)"""
    names = set()
    base = gen_ms(rng)
    for _ in range(rng.randint(0, 7)):
        pre = rng.choice(["a", "b", "z/a", "a.b", "x20240101a00:00:00", "é", ""])
        k = rng.random()
        if k < 0.7: nm = pre + "." + py_render(gen_ms(rng, base)) + "." + rng.choice(["r", "s", "r_c"]) + ".dat"
        elif k < 0.85: nm = pre + "." + py_render(gen_ms(rng, base))[:17] + ".r.dat"
        else: nm = pre + rng.choice([".dat", ".x.dat", "2024"])
        if nm: names.add(nm)
    names = sorted(names); rng.shuffle(names)
    return "latest %d %s" % (rng.randint(-1, len(names) + 1), " ".join(hx(n) for n in names)) if names else "latest -1"


# ------------------------------------------------------------------ running

def run_both(binp, lines):
    """the same request lines through the real code and through the model, side by side"""
    if not lines:
        return [], [], ""
    text = "\n".join(lines) + "\n"
    go = subprocess.Popen([binp], stdin=subprocess.PIPE, stdout=subprocess.PIPE, stderr=subprocess.PIPE, text=True,
                          env=dict(os.environ, TZ="UTC"))
    import threading
    res = {}
    def feed():
        res["go"] = go.communicate(text, timeout=1200)
    th = threading.Thread(target=feed); th.start()
    rc, dout, derr = common.run_driver("stamp", text, timeout=1200)
    th.join()
    gout, gerr = res.get("go", ("", "harness did not answer"))
    return gout.split("\n")[:-1], dout.split("\n")[:-1], (gerr + derr)[-400:]


def stream(chk, prop, replay_case=None):
    t0 = time.time()
    rng = chk.rng
    binp, out = common.build_harness("stamp")
    if binp is None:
        chk.oblige("correspondence:stamp-harness-builds", False, out[-1500:])
        return {}
    scale = 1 if chk.tier == "quick" else 10
    st = {"render": 0, "stamp": 0, "stamp_found": 0, "free": 0, "free_yes": 0, "dag_cases": 0, "today_cases": 0, "mixed_latest": 0,
          "names": 0, "compacted_names": 0, "latest_lines": 0, "prefix_classes": {}, "stampfree_dag_cases": 0, "twin_pairs": 0,
          "same_ms_pairs": 0, "same_second_pairs": 0, "lookalike_order_still_chronological": 0, "lookalike_order_cases": 0,
          "today_selected": 0, "today_empty": 0, "today_with_other_dags": 0}
    bad = []                        # correspondence mismatches (op, line, go, lean)

    def cmp(op, lines, g, m, err):
        if len(g) != len(lines) or len(m) != len(lines):
            bad.append((op + "-output-count", "%d lines" % len(lines), "go %d" % len(g), "lean %d %s" % (len(m), err))); return False
        for ln, a, b in zip(lines, g, m):
            chk.evaluations += 1
            if a != b: bad.append((op, ln, a, b))
        return True

    if replay_case and "stamp_case" in replay_case:
        cases, rlines, slines, flines, mlines = [replay_case["stamp_case"]], [], [], [], []
        if cases[0].get("kind") == "render":
            rlines = ["render %d" % m for m in cases[0]["ms"]]; cases = []
    else:
        rms = []
        base = None
        for _ in range(400 * scale):
            ms = gen_ms(rng, base); base = ms if rng.random() < 0.4 or base is None else base
            rms.append(ms)
        rms += [LO, HI]
        rlines = ["render %d" % m for m in rms]
        slines = ["stamp " + hx(gen_path(rng)) for _ in range(600 * scale)]
        flines = []
        for _ in range(200 * scale):
            nm, _c = gen_name(rng)
            flines.append("free " + hx(rng.choice(["", rng.choice(LOCS) + "/"]) + (nm if rng.random() < 0.7 else gen_path(rng).replace("\n", ""))))
        mlines = [gen_mixed_latest(rng) for _ in range(200 * scale)]
        cases = [gen_dag_case(rng, i) for i in range(120 * scale)] + [gen_today_case(rng, i) for i in range(60 * scale)]

    # ---- phase 1: render / stamp / free / arbitrary latest / the names of every case's runs
    nlines, owner = [], []
    for c in cases:
        for j, (ms, req, comp) in enumerate(c["runs"]):
            nlines.append("name %s %s %s %d %s %d" % (hx(c["loc"]), hx(c["dag"]), hx(c["pwd"]), ms, hx(req), comp)); owner.append((c, j))
    p1 = rlines + slines + flines + mlines + nlines
    tb = time.time()
    g, m, err = run_both(binp, p1)
    st["t_build"] = round(tb - t0, 2); st["t_phase1"] = round(time.time() - tb, 2)
    if not cmp("phase1", p1, g, m, err):
        g = g + ["?"] * len(p1)
    o = 0
    g_r = g[o:o + len(rlines)]; o += len(rlines)
    g_s = g[o:o + len(slines)]; o += len(slines)
    g_f = g[o:o + len(flines)]; o += len(flines)
    o += len(mlines)
    g_n = g[o:o + len(nlines)]
    st["render"], st["stamp"], st["free"], st["mixed_latest"] = len(rlines), len(slines), len(flines), len(mlines)
    st["stamp_found"] = sum(1 for a in g_s if a != "-"); st["free_yes"] = sum(1 for a in g_f if a == "1")

    # monitor 1: rendered stamps order like the instants (bytewise), and are distinct for distinct instants
    rr = []
    for ln, a in zip(rlines, g_r):
        try: rr.append((int(ln.split()[1]), bytes.fromhex(a)))
        except ValueError: rr.append((int(ln.split()[1]), a.encode()))
    rr.sort()
    for (m1, s1), (m2, s2) in zip(rr, rr[1:]):
        if (m1 < m2 and not s1 < s2) or (m1 == m2 and s1 != s2):
            chk.violation(prop + ":names:render-order-not-chronological",
                          "newFile renders the start instants %d < %d (Unix ms, UTC) as %r and %r: the strings do not compare like the instants"
                          % (m1, m2, s1.decode("utf-8", "replace"), s2.decode("utf-8", "replace")),
                          {"stamp_case": {"kind": "render", "ms": [m1, m2]}})
            break
    if rr: chk.nontrivial.add("names:render")

    for (c, j), a in zip(owner, g_n):
        if a.startswith("pwd-mismatch"):
            bad.append(("pwd-layout", c["pwd"], unhx(a.split(":", 1)[1]), "<loc>/<name>-<md5(dagFile)>/<name>"))
        c.setdefault("files", {})[j] = unhx(a) if re.fullmatch(r"[0-9a-f]+", a) else None
        st["names"] += 1; st["compacted_names"] += c["runs"][j][2]

    # ---- phase 2: filterLatest / latestToday on those names
    p2, who = [], []
    for c in cases:
        files = c.setdefault("files", {})
        if any(v is None for v in files.values()) or len(set(files.values())) != len(files):
            c["skip"] = True; continue
        if c["kind"] == "dag":
            names = [files[j] for j in c["order"]]
            for n in c["ns"]:
                p2.append("latest %d %s" % (n, " ".join(hx(x) for x in names))); who.append((c, n))
        else:
            paths = [files[j] for j in range(len(c["runs"]))] + c["others"] + c["junk"]
            import random as _r
            _r.Random(c["seed_order"]).shuffle(paths)
            p2.append("today %s %s %s %d %s" % (hx(c["loc"]), hx(c["dag"]), hx(c["pwd"]), c["day"], " ".join(hx(x) for x in paths)))
            who.append((c, None))
    g2, m2_, err2 = run_both(binp, p2)
    if not cmp("phase2", p2, g2, m2_, err2):
        g2 = g2 + ["?"] * len(p2)
    st["latest_lines"] = sum(1 for c, n in who if n is not None)

    seen_case = set()
    for (c, n), a in zip(who, g2):
        try:
            got = [] if a == "-" else [unhx(x) for x in a.split()]
        except ValueError:
            continue
        files = c["files"]
        back = {files[j]: j for j in files}
        free = RX_CORE.search(c["pwd"] + ".") is None
        if c["id"] not in seen_case:
            seen_case.add(c["id"])
            st["prefix_classes"][c["cls"]] = st["prefix_classes"].get(c["cls"], 0) + 1
            if c["kind"] == "dag":
                st["dag_cases"] += 1; st["stampfree_dag_cases"] += free
                ts = sorted(r[0] for r in c["runs"])
                st["same_ms_pairs"] += sum(1 for x, y in zip(ts, ts[1:]) if x == y)
                st["same_second_pairs"] += sum(1 for x, y in zip(ts, ts[1:]) if x != y and x // 1000 == y // 1000)
                st["twin_pairs"] += len(c["runs"]) - len(set((r[0], r[1][:8]) for r in c["runs"]))
            else:
                st["today_cases"] += 1; st["today_with_other_dags"] += bool(c["others"])
        if c["kind"] == "dag":
            k = len(files)
            want_n = k if (n < 0 or n > k) else n
            times = sorted((c["runs"][j][0] for j in files), reverse=True)[:want_n]
            ok = all(x in back for x in got) and len(set(got)) == len(got) and [c["runs"][back[x]][0] for x in got] == times
            if free:
                chk.nontrivial.add("names:recent:" + c["cls"])
                if not ok:
                    chk.violation(prop + ":names:recent-order-not-by-start-time",
                                  "filterLatest(n=%d) on the %d history files of DAG %r (data dir %r; its path holds no timestamp look-alike) "
                                  "returned %r; by start time, newest first, it is the files started at %r (Unix ms)"
                                  % (n, k, c["name"], c["loc"], got, times), {"stamp_case": c})
            else:
                st["lookalike_order_cases"] += 1; st["lookalike_order_still_chronological"] += ok
        else:
            st["today_selected"] += len(got); st["today_empty"] += not got
            d8 = py_day(c["day"])
            mine = sorted((j for j in files if py_day(c["runs"][j][0]) == d8), key=lambda j: -c["runs"][j][0])
            foreign = [x for x in got if x not in back and x not in c["junk"]]
            wrong_day = [x for x in got if x in back and back[x] not in mine]
            missing = [files[j] for j in mine if files[j] not in got]
            own = [x for x in got if x in back]
            disorder = free and [c["runs"][back[x]][0] for x in own] != [c["runs"][j][0] for j in mine]
            chk.nontrivial.add("names:today:" + c["cls"])
            if foreign or wrong_day or missing or (disorder and not c["junk"]):
                what = ("another DAG's file" if foreign else "a run of another day" if wrong_day else
                        "a run of that day is missing" if missing else "not newest first")
                chk.violation(prop + ":names:today-wrong-selection",
                              "latestToday for DAG %r on day %s over %d files returned %r: %s (this DAG's runs of that day: %r)"
                              % (c["name"], d8, len(files) + len(c["others"]) + len(c["junk"]), got, what, [files[j] for j in mine]),
                              {"stamp_case": c})

    if bad:
        for op, ln, a, b in bad[:3]:
            chk.oblige("correspondence:stamp:%s" % op, False, "line %s: jsondb=%s model=%s" % (ln[:600], a[:600], b[:600]))
        st["mismatches"] = len(bad)
    else:
        chk.oblige("correspondence:stamp (Lean render/fileName/timestamp/StampFree/filterLatest/latestToday = jsondb newFile, Compact's "
                   "name, timestamp, filterLatest, latestToday on the same request lines)", True)
    st["wall_s"] = round(time.time() - t0, 2)
    chk.stats["names"] = st
    return st


if __name__ == "__main__":
    seed = int(sys.argv[1]) if len(sys.argv) > 1 else int(os.environ.get("VERIF_SEED", "1"))
    tier = os.environ.get("VERIF_TIER", "quick")
    replay = None
    if len(sys.argv) > 2:
        replay = json.load(open(sys.argv[2])).get("case")
    chk = common.Check("C06", tier, seed)
    stats = stream(chk, "C06", replay)
    print(json.dumps(stats, sort_keys=True))
    print("obligations:", [(n[:60], ok) for (n, ok, _) in chk.obligations])
    print("nontrivial classes:", len(chk.nontrivial), "evaluations:", chk.evaluations)
    for n, ok, d in chk.obligations:
        if not ok: print("BROKEN", n, d[:1200])
    for v in chk.violations:
        print("VIOLATION", v["signature"], "::", v["what"][:1500])
        print("  replay:", json.dumps(v["replay"])[:600])
    sys.exit(1 if (chk.violations or chk.broken()) else 0)
