#!/bin/sh
# seedtest.sh <id> <prop> [worktree-prefix [out-suffix]] : confirm a seeded change delivered in /tmp/mut-<id>/.seed and run the property's check against it
# 1. demo fails with patch / passes without (in the worktree)  2. apply to /repo, run quick check, undo
ID=$1; PROP=$2; PFX=${3:-mut}; SUF=${4:-}; WT=/tmp/$PFX-$ID; OUT=/verif/seeded/$ID$SUF
export GOFLAGS=-mod=mod GOPROXY=off GOSUMDB=off GOTOOLCHAIN=local GOPATH=/root/go GOMODCACHE=/root/go/pkg/mod GOCACHE=/root/.cache/go-build
mkdir -p $OUT; cp -r $WT/.seed/* $OUT/ 2>/dev/null
DEMO=$(python3 -c "import json;print(json.load(open('$OUT/meta.json'))['demo_cmd'])")
echo "demo_cmd: $DEMO"
cd $WT
H=$(mktemp -d /tmp/seedhome.XXXX)
echo "--- with patch:"; (export HOME=$H; sh -c "$DEMO" 2>&1 | grep -E "^(ok|FAIL|---|PASS)" | head -5)
git diff -- . ':!*_verifdemo_test.go' > /tmp/seed-$ID.diff; git apply -R /tmp/seed-$ID.diff
echo "--- without patch:"; (export HOME=$H; sh -c "$DEMO" 2>&1 | grep -E "^(ok|FAIL|---|PASS)" | head -5)
go build ./... && echo "build ok (unpatched)"; git apply /tmp/seed-$ID.diff; go build ./... && echo "build ok (patched)"
rm -rf $H
cd /verif
echo "--- check $PROP against the change (isolated worktree of /repo HEAD + patch, VERIF_REPO):"
SR=/tmp/seedrun-$ID; git -C /repo worktree remove --force $SR 2>/dev/null; git -C /repo worktree add -q $SR HEAD
if git -C $SR apply $OUT/patch.diff; then
  VERIF_REPO=$SR ./check $PROP --tier quick > /tmp/seed-$ID.out 2> /tmp/seed-$ID.err; echo "rc=$?"
  grep -c VIOLATION /tmp/seed-$ID.out; head -3 /tmp/seed-$ID.out; grep "OBLIGATION BROKEN" /tmp/seed-$ID.err | cut -c1-220 | head -6; tail -1 /tmp/seed-$ID.err
else echo "PATCH DOES NOT APPLY TO HEAD"; fi
git -C /repo worktree remove --force $SR
