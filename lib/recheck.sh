#!/bin/sh
# recheck.sh <seed-dir> <prop>: run prop's quick check against /repo HEAD + seeded/<seed-dir>/patch.diff
SD=$1; PROP=$2; SR=/tmp/recheck-$SD-$PROP
cd /verif
git -C /repo worktree remove --force $SR 2>/dev/null; git -C /repo worktree add -q $SR HEAD
if git -C $SR apply /verif/seeded/$SD/patch.diff; then
  VERIF_REPO=$SR ./check $PROP --tier quick > /tmp/recheck-$SD-$PROP.out 2> /tmp/recheck-$SD-$PROP.err; echo "$SD vs $PROP rc=$?"
  grep "^VIOLATION" /tmp/recheck-$SD-$PROP.out | head -4
  python3 - <<PY
import json,re
sigs=set()
for l in open('/tmp/recheck-$SD-$PROP.out'):
    m=re.search(r'replay=(\S+)',l)
    if m and '-viol-' in m.group(1):
        try: sigs.add(json.load(open(m.group(1))).get('signature'))
        except Exception: pass
print('  SIGS', sorted(sigs)[:5])
PY
  grep "OBLIGATION BROKEN" /tmp/recheck-$SD-$PROP.err | cut -c1-160 | head -3; tail -1 /tmp/recheck-$SD-$PROP.err | cut -c1-150
else echo "PATCH DOES NOT APPLY"; fi
git -C /repo worktree remove --force $SR
