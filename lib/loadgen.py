"""Shared by p_c13 / p_c19: the tree encoding understood by `driver load` and go/harness/load, and the grammar of definitions.

Python view of a tree: None | bool | int | ('d', text) float | str | list | ('m', [(key, value), …]) map (ordered, duplicates allowed)."""
import json


def M(*kv, **kw):
    items = list(kv) + list(kw.items())
    return ('m', items)


def is_map(t):
    return isinstance(t, tuple) and len(t) == 2 and t[0] == 'm'


def is_float(t):
    return isinstance(t, tuple) and len(t) == 2 and t[0] == 'd'


def enc(t, out=None):
    top = out is None
    if top:
        out = []
    if t is None:
        out.append("n")
    elif t is True:
        out.append("t")
    elif t is False:
        out.append("f")
    elif isinstance(t, int):
        out.append("i%d" % t)
    elif is_float(t):
        out.append("d" + t[1])
    elif isinstance(t, str):
        out.append("s" + t.encode("utf-8").hex())
    elif isinstance(t, list):
        out.append("l%d" % len(t))
        for c in t:
            enc(c, out)
    elif is_map(t):
        out.append("m%d" % len(t[1]))
        for k, v in t[1]:
            enc(k, out)
            enc(v, out)
    else:
        raise ValueError("not a tree: %r" % (t,))
    return " ".join(out) if top else None


def strings_of(t, acc=None):
    acc = set() if acc is None else acc
    if isinstance(t, str):
        acc.add(t)
    elif isinstance(t, list):
        for c in t:
            strings_of(c, acc)
    elif is_map(t):
        for k, v in t[1]:
            strings_of(k, acc)
            strings_of(v, acc)
    return acc


def show(t):
    """compact JSON-ish rendering for evidence samples"""
    if is_map(t):
        return "{" + ", ".join("%s: %s" % (show(k), show(v)) for k, v in t[1]) + "}"
    if isinstance(t, list):
        return "[" + ", ".join(show(c) for c in t) + "]"
    if is_float(t):
        return t[1]
    return json.dumps(t)


def hx(s):
    return s.encode("utf-8").hex()
