"""C14 — only well-formed dependency graphs are admitted to execution."""
import itertools, json, subprocess
import common

TIE = {"Graph": ["h_graph_setup", "h_graph_hasCycle", "h_graph_addEdge", "h_graph_findStep",
                 "h_graph_NewExecutionGraph", "hasCycleFacts"]}


def all_digraphs(n):
    pairs = [(i, j) for i in range(n) for j in range(n)]   # (dependent i, dependency j), self-loops included
    for mask in range(1 << len(pairs)):
        deps = [[] for _ in range(n)]
        for b, (i, j) in enumerate(pairs):
            if mask >> b & 1:
                deps[i].append(j)
        yield deps


def loopfree5():
    pairs = [(i, j) for i in range(5) for j in range(5) if i != j]
    for mask in range(1 << 20):
        deps = [[] for _ in range(5)]
        for b, (i, j) in enumerate(pairs):
            if mask >> b & 1:
                deps[i].append(j)
        yield deps


def random_graph(rng, maxn):
    n = rng.randint(1, maxn)
    style = rng.random()
    deps = [[] for _ in range(n)]
    order = list(range(n)); rng.shuffle(order)
    pos = {v: k for k, v in enumerate(order)}
    m = rng.randint(0, 3 * n)
    for _ in range(m):
        i, j = rng.randrange(n), rng.randrange(n)
        if style < 0.6 and pos[j] >= pos[i]:
            continue                   # acyclic by construction
        deps[i].append(j)              # duplicates allowed (duplicate `depends` entries)
    if style > 0.85:
        deps[rng.randrange(n)].append(n + rng.randrange(3))   # dangling name
    return deps


def run(chk, replay):
    chk.trusted = common.TRUSTED_COMMON + ["Relation.TransGen as the definition of 'cycle'; step names modelled as an arbitrary DecidableEq type"]
    chk.assumptions = ["distinct step names (hypothesis of the property)",
                       "map iteration order in findStep is irrelevant under distinct names"]
    common.lean_obligations(chk, "BdModel/Props/C14.lean", TIE)
    binp, out = common.build_harness("sched")
    if not binp:
        chk.oblige("harness-build:sched", False, out[-3000:]); return
    chk.oblige("harness-build:sched", True)
    cases = []
    import c14_yaml
    if replay and "yaml_accept" in json.load(open(replay))["case"]:
        # a definition written in YAML: loader + NewExecutionGraph (+ real agent) against the property read on the text
        c14_yaml.run(chk, binp, json.load(open(replay))["case"]["yaml_accept"])
        return
    if replay:
        cases = [json.load(open(replay))["case"]["deps"]]
    else:
        for n in range(1, 5):
            cases.extend(all_digraphs(n))
        nrand = 3000 if chk.tier == "quick" else 100000
        for _ in range(nrand):
            cases.append(random_graph(chk.rng, 40))
        # dangling names on small graphs
        for deps in list(all_digraphs(3)):
            d2 = [list(x) for x in deps]; d2[chk.rng.randrange(3)].append(5); cases.append(d2)
        if chk.tier == "thorough":
            cases.extend(loopfree5())
    chk.rule = ("every digraph on <=4 named steps incl. self-loops (66 066, exhaustive)" +
                (", all 2^20 loop-free edge sets on 5 steps" if chk.tier == "thorough" else "") +
                ", random graphs <=40 steps with duplicate and dangling dependency names; non-trivial = has at least one edge; "
                "distinct = distinct (n, edge multiset)")
    hin, din = [], []
    for k, deps in enumerate(cases):
        n = len(deps)
        hin.append(json.dumps({"id": "g%d" % k, "deps": [[("s%d" % j if j < n else "x%d" % j) for j in ds] for ds in deps]}))
        din.append("g%d %d %s" % (k, n, ";".join(",".join(map(str, ds)) if ds else "-" for ds in deps)))
    p = subprocess.run([binp, "graph"], input="\n".join(hin) + "\n", stdout=subprocess.PIPE, stderr=subprocess.PIPE, text=True, timeout=3000)
    if p.returncode != 0:
        chk.oblige("harness-run:graph", False, p.stderr[-2000:]); return
    rc, dout, derr = common.run_driver("cycle", "\n".join(din) + "\n", timeout=3000)
    if rc != 0:
        chk.oblige("driver-run:cycle", False, derr[-2000:]); return
    hl, dl = p.stdout.strip().split("\n"), dout.strip().split("\n")
    if len(hl) != len(cases) or len(dl) != len(cases):
        chk.oblige("correspondence:graph-output-count", False, "%d %d %d" % (len(hl), len(dl), len(cases))); return
    dis = 0
    dist = {"ok": 0, "cycle": 0, "notfound": 0}
    for k, deps in enumerate(cases):
        _, impl, orc = hl[k].split(" ")
        orc = orc.split("=")[1]
        model = dl[k].split(" ")[1]
        chk.evaluations += 1
        dist[orc] = dist.get(orc, 0) + 1
        if any(deps):
            chk.nontrivial.add(json.dumps(deps))
        if impl != orc:
            # the property itself fails on the real code for this graph
            kind = "accepted-ill-formed" if impl == "ok" else ("refused-well-formed" if orc == "ok" else "misclassified")
            chk.violation("C14:%s" % kind, "NewExecutionGraph says %s, independent DFS says %s" % (impl, orc),
                          {"deps": deps, "impl": impl, "oracle": orc, "model": model})
        if impl != model:
            dis += 1
            chk.disagreements += 1
            if dis <= 3:
                chk.oblige("correspondence:graph:%s" % json.dumps(deps), False, "impl=%s model=%s oracle=%s" % (impl, model, orc))
    chk.disagreements_checked = chk.disagreements
    if dis == 0:
        chk.oblige("correspondence:graph (impl = model on every case)", True)
    chk.exhaustive = True
    chk.stats = {"verdicts": dist, "cases": len(cases)}
    if not replay:
        # the same property for definitions WRITTEN IN YAML (the graph stream above never passes the loader)
        ny = c14_yaml.run(chk, binp)
        chk.rule += ("; plus %d generated YAML definitions (2-6 distinct step names incl. names with ',' / surrounding blanks; depends entries: "
                     "existing, unknown, \"\", blank, \",\", \" a \", \"a, b\" as one entry, \"a,\", null, duplicates, self, cycles, scalar form) through "
                     "dag.LoadYAML/dag.Load + NewExecutionGraph, %d of them run by the real agent; oracle = the property read on the text as written" % (ny, 2 * len(c14_yaml.KINDS) if chk.tier == "quick" else 8 * len(c14_yaml.KINDS)))
    chk.samples = [{"deps": cases[i], "impl": hl[i].split(" ")[1]} for i in (5, 300, 70000 if len(cases) > 70000 else len(cases) - 1) if i < len(cases)]
